# -*- coding: utf-8 -*-
"""Template translator: the statement-level part of the static tie (DESIGN.md section 12).

`translate.py` translates expression kernels.  The functions tied here are imperative (nested loops that mutate lists
and arrays); each is translated by UNIFYING its current `ast` against a template of the same statement skeleton in
which the places that carry arithmetic content - constants, increments, range bounds, index expressions, comparison
operands - are holes (names starting with `H_`).  The skeleton must match node for node (anything else raises
Untranslatable: fail-closed); the hole contents are translated with the expression translator and spliced into a
Gallina definition whose combinators (`fold_left`, `flat_map`, `seq`) mirror the skeleton.  The generated file ends with
fixed lemmas `generated = hand-written model` proved without looking at the hole contents being the expected ones
beyond what `reflexivity`/`lia`/the library lemma needs, so a changed constant, bound or index breaks the lemma.
"""
import ast

from translate import Untranslatable, Expr, _src_of

_SKIP = {"ctx", "lineno", "col_offset", "end_lineno", "end_col_offset", "type_comment", "kind"}


def _strip(stmts):
    """drop docstrings, bare string statements and `pass`"""
    out = []
    for s in stmts:
        if isinstance(s, ast.Expr) and isinstance(s.value, ast.Constant) and isinstance(s.value.value, str):
            continue
        if isinstance(s, ast.Pass):
            continue
        out.append(s)
    return out


def _live(stmts):
    """resolve `if False: A else: B` / `if True:` selections (constant tests only) to the live branch"""
    out = []
    for s in _strip(stmts):
        if isinstance(s, ast.If) and isinstance(s.test, ast.Constant) and isinstance(s.test.value, bool):
            out.extend(_live(s.body if s.test.value else s.orelse))
        else:
            out.append(s)
    return out


def unify(t, s, env, path="body"):
    """unify template node t with source node s; holes are Name nodes whose id starts with H_ (expression holes)"""
    if isinstance(t, ast.Name) and t.id.startswith("H_"):
        if not isinstance(s, ast.expr):
            raise Untranslatable("%s: hole %s against a non-expression" % (path, t.id))
        if t.id in env:
            if ast.dump(env[t.id]) != ast.dump(s):
                raise Untranslatable("%s: hole %s bound to two different expressions (%s / %s)"
                                     % (path, t.id, ast.unparse(env[t.id]), ast.unparse(s)))
        else:
            env[t.id] = s
        return
    if isinstance(t, list):
        if not isinstance(s, list):
            raise Untranslatable("%s: list expected" % path)
        if t and isinstance(t[0], ast.stmt) or s and isinstance(s[0], ast.stmt):
            t, s = _live(t), _live(s)
        if len(t) != len(s):
            raise Untranslatable("%s: %d statements/elements where the template has %d (%s)"
                                 % (path, len(s), len(t), "; ".join(ast.unparse(x)[:40] for x in s if isinstance(x, ast.AST))[:200]))
        for k, (a, b) in enumerate(zip(t, s)):
            unify(a, b, env, "%s[%d]" % (path, k))
        return
    if isinstance(t, ast.AST):
        if type(t) is not type(s):
            raise Untranslatable("%s: %s where the template has %s (%s)" % (path, type(s).__name__, type(t).__name__,
                                                                         ast.unparse(s)[:80] if isinstance(s, ast.AST) else s))
        for f in t._fields:
            if f in _SKIP:
                continue
            unify(getattr(t, f, None), getattr(s, f, None), env, path + "." + f)
        return
    if t != s:
        raise Untranslatable("%s: %r where the template has %r" % (path, s, t))


def match(repo_file, qualname, template_src):
    """bindings of the holes of `template_src` (a function definition) in the current source of qualname"""
    fn = _src_of(repo_file, qualname)
    tfn = ast.parse(template_src).body[0]
    env = {}
    unify([a.arg for a in tfn.args.args], [a.arg for a in fn.args.args], env, qualname + ".args")
    unify(tfn.body, fn.body, env, qualname)
    return env


def zexpr(env, hole, names, attrs=None):
    return Expr("Z", names, attrs=attrs or {}).e(env[hole])


# ----------------------------------------------------------------------------------------------- C16
T_GENERATE = '''
def generate_indices(self, N, level=0):
    if False:
        return self._generate_indices_2_0to4(N, level)
    else:
        lret = []
        level_prev = []
        inilist = [H_init] * H_width
        level_prev.append(inilist)
        lret.append(level_prev)
        for kk in range(H_levels):
            last_level = kk
            new_level_prev = []
            for old_level in level_prev:
                for nn in range(H_inner):
                    nlist = old_level.copy()
                    nlist[H_pos] += H_inc
                    if nlist not in new_level_prev:
                        new_level_prev.append(nlist)
            level_prev = new_level_prev
            lret.append(level_prev)
        return lret
'''

T_NMP1 = '''
def _make_nmp1(self):
    for nn in range(self.hsize):
        for kk in range(self.nbath):
            indxm = numpy.zeros(self.nbath, dtype=int)
            indxm[:] = self.hinds[nn, :]
            indxm[H_mpos] -= H_mdec
            indxp = numpy.zeros(self.nbath, dtype=int)
            indxp[:] = self.hinds[nn, :]
            indxp[H_ppos] += H_pinc
            venm = H_mabsent
            for ll in range(H_mbound):
                if numpy.array_equal(self.hinds[ll, :], indxm):
                    venm = ll
            venp = H_pabsent
            for ll in range(H_pbound):
                if numpy.array_equal(self.hinds[ll, :], indxp):
                    venp = ll
            self.nm1[nn, kk] = venm
            self.np1[nn, kk] = venp
'''

T_GAMMA = '''
def _make_Gamma(self):
    for nn in range(self.hsize):
        for kk in range(self.nbath):
            self.Gamma[nn] += H_term
'''

T_CONVERT = '''
def _convert_2_matrix(self, indxs):
    hsize = 0
    lvl = 0
    start = 0
    self.levels[lvl] = start
    for levels in indxs:
        if lvl > 0:
            self.levels[lvl] = start
        lngth = len(levels)
        self.levlengths[lvl] = lngth
        hsize += lngth
        lvl += 1
        start = H_nextstart
    mat = numpy.zeros((hsize, self.nbath), dtype=int)
    ii = 0
    for level in indxs:
        for inds in level:
            kk = 0
            for ind in inds:
                mat[ii, kk] = ind
                kk += 1
            ii += 1
    return mat
'''

C16_FILE = """(* GENERATED on every run by harness/translate2.py from quantarhei/qm/liouvillespace/heom.py:
   KTHierarchy.generate_indices (live branch), _make_nmp1, _make_Gamma, _convert_2_matrix.
   The statement skeletons were matched node for node against the templates; the arithmetic content below is the code's. *)
From Coq Require Import ZArith List Bool Arith Lia.
From QV Require Import Base.Alg Base.Sums Base.Mat Model.C16 Proofs.C16 Proofs.C16gen.
Import ListNotations.
Open Scope Z_scope.

(* generate_indices *)
Definition g_init : Z := %(init)s.
Definition g_width (N level : Z) : Z := %(width)s.
Definition g_levels (N level : Z) : Z := %(levels)s.
Definition g_inner (N level : Z) : Z := %(inner)s.
Definition g_pos (N level kk nn : Z) : Z := %(pos)s.
Definition g_inc (N level kk nn : Z) : Z := %(inc)s.
Definition gen_generate (N level : Z) : list (list (list Z)) :=
  generate_skel g_init (g_width N level) (g_levels N level) (g_inner N level) (g_pos N level) (g_inc N level).
Lemma gen_generate_is_model : forall N depth : nat,
  gen_generate (Z.of_nat N) (Z.of_nat depth) = map (map (map Z.of_nat)) (gen_indices N depth).
Proof.
  intros N depth. unfold gen_generate. apply generate_skel_is_model; intros; unfold g_init, g_width, g_levels, g_inner, g_pos, g_inc; lia.
Qed.

(* _make_nmp1 *)
Definition g_mpos (hsize nbath nn kk : Z) : Z := %(mpos)s.
Definition g_mdec (hsize nbath nn kk : Z) : Z := %(mdec)s.
Definition g_ppos (hsize nbath nn kk : Z) : Z := %(ppos)s.
Definition g_pinc (hsize nbath nn kk : Z) : Z := %(pinc)s.
Definition g_mabsent : Z := %(mabsent)s.
Definition g_pabsent : Z := %(pabsent)s.
Definition g_mbound (hsize nbath nn kk : Z) : Z := %(mbound)s.
Definition g_pbound (hsize nbath nn kk : Z) : Z := %(pbound)s.
Definition gen_nm1 (H : list (list Z)) (nn kk : Z) : Z :=
  let hs := Z.of_nat (length H) in let nb := Z.of_nat (length (nth 0 H [])) in
  search_skel H (bump_skel (nth (Z.to_nat nn) H []) (g_mpos hs nb nn kk) (- g_mdec hs nb nn kk)) (g_mbound hs nb nn kk) g_mabsent.
Definition gen_np1 (H : list (list Z)) (nn kk : Z) : Z :=
  let hs := Z.of_nat (length H) in let nb := Z.of_nat (length (nth 0 H [])) in
  search_skel H (bump_skel (nth (Z.to_nat nn) H []) (g_ppos hs nb nn kk) (g_pinc hs nb nn kk)) (g_pbound hs nb nn kk) g_pabsent.
Lemma gen_nmp1_is_model : forall (N depth n k : nat), (n < length (hinds N depth))%%nat -> (k < N)%%nat ->
  let H := hinds N depth in let HZ := map (map Z.of_nat) H in
  gen_nm1 HZ (Z.of_nat n) (Z.of_nat k) = oz (nm1 H n k) /\\ gen_np1 HZ (Z.of_nat n) (Z.of_nat k) = oz (np1 H n k).
Proof.
  intros N depth n k Hn Hk H HZ. subst HZ; subst H. unfold gen_nm1, gen_np1, g_mpos, g_mdec, g_ppos, g_pinc, g_mabsent, g_pabsent, g_mbound, g_pbound.
  split; [apply (search_lower_is_model N depth n k Hn Hk) | apply (search_raise_is_model N depth n k Hn Hk)]; rewrite ?map_length; first [reflexivity | lia].
Qed.

(* _make_Gamma: Gamma[nn] accumulates  sum_kk term(nn,kk) *)
Section Gamma.
  Context {R : StarRing}.
  Variable hinds_ : nat -> nat -> R.
  Variable gamma_ : nat -> R.
  Add Ring Rr : (rth R).
  Definition g_term (nn kk : nat) : R := %(gterm)s.
  Lemma gen_gamma_is_model : forall nbath nn, sum nbath (g_term nn) = sum nbath (fun kk => rmul R (hinds_ nn kk) (gamma_ kk)).
  Proof. intros. apply sum_ext; intros; unfold g_term; ring. Qed.
End Gamma.

(* _convert_2_matrix: next level offset *)
Definition g_nextstart (start lngth hsize lvl : Z) : Z := %(nextstart)s.
Lemma gen_offsets_is_model : forall start lngth hsize lvl, g_nextstart start lngth hsize lvl = start + lngth.
Proof. intros; unfold g_nextstart; lia. Qed.
"""


def heom_kernels(repo):
    f = repo + "/quantarhei/qm/liouvillespace/heom.py"
    out = {}
    env = match(f, "KTHierarchy.generate_indices", T_GENERATE)
    nm = {"N": "N", "level": "level"}
    for h in ("init",):
        out[h] = Expr("Z", {}).e(env["H_" + h])
    for h in ("width", "levels", "inner"):
        out[h] = zexpr(env, "H_" + h, nm)
    nm2 = dict(nm, kk="kk", nn="nn")
    for h in ("pos", "inc"):
        out[h] = zexpr(env, "H_" + h, nm2)
    env = match(f, "KTHierarchy._make_nmp1", T_NMP1)
    nm3 = {"nn": "nn", "kk": "kk"}
    at = {"self.hsize": "hsize", "self.nbath": "nbath"}
    for h in ("mpos", "mdec", "ppos", "pinc", "mbound", "pbound"):
        out[h] = zexpr(env, "H_" + h, nm3, at)
    for h in ("mabsent", "pabsent"):
        out[h] = Expr("Z", {}).e(env["H_" + h])
    env = match(f, "KTHierarchy._make_Gamma", T_GAMMA)
    term = env["H_term"]
    # ring expression over self.hinds[nn,kk] and self.gamma[kk]
    class _E(Expr):
        def e(self, node):
            if isinstance(node, ast.Subscript) and isinstance(node.value, ast.Attribute):
                key = ast.unparse(node.value)
                if key not in ("self.hinds", "self.gamma"):
                    raise Untranslatable("array %s" % key)
                idx = node.slice
                idxs = list(idx.elts) if isinstance(idx, ast.Tuple) else [idx]
                for i in idxs:
                    if not (isinstance(i, ast.Name) and i.id in ("nn", "kk")):
                        raise Untranslatable("index %s" % ast.unparse(i))
                return "(%s %s)" % ("hinds_" if key == "self.hinds" else "gamma_", " ".join(i.id for i in idxs))
            return Expr.e(self, node)
    out["gterm"] = _E("ring", {}).e(term)
    env = match(f, "KTHierarchy._convert_2_matrix", T_CONVERT)
    out["nextstart"] = zexpr(env, "H_nextstart", {"start": "start", "lngth": "lngth", "hsize": "hsize", "lvl": "lvl"})
    what = ["heom.py:KTHierarchy.generate_indices (live branch)", "heom.py:KTHierarchy._make_nmp1",
            "heom.py:KTHierarchy._make_Gamma", "heom.py:KTHierarchy._convert_2_matrix (level offsets)"]
    return C16_FILE % out, what


# ----------------------------------------------------------------------------------------------- the Taylor loop nests
def _find_nests(stmts):
    """outer `for` statements (also inside non-constant if/else, try) whose body holds a `for` that holds a `for`"""
    out = []
    for s in _live(stmts):
        if isinstance(s, ast.For):
            inner = [x for x in _live(s.body) if isinstance(x, ast.For)]
            if any(any(isinstance(y, ast.For) for y in _live(x.body)) for x in inner):
                out.append(s)
        elif isinstance(s, ast.If):
            out += _find_nests(s.body) + _find_nests(s.orelse)
    return out


def _split_for(stmts, what):
    stmts = _live(stmts)
    fors = [k for k, s in enumerate(stmts) if isinstance(s, ast.For)]
    if len(fors) != 1:
        raise Untranslatable("%s: %d loops where one is expected" % (what, len(fors)))
    k = fors[0]
    if stmts[k].orelse:
        raise Untranslatable("%s: for/else" % what)
    return stmts[:k], stmts[k], stmts[k + 1:]


def _expr_of(src):
    return ast.parse(src, mode="eval").body


class VecExpr:
    """expressions over the carrier V of the Taylor loop: variables, +, and whitelisted patterns with vector holes"""

    def __init__(self, vars_, patterns):
        self.vars = dict(vars_)                       # python name -> current Coq name
        self.patterns = [(_expr_of(p), fmt) for p, fmt in patterns]

    def e(self, node):
        for tpl, fmt in self.patterns:
            env = {}
            try:
                unify(tpl, node, env)
            except Untranslatable:
                continue
            return fmt.format(**{k[2:]: self.e(v) for k, v in env.items()})
        if isinstance(node, ast.Name):
            if node.id in self.vars:
                return self.vars[node.id]
            raise Untranslatable("vector name %s" % node.id)
        if isinstance(node, ast.BinOp) and isinstance(node.op, ast.Add):
            return "(vadd %s %s)" % (self.e(node.left), self.e(node.right))
        raise Untranslatable("vector expression %s" % ast.unparse(node)[:100])


def _vec_block(stmts, ve, inplace, scalar_defs, fresh):
    """straight-line statements over vectors -> list of 'let x := e in' lines; updates ve.vars"""
    lines = []
    for s in _live(stmts):
        u = ast.unparse(s)
        if isinstance(s, ast.Assign) and len(s.targets) == 1 and isinstance(s.targets[0], ast.Name):
            v = s.targets[0].id
            if ast.unparse(s.value) in scalar_defs:          # pref = self.dt / ll   (the prefactor c of this pass)
                if v in ve.vars:
                    raise Untranslatable("scalar assigned to a vector name: %s" % u)
                continue
            rhs = ve.e(s.value)
            nm = fresh(v)
            lines.append("let %s := %s in" % (nm, rhs))
            ve.vars[v] = nm
            continue
        if isinstance(s, ast.Expr) and isinstance(s.value, ast.Call):
            done = False
            for tpl, fmt in inplace:
                env = {}
                try:
                    unify(_expr_of(tpl), s.value, env)
                except Untranslatable:
                    continue
                y = env["H_y"]
                if not (isinstance(y, ast.Name) and y.id in ve.vars):
                    raise Untranslatable("in-place target %s" % ast.unparse(y))
                rhs = fmt.format(y=ve.vars[y.id], x=ve.e(env["H_x"]))
                nm = fresh(y.id)
                lines.append("let %s := %s in" % (nm, rhs))
                ve.vars[y.id] = nm
                done = True
                break
            if done:
                continue
        raise Untranslatable("loop-body statement %s" % u[:100])
    return lines


OUTER_ITERS = {"self.TimeAxis.data[1:self.Nt]", "range(1, self.Nt)", "self.timeAxis.data[1:self.Nt]", "self.timeaxis.data[1:self.Nt]"}
JJ_ITERS = {"range(0, self.Nref)", "range(self.Nref)"}


def taylor_nest(nest, kind, name, dt_text, patterns, inplace, pre_outer_ok, pre_inner_ok, post_outer_ok, F_term, extra_vars):
    """one loop nest -> Gallina section text with its lemmas; returns (text, facts)"""
    if ast.unparse(nest.iter) not in OUTER_ITERS:
        raise Untranslatable("%s: outer iterator %s" % (name, ast.unparse(nest.iter)))
    pre_o, jjloop, post_o = _split_for(nest.body, name + " outer body")
    if ast.unparse(jjloop.iter) not in JJ_ITERS:
        raise Untranslatable("%s: refinement iterator %s" % (name, ast.unparse(jjloop.iter)))
    pre_i, llloop, post_i = _split_for(jjloop.body, name + " refinement body")
    env = {}
    unify(_expr_of("range(H_lo, H_hi)"), llloop.iter, env, name + " order loop")
    lo, hi = zexpr(env, "H_lo", {"L": "L"}), zexpr(env, "H_hi", {"L": "L"})
    for s in pre_o:
        if ast.unparse(s) not in pre_outer_ok and not ast.unparse(s).startswith(("qr.printlog(", "qr.log_")):
            raise Untranslatable("%s: statement before the refinement loop: %s" % (name, ast.unparse(s)[:80]))
    for s in pre_i:
        if ast.unparse(s) not in pre_inner_ok:
            raise Untranslatable("%s: statement before the order loop: %s" % (name, ast.unparse(s)[:80]))
    # after the order loop: [X2 = self._APPLY_DEPH(tt, X2)] ; X1 = X2 ; [indxR = walk]
    post_i = _live(post_i)
    deph, walk, copy = False, None, None
    for s in post_i:
        u = ast.unparse(s)
        if isinstance(s, ast.Assign) and isinstance(s.targets[0], ast.Name) and isinstance(s.value, ast.Name):
            if copy is not None or walk is not None:
                raise Untranslatable("%s: %s after the copy" % (name, u))
            copy = (s.targets[0].id, s.value.id)
        elif isinstance(s, ast.Assign) and isinstance(s.value, ast.Call) and ast.unparse(s.value.func) == "self._APPLY_DEPH":
            if copy is not None or deph:
                raise Untranslatable("%s: dephasing after the copy" % name)
            a = s.value.args
            if not (len(a) == 2 and ast.unparse(a[0]) == "tt" and isinstance(a[1], ast.Name) and a[1].id == s.targets[0].id):
                raise Untranslatable("%s: %s" % (name, u))
            deph = s.targets[0].id
        elif isinstance(s, ast.Assign) and ast.unparse(s.targets[0]) == "indxR":
            if copy is None:
                raise Untranslatable("%s: index walk before the copy" % name)
            walk = zexpr({"H": s.value}, "H", {"indxR": "indxR", "stride": "stride", "cutoff_indx": "cutoff"}) \
                if not isinstance(s.value, ast.Call) else _minmax(s.value)
        else:
            raise Untranslatable("%s: statement after the order loop: %s" % (name, u[:80]))
    if copy is None:
        raise Untranslatable("%s: rho1 = rho2 missing after the order loop" % name)
    v1, v2 = copy
    if deph and deph != v2:
        raise Untranslatable("%s: dephasing applied to %s" % (name, deph))
    stored = False
    for s in _live(post_o):
        u = ast.unparse(s)
        if u in [t % v2 for t in ("pr.data[indx, :, :] = %s", "pr.data[indx, :] = %s", "pops[indx, :] = %s")]:
            stored = True
        elif u not in post_outer_ok:
            raise Untranslatable("%s: statement after the refinement loop: %s" % (name, u[:80]))
    if not stored and "STORED" not in post_outer_ok:
        raise Untranslatable("%s: the state is not stored after the refinement loop" % name)
    # the order-loop body
    counter = {}

    def fresh(v):
        counter[v] = counter.get(v, 0) + 1
        return "%s_%d" % (v, counter[v])
    ve = VecExpr({v1: "r1", v2: "r2"}, patterns)
    lines = _vec_block(llloop.body, ve, inplace, {dt_text + " / ll"}, fresh)
    body = "\n      ".join(lines + ["(%s, %s)" % (ve.vars[v1], ve.vars[v2])])
    sec = "Gen_%s" % name
    txt = []
    txt.append("Section %s.\n  Variables (S V : Type) (vadd : V -> V -> V)%s.\n" % (sec, extra_vars))
    txt.append("  Definition %s_F (c : S) (x : V) : V := %s.\n" % (name, F_term))
    txt.append("  Definition %s_body (c : S) (st : V * V) : V * V :=\n      let r1 := fst st in let r2 := snd st in\n      %s.\n" % (name, body))
    txt.append("  Lemma %s_body_is_taylor : forall c st, %s_body c st = taylor_body vadd %s_F c st.\n"
               "  Proof. intros c [r1 r2]. reflexivity. Qed.\n" % (name, name, name))
    txt.append("End %s.\n" % sec)
    txt.append("Definition %s_lo : Z := %s.\nDefinition %s_hi (L : Z) : Z := %s.\n" % (name, lo, name, hi))
    txt.append("Lemma %s_order_range : forall L, %s_lo = 1 /\\ %s_hi L = L + 1.\nProof. intros; unfold %s_lo, %s_hi; lia. Qed.\n"
               % (name, name, name, name, name))
    if walk is not None:
        txt.append("Definition %s_walk (indxR stride cutoff : Z) : Z := %s.\n" % (name, walk))
        txt.append("Lemma %s_walk_is_model : forall indxR stride cutoff : nat, (1 <= cutoff)%%nat ->\n"
                   "  %s_walk (Z.of_nat indxR) (Z.of_nat stride) (Z.of_nat cutoff) = Z.of_nat (walk_next WalkRepaired indxR stride cutoff).\n"
                   "Proof. intros; unfold %s_walk, walk_next; lia. Qed.\n" % (name, name, name))
    return "".join(txt), {"dephasing": bool(deph), "walk": walk is not None}


def _minmax(call):
    f = ast.unparse(call.func)
    if f not in ("min", "max") or len(call.args) != 2 or call.keywords:
        raise Untranslatable("call %s" % ast.unparse(call)[:60])
    ex = Expr("Z", {"indxR": "indxR", "stride": "stride", "cutoff_indx": "cutoff"})
    return "(Z.%s %s %s)" % (f, ex.e(call.args[0]), ex.e(call.args[1]))


TAYLOR_HEAD = """(* GENERATED on every run by harness/translate2.py: the short-exponential loop nests of %s.
   Each nest was matched against the skeleton  for ii: [pre]; for jj in range(Nref): [pre]; for ll in range(lo,hi): BODY;
   [dephasing]; X1 = X2; [index walk]  /  store X2; indx += 1  and BODY translated over an abstract carrier. *)
From Coq Require Import ZArith List Bool Arith Lia.
From QV Require Import Base.Taylor Base.TaylorG Proofs.TaylorGen%s.
Import ListNotations.
Open Scope Z_scope.
"""

RDM_PRE_OUTER = {"tNt = self.TimeAxis.data[indx - 1]", "IR = self._GET_IR(indx)"}
RDM_PRE_INNER = {"tt = tNt + jj * self.dt", "RR = self.RelaxationTensor.data[indxR, :, :, :, :]",
                 "if self.has_Iterm:\n    IR = self.RelaxationTensor.Iterm[indxR, :, :]"}
RDM_POST_OUTER = {"indx += 1"}


def _method(path, cls, meth):
    """methods with two leading underscores are stored under their source name"""
    return _src_of(path, cls + "." + meth)


def pop_taylor(repo):
    fn = _method(repo + "/quantarhei/qm/propagators/poppropagator.py", "PopulationPropagator", "_propagate_short_exp")
    nests = _find_nests(fn.body)
    if len(nests) != 1:
        raise Untranslatable("poppropagator: %d loop nests" % len(nests))
    t, _ = taylor_nest(nests[0], "pop", "pop", "self.dt", [("pref * numpy.dot(self.KK.data, H_x)", "(vscale c (G {x}))")], [],
                       set(), set(), {"indx += 1"}, "vscale c (G x)", " (vscale : S -> V -> V) (G : V -> V)")
    t += ("Lemma pop_refined_is_tstep : forall S V vadd vscale G prefs r,\n"
          "  snd (fold_left (fun st c => pop_body S V vadd vscale G c st) prefs (r, r)) = tstep vadd vscale G prefs r.\n"
          "Proof. intros. apply fold_body_is_tstep. intros c st. rewrite pop_body_is_taylor. reflexivity. Qed.\n")
    return TAYLOR_HEAD % ("poppropagator.py:PopulationPropagator._propagate_short_exp", "") + t, \
        ["poppropagator.py:PopulationPropagator._propagate_short_exp (loop nest and order-loop body)"]


def rdm_taylor(repo):
    path = repo + "/quantarhei/qm/propagators/rdmpropagator.py"
    cls = "ReducedDensityMatrixPropagator"
    out, what = [], []
    com = [("-_COM(HH, ll, self.dt, H_x)", "(com c {x})"), ("-_COM(HH, ll, self.dt, H_x, has_NonHerm=self.has_NonHerm)", "(com c {x})")]
    com_td = [("-_COM(HH, ll, dt, H_x)", "(com c {x})")]
    # Hamiltonian only
    fn = _method(path, cls, "__propagate_short_exp")
    nests = _find_nests(fn.body)
    if len(nests) != 1:
        raise Untranslatable("__propagate_short_exp: %d loop nests" % len(nests))
    t, _ = taylor_nest(nests[0], "ham", "rdm_ham", "self.dt", com, [], set(), set(), RDM_POST_OUTER, "com c x", " (com : S -> V -> V)")
    out.append(t)
    what.append("rdmpropagator.py:__propagate_short_exp")
    # tensor, with and without pure dephasing
    for meth, tag, inpl, fvars, fterm in (
            ("__propagate_short_exp_with_relaxation", "rdm_tens", [("_TTI(H_y, RR, IR, ll, self.dt, H_x, L=L)", "(vadd {y} (tti c {x}))")],
             " (com tti : S -> V -> V)", "vadd (com c x) (tti c x)"),
            ("__propagate_short_exp_with_rel_operators", "rdm_ops", [("_OTI(H_y, Km, Kd, Lm, Ld, ll, self.dt, H_x)", "(vadd {y} (oti c {x}))")],
             " (com oti : S -> V -> V)", "vadd (com c x) (oti c x)")):
        fn = _method(path, cls, meth)
        nests = _find_nests(fn.body)
        if len(nests) != 2:
            raise Untranslatable("%s: %d loop nests where the dephasing and the plain one are expected" % (meth, len(nests)))
        facts = []
        for k, nest in enumerate(nests):
            t, f = taylor_nest(nest, "tens", "%s_%d" % (tag, k), "self.dt", com, inpl, RDM_PRE_OUTER, RDM_PRE_INNER, RDM_POST_OUTER, fterm, fvars)
            out.append(t)
            facts.append(f["dephasing"])
        if facts != [True, False]:
            raise Untranslatable("%s: dephasing branch / plain branch out of order (%s)" % (meth, facts))
        what.append("rdmpropagator.py:%s (both nests)" % meth)
    # time-dependent tensor with the index walk
    fn = _method(path, cls, "__propagate_short_exp_with_TD_relaxation")
    nests = _find_nests(fn.body)
    if len(nests) != 1:
        raise Untranslatable("TD relaxation: %d loop nests" % len(nests))
    t, f = taylor_nest(nests[0], "td", "rdm_td", "dt", com_td, [("_TTI(H_y, RR, IR, ll, dt, H_x, L=L)", "(vadd {y} (tti c {x}))")],
                       RDM_PRE_OUTER, RDM_PRE_INNER, RDM_POST_OUTER, "vadd (com c x) (tti c x)", " (com tti : S -> V -> V)")
    if not f["walk"]:
        raise Untranslatable("TD relaxation: the tensor index is not advanced after the refined step")
    # start of the walk and the stride
    env = {}
    starts = [s for s in _live(fn.body) if isinstance(s, ast.Assign) and ast.unparse(s.targets[0]) == "indxR"]
    if len(starts) != 1:
        raise Untranslatable("TD relaxation: indxR initialised %d times" % len(starts))
    t += "Definition rdm_td_start : Z := %s.\nLemma rdm_td_start_is_model : rdm_td_start = 1.\nProof. reflexivity. Qed.\n" % Expr("Z", {}).e(starts[0].value)
    out.append(t)
    what.append("rdmpropagator.py:__propagate_short_exp_with_TD_relaxation (nest, index walk, start)")
    # state vectors
    fn = _method(repo + "/quantarhei/qm/propagators/svpropagator.py", "StateVectorPropagator", "_propagate_short_exp")
    nests = _find_nests(fn.body)
    if len(nests) != 1:
        raise Untranslatable("svpropagator: %d loop nests" % len(nests))
    t, _ = taylor_nest(nests[0], "sv", "sv", "self.dt", [("-1j * pref * numpy.dot(HH, H_x)", "(vscale c (G {x}))")], [],
                       set(), set(), RDM_POST_OUTER, "vscale c (G x)", " (vscale : S -> V -> V) (G : V -> V)")
    out.append(t)
    what.append("svpropagator.py:StateVectorPropagator._propagate_short_exp")
    return "\n".join(out), what


def heom_taylor(repo):
    fn = _method(repo + "/quantarhei/qm/liouvillespace/heom.py", "KTHierarchyPropagator", "propagate")
    nests = _find_nests(fn.body)
    if len(nests) != 1:
        raise Untranslatable("heom propagate: %d loop nests" % len(nests))
    post = {"indx += 1", "self.hy.ado = ado2", "STORED",
            "if free_hierarchy:\n    ker[indx, :, :] = ado2[1, :, :]\nelse:\n    rhot.data[indx, :, :] = ado2[0, :, :]",
            "if report_hierarchy:\n    for kk in range(self.hy.hsize):\n        self.hy.hpop[indx, kk] = numpy.trace(ado2[kk, :, :])"}
    t, _ = taylor_nest(nests[0], "heom", "heom", "self.dt",
                       [("self._ado_cros_rhs(H_x, self.dt / ll, slevel)", "(cros c {x})"), ("self._ado_self_rhs(H_x, self.dt / ll, slevel)", "(self_ c {x})")],
                       [], set(), set(), post, "vadd (cros c x) (self_ c x)", " (cros self_ : S -> V -> V)")
    return t, ["heom.py:KTHierarchyPropagator.propagate (loop nest and order-loop body)"]


def c16_static(repo):
    a, wa = heom_kernels(repo)
    b, wb = heom_taylor(repo)
    import translate_c16
    c, wc = translate_c16.rhs(repo)
    d, wd = translate_c16.sysops(repo)
    return a + c + "\nFrom QV Require Import Base.Taylor Base.TaylorG Proofs.TaylorGen.\n" + b + d, wa + wc + wb + wd


T_SETRATE = """
def set_rate(self, pos, value):
    N = pos[0]
    M = pos[1]
    if H_g1 == H_g2:
        raise Exception("Diagonal (depopulation) rates cannot be set")
    orig_val = self.data[H_r1, H_c1]
    self.data[H_r2, H_c2] = H_v2
    self.data[H_r3, H_c3] += H_v3
    self.data[H_r4, H_c4] -= H_v4
"""

C17_SETRATE = """
From QV Require Import Base.Alg Base.Sums Base.Mat Model.C17.
Section GenSetRate.
  Context {R : StarRing}.
  Definition gen_guard (N M : Z) : bool := (%(g1)s =? %(g2)s).
  Definition gen_set_rate (A : @mat R) (N M : nat) (value : R) : @mat R :=
    let orig_val := A %(r1)s %(c1)s in
    let A1 := upd A %(r2)s %(c2)s %(v2)s in
    let A2 := upd A1 %(r3)s %(c3)s (radd R (A1 %(r3)s %(c3)s) %(v3)s) in
    upd A2 %(r4)s %(c4)s (rsub R (A2 %(r4)s %(c4)s) %(v4)s).
  Lemma gen_set_rate_is_model : forall n (A : @mat R) pos v,
    set_rate n A pos v = (let '(N, M) := pos in
                          if gen_guard N M then None
                          else match pyidx n N, pyidx n M with
                               | Some a, Some b => Some (gen_set_rate A a b v)
                               | _, _ => None
                               end).
  Proof.
    intros n A [N M] v.
    assert (Hg : gen_guard N M = (N =? M)%%Z) by (unfold gen_guard; apply Bool.eq_iff_eq_true; rewrite !Z.eqb_eq; lia).
    rewrite Hg. reflexivity.
  Qed.
End GenSetRate.
"""


def set_rate(repo):
    env = match(repo + "/quantarhei/qm/liouvillespace/rates/ratematrix.py", "RateMatrix.set_rate", T_SETRATE)
    out = {}
    exz = Expr("Z", {"N": "N", "M": "M"})
    out["g1"], out["g2"] = exz.e(env["H_g1"]), exz.e(env["H_g2"])
    for h in ("r1", "c1", "r2", "c2", "r3", "c3", "r4", "c4"):
        node = env["H_" + h]
        if not (isinstance(node, ast.Name) and node.id in ("N", "M")):
            raise Untranslatable("set_rate index %s" % ast.unparse(node))
        out[h] = node.id
    exr = Expr("ring", {"orig_val": "orig_val", "value": "value"})
    for h in ("v2", "v3", "v4"):
        out[h] = exr.e(env["H_" + h])
    return C17_SETRATE % out, ["ratematrix.py:RateMatrix.set_rate"]


def c17_static(repo):
    a, wa = pop_taylor(repo)
    b, wb = set_rate(repo)
    import translate_c17
    c, wc = translate_c17.extra(repo)     # glue: get_PropagationMatrix, sub-axis logic, constructors (harness/translate_c17.py)
    return a + b + c, wa + wb + wc


# ----------------------------------------------------------------------------------------------- C08
T_DENSE = """
def _one_step_with_dense_TimeIndep(self, t0, Ndense, dens_dt, Nt):
    Ut1 = self._elemental_step_TimeIndep(t0, dens_dt, Nt)
    Udt = numpy.zeros(Ut1.shape, dtype=COMPLEX)
    Udt[:, :, :, :] = Ut1[:, :, :, :]
    for ti in range(H_lo, H_hi):
        Udt = numpy.tensordot(H_left, H_right)
    return Udt
"""

T_REMAINING = """
def _calculate_remainig_using_first_interval(self, Nt):
    Udt = self.data[H_first, :, :, :, :]
    for ti in range(H_lo, H_hi):
        self.data[ti, :, :, :, :] = numpy.tensordot(H_left, self.data[H_idx, :, :, :, :])
"""

T_ELEMENTAL = """
def _elemental_step_TimeIndep(self, t0, dens_dt, Nt):
    dim = self.ham.dim
    one_step_time = TimeAxis(t0, 2, self.dense_time.step)
    prop = ReducedDensityMatrixPropagator(one_step_time, self.ham, RTensor=self.relt, PDeph=self.pdeph)
    rhonm0 = ReducedDensityMatrix(dim=dim)
    Ut1 = numpy.zeros((dim, dim, dim, dim), dtype=COMPLEX)
    for n in range(dim):
        for m in range(dim):
            rhonm0.data[H_sr, H_sc] = H_one
            rhot = prop.propagate(rhonm0)
            Ut1[:, :, H_tr, H_tc] = rhot.data[H_tidx, :, :]
            rhonm0.data[H_sr, H_sc] = H_zero
    return Ut1
"""

C08_FILE = """(* GENERATED on every run by harness/translate2.py from quantarhei/qm/liouvillespace/evolutionsuperoperator.py:
   _elemental_step_TimeIndep, _one_step_with_dense_TimeIndep, _calculate_remainig_using_first_interval *)
From Coq Require Import ZArith List Bool Arith Lia.
From QV Require Import Base.Alg Base.Sums Base.Mat Base.Tens Base.TensId Model.C08 Proofs.C08gen.
Import ListNotations.
Open Scope Z_scope.
Section Gen08.
  Context {R : StarRing}.
  Variable n : nat.
  (* one dense step applied to the matrix that is %(one)s at (%(sr)s, %(sc)s) and zero elsewhere, stored at [:, :, %(tr)s, %(tc)s];
     the propagated state is read at time index %(tidx)s of a two-point axis *)
  Definition g_unit (p q : nat) : @mat R := fun i j => if Nat.eqb i %(sr)s && Nat.eqb j %(sc)s then %(one)s else %(zero)s.
  Definition g_elemental (step : @mat R -> @mat R) : @tens R := tab4 n (fun a b %(tr)s %(tc)s => step (g_unit p q) a b).
  Definition g_tidx : Z := %(tidx)s.
  Lemma gen_elemental_is_model : forall step, g_elemental step = elemental n step /\\ g_tidx = 1.
  Proof. intros step. split; reflexivity. Qed.

  Definition g_dense_lo : Z := %(dlo)s.
  Definition g_dense_hi (dense_length : Z) : Z := %(dhi)s.
  Definition g_dense_f (Ut1 Udt : @tens R) : @tens R := tab4 n (tcomp n %(dl)s %(dr)s).
  Lemma gen_dense_is_model : forall (Nd : nat) (U1 : @tens R),
    loop_skel g_dense_lo (g_dense_hi (Z.of_nat Nd + 1)) (g_dense_f U1) U1 = one_step_dense n Nd U1.
  Proof. intros Nd U1. apply dense_skel_is_model; unfold g_dense_lo, g_dense_hi, g_dense_f; intros; first [reflexivity | lia]. Qed.

  Definition g_rem_first : Z := %(first)s.
  Definition g_rem_lo : Z := %(rlo)s.
  Definition g_rem_hi (Nt : Z) : Z := %(rhi)s.
  Definition g_rem_idx (ti : Z) : Z := %(ridx)s.
  Definition g_rem_f (Udt Y : @tens R) : @tens R := tab4 n (tcomp n %(rl)s Y).
  Lemma gen_remaining_is_model : forall (Nt : nat) (Udt : @tens R) (d : nat -> @tens R), (2 <= Nt)%%nat -> d 0%%nat = tid -> d 1%%nat = Udt ->
    map (remaining_skel g_rem_lo (g_rem_hi (Z.of_nat Nt)) g_rem_idx (g_rem_f (d (Z.to_nat g_rem_first))) d) (seq 0 Nt) = calc_all n Nt Udt.
  Proof.
    intros Nt Udt d HNt H0 H1.
    assert (Hfirst : Z.to_nat g_rem_first = 1%%nat) by (unfold g_rem_first; lia). rewrite Hfirst, H1.
    apply remaining_skel_is_model; unfold g_rem_lo, g_rem_hi, g_rem_idx, g_rem_f; intros; first [assumption | reflexivity | lia].
  Qed.
End Gen08.
"""


def _float01(node):
    if isinstance(node, ast.Constant) and isinstance(node.value, (int, float)) and not isinstance(node.value, bool) and node.value in (0, 1):
        return "(r1 R)" if node.value == 1 else "(r0 R)"
    raise Untranslatable("constant %s" % ast.unparse(node))


def c08_static(repo):
    f = repo + "/quantarhei/qm/liouvillespace/evolutionsuperoperator.py"
    out = {}
    import translate_c08
    translate_c08.precheck(repo)          # state on the object besides the modelled fields is named specifically
    env = match(f, "EvolutionSuperOperator._elemental_step_TimeIndep", T_ELEMENTAL)
    for h in ("sr", "sc", "tr", "tc"):
        node = env["H_" + h]
        if not (isinstance(node, ast.Name) and node.id in ("n", "m")):
            raise Untranslatable("elemental step index %s" % ast.unparse(node))
        out[h] = {"n": "p", "m": "q"}[node.id]
    if {out["tr"], out["tc"]} != {"p", "q"}:
        raise Untranslatable("elemental step stores both results under the same index")
    out["one"], out["zero"] = _float01(env["H_one"]), _float01(env["H_zero"])
    out["tidx"] = Expr("Z", {}).e(env["H_tidx"])
    env = match(f, "EvolutionSuperOperator._one_step_with_dense_TimeIndep", T_DENSE)
    at = {"self.dense_time.length": "dense_length"}
    out["dlo"], out["dhi"] = zexpr(env, "H_lo", {}, at), zexpr(env, "H_hi", {}, at)
    for h, k in (("H_left", "dl"), ("H_right", "dr")):
        node = env[h]
        if not (isinstance(node, ast.Name) and node.id in ("Ut1", "Udt")):
            raise Untranslatable("dense step contracts %s" % ast.unparse(node))
        out[k] = node.id
    env = match(f, "EvolutionSuperOperator._calculate_remainig_using_first_interval", T_REMAINING)
    out["first"] = Expr("Z", {}).e(env["H_first"])
    out["rlo"], out["rhi"] = zexpr(env, "H_lo", {"Nt": "Nt"}), zexpr(env, "H_hi", {"Nt": "Nt"})
    out["ridx"] = zexpr(env, "H_idx", {"ti": "ti", "Nt": "Nt"})
    if not (isinstance(env["H_left"], ast.Name) and env["H_left"].id == "Udt"):
        raise Untranslatable("remaining steps contract %s" % ast.unparse(env["H_left"]))
    out["rl"] = "Udt"
    t2, w2 = translate_c08.extra(repo)    # bookkeeping around the kernels (harness/translate_c08.py)
    return C08_FILE % out + t2, ["evolutionsuperoperator.py:_elemental_step_TimeIndep", "evolutionsuperoperator.py:_one_step_with_dense_TimeIndep",
                                 "evolutionsuperoperator.py:_calculate_remainig_using_first_interval"] + w2


STATIC = {"C16": c16_static, "C17": c17_static, "C08": c08_static}
