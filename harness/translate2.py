# -*- coding: utf-8 -*-
"""Template translator: the statement-level part of the static tie (DESIGN.md section 12).

`translate.py` translates expression kernels.  The functions tied here are imperative (nested loops that mutate lists
and arrays); each is translated by UNIFYING its current `ast` against a template of the same statement skeleton in
which the places that carry arithmetic content - constants, increments, range bounds, index expressions, comparison
operands - are holes (names starting with `H_`).  The skeleton must match node for node (anything else raises
Untranslatable: fail-closed); the hole contents are translated with the expression translator and spliced into a
Gallina definition whose combinators (`fold_left`, `flat_map`, `seq`) mirror the skeleton.  The generated file ends with
fixed lemmas `generated = hand-written model` proved without looking at the hole contents being the expected ones
beyond what `reflexivity`/`lia`/the library lemma needs, so a changed constant, bound or index breaks the lemma.
"""
import ast

from translate import Untranslatable, Expr, _src_of

_SKIP = {"ctx", "lineno", "col_offset", "end_lineno", "end_col_offset", "type_comment", "kind"}


def _strip(stmts):
    """drop docstrings, bare string statements and `pass`"""
    out = []
    for s in stmts:
        if isinstance(s, ast.Expr) and isinstance(s.value, ast.Constant) and isinstance(s.value.value, str):
            continue
        if isinstance(s, ast.Pass):
            continue
        out.append(s)
    return out


def _live(stmts):
    """resolve `if False: A else: B` / `if True:` selections (constant tests only) to the live branch"""
    out = []
    for s in _strip(stmts):
        if isinstance(s, ast.If) and isinstance(s.test, ast.Constant) and isinstance(s.test.value, bool):
            out.extend(_live(s.body if s.test.value else s.orelse))
        else:
            out.append(s)
    return out


def unify(t, s, env, path="body"):
    """unify template node t with source node s; holes are Name nodes whose id starts with H_ (expression holes)"""
    if isinstance(t, ast.Name) and t.id.startswith("H_"):
        if not isinstance(s, ast.expr):
            raise Untranslatable("%s: hole %s against a non-expression" % (path, t.id))
        if t.id in env:
            if ast.dump(env[t.id]) != ast.dump(s):
                raise Untranslatable("%s: hole %s bound to two different expressions (%s / %s)"
                                     % (path, t.id, ast.unparse(env[t.id]), ast.unparse(s)))
        else:
            env[t.id] = s
        return
    if isinstance(t, list):
        if not isinstance(s, list):
            raise Untranslatable("%s: list expected" % path)
        if t and isinstance(t[0], ast.stmt) or s and isinstance(s[0], ast.stmt):
            t, s = _live(t), _live(s)
        if len(t) != len(s):
            raise Untranslatable("%s: %d statements/elements where the template has %d (%s)"
                                 % (path, len(s), len(t), "; ".join(ast.unparse(x)[:40] for x in s if isinstance(x, ast.AST))[:200]))
        for k, (a, b) in enumerate(zip(t, s)):
            unify(a, b, env, "%s[%d]" % (path, k))
        return
    if isinstance(t, ast.AST):
        if type(t) is not type(s):
            raise Untranslatable("%s: %s where the template has %s (%s)" % (path, type(s).__name__, type(t).__name__,
                                                                         ast.unparse(s)[:80] if isinstance(s, ast.AST) else s))
        for f in t._fields:
            if f in _SKIP:
                continue
            unify(getattr(t, f, None), getattr(s, f, None), env, path + "." + f)
        return
    if t != s:
        raise Untranslatable("%s: %r where the template has %r" % (path, s, t))


def match(repo_file, qualname, template_src):
    """bindings of the holes of `template_src` (a function definition) in the current source of qualname"""
    fn = _src_of(repo_file, qualname)
    tfn = ast.parse(template_src).body[0]
    env = {}
    unify([a.arg for a in tfn.args.args], [a.arg for a in fn.args.args], env, qualname + ".args")
    unify(tfn.body, fn.body, env, qualname)
    return env


def zexpr(env, hole, names, attrs=None):
    return Expr("Z", names, attrs=attrs or {}).e(env[hole])


# ----------------------------------------------------------------------------------------------- C16
T_GENERATE = '''
def generate_indices(self, N, level=0):
    if False:
        return self._generate_indices_2_0to4(N, level)
    else:
        lret = []
        level_prev = []
        inilist = [H_init] * H_width
        level_prev.append(inilist)
        lret.append(level_prev)
        for kk in range(H_levels):
            last_level = kk
            new_level_prev = []
            for old_level in level_prev:
                for nn in range(H_inner):
                    nlist = old_level.copy()
                    nlist[H_pos] += H_inc
                    if nlist not in new_level_prev:
                        new_level_prev.append(nlist)
            level_prev = new_level_prev
            lret.append(level_prev)
        return lret
'''

T_NMP1 = '''
def _make_nmp1(self):
    for nn in range(self.hsize):
        for kk in range(self.nbath):
            indxm = numpy.zeros(self.nbath, dtype=int)
            indxm[:] = self.hinds[nn, :]
            indxm[H_mpos] -= H_mdec
            indxp = numpy.zeros(self.nbath, dtype=int)
            indxp[:] = self.hinds[nn, :]
            indxp[H_ppos] += H_pinc
            venm = H_mabsent
            for ll in range(H_mbound):
                if numpy.array_equal(self.hinds[ll, :], indxm):
                    venm = ll
            venp = H_pabsent
            for ll in range(H_pbound):
                if numpy.array_equal(self.hinds[ll, :], indxp):
                    venp = ll
            self.nm1[nn, kk] = venm
            self.np1[nn, kk] = venp
'''

T_GAMMA = '''
def _make_Gamma(self):
    for nn in range(self.hsize):
        for kk in range(self.nbath):
            self.Gamma[nn] += H_term
'''

T_CONVERT = '''
def _convert_2_matrix(self, indxs):
    hsize = 0
    lvl = 0
    start = 0
    self.levels[lvl] = start
    for levels in indxs:
        if lvl > 0:
            self.levels[lvl] = start
        lngth = len(levels)
        self.levlengths[lvl] = lngth
        hsize += lngth
        lvl += 1
        start = H_nextstart
    mat = numpy.zeros((hsize, self.nbath), dtype=int)
    ii = 0
    for level in indxs:
        for inds in level:
            kk = 0
            for ind in inds:
                mat[ii, kk] = ind
                kk += 1
            ii += 1
    return mat
'''

C16_FILE = """(* GENERATED on every run by harness/translate2.py from quantarhei/qm/liouvillespace/heom.py:
   KTHierarchy.generate_indices (live branch), _make_nmp1, _make_Gamma, _convert_2_matrix.
   The statement skeletons were matched node for node against the templates; the arithmetic content below is the code's. *)
From Coq Require Import ZArith List Bool Arith Lia.
From QV Require Import Base.Alg Base.Sums Base.Mat Model.C16 Proofs.C16 Proofs.C16gen.
Import ListNotations.
Open Scope Z_scope.

(* generate_indices *)
Definition g_init : Z := %(init)s.
Definition g_width (N level : Z) : Z := %(width)s.
Definition g_levels (N level : Z) : Z := %(levels)s.
Definition g_inner (N level : Z) : Z := %(inner)s.
Definition g_pos (N level kk nn : Z) : Z := %(pos)s.
Definition g_inc (N level kk nn : Z) : Z := %(inc)s.
Definition gen_generate (N level : Z) : list (list (list Z)) :=
  generate_skel g_init (g_width N level) (g_levels N level) (g_inner N level) (g_pos N level) (g_inc N level).
Lemma gen_generate_is_model : forall N depth : nat,
  gen_generate (Z.of_nat N) (Z.of_nat depth) = map (map (map Z.of_nat)) (gen_indices N depth).
Proof.
  intros N depth. unfold gen_generate. apply generate_skel_is_model; intros; unfold g_init, g_width, g_levels, g_inner, g_pos, g_inc; lia.
Qed.

(* _make_nmp1 *)
Definition g_mpos (hsize nbath nn kk : Z) : Z := %(mpos)s.
Definition g_mdec (hsize nbath nn kk : Z) : Z := %(mdec)s.
Definition g_ppos (hsize nbath nn kk : Z) : Z := %(ppos)s.
Definition g_pinc (hsize nbath nn kk : Z) : Z := %(pinc)s.
Definition g_mabsent : Z := %(mabsent)s.
Definition g_pabsent : Z := %(pabsent)s.
Definition g_mbound (hsize nbath nn kk : Z) : Z := %(mbound)s.
Definition g_pbound (hsize nbath nn kk : Z) : Z := %(pbound)s.
Definition gen_nm1 (H : list (list Z)) (nn kk : Z) : Z :=
  let hs := Z.of_nat (length H) in let nb := Z.of_nat (length (nth 0 H [])) in
  search_skel H (bump_skel (nth (Z.to_nat nn) H []) (g_mpos hs nb nn kk) (- g_mdec hs nb nn kk)) (g_mbound hs nb nn kk) g_mabsent.
Definition gen_np1 (H : list (list Z)) (nn kk : Z) : Z :=
  let hs := Z.of_nat (length H) in let nb := Z.of_nat (length (nth 0 H [])) in
  search_skel H (bump_skel (nth (Z.to_nat nn) H []) (g_ppos hs nb nn kk) (g_pinc hs nb nn kk)) (g_pbound hs nb nn kk) g_pabsent.
Lemma gen_nmp1_is_model : forall (N depth n k : nat), (n < length (hinds N depth))%%nat -> (k < N)%%nat ->
  let H := hinds N depth in let HZ := map (map Z.of_nat) H in
  gen_nm1 HZ (Z.of_nat n) (Z.of_nat k) = oz (nm1 H n k) /\\ gen_np1 HZ (Z.of_nat n) (Z.of_nat k) = oz (np1 H n k).
Proof.
  intros N depth n k Hn Hk H HZ. subst HZ; subst H. unfold gen_nm1, gen_np1, g_mpos, g_mdec, g_ppos, g_pinc, g_mabsent, g_pabsent, g_mbound, g_pbound.
  split; [apply (search_lower_is_model N depth n k Hn Hk) | apply (search_raise_is_model N depth n k Hn Hk)]; rewrite ?map_length; first [reflexivity | lia].
Qed.

(* _make_Gamma: Gamma[nn] accumulates  sum_kk term(nn,kk) *)
Section Gamma.
  Context {R : StarRing}.
  Variable hinds_ : nat -> nat -> R.
  Variable gamma_ : nat -> R.
  Add Ring Rr : (rth R).
  Definition g_term (nn kk : nat) : R := %(gterm)s.
  Lemma gen_gamma_is_model : forall nbath nn, sum nbath (g_term nn) = sum nbath (fun kk => rmul R (hinds_ nn kk) (gamma_ kk)).
  Proof. intros. apply sum_ext; intros; unfold g_term; ring. Qed.
End Gamma.

(* _convert_2_matrix: next level offset *)
Definition g_nextstart (start lngth hsize lvl : Z) : Z := %(nextstart)s.
Lemma gen_offsets_is_model : forall start lngth hsize lvl, g_nextstart start lngth hsize lvl = start + lngth.
Proof. intros; unfold g_nextstart; lia. Qed.
"""


def heom_kernels(repo):
    f = repo + "/quantarhei/qm/liouvillespace/heom.py"
    out = {}
    env = match(f, "KTHierarchy.generate_indices", T_GENERATE)
    nm = {"N": "N", "level": "level"}
    for h in ("init",):
        out[h] = Expr("Z", {}).e(env["H_" + h])
    for h in ("width", "levels", "inner"):
        out[h] = zexpr(env, "H_" + h, nm)
    nm2 = dict(nm, kk="kk", nn="nn")
    for h in ("pos", "inc"):
        out[h] = zexpr(env, "H_" + h, nm2)
    env = match(f, "KTHierarchy._make_nmp1", T_NMP1)
    nm3 = {"nn": "nn", "kk": "kk"}
    at = {"self.hsize": "hsize", "self.nbath": "nbath"}
    for h in ("mpos", "mdec", "ppos", "pinc", "mbound", "pbound"):
        out[h] = zexpr(env, "H_" + h, nm3, at)
    for h in ("mabsent", "pabsent"):
        out[h] = Expr("Z", {}).e(env["H_" + h])
    env = match(f, "KTHierarchy._make_Gamma", T_GAMMA)
    term = env["H_term"]
    # ring expression over self.hinds[nn,kk] and self.gamma[kk]
    class _E(Expr):
        def e(self, node):
            if isinstance(node, ast.Subscript) and isinstance(node.value, ast.Attribute):
                key = ast.unparse(node.value)
                if key not in ("self.hinds", "self.gamma"):
                    raise Untranslatable("array %s" % key)
                idx = node.slice
                idxs = list(idx.elts) if isinstance(idx, ast.Tuple) else [idx]
                for i in idxs:
                    if not (isinstance(i, ast.Name) and i.id in ("nn", "kk")):
                        raise Untranslatable("index %s" % ast.unparse(i))
                return "(%s %s)" % ("hinds_" if key == "self.hinds" else "gamma_", " ".join(i.id for i in idxs))
            return Expr.e(self, node)
    out["gterm"] = _E("ring", {}).e(term)
    env = match(f, "KTHierarchy._convert_2_matrix", T_CONVERT)
    out["nextstart"] = zexpr(env, "H_nextstart", {"start": "start", "lngth": "lngth", "hsize": "hsize", "lvl": "lvl"})
    what = ["heom.py:KTHierarchy.generate_indices (live branch)", "heom.py:KTHierarchy._make_nmp1",
            "heom.py:KTHierarchy._make_Gamma", "heom.py:KTHierarchy._convert_2_matrix (level offsets)"]
    return C16_FILE % out, what


STATIC = {"C16": heom_kernels}
