# -*- coding: utf-8 -*-
"""C14 - initial and thermal states are valid Boltzmann density matrices.

Proof: coq/theories/Props/C14.v (populations over Q with an oracle exponential that may underflow; Hermiticity /
positive semidefiniteness and basis bookkeeping over any commutative ring with involution).
Tie: (1) direct calls of AggregateBase._thermal_population and OpenSystem.get_thermal_ReducedDensityMatrix on random
energies / subtracted energies / block starts / temperatures (0, 1e-6 .. 1e4 K, absolute energies up to +-60000 1/cm);
(2) Aggregate.get_DensityMatrix end to end on random aggregates (2-4 molecules, non-zero ground-state energies, optional
vibrational mode, one- or two-exciton band) for thermal / weak / strong / impulsive requests made outside any context,
inside eigenbasis_of(H), inside the eigenbasis of an unrelated operator and nested.  numpy.exp is recorded during the call
(oracle table) and the outputs are compared inside Coq with Model.C14 (exact rationals, tolerance 1e-10 absolute on
matrix elements <= 1, 1e-12 on populations).
Monitors: finite, Hermitian, positive semidefinite, unit trace, Boltzmann ratios in the defining basis, T = 0 populates
a lowest state, same physical state inside and outside a context (weak / strong), oracle hypotheses on numpy.exp,
orthogonality of the eigh transformation; Molecule.get_thermal_ReducedDensityMatrix on molecules with exactly T = 0 (no
environment), displaced ground-state surfaces (lowest eigenstate is not basis state 0), requested outside and inside the basis
contexts of H and of unrelated operators: T = 0 gives the lowest eigenstate of H, the same state in any context (also tied to
Model.C14 request OpenSys for n <= 6); Aggregate.get_thermal_ReducedDensityMatrix and get_excited_density_matrix on real systems.
"""
import os
import sys
import json
import math
import contextlib
from fractions import Fraction

sys.path.insert(0, os.path.dirname(os.path.abspath(__file__)))
import common as cm

PID = "C14"
work = cm.reexec_isolated(PID)
args = cm.parse_args(sys.argv[1:])

CM2INT = 2.0 * math.pi * 2.99792458e-5        # 1/cm -> internal (rad/fs); only used to choose magnitudes
TEMPS = [0.0, 1e-6, 1e-3, 0.1, 1.0, 2.0, 5.0, 10.0, 20.0, 23.0, 30.0, 50.0, 77.0, 150.0, 300.0, 1000.0, 1e4]


def reset_manager():
    import quantarhei as qr
    m = qr.Manager()
    m.basis_stack = [0]
    m.basis_transformations = [1]
    m.basis_registered = {}
    m._in_eigenbasis_of_context = False
    m.current_basis_operator = None


class record_exp:
    """records every call of numpy.exp made while active (the oracle's actual inputs and outputs)"""

    def __enter__(self):
        import numpy
        self.np = numpy
        self.orig = numpy.exp
        self.calls = []

        def rec(x, *a, **k):
            y = self.orig(x, *a, **k)
            try:
                self.calls.append((numpy.array(x, dtype=complex).ravel().copy(), numpy.array(y, dtype=complex).ravel().copy()))
            except Exception:
                pass
            return y
        numpy.exp = rec
        return self

    def __exit__(self, *a):
        self.np.exp = self.orig
        return False

    def flat(self):
        xs, ys = [], []
        for x, y in self.calls:
            xs.extend(x.tolist())
            ys.extend(y.tolist())
        return xs, ys


def oracle_monitor(xs, ys):
    """hypotheses of the theorems on the real numpy.exp: exp(0) = 1, 0 <= exp, monotone"""
    pts = []
    for x, y in zip(xs, ys):
        if x.imag != 0 or y.imag != 0:
            return "numpy.exp was called with / returned a complex number: %r -> %r" % (x, y)
        x, y = x.real, y.real
        if x != x:
            continue
        if not (y >= 0.0):
            return "numpy.exp(%r) = %r is negative" % (x, y)
        if x == 0.0 and y != 1.0:
            return "numpy.exp(0) = %r" % y
        pts.append((x, y))
    pts.sort()
    for (x1, y1), (x2, y2) in zip(pts, pts[1:]):
        if y2 < y1:
            return "numpy.exp not monotone: exp(%r) = %r > exp(%r) = %r" % (x1, y1, x2, y2)
    return None


# ------------------------------------------------------------------ generators
def gen_pop(r, k):
    kind = 0 if r.random() < 0.75 else 1
    n = r.choice([1, 2, 2, 3, 3, 4, 5, 6, 8])
    base = r.choice([0.0, 0.0, 12000.0, 15000.0, -8000.0, 30000.0, 60000.0, -60000.0, 5.0]) * CM2INT
    spread = r.choice([1.0, 30.0, 200.0, 1000.0, 5000.0]) * CM2INT
    en = [base + spread * r.uniform(-1, 1) for _ in range(n)]
    if r.random() < 0.25 and n > 1:
        en[r.randrange(n)] = en[0]                                # exact degeneracy
    temp = r.choice(TEMPS) if r.random() < 0.8 else 10 ** r.uniform(-6, 4)
    if kind == 1:
        en.sort()
        return {"kind": "pop", "os": 1, "hd": en, "sub": [], "start": 0, "temp": temp}
    start = r.choice([0, 0, 1, 1, 2]) if n > 1 else 0
    start = min(start, n - 1)
    hd = [r.choice([0.0, 0.1 * CM2INT * j]) for j in range(start)] + en[start:]
    mode = r.choice(["none", "zeros", "reorg", "const"])
    if mode == "none":
        sub = None
    elif mode == "zeros":
        sub = [0.0] * n
    elif mode == "reorg":
        sub = [r.choice([0.0, 30.0, 100.0, 300.0]) * CM2INT * r.random() for _ in range(n - start)]
    else:
        sub = [min(en[start:])] * n
    return {"kind": "pop", "os": 0, "hd": hd, "sub": sub, "start": start, "temp": temp}


def gen_sys(r):
    nmol = r.choice([2, 2, 3, 3, 4])
    ground = r.choice([0.0, 0.0, 0.0, 5000.0, -3000.0, 10000.0])
    mols = []
    for i in range(nmol):
        g = ground if r.random() < 0.7 else 0.0
        gap = r.choice([12000.0, 12500.0, 15000.0, 9000.0]) + r.uniform(-400, 400)
        mols.append({"e": [g, g + gap], "dip": [r.uniform(-2, 2), r.uniform(-2, 2), r.uniform(-1, 1)],
                     "reorg": r.choice([5.0, 30.0, 80.0, 200.0]) * (1 + r.random())})
    coup = []
    for i in range(nmol):
        for j in range(i + 1, nmol):
            if r.random() < 0.8:
                coup.append([i, j, r.choice([20.0, 100.0, 300.0, -150.0]) * r.uniform(0.3, 1.0)])
    mode = None
    if r.random() < 0.35:
        mode = {"mol": r.randrange(nmol), "freq": r.choice([150.0, 300.0, 700.0]), "hr": r.choice([0.05, 0.3, 1.0]),
                "nmax": r.choice([2, 2, 3])}
        # every second mode: one more vibrational level in the excited state than in the ground state, so that the one-exciton
        # blocks of the sites have different sizes
        if r.random() < 0.5:
            mode["nmax1"] = mode["nmax"] + 1
    mult = 2 if (r.random() < 0.25 and mode is None and nmol <= 3) else 1
    return {"mols": mols, "coup": coup, "mode": mode, "mult": mult, "seed": r.randrange(10 ** 6)}


def gen_dm_cases(r, nsys, per_sys):
    out = []
    for _ in range(nsys):
        s = gen_sys(r)
        for _ in range(per_sys):
            temp = r.choice(TEMPS) if r.random() < 0.85 else 10 ** r.uniform(-3, 3.5)
            out.append({"kind": "dm", "sys": s, "temp": temp,
                        "req": r.choice(["thermal", "weak", "weak", "strong", "strong", "impulsive"]),
                        "ctx": r.choice(["none", "none", "H", "H", "X", "XH", "HX"])})
    return out


def gen_mol(r, k):
    nst = r.choice([2, 2, 3])
    g = r.choice([0.0, 0.0, 4000.0, -7000.0])
    en = [g] + sorted(g + r.uniform(8000, 20000) for _ in range(nst - 1))
    mode = None
    if r.random() < 0.7:
        # shift0: displacement of the GROUND-state potential surface: the lowest eigenstate of H is then not basis state 0
        mode = {"freq": r.choice([100.0, 300.0, 900.0]), "hr": r.choice([0.1, 0.5]), "nmax": r.choice([2, 2, 3, 4]),
                "shift0": r.choice([0.0, 0.0, 0.3, 0.6, -0.8])}
    # None: no environment on the 0->1 transition, i.e. exactly T = 0 (the default of the package)
    temp = r.choice([None, None, None, None, 1e-3, 1.0, 5.0, 20.0, 77.0, 300.0, 2000.0])
    return {"kind": "mol", "e": en, "mode": mode, "temp": temp, "dip": [r.uniform(-2, 2), r.uniform(-2, 2), 0.5],
            "ctx": r.choice(["none", "none", "X", "X", "H", "XH"]), "seed": r.randrange(10 ** 6)}


# ------------------------------------------------------------------ building systems
_AGG = {}
_TA = []


def time_axis():
    import quantarhei as qr
    if not _TA:
        _TA.append(qr.TimeAxis(0.0, 200, 1.0))
    return _TA[0]


def build_agg(s):
    import quantarhei as qr
    key = json.dumps(s, sort_keys=True)
    if key in _AGG:
        return _AGG[key]
    reset_manager()
    ta = time_axis()
    mols = []
    with qr.energy_units("1/cm"):
        for i, m in enumerate(s["mols"]):
            mol = qr.Molecule(list(m["e"]))
            mol.set_dipole(0, 1, list(m["dip"]))
            if i % 2 == 1:
                # every second site: a bath of two components (the reorganisation energies add up to the declared one)
                cf = qr.CorrelationFunction(ta, [dict(ftype="OverdampedBrownian", reorg=0.25 * m["reorg"], cortime=100.0, T=300.0),
                                                 dict(ftype="OverdampedBrownian", reorg=0.75 * m["reorg"], cortime=60.0, T=300.0)])
            else:
                cf = qr.CorrelationFunction(ta, dict(ftype="OverdampedBrownian", reorg=m["reorg"], cortime=100.0, T=300.0))
            mol.set_transition_environment((0, 1), cf)
            if s["mode"] is not None and s["mode"]["mol"] == i:
                md = qr.Mode(frequency=s["mode"]["freq"])
                mol.add_Mode(md)
                md.set_nmax(0, s["mode"]["nmax"])
                md.set_nmax(1, s["mode"].get("nmax1", s["mode"]["nmax"]))
                md.set_HR(1, s["mode"]["hr"])
            mols.append(mol)
        agg = qr.Aggregate(molecules=mols)
        for (i, j, v) in s["coup"]:
            agg.set_resonance_coupling(i, j, v)
    agg.build(mult=s["mult"])
    # the reorganisation energies as DECLARED (internal units), per molecule: the oracle of the strong-coupling clause
    agg._verif_declared_reorg = [float(qr.convert(m["reorg"], "1/cm", "int")) for m in s["mols"]]
    _AGG[key] = agg
    return agg


def other_operator(s, n):
    """a real symmetric operator unrelated to the Hamiltonian (context 'X')"""
    import numpy
    import quantarhei as qr
    rs = numpy.random.RandomState(s["seed"])
    a = rs.randn(n, n)
    return qr.Hamiltonian(data=a + a.T)


def accumulated():
    import numpy
    import quantarhei as qr
    m = qr.Manager()
    SS = None
    for ZZ in m.basis_transformations[1:]:
        SS = ZZ.copy() if SS is None else numpy.dot(SS, ZZ)
    return SS


REQ = {"thermal": ("thermal", "weak_coupling"), "weak": ("thermal_excited_state", "weak_coupling"),
       "strong": ("thermal_excited_state", "strong_coupling"), "impulsive": ("impulsive_excitation", "weak_coupling")}


def request(agg, c, observe):
    """makes the request of case c inside its context; returns a dict with what was observed"""
    import numpy
    import quantarhei as qr
    reset_manager()
    H = agg.get_Hamiltonian()
    n = H.dim
    ops = {"H": H, "X": None}
    if "X" in c["ctx"]:
        ops["X"] = other_operator(c["sys"], n)
    obs = {"n": n, "start": int(agg.Nb[0])}
    ct, lim = REQ[c["req"]]
    with contextlib.ExitStack() as st:
        for ch in (c["ctx"] if c["ctx"] != "none" else ""):
            st.enter_context(qr.eigenbasis_of(ops[ch]))
        if observe:
            obs["Hcur"] = numpy.array(H.data, dtype=float).copy()
            SS = accumulated()
            obs["Zs"] = [numpy.array(Z, dtype=float).copy() for Z in qr.Manager().basis_transformations[1:]]
            obs["S"] = numpy.eye(n) if SS is None else numpy.array(SS, dtype=float)
            obs["S1"] = numpy.linalg.inv(obs["S"])
            obs["U"] = numpy.array(H.get_diagonalization_matrix(), dtype=float)
            obs["U1"] = numpy.linalg.inv(obs["U"])
            with qr.eigenbasis_of(H):
                obs["hexc"] = numpy.real(numpy.diag(H.data)).copy()
            DD = agg.TrDMOp.data
            obs["X"] = numpy.sqrt(DD[:, :, 0] ** 2 + DD[:, :, 1] ** 2 + DD[:, :, 2] ** 2)
        with record_exp() as rec:
            try:
                rho = agg.get_DensityMatrix(condition_type=ct, relaxation_theory_limit=lim, temperature=c["temp"])
                obs["data"] = numpy.array(rho.data).copy()
                obs["exc"] = None
            except Exception as e:
                rho = None
                obs["data"] = None
                obs["exc"] = repr(e)[:200]
        obs["exp"] = rec.flat()
    obs["site"] = None if rho is None else numpy.array(rho.data).copy()
    reset_manager()
    return obs


# ------------------------------------------------------------------ exact arguments of the oracle (as the model computes them)
def fr(x):
    return Fraction(*float(x).as_integer_ratio())


def exact_args(ens, kT):
    m = min(ens)
    return [-(e - m) / kT for e in ens]


def table_lit(keys, xs, ys):
    """(exact argument, recorded value of numpy.exp) - matched by position"""
    if len(keys) != len(ys):
        return None
    items, seen = [], {}
    for k, y in zip(keys, ys):
        if y.imag != 0 or y.real != y.real or y.real in (float("inf"), float("-inf")):
            return None
        if k in seen:
            if seen[k] != y.real:
                return None
            continue
        seen[k] = y.real
        items.append("(%s, %s)" % (cm.qlit(k), cm.qlit(y.real)))
    return cm.clist(items)


def qlist(v):
    return cm.clist([cm.qlit(x) for x in v])


def qmatl(a):
    return cm.clist([cm.clist([cm.qlit(float(x)) for x in row]) for row in a])


def finite(a):
    import numpy
    return a is not None and bool(numpy.isfinite(a).all())


# ------------------------------------------------------------------ monitors
def monitor_populations(p, ens, start, temp, kB, what):
    """p: populations (full length), ens: energies of the block (floats)"""
    import numpy
    p = numpy.asarray(p)
    if not numpy.isfinite(p).all():
        return "nan", "%s: non-finite populations %s" % (what, p.tolist())
    if abs(p.sum() - 1.0) > 1e-12:
        return "trace", "%s: populations sum to %r" % (what, float(p.sum()))
    if (p < 0).any() or (p > 1.0 + 1e-15).any():
        return "range", "%s: population outside [0,1]: %s" % (what, p.tolist())
    if numpy.abs(p[:start]).max(initial=0.0) != 0.0:
        return "block", "%s: population below the block start: %s" % (what, p.tolist())
    q = p[start:]
    ens = numpy.asarray(ens, dtype=float)
    if temp == 0.0:
        k = int(numpy.argmax(q))
        if q[k] != 1.0 or ens[k] > ens.min():
            return "zeroT", "%s: T = 0 populates state %d (energy %r) while the lowest energy is %r (state %d)" % (
                what, k + start, float(ens[k]), float(ens.min()), int(numpy.argmin(ens)) + start)
        return None
    kT = kB * temp
    scale = float(numpy.abs(ens).max()) + 1e-300
    for a in range(len(q)):
        for b in range(len(q)):
            if a != b and q[a] > 1e-280 and q[b] > 1e-280:
                lhs = math.log(q[a] / q[b])
                rhs = -(ens[a] - ens[b]) / kT
                tol = 1e-9 + 1e-9 * abs(rhs) + 8e-16 * scale / kT
                if abs(lhs - rhs) > tol:
                    return "ratio", "%s: ln(p_%d/p_%d) = %r but -(E_a-E_b)/kT = %r" % (what, a + start, b + start, lhs, rhs)
    k = int(numpy.argmin(ens))
    if q[k] < q.max() * (1 - 1e-9):
        return "ratio", "%s: the lowest state is not the most populated one" % what
    return None


def monitor_matrix(d, unit_trace, what):
    import numpy
    if not finite(d):
        return "nan", "%s: non-finite density matrix" % what
    sc = max(1.0, float(numpy.abs(d).max()))
    if numpy.abs(d - d.conj().T).max() > 1e-12 * sc:
        return "hermitian", "%s: not Hermitian (deviation %g)" % (what, numpy.abs(d - d.conj().T).max())
    ev = numpy.linalg.eigvalsh(0.5 * (d + d.conj().T))
    if ev.min() < -1e-12 * sc:
        return "psd", "%s: negative eigenvalue %g" % (what, ev.min())
    if unit_trace and abs(numpy.trace(d) - 1.0) > 1e-12:
        return "trace", "%s: trace %r" % (what, complex(numpy.trace(d)))
    return None


# ------------------------------------------------------------------ case runners
def run_pop(chk, c, items, meta):
    import numpy
    import quantarhei as qr
    from quantarhei.core.units import kB_intK
    from quantarhei.builders.opensystem import OpenSystem
    n = len(c["hd"])
    what = "OpenSystem.get_thermal_ReducedDensityMatrix" if c["os"] else "_thermal_population"
    sig = "opensystem" if c["os"] else "thermal_population"
    reset_manager()
    if not c["os"]:
        build_agg(TINY)
    reset_manager()
    with record_exp() as rec:
        try:
            if c["os"]:
                class Stub(OpenSystem):
                    def __init__(self, hd, T):
                        self.H = qr.Hamiltonian(data=numpy.diag(numpy.array(hd, dtype=float)))
                        self.T = T

                    def get_Hamiltonian(self):
                        return self.H

                    def get_temperature(self):
                        return self.T
                rdm = Stub(c["hd"], c["temp"]).get_thermal_ReducedDensityMatrix()
                mat = numpy.array(rdm.data)
            else:
                agg = build_agg(TINY)
                sub = None if c["sub"] is None else numpy.array(c["sub"], dtype=float)
                mat = agg._thermal_population(c["temp"], subtract=sub,
                                              relaxation_hamiltonian=numpy.diag(numpy.array(c["hd"], dtype=float)).astype(complex),
                                              start=c["start"])
            exc = None
        except Exception as e:
            mat, exc = None, repr(e)[:200]
    xs, ys = rec.flat()
    msg = oracle_monitor(xs, ys)
    if msg:
        chk.violation("oracle:exp", msg, "monitor", c)
    sub = [0.0] * n if (c["sub"] is None or c["os"]) else c["sub"]
    start = c["start"]
    ens_f = [c["hd"][start + i] - sub[i] for i in range(n - start)]
    out = None
    if mat is None:
        chk.violation(sig + ":exception", "%s raised %s for temperature %r K, energies %r" % (what, exc, c["temp"], ens_f), "monitor", c)
    else:
        offd = mat - numpy.diag(numpy.diag(mat))
        if not finite(mat):
            chk.violation(sig + ":nan", "%s returned non-finite data for temperature %r K, energies %r" % (what, c["temp"], ens_f), "monitor", c)
        elif numpy.abs(offd).max() != 0.0 or numpy.abs(numpy.diag(mat).imag).max() != 0.0:
            chk.violation(sig + ":offdiagonal", "%s returned a non-diagonal or complex matrix" % what, "monitor", c)
        else:
            out = numpy.diag(mat).real
            zero_t = (abs(c["temp"]) < 1e-10) if c["os"] else (c["temp"] == 0.0)
            m = monitor_populations(out, ens_f, start, 0.0 if zero_t else c["temp"], kB_intK, what)
            if m:
                chk.violation(sig + ":" + m[0], m[1], "monitor", c)
    # correspondence
    ens_x = [fr(c["hd"][start + i]) - fr(sub[i]) for i in range(n - start)]
    zero_t = (abs(c["temp"]) < 1e-10) if c["os"] else (c["temp"] == 0.0)
    if zero_t:
        tab = "[]"
    else:
        tab = table_lit(exact_args(ens_x, fr(kB_intK) * fr(c["temp"])), xs, ys)
    if tab is None:
        if out is not None:
            chk.violation("correspondence:" + sig + ":oracle_calls", "%s: numpy.exp was not called once per state of the block "
                          "(%d values for %d states)" % (what, len(ys), n - start), "correspondence", c, found_input=False)
    else:
        lit = "(%d%%nat, %s, %s, %s, %s, %d%%nat, %s, %s)" % (
            c["os"], cm.qlit(kB_intK), cm.qlit(c["temp"]), qlist(c["hd"]), qlist(sub), start, tab,
            "None" if out is None else "Some %s" % qlist(out))
        items.append(lit)
        meta.append(c)
    chk.count("pop:" + ("opensystem" if c["os"] else "aggregate"))
    chk.count("T=0" if c["temp"] == 0.0 else ("T<25K" if c["temp"] < 25 else "T>=25K"))
    chk.case(c, n - start >= 2, sample={"case": c, "populations": None if out is None else out.tolist()})


TINY = {"mols": [{"e": [0.0, 12000.0], "dip": [1.0, 0.0, 0.0], "reorg": 30.0}, {"e": [0.0, 12200.0], "dip": [0.0, 1.0, 0.0], "reorg": 30.0}],
        "coup": [[0, 1, 100.0]], "mode": None, "mult": 1, "seed": 1}

_REF = {}


def run_dm(chk, c, items, meta):
    import numpy
    from quantarhei.core.units import kB_intK
    agg = build_agg(c["sys"])
    obs = request(agg, c, True)
    n, start = obs["n"], obs["start"]
    req, what = c["req"], "get_DensityMatrix(%s) in context %s at %r K" % (c["req"], c["ctx"], c["temp"])
    sig = "get_DensityMatrix:%s:%s" % (req, "outside" if c["ctx"] == "none" else "inside")
    chk.count("dm:%s" % req)
    chk.count("ctx:%s" % c["ctx"])
    chk.count("T=0" if c["temp"] == 0.0 else ("T<25K" if c["temp"] < 25 else "T>=25K"))
    chk.count("modes" if c["sys"]["mode"] else "no modes")
    xs, ys = obs["exp"]
    msg = oracle_monitor(xs, ys)
    if msg:
        chk.violation("oracle:exp", msg, "monitor", c)
    S, S1, U, U1 = obs["S"], obs["S1"], obs["U"], obs["U1"]
    # eigh oracle: orthogonal transformation, diagonal ascending inside the context
    if numpy.abs(numpy.dot(S, S.T) - numpy.eye(n)).max() > 1e-10 or numpy.abs(numpy.dot(U, U.T) - numpy.eye(n)).max() > 1e-10:
        chk.violation("oracle:eigh", "%s: transformation matrix from eigh is not orthogonal" % what, "monitor", c)
    hexc = obs["hexc"]
    if (numpy.diff(hexc) < -1e-12).any():
        chk.violation("oracle:eigh", "%s: eigenvalues inside eigenbasis_of(H) are not ascending" % what, "monitor", c)
    data, site = obs["data"], obs["site"]
    if data is None:
        chk.violation(sig + ":exception", "%s raised %s" % (what, obs["exc"]), "monitor", c)
    else:
        m = monitor_matrix(data, req != "impulsive", what)
        if m is None and site is not None:
            m = monitor_matrix(site, req != "impulsive", what + " (after leaving the context)")
        if m:
            chk.violation(sig + ":" + m[0], m[1], "monitor", c)
            data_ok = m[0] not in ("nan",)
        else:
            data_ok = True
        if data_ok and req in ("weak", "strong", "thermal"):
            # populations in the defining basis
            if req == "weak":
                W = numpy.dot(S, U)
                dd = numpy.dot(numpy.linalg.inv(W), numpy.dot(site, W))
                ens = hexc[start:]
                st = start
            elif req == "strong":
                dd = site
                Hs = numpy.dot(S, numpy.dot(obs["Hcur"], S1))
                re = reorg_list(agg, n, start)
                ens = numpy.real(numpy.diag(Hs))[start:] - re
                st = start
            else:
                dd = data
                ens = numpy.real(numpy.diag(obs["Hcur"]))
                st = 0
            offd = dd - numpy.diag(numpy.diag(dd))
            if numpy.abs(offd).max() > 1e-10:
                chk.violation(sig + ":defining_basis", "%s: the state is not diagonal in its defining basis (max off-diagonal %g)"
                              % (what, numpy.abs(offd).max()), "monitor", c)
            else:
                p = numpy.real(numpy.diag(dd)).copy()
                if req == "thermal" or (req == "strong" and c["ctx"] == "none"):
                    m = monitor_populations(p, ens, st, c["temp"], kB_intK, what)
                else:
                    m = monitor_transformed_populations(p, ens, st, c["temp"], kB_intK, what)
                if m:
                    chk.violation(sig + ":" + m[0], m[1], "monitor", c)
        if data_ok and req in ("weak", "strong") and c["ctx"] != "none":
            key = (json.dumps(c["sys"], sort_keys=True), req, c["temp"])
            if key not in _REF:
                c0 = dict(c)
                c0["ctx"] = "none"
                _REF[key] = request(agg, c0, False)["site"]
            ref = _REF[key]
            if ref is not None and finite(ref):
                dev = float(numpy.abs(ref - site).max())
                if dev > 1e-9:
                    chk.violation("get_DensityMatrix:%s:context_dependent" % req,
                                  "%s: the state differs from the one requested outside any context by %g (site basis)" % (what, dev),
                                  "monitor", c)
    # ---- correspondence
    if c["ctx"] != "none" and n <= 5 and len(BP_ITEMS) < BP_MAX[0]:
        # the accumulated transformation handed to the model below is Model.C14.basis_product of the run's own stack of transformations
        BP_ITEMS.append("(%d%%nat, %s, %s)" % (n, cm.clist([qmatl(Z) for Z in obs["Zs"]]), qmatl(S)))
        BP_META.append(c)
        chk.count("bp:contexts=%d" % len(obs["Zs"]))
    re = reorg_list(agg, n, start)
    kT = None if c["temp"] == 0.0 else fr(kB_intK) * fr(c["temp"])
    if kT is None:
        tab = "[]"
    else:
        if req in ("thermal", "impulsive"):
            ens_x = [fr(obs["Hcur"][i, i]) for i in range(n)]
        elif req == "weak":
            mn = min(fr(x) for x in hexc[start:])
            ens_x = [fr(hexc[i]) - mn for i in range(start, n)]
        else:
            Sx = [[fr(x) for x in row] for row in S]
            S1x = [[fr(x) for x in row] for row in S1]
            Hx = [[fr(x) for x in row] for row in obs["Hcur"]]
            ens_x = []
            for i in range(start, n):
                hs = sum(Sx[i][k] * sum(Hx[k][l] * S1x[l][i] for l in range(n)) for k in range(n))
                ens_x.append(hs - fr(re[i - start]))
        tab = table_lit(exact_args(ens_x, kT), xs, ys)
    if not (c["ctx"] == "none" or n <= 5):
        # exact rational evaluation of dense basis transformations costs seconds per case above n = 5 (bit-list
        # arithmetic of vm_compute): larger systems inside contexts are covered by the monitors only
        chk.count("dm:monitors_only")
    elif tab is None:
        if data is not None and finite(data):
            chk.violation("correspondence:get_DensityMatrix:oracle_calls", "%s: numpy.exp was not called once per state of the block"
                          % what, "correspondence", c, found_input=False)
    else:
        out = "None"
        if data is not None and finite(data) and float(numpy.abs(numpy.imag(data)).max()) <= 1e-13:
            out = "Some %s" % qmatl(numpy.real(data))
        rq = {"thermal": "Thermal", "weak": "Weak", "strong": "Strong", "impulsive": "Impulsive"}[req]
        lit = "(mkCase %s %d%%nat %d%%nat %s %s %s %s %s %s %s %s %s %s %s, %s)" % (
            rq, n, start, cm.qlit(kB_intK), cm.qlit(c["temp"]), qmatl(obs["Hcur"]), qlist(hexc), qlist(re),
            qmatl(S), qmatl(S1), qmatl(U), qmatl(U1), qmatl(obs["X"]), tab, out)
        items.append(lit)
        meta.append(c)
    chk.case(c, True, sample={"case": {k: v for k, v in c.items() if k != "sys"}, "n": n,
                              "diag": None if data is None else numpy.real(numpy.diag(data)).round(6).tolist()})


def monitor_transformed_populations(p, ens, start, temp, kB, what):
    """populations recovered through a basis transformation: absolute accuracy ~1e-12 only"""
    import numpy
    if abs(p.sum() - 1.0) > 1e-10:
        return "trace", "%s: populations in the defining basis sum to %r" % (what, float(p.sum()))
    if numpy.abs(p[:start]).max(initial=0.0) > 1e-10 or (p < -1e-10).any():
        return "range", "%s: populations in the defining basis: %s" % (what, p.tolist())
    q = p[start:]
    ens = numpy.asarray(ens, dtype=float)
    if temp == 0.0:
        k = int(numpy.argmax(q))
        if abs(q[k] - 1.0) > 1e-10 or ens[k] > ens.min() + 1e-12:
            return "zeroT", "%s: T = 0 populates state %d while the lowest one is %d" % (what, k + start, int(numpy.argmin(ens)) + start)
        return None
    w = numpy.exp(-(ens - ens.min()) / (kB * temp))
    w = w / w.sum()
    tol = 1e-9 + 1e-14 * float(numpy.abs(ens).max()) / (kB * temp)
    if numpy.abs(w - q).max() > tol:
        return "ratio", "%s: populations in the defining basis %s differ from the Boltzmann populations %s" % (what, q.tolist(), w.tolist())
    return None


def reorg_list(agg, n, start):
    import numpy
    re = numpy.zeros(n - start)
    decl = getattr(agg, "_verif_declared_reorg", None)
    for i in range(int(agg.Nb[1])):
        site = int(agg.elinds[start + i]) - 1
        re[i] = decl[site] if decl is not None else agg.sbi.get_reorganization_energy(site)
    return re


def build_mol(c):
    import quantarhei as qr
    ta = time_axis()
    with qr.energy_units("1/cm"):
        mol = qr.Molecule(list(c["e"]))
        for k in range(1, len(c["e"])):
            mol.set_dipole(0, k, [x / k for x in c["dip"]])
        if c["temp"] is not None:
            cf = qr.CorrelationFunction(ta, dict(ftype="OverdampedBrownian", reorg=30.0, cortime=100.0, T=c["temp"]))
            mol.set_transition_environment((0, 1), cf)
        if c["mode"] is not None:
            md = qr.Mode(frequency=c["mode"]["freq"])
            mol.add_Mode(md)
            for k in range(len(c["e"])):
                md.set_nmax(k, c["mode"]["nmax"])
            md.set_HR(1, c["mode"]["hr"])
            if c["mode"].get("shift0"):
                md.set_shift(0, c["mode"]["shift0"])
    return mol


def mol_request(c, ctx, observe):
    """Molecule.get_thermal_ReducedDensityMatrix requested in the basis context ctx (fresh molecule)"""
    import numpy
    import quantarhei as qr
    reset_manager()
    mol = build_mol(c)
    H = mol.get_Hamiltonian()
    n = H.dim
    Hsite = numpy.array(H.data, dtype=float).copy()
    ops = {"H": H, "X": None}
    if "X" in ctx:
        rs = numpy.random.RandomState(c.get("seed", 1))
        a = rs.randn(n, n)
        ops["X"] = qr.Hamiltonian(data=a + a.T)
    obs = {"n": n, "Hsite": Hsite, "T": mol.get_temperature()}
    with contextlib.ExitStack() as st:
        for ch in (ctx if ctx != "none" else ""):
            st.enter_context(qr.eigenbasis_of(ops[ch]))
        if observe:
            obs["Hcur"] = numpy.array(H.data, dtype=float).copy()
            obs["U"] = numpy.array(H.get_diagonalization_matrix(), dtype=float)
            obs["U1"] = numpy.linalg.inv(obs["U"])
            with qr.eigenbasis_of(H):
                obs["hexc"] = numpy.real(numpy.diag(H.data)).copy()
        with record_exp() as rec:
            try:
                rho = mol.get_thermal_ReducedDensityMatrix()
                obs["data"] = numpy.array(rho.data).copy()
                obs["exc"] = None
            except Exception as e:
                rho, obs["data"], obs["exc"] = None, None, repr(e)[:200]
        obs["exp"] = rec.flat()
    obs["site"] = None if rho is None else numpy.array(rho.data).copy()
    obs["mol"] = mol
    reset_manager()
    return obs


def run_mol(chk, c, items, meta):
    import numpy
    from quantarhei.core.units import kB_intK
    ctx = c.get("ctx", "none")
    obs = mol_request(c, ctx, True)
    n, T, mol = obs["n"], obs["T"], obs["mol"]
    what = "Molecule.get_thermal_ReducedDensityMatrix at %r K in context %s" % (c["temp"], ctx)
    chk.count("mol")
    chk.count("mol:ctx:" + ctx)
    chk.count("mol:T=0" if abs(T) < 1e-10 else "mol:T>0")
    if c["mode"] is not None and c["mode"].get("shift0"):
        chk.count("mol:displaced_ground_state")
    xs, ys = obs["exp"]
    msg = oracle_monitor(xs, ys)
    if msg:
        chk.violation("oracle:exp", msg, "monitor", c)
    d, site = obs["data"], obs["site"]
    if d is None:
        chk.violation("molecule:exception", "%s raised %s" % (what, obs["exc"]), "monitor", c)
        chk.case(c, False)
        return
    m = monitor_matrix(d, True, what) or monitor_matrix(site, True, what + " (after leaving the context)")
    if m:
        chk.violation("molecule:" + m[0], m[1], "monitor", c)
    else:
        # in the site basis: diagonal in the eigenbasis of H with Boltzmann populations; at T = 0 the lowest eigenstate
        w, V = numpy.linalg.eigh(obs["Hsite"])
        dd = numpy.dot(V.T, numpy.dot(site, V))
        if abs(T) < 1e-10 and len(w) > 1 and w[1] - w[0] > 1e-9:
            pg = float(numpy.real(dd[0, 0]))
            dev = float(numpy.abs(site - numpy.outer(V[:, 0], V[:, 0])).max())
            if dev > 1e-9:
                chk.violation("molecule:zeroT", "%s: the T = 0 state is not the lowest eigenstate of the Hamiltonian (deviation %g, "
                              "population of the lowest eigenstate %g)" % (what, dev, pg), "monitor", c)
        elif numpy.abs(dd - numpy.diag(numpy.diag(dd))).max() > 1e-10:
            chk.violation("molecule:defining_basis", "%s: not diagonal in the eigenbasis of the Hamiltonian" % what, "monitor", c)
        else:
            mm = monitor_transformed_populations(numpy.real(numpy.diag(dd)), w, 0, 0.0 if abs(T) < 1e-10 else T, kB_intK, what)
            if mm:
                chk.violation("molecule:" + mm[0], mm[1], "monitor", c)
        if ctx != "none":
            ref = mol_request(c, "none", False)["site"]
            if ref is not None and finite(ref):
                dev = float(numpy.abs(ref - site).max())
                if dev > 1e-9:
                    chk.violation("molecule:context_dependent", "%s: the state differs from the one requested outside any context by %g "
                                  "(site basis)" % (what, dev), "monitor", c)
    # ---- correspondence (Model.C14 request OpenSys); dense transformations above n = 6 are covered by the monitors only
    if n <= 6 and finite(d) and float(numpy.abs(numpy.imag(d)).max()) <= 1e-13:
        hexc = obs["hexc"]
        if abs(T) < 1e-10:
            tab = "[]"
        else:
            tab = table_lit(exact_args([fr(x) for x in hexc], fr(kB_intK) * fr(T)), xs, ys)
        if tab is None:
            chk.violation("correspondence:molecule:oracle_calls", "%s: numpy.exp was not called once per state" % what,
                          "correspondence", c, found_input=False)
        else:
            eye = numpy.eye(n)
            lit = "(mkCase OpenSys %d%%nat 0%%nat %s %s %s %s %s %s %s %s %s %s %s, Some %s)" % (
                n, cm.qlit(kB_intK), cm.qlit(T), qmatl(obs["Hcur"]), qlist(hexc), qlist([0.0] * n),
                qmatl(eye), qmatl(eye), qmatl(obs["U"]), qmatl(obs["U1"]), qmatl(numpy.zeros((n, n))), tab, qmatl(numpy.real(d)))
            items.append(lit)
            cc = dict(c)
            cc["req"] = "molecule"
            meta.append(cc)
    try:
        ri = mol.get_excited_density_matrix(condition="delta")
        m = monitor_matrix(numpy.array(ri.data), False, "Molecule.get_excited_density_matrix(delta) at %r K" % (c["temp"],))
        if m:
            chk.violation("molecule_excited:" + m[0], m[1], "monitor", c)
    except Exception as e:
        chk.violation("molecule_excited:exception", "get_excited_density_matrix raised %r" % (e,), "monitor", c)
    chk.case(c, True)


def run_agg_rdm(chk, c):
    """Aggregate.get_thermal_ReducedDensityMatrix (OpenSystem) - temperature of the bath is fixed at 300 K in build_agg, so
    the low-temperature region is reached through the stub of run_pop; here: validity on real aggregates"""
    import numpy
    from quantarhei.core.units import kB_intK
    agg = build_agg(c["sys"])
    reset_manager()
    what = "Aggregate.get_thermal_ReducedDensityMatrix"
    chk.count("agg_rdm")
    try:
        d = numpy.array(agg.get_thermal_ReducedDensityMatrix().data)
    except Exception as e:
        chk.violation("aggregate_rdm:exception", "%s raised %r" % (what, e), "monitor", c)
        chk.case(c, False)
        return
    m = monitor_matrix(d, True, what)
    if m:
        chk.violation("aggregate_rdm:" + m[0], m[1], "monitor", c)
    chk.case(c, True)


# ------------------------------------------------------------------ run
BP_ITEMS, BP_META, BP_MAX = [], [], [40]


def run(chk, cases):
    pop_items, pop_meta, dm_items, dm_meta = [], [], [], []
    BP_MAX[0] = 40 if chk.tier == "quick" else 200
    import time
    tk = {}
    for c in cases:
        t1 = time.time()
        try:
            if c["kind"] == "pop":
                run_pop(chk, c, pop_items, pop_meta)
            elif c["kind"] == "dm":
                run_dm(chk, c, dm_items, dm_meta)
            elif c["kind"] == "mol":
                run_mol(chk, c, dm_items, dm_meta)
            elif c["kind"] == "agg_rdm":
                run_agg_rdm(chk, c)
        except Exception as e:
            import traceback
            chk.violation("%s:harness_exception" % c["kind"], "case raised %r: %s" % (e, traceback.format_exc()[-400:]), "monitor", c)
            chk.case(c, False)
        finally:
            reset_manager()
            tk[c["kind"]] = tk.get(c["kind"], 0.0) + time.time() - t1
    chk.notes.append("implementation time per kind (s): %s" % {k: round(v, 1) for k, v in tk.items()})
    shards, index = [], []
    CP = 120
    for k in range(0, len(pop_items), CP):
        shards.append(cm.HEADER + "From QV Require Import Base.Alg Base.Util Model.C14.\nOpen Scope Q_scope.\n"
                      "Definition cs : list popcase := %s.\nEval vm_compute in (bad (pop_agrees (Qmake 1 1000000000000)) cs).\n"
                      % cm.clist(pop_items[k:k + CP]))
        index.append(("pop", k, CP))
    CD = 4
    for k in range(0, len(dm_items), CD):
        shards.append(cm.HEADER + "From QV Require Import Base.Alg Base.Util Model.C14.\nOpen Scope Q_scope.\n"
                      "Definition cs : list (dmcase * option (list (list Q))) := %s.\n"
                      "Eval vm_compute in (bad (dm_agrees (Qmake 1 10000000000)) cs).\n" % cm.clist(dm_items[k:k + CD]))
        index.append(("dm", k, CD))
    CB = 10
    for k in range(0, len(BP_ITEMS), CB):
        shards.append(cm.HEADER + "From QV Require Import Base.Alg Base.Util Model.C14.\nOpen Scope Q_scope.\n"
                      "Definition cs : list case_bp := %s.\nEval vm_compute in (bad (bp_agrees (Qmake 1 1000000000000)) cs).\n"
                      % cm.clist(BP_ITEMS[k:k + CB]))
        index.append(("bp", k, CB))
    import time
    t0 = time.time()
    results = cm.coq_eval(PID, shards)
    chk.notes.append("coq evaluation of %d shards: %.1f s" % (len(shards), time.time() - t0))
    for (kind, k, ch), (rc, out) in zip(index, results):
        meta = pop_meta if kind == "pop" else (BP_META if kind == "bp" else dm_meta)
        if rc != 0:
            chk.violation("correspondence:coq_error", "coqc failed on %s cases: %s" % (kind, out[-600:]), "correspondence",
                          {"kind": kind}, found_input=False)
            continue
        vals = cm.parse_evals(out)
        badl = cm.parse_natlist(vals[0])
        nn = min(ch, len(meta) - k)
        chk.corr["cases"] += nn
        chk.corr["disagreements"] += len(badl)
        for i in badl[:3]:
            cc = meta[k + i]
            sig = "correspondence:" + ("thermal_population" if kind == "pop" else
                                       ("accumulated_basis_transformation" if kind == "bp" else "get_DensityMatrix:" + cc["req"]))
            chk.violation(sig, "implementation differs from Model.C14 (repaired variants) on %s" % json.dumps(cc)[:700],
                          "correspondence", cc, found_input=False)


CORPUS = [
    # underflow below ~23 K: optical energies, no shift in the pinned code
    {"kind": "pop", "os": 0, "hd": [0.0, 2.26, 2.30], "sub": None, "start": 1, "temp": 5.0},
    {"kind": "pop", "os": 1, "hd": [0.9, 3.1, 3.2], "sub": [], "start": 0, "temp": 10.0},
    # T = 0 with the lowest state not first
    {"kind": "pop", "os": 0, "hd": [0.0, 2.30, 2.26], "sub": None, "start": 1, "temp": 0.0},
    # T = 0 where the subtracted energies change which state is lowest (2.26 - 0 > 2.30 - 0.10)
    {"kind": "pop", "os": 0, "hd": [0.0, 2.26, 2.30], "sub": [0.0, 0.10], "start": 1, "temp": 0.0},
]


def corpus_dm():
    s = {"mols": [{"e": [0.0, 12300.0], "dip": [1.0, 0.0, 0.0], "reorg": 30.0},
                  {"e": [0.0, 12000.0], "dip": [1.0, 0.2, 0.0], "reorg": 60.0},
                  {"e": [0.0, 12100.0], "dip": [1.0, 0.4, 0.0], "reorg": 90.0}],
         "coup": [[0, 1, 100.0], [1, 2, -60.0]], "mode": None, "mult": 1, "seed": 7}
    sm = dict(s)
    sm["mode"] = {"mol": 0, "freq": 300.0, "hr": 0.1, "nmax": 2}
    su = json.loads(json.dumps(sm))
    su["mode"]["nmax1"] = 3                 # one-exciton blocks of 3, 2, 2 levels
    sg = dict(s)
    sg["mols"] = [{"e": [5000.0, 17300.0], "dip": [1.0, 0.0, 0.0], "reorg": 30.0}] + s["mols"][1:]
    out = []
    for (sy, T, rq, cx) in [(s, 5.0, "strong", "none"), (s, 0.0, "strong", "none"), (s, 300.0, "weak", "none"),
                            (s, 300.0, "weak", "H"), (s, 300.0, "strong", "H"), (s, 300.0, "weak", "X"),
                            (sm, 77.0, "strong", "none"), (su, 77.0, "strong", "none"), (su, 300.0, "strong", "none"), (sm, 300.0, "weak", "none"), (s, 300.0, "impulsive", "none"),
                            (sg, 5.0, "thermal", "none"), (s, 1.0, "weak", "H"), (s, 300.0, "strong", "XH")]:
        out.append({"kind": "dm", "sys": sy, "temp": T, "req": rq, "ctx": cx})
    out.append({"kind": "agg_rdm", "sys": sg})
    # exactly T = 0: displaced ground-state surface (lowest eigenstate is not basis state 0); request inside an unrelated context
    for (sh, cx) in [(0.4, "none"), (0.0, "X"), (0.4, "XH"), (0.0, "H")]:
        out.append({"kind": "mol", "e": [0.0, 10000.0], "mode": {"freq": 300.0, "hr": 0.3, "nmax": 2, "shift0": sh}, "temp": None,
                    "dip": [1.0, 0.0, 0.0], "ctx": cx, "seed": 7})
    return out


def complex_context_monitor(chk, tier):
    """the excited-state thermal states requested inside the eigenbasis of a COMPLEX Hermitian operator: read after the context (the
    object was created inside it and comes back to the site basis) they are the states requested outside any context.  Each case on
    a freshly built aggregate (objects read inside a complex basis keep rounding-size imaginary parts)."""
    import io
    import numpy
    import quantarhei as qr
    r = cm.rng(PID + "cplx")
    for k in range(4 if tier == "quick" else 24):
        reset_manager()
        s = gen_sys(r)
        s["mode"], s["mult"] = None, 1
        s["seed"] = int(s["seed"]) + 17 * (k + 1)          # a key of its own in the cache of built aggregates
        req = ["strong", "weak"][k % 2]
        T = [300.0, 77.0, 5.0][k % 3]
        c = {"kind": "complex_context", "sys": s, "req": req, "temp": T}
        try:
            with contextlib.redirect_stdout(io.StringIO()):
                agg = build_agg(s)
                n = agg.get_Hamiltonian().dim
                ct, lim = REQ[req]
                ref = numpy.array(agg.get_DensityMatrix(condition_type=ct, relaxation_theory_limit=lim, temperature=T).data).copy()
                rs = numpy.random.RandomState(s["seed"] % (2 ** 31))
                a = rs.randn(n, n) + 1j * rs.randn(n, n)
                K = qr.qm.hilbertspace.operators.SelfAdjointOperator(data=a + a.conj().T)
                with qr.eigenbasis_of(K):
                    rho = agg.get_DensityMatrix(condition_type=ct, relaxation_theory_limit=lim, temperature=T)
                got = numpy.array(rho.data)
            chk.count("complex_context:" + req)
            chk.case(("complex_context", k, req, T), True)
            dev = float(numpy.max(numpy.abs(got - ref)))
            if dev > 1e-9:
                chk.violation("complex_context:" + req, "get_DensityMatrix(%s) at %g K requested inside the eigenbasis of a complex Hermitian operator "
                              "and read after the context differs from the state requested outside by %.3g" % (req, T, dev), "monitor", c)
        except Exception as e:
            chk.violation("complex_context:exception", "complex-context monitor raised %r" % (e,), "monitor", c)


def main():
    chk = cm.Check(PID, args.tier)
    chk.rule = ("direct calls: blocks of 1-8 states, absolute energies 0..+-60000 1/cm, spreads 1..5000 1/cm, exact degeneracies, "
                "T in {0, 1e-6 .. 1e4 K}; aggregates: 2-4 molecules, optional ground-state energy offset, optional mode, one- or "
                "two-exciton band, requests thermal/weak/strong/impulsive x contexts none/H/X/XH/HX; molecules with 2-3 electronic states, optional "
                "mode with displaced ground-state surface, T = 0 exactly (no bath) or 0..2000 K, contexts none/X/H/XH. Non-trivial: block of >= 2 "
                "states (direct), every end-to-end case; distinct by canonical input")
    chk.assumptions = [
        "numpy.exp is an oracle: ex 0 = 1, 0 <= ex, monotone (monitored on every recorded call); it may underflow to 0",
        "numpy.linalg.eigh / inv are oracles: the transformation matrices of the run are handed to the model as data (orthogonality monitored, 1e-10)",
        "float arithmetic of the few operations per population is compared with exact rational arithmetic within 1e-12 (populations) / 1e-10 (matrix elements)",
        "temperatures: 0 and 1e-6 .. 1e4 K (kB*T must not itself underflow)",
        "strong coupling needs a bath (reorganisation energies); aggregates without system-bath interaction are not generated",
        "static tie: _thermal_population, get_DensityMatrix (selection logic), _impulsive_population and get_thermal_ReducedDensityMatrix are "
        "matched statement by statement against templates and their arithmetic content is translated (harness/translate_c14.py, skeleton "
        "lemmas in Proofs/C14gen.v); numpy.sum / argmin / amin / diag are read as qsum / first index of the minimum / minimum / diagonal "
        "matrix; the translator is trusted to read the ast faithfully"]
    chk.notes = ["Boltzmann-ratio monitor tolerance: 1e-9 relative + 8e-16*|E|max/kT (conditioning of the subtraction of large energies)"]
    chk.prove()
    import translate
    translate.static_tie(cm, chk, PID, cm.REPO)      # second, static tie: model regenerated from the current source
    if args.replay:
        rep = json.load(open(args.replay))
        cases = [rep["input"]] if isinstance(rep.get("input"), dict) and "kind" in rep["input"] else []
    else:
        r = cm.rng(PID)
        npop, nsys, per, nmol = (360, 14, 16, 60) if args.tier == "quick" else (3000, 60, 25, 500)
        cases = list(CORPUS) + corpus_dm()
        cases += [gen_pop(r, k) for k in range(npop)]
        dmc = gen_dm_cases(r, nsys, per)
        cases += dmc
        seen = set()
        for c in dmc:
            key = json.dumps(c["sys"], sort_keys=True)
            if key not in seen:
                seen.add(key)
                cases.append({"kind": "agg_rdm", "sys": c["sys"]})
        cases += [gen_mol(r, k) for k in range(nmol)]
    run(chk, cases)
    if not args.replay:
        complex_context_monitor(chk, args.tier)
    chk.finish()


main()
