# -*- coding: utf-8 -*-
"""C04 - basis-change contexts are transparent and self-restoring.

Proof: coq/theories/Props/C04.v (state machine over an abstract group action) and the per-class
action laws.  Tie: random programs (creating, reading, writing, protecting, applying managed objects,
entering/leaving nested eigenbasis_of contexts, exceptions at random points) run on the real
classes with data for which every transformation is exact (context operators are diagonal matrices
conjugated by signed permutations, so eigh returns signed permutation matrices); values read, the
final tag / protection / raw data of every object and the manager's stack and registration lists
are compared inside Coq with Model.C04.exec (integers, exact).
Monitors: bookkeeping restored after the outermost context; untouched objects back to their exact
original data; operator diagonal with ascending eigenvalues inside its context; traces unchanged;
current_basis_operator restored after a nested context; real symmetric / degenerate / complex
Hermitian context operators (1e-10).
"""
import os
import sys
import json

sys.path.insert(0, os.path.dirname(os.path.abspath(__file__)))
import common as cm

PID = "C04"
work = cm.reexec_isolated(PID)
args = cm.parse_args(sys.argv[1:])


class Marker(Exception):
    pass


# ------------------------------------------------------------------ generator
def signed_perm(r, n):
    p = list(range(n))
    r.shuffle(p)
    return p, [r.choice([1, -1]) for _ in range(n)]


def conj_diag(r, n):
    """P D P^T with distinct integer diagonal entries"""
    p, sg = signed_perm(r, n)
    d = r.sample(range(-6, 9), n)
    A = [[0] * n for _ in range(n)]
    for k in range(n):
        A[p[k]][p[k]] = d[k]
    return A


def rand_mat(r, n, herm=False):
    A = [[r.randint(-3, 3) for _ in range(n)] for _ in range(n)]
    if herm:
        A = [[A[i][j] + A[j][i] for j in range(n)] for i in range(n)]
    return A


def rand_tens(r, n):
    return [[[[r.choice([0, 0, 1, -1, 2]) for _ in range(n)] for _ in range(n)] for _ in range(n)] for _ in range(n)]


NT = 2      # time points of evolutions / time-dependent tensors
# object kinds: class under test -> shape of its data
#   op Operator, sa SelfAdjointOperator (context operators), sup SuperOperator                       (round 1)
#   ham Hamiltonian, rdm ReducedDensityMatrix, tdm TransitionDipoleMoment (n,n,3), rt RelaxationTensor (4 index),
#   rt5 RelaxationTensor (time,4 index), tdrt TDRedfieldRelaxationTensor (tensor form), dme DensityMatrixEvolution (time,n,n),
#   sve StateVectorEvolution (time,n)
MAT_KINDS = ("op", "sa", "ham", "rdm")
KIND_POOL = ["op", "op", "sa", "sup", "ham", "rdm", "tdm", "rt", "rt5", "tdrt", "dme", "sve"]
TOP_ONLY = ("dme", "sve")        # their constructors do not tag the object with the current basis: created outside contexts only


def rand_data(r, n, kind):
    if kind == "sa":
        return conj_diag(r, n)
    if kind in ("ham", "rdm"):
        return rand_mat(r, n, herm=True)
    if kind == "op":
        return rand_mat(r, n)
    if kind in ("sup", "rt"):
        return rand_tens(r, n)
    if kind in ("rt5", "tdrt"):
        return [rand_tens(r, n) for _ in range(NT)]
    if kind == "dme":
        return [rand_mat(r, n) for _ in range(NT)]
    if kind == "sve":
        return [[r.randint(-3, 3) for _ in range(n)] for _ in range(NT)]
    if kind == "tdm":
        comps = [rand_mat(r, n, herm=True) for _ in range(3)]
        return [[[comps[k][i][j] for k in range(3)] for j in range(n)] for i in range(n)]     # (n,n,3)
    raise ValueError(kind)


class Gen:
    def __init__(self, r, n):
        self.r, self.n = r, n
        self.kinds = {}        # label -> kind
        self.next = 0

    def new(self, kind):
        i = self.next
        self.next += 1
        self.kinds[i] = kind
        return ["new", i, kind, rand_data(self.r, self.n, kind)]

    def pick(self, kind=None):
        ids = [i for i, k in self.kinds.items() if kind is None or k == kind]
        return self.r.choice(ids) if ids else None

    def stmt(self, depth, nest):
        r = self.r
        u = r.random()
        if u < 0.14 or not self.kinds:
            k_ = r.choice(KIND_POOL)
            if nest > 0 and k_ in TOP_ONLY:
                k_ = "op"
            return self.new(k_)
        if u < 0.42:
            return ["read", self.pick()]
        if u < 0.50:
            i = self.pick()
            return ["write", i, rand_data(r, self.n, self.kinds[i])]
        if u < 0.56:
            return ["protect", self.pick(), r.random() < 0.6]
        if u < 0.66:
            sup, src = self.pick(r.choice(["sup", "sup", "rt"])), self.pick("op")
            if sup is None or src is None:
                return ["read", self.pick()]
            dst = self.next
            self.next += 1
            self.kinds[dst] = "op"
            return ["apply", sup, src, dst]
        if u < 0.86 and nest < 3 and depth > 0:
            opi = self.pick("sa")
            if opi is None:
                return self.new("sa")
            body = [["read", opi]] if r.random() < 0.6 else []
            # most contexts look at some existing objects right away (that is what a context is entered for)
            body += [["read", self.pick()] for _ in range(r.choice([0, 1, 2, 2]))]
            body += [self.stmt(depth - 1, nest + 1) for _ in range(r.randint(1, 4))]
            return ["with", opi, body]
        if u < 0.91:
            return ["raise"]
        if u < 0.96 and depth > 0:
            return ["try", [self.stmt(depth - 1, nest) for _ in range(r.randint(1, 3))]]
        return ["read", self.pick()]


def gen_case(r, k):
    n = r.choice([2, 3, 3, 3])
    g = Gen(r, n)
    prog = [g.new("sa"), g.new("op"), g.new("sup") if r.random() < 0.4 else g.new(r.choice(KIND_POOL[4:]))]
    if r.random() < 0.7:
        prog.append(g.new(r.choice(KIND_POOL[4:])))
    prog += [g.stmt(3, 0) for _ in range(r.randint(2, 8))]
    return {"n": n, "prog": prog}


# ------------------------------------------------------------------ implementation
class Runner:
    def __init__(self, n):
        import numpy
        import quantarhei as qr
        self.np, self.qr, self.n = numpy, qr, n
        self.m = qr.Manager()
        self.objs = {}
        self.kind_of = {}
        self.orig = {}         # label -> original data if never written/protected/applied-into
        self.reads = []
        self.S = {}            # id(with statement) -> (diagonaliser (oracle output), monitor read done?)
        self.problems = []

    def make(self, kind, arr):
        np, qr = self.np, self.qr
        if kind == "ham":
            return qr.Hamiltonian(data=arr)
        if kind == "rdm":
            return qr.ReducedDensityMatrix(data=arr)
        if kind == "tdm":
            from quantarhei.qm.hilbertspace.dmoment import TransitionDipoleMoment
            return TransitionDipoleMoment(data=arr)
        if kind in ("rt", "rt5"):
            from quantarhei.qm.liouvillespace.relaxationtensor import RelaxationTensor
            o = RelaxationTensor()
            o.dim = self.n
            o.data = arr
            return o
        if kind == "tdrt":
            from quantarhei.qm.liouvillespace.tdredfieldtensor import TDRedfieldRelaxationTensor
            o = TDRedfieldRelaxationTensor.__new__(TDRedfieldRelaxationTensor)
            o._initialize_basis()
            o.dim, o.as_operators, o.name, o.Nt = self.n, False, "", arr.shape[0]
            o._data_initialized = True
            o.data = arr
            return o
        ta = qr.TimeAxis(0.0, arr.shape[0], 1.0)
        if kind == "dme":
            from quantarhei.qm.propagators.dmevolution import DensityMatrixEvolution
            o = DensityMatrixEvolution(ta, qr.ReducedDensityMatrix(dim=self.n))
            o.data = arr
            return o
        if kind == "sve":
            from quantarhei.qm.propagators.statevectorevolution import StateVectorEvolution
            o = StateVectorEvolution(ta, qr.StateVector(data=arr[0].copy()))
            o.data = arr
            return o
        raise ValueError(kind)

    def label_of(self, o):
        for i, x in self.objs.items():
            if x is o:
                return i
        return -1

    def run(self, stmts):
        for s in stmts:
            self.step(s)

    def step(self, s):
        try:
            self.step_(s)
        except KeyError:
            raise Marker()          # statement refers to an object that was never created (its creation was skipped by an exception)

    def step_(self, s):
        np, qr = self.np, self.qr
        k = s[0]
        if k == "new":
            _, i, kind, data = s
            arr = np.array(data, dtype=complex if kind not in ("sa", "ham", "tdm") else float)
            if kind in ("ham", "rdm", "tdm", "rt", "rt5", "tdrt", "dme", "sve"):
                o = self.make(kind, arr)
            elif kind == "sa":
                o = qr.qm.SelfAdjointOperator(data=arr) if hasattr(qr.qm, "SelfAdjointOperator") else None
                if o is None:
                    from quantarhei.qm.hilbertspace.operators import SelfAdjointOperator
                    o = SelfAdjointOperator(data=arr)
            elif kind == "sup":
                from quantarhei.qm.liouvillespace.superoperator import SuperOperator
                o = SuperOperator(data=arr)
            else:
                from quantarhei.qm.hilbertspace.operators import Operator
                o = Operator(data=arr)
            self.objs[i] = o
            self.kind_of[i] = kind
            if self.m.get_current_basis() == 0:
                self.orig[i] = np.array(data, dtype=complex)
        elif k == "read":
            o = self.objs[s[1]]
            v = np.array(o.data)
            self.reads.append((s[1], v))
            if s[1] in self.orig and v.ndim == 2 and self.kind_of.get(s[1]) in MAT_KINDS and not o.is_basis_protected:
                if abs(np.trace(v) - np.trace(self.orig[s[1]])) > 1e-12:
                    self.problems.append(("trace", "trace of object %d read inside a context differs from outside" % s[1]))
        elif k == "write":
            self.orig.pop(s[1], None)
            self.objs[s[1]].data = np.array(s[2], dtype=float if self.kind_of.get(s[1]) in ("sa", "ham", "tdm") else complex)
        elif k == "protect":
            self.orig.pop(s[1], None)
            if s[2]:
                self.objs[s[1]].protect_basis()
            else:
                self.objs[s[1]].unprotect_basis()
        elif k == "apply":
            _, sup, src, dst = s
            self.objs[dst] = self.objs[sup].apply(self.objs[src])
            self.kind_of[dst] = 'op'
        elif k == "with":
            _, opi, body = s
            op = self.objs[opi]
            outer_bo = self.m.current_basis_operator
            ctx = qr.eigenbasis_of(op)
            try:
              with ctx:
                # the two fields Model/C04.v does not carry (Proofs/C04gen.v: Flag, cbo): inside, the flag is set and the
                # operator of the context is the current one
                if not self.m._in_eigenbasis_of_context or self.m.current_basis_operator is not op:
                    self.problems.append(("context_fields_inside", "inside a context _in_eigenbasis_of_context is %r and "
                                          "current_basis_operator is %s the operator of the context"
                                          % (self.m._in_eigenbasis_of_context, "" if self.m.current_basis_operator is op else "not")))
                SS = np.array(self.m.basis_transformations[-1])
                self.S[id(s)] = [SS, False]
                if not np.array_equal(np.abs(SS), np.round(np.abs(SS))) or not np.array_equal(np.abs(SS).sum(axis=0), np.ones(self.n)):
                    raise AssertionError("diagonaliser is not an exact signed permutation")
                if not op.is_basis_protected:
                    # the oracle's contract, which is also the first clause of the property: inside its context the
                    # operator is diagonal with ascending eigenvalues
                    dd = np.array(op.data)
                    self.S[id(s)][1] = True            # this read is part of the program the model runs (PRead below)
                    self.reads.append((opi, dd))
                    if np.max(np.abs(dd - np.diag(np.diag(dd)))) > 1e-12 or np.any(np.diff(np.real(np.diag(dd))) < -1e-12):
                        self.problems.append(("not_diagonal_ascending", "inside its own context operator %d is not diagonal with "
                                              "ascending eigenvalues: diagonal %s" % (opi, np.real(np.diag(dd)).tolist())))
                self.run(body)
            finally:
                # ... and put back when the context is left, normally or by an exception
                if self.m.current_basis_operator is not outer_bo:
                    self.problems.append(("current_basis_operator", "after leaving a context current_basis_operator is %r, "
                                          "not the operator of the enclosing context" % (self.m.current_basis_operator,)))
                if bool(self.m._in_eigenbasis_of_context) != (self.m.get_current_basis() != 0):
                    self.problems.append(("context_flag", "after leaving a context _in_eigenbasis_of_context is %r at basis %d"
                                          % (self.m._in_eigenbasis_of_context, self.m.get_current_basis())))
        elif k == "raise":
            raise Marker()
        elif k == "try":
            try:
                self.run(s[1])
            except Marker:
                pass
            except Exception as e:
                if "not on stack" in str(e):
                    pass
                else:
                    raise


def ints(a):
    import numpy
    a = numpy.asarray(a)
    if numpy.max(numpy.abs(a.imag)) != 0 or not numpy.array_equal(a.real, numpy.round(a.real)):
        raise ValueError("non-integer data")
    return a.real.astype(int)


def zl(a):
    """nested Coq list of Z literals of an integer array of any rank"""
    if a.ndim == 1:
        return cm.clist([cm.zlit(x) for x in a])
    return cm.clist([zl(x) for x in a])


def shape_of(kind, a):
    """(constructor suffix, array arranged as the model wants it)"""
    import numpy
    if kind == "tdm":
        return "ML", numpy.transpose(a, (2, 0, 1))        # three components, each an (n,n) matrix
    if kind == "dme":
        return "ML", a
    if kind == "sve":
        return "VL", a
    if kind in ("rt5", "tdrt"):
        return "TL", a
    return ("M" if a.ndim == 2 else "T"), a


def obs_lit(a, kind=None):
    tag, a = shape_of(kind, ints(a))
    return "(O%s %s)" % (tag, zl(a))


def x_lit(kind, data):
    import numpy
    tag, a = shape_of(kind, numpy.array(data))
    if tag == "M":
        return "(XM (mat_of (R:=ZR) %s))" % zl(a)
    if tag == "T":
        return "(XT (tens_of (R:=ZR) %s))" % zl(a)
    if tag == "ML":
        return "(XML %s)" % cm.clist(["(mat_of (R:=ZR) %s)" % zl(m_) for m_ in a])
    if tag == "TL":
        return "(XTL %s)" % cm.clist(["(tens_of (R:=ZR) %s)" % zl(t_) for t_ in a])
    return "(XVL %s)" % cm.clist(["(vec_of (R:=ZR) %s)" % zl(v_) for v_ in a])


def coq_prog(stmts, Sq, variant, kinds):
    """translates a statement list; Sq is the queue of observed diagonalisers (consumed in enter order)"""
    out = "PSkip _ _"
    parts = []
    for s in stmts:
        k = s[0]
        if k == "new":
            parts.append("PNew _ _ %d%%nat %s" % (s[1], x_lit(s[2], s[3])))
        elif k == "read":
            parts.append("PRead _ _ %d%%nat" % s[1])
        elif k == "write":
            parts.append("PWrite _ _ %d%%nat %s" % (s[1], x_lit(kinds.get(s[1]), s[2])))
        elif k == "protect":
            parts.append("PProtect _ _ %d%%nat %s" % (s[1], "true" if s[2] else "false"))
        elif k == "apply":
            parts.append("PApply _ _ %s %d%%nat %d%%nat %d%%nat" % (variant, s[1], s[2], s[3]))
        elif k == "with":
            if id(s) in Sq:
                S, monitored = Sq[id(s)]
                smat = "(mat_of (R:=ZR) %s)" % cm.clist([cm.clist([cm.zlit(int(x)) for x in row]) for row in S])
            else:
                smat, monitored = "(@mid ZR)", False       # never entered in the implementation (an exception came first)
            body = coq_prog(s[2], Sq, variant, kinds)
            if monitored:
                body = "(PSeq _ _ (PRead _ _ %d%%nat) %s)" % (s[1], body)
            parts.append("PWith _ _ %d%%nat %s %s" % (s[1], smat, body))
        elif k == "raise":
            parts.append("PRaise _ _")
        elif k == "try":
            parts.append("PTry _ _ %s" % coq_prog(s[1], Sq, variant, kinds))
    for p in reversed(parts):
        out = "(PSeq _ _ (%s) %s)" % (p, out) if out != "PSkip _ _" else "(%s)" % p
    return out


def kinds_of_prog(stmts, acc=None):
    """label -> kind over the whole program text (labels are never re-used for another kind; apply results are operators)"""
    acc = {} if acc is None else acc
    for s in stmts:
        if s[0] == "new":
            acc[s[1]] = s[2]
        elif s[0] == "apply":
            acc.setdefault(s[3], "op")
        elif s[0] == "with":
            kinds_of_prog(s[2], acc)
        elif s[0] == "try":
            kinds_of_prog(s[1], acc)
    return acc


def reset_manager():
    import quantarhei as qr
    m = qr.Manager()
    m.basis_stack = [0]
    m.basis_transformations = [1]
    m.basis_registered = {}
    m._in_eigenbasis_of_context = False
    m.current_basis_operator = None


def run(chk, cases):
    import numpy as np
    import quantarhei as qr
    m = qr.Manager()
    items, meta = [], []
    for c in cases:
        reset_manager()
        rn = Runner(c["n"])
        raised = False
        try:
            rn.run(c["prog"])
        except Marker:
            raised = True
        except AssertionError as e:
            chk.count("skipped:" + str(e)[:40])
            continue
        except Exception as e:
            if "not on stack" in str(e):
                raised = True
                rn.problems.append(("stale_tag", "reading an object raised '%s'" % e))
            else:
                chk.violation("program:exception", "program raised %r" % (e,), "monitor", c)
                chk.case(json.dumps(c), False)
                continue
        # ---- monitors: the property itself ----
        state = (list(m.basis_stack), len(m.basis_transformations), dict(m.basis_registered), m._in_eigenbasis_of_context)
        if state != ([0], 1, {}, False):
            rn.problems.append(("bookkeeping", "after the outermost context the manager is stack=%r, %d transformations, registered=%r, "
                                "in_context=%r" % (state[0], state[1], {k: len(v) for k, v in state[2].items()}, state[3])))
        for i, orig in rn.orig.items():
            o = rn.objs[i]
            if o.get_current_basis() != 0:
                rn.problems.append(("stale_tag", "object %d is left with basis tag %d outside every context" % (i, o.get_current_basis())))
            elif not np.array_equal(np.asarray(o._data), orig):
                rn.problems.append(("not_restored", "object %d (never written or protected) is not back in its original representation: "
                                    "max deviation %g" % (i, float(np.max(np.abs(np.asarray(o._data) - orig))))))
        for i, o in rn.objs.items():
            try:
                o.data
            except Exception as e:
                rn.problems.append(("stale_tag", "reading object %d outside every context raises '%s'" % (i, e)))
                break
        seen = set()
        for kind, msg in rn.problems:
            if kind not in seen:
                seen.add(kind)
                chk.violation("contexts:" + kind, msg + "; program " + json.dumps(c["prog"])[:700], "monitor", c)
        # ---- case for Coq (taken before the monitor's reads changed anything: tags recorded below are after `o.data`) ----
        try:
            objs_l = []
            for i, o in sorted(rn.objs.items()):
                objs_l.append("(%d%%nat, %d%%nat, %s, %s)" % (i, o.get_current_basis(), "true" if o.is_basis_protected else "false",
                                                             obs_lit(o._data, rn.kind_of.get(i, "op"))))
            reads_l = ["(%d%%nat, %s)" % (i, obs_lit(v, rn.kind_of.get(i, "op"))) for (i, v) in rn.reads]
        except ValueError:
            chk.count("skipped:non-integer")
            continue
        Sq = rn.S
        body = coq_prog(c["prog"], Sq, "VARIANT", kinds_of_prog(c["prog"]))
        regs = [m.basis_registered[k] for k in sorted(m.basis_registered, reverse=True)]
        regs_l = cm.clist([cm.clist(["%d%%nat" % rn.label_of(o) for o in lst]) for lst in regs])
        items.append("(%d%%nat, %s, %s, %s, %s, %s, %d%%nat)" % (c["n"], body, "true" if raised else "false", cm.clist(reads_l),
                                                                 cm.clist(objs_l), regs_l, m.get_current_basis()))
        meta.append(c)
        txt = json.dumps(c["prog"])
        chk.count("raised" if raised else "normal")
        for kd in sorted(set(kinds_of_prog(c["prog"]).values())):
            chk.count("class:" + kd)
        chk.count("nesting:%d" % max([0] + [txt[:k].count('["with"') for k in range(0, len(txt), 50)]))
        chk.case(txt, '"with"' in txt and ('"read"' in txt), sample={"n": c["n"], "prog": c["prog"][:5]})
    reset_manager()
    shards, index = [], []
    CH = 40
    for k in range(0, len(items), CH):
        body = cm.clist(items[k:k + CH])
        shards.append(cm.HEADER + "From QV Require Import Base.Alg Base.Mat Base.Tens Base.Util Model.C04 Model.C04x.\n"
                      "Definition cs_new : list case04 := %s.\nDefinition cs_old : list case04 := %s.\n"
                      "Eval vm_compute in (bad case_agrees cs_new).\nEval vm_compute in (bad case_agrees cs_old).\n"
                      "Eval vm_compute in (bad case_values_agree cs_new).\n"
                      % (body.replace("VARIANT", "CopyRegistered"), body.replace("VARIANT", "CopyUnregistered")))
        index.append(k)
    for k, (rc, out) in zip(index, cm.coq_eval(PID, shards)):
        if rc != 0:
            chk.violation("correspondence:coq_error", "coqc failed: %s" % out[-900:], "correspondence", {}, found_input=False)
            continue
        vals = cm.parse_evals(out)
        badl, bad_old = cm.parse_natlist(vals[0]), cm.parse_natlist(vals[1])
        bad_values = cm.parse_natlist(vals[2]) if len(vals) > 2 else []
        chk.corr["cases"] += min(CH, len(items) - k)
        chk.corr["disagreements"] += len(badl)
        for i in [x for x in badl if x in bad_values][:2]:
            # the values read in the program / the final data of an object are not the model's - and the model's are, by
            # c04_read_presents_current / c04_exit_restores, the ones the property demands: the program is a failing input
            chk.violation("correspondence:values", "values read during the program or final tag / data of an object differ from Model.C04.exec (exact "
                          "integers), i.e. from the value the property demands; program %s" % json.dumps(meta[k + i])[:900], "correspondence",
                          meta[k + i], found_input=True)
        for i in badl[:3]:
            which = "; it agrees with the pinned variant (copies made by apply() are not registered)" if i not in bad_old else ""
            chk.violation("correspondence:program", "implementation differs from Model.C04.exec on program %s%s"
                          % (json.dumps(meta[k + i])[:900], which), "correspondence", meta[k + i], found_input=False)


def float_monitors(chk, tier):
    """real symmetric, degenerate and complex Hermitian context operators (tolerance 1e-10)"""
    import numpy as np
    import quantarhei as qr
    from quantarhei.qm.hilbertspace.operators import SelfAdjointOperator
    from quantarhei.qm.liouvillespace.superoperator import SuperOperator
    r = cm.rng(PID + "float")
    for k in range(16 if tier == "quick" else 200):
        reset_manager()
        n = r.choice([2, 3, 4])
        kind = ["real", "degenerate", "complex", "diagonal_unsorted"][k % 4]
        rs = np.random.RandomState(r.randrange(2 ** 31))
        A = rs.randn(n, n)
        if kind == "complex":
            A = A + 1j * rs.randn(n, n)
        A = A + A.conj().T
        if kind == "degenerate":
            Q, _ = np.linalg.qr(rs.randn(n, n))
            d = np.array([1.0] * (n - 1) + [2.0])
            A = Q.dot(np.diag(d)).dot(Q.T)
        if kind == "diagonal_unsorted":
            d = rs.permutation(n).astype(float) + (rs.rand() < 0.5) * np.array([1.0] + [0.0] * (n - 1))   # sometimes degenerate
            A = np.diag(d[::-1] if np.all(np.diff(d) >= 0) else d)
        B = rs.randn(n, n) + 1j * rs.randn(n, n)
        B = B + B.conj().T
        rho = rs.randn(n, n) + 1j * rs.randn(n, n)
        rho = rho.dot(rho.conj().T)
        Rt = rs.randn(n, n, n, n) + (1j * rs.randn(n, n, n, n) if kind == "complex" else 0)
        c = {"kind": "float:" + kind, "n": n, "seed_case": k}
        try:
            op = SelfAdjointOperator(data=A.copy())
            from quantarhei.qm.hilbertspace.operators import Operator
            ob = SelfAdjointOperator(data=B.copy())
            dm = qr.ReducedDensityMatrix(data=rho.copy())
            so = SuperOperator(data=Rt.copy())
            out_apply = so.apply(dm).data.copy()
            out_tr = np.trace(B.dot(rho))
            with qr.eigenbasis_of(op):
                d = op.data
                off = np.max(np.abs(d - np.diag(np.diag(d))))
                ev = np.real(np.diag(d))
                in_tr = np.trace(ob.data.dot(dm.data))
                inner = so.apply(dm)
                inner_data = inner.data.copy()
                try:
                    with qr.eigenbasis_of(ob):
                        d2 = ob.data
                        off2 = np.max(np.abs(d2 - np.diag(np.diag(d2))))
                        tr2 = np.trace(ob.data.dot(dm.data))
                        raise Marker()
                except Marker:
                    pass
            chk.case(("float", k, kind, n), True)
            chk.count("float:" + kind)
            msgs = []
            if off > 1e-10 or np.any(np.diff(ev) < -1e-10):
                msgs.append(("not_diagonal", "inside its context the operator is not diagonal with ascending eigenvalues (off-diagonal %g)" % off))
            if off2 > 1e-10:
                msgs.append(("not_diagonal", "nested context operator not diagonal (%g)" % off2))
            if abs(in_tr - out_tr) > 1e-9 * max(1, abs(out_tr)) or abs(tr2 - out_tr) > 1e-9 * max(1, abs(out_tr)):
                msgs.append(("trace_product", "tr(A rho) differs inside (%r, nested %r) and outside (%r)" % (in_tr, tr2, out_tr)))
            for name, o, orig in (("context operator", op, A), ("operator", ob, B), ("density matrix", dm, rho), ("superoperator", so, Rt)):
                dev = np.max(np.abs(o.data - orig))
                if dev > 1e-9 * max(1.0, np.max(np.abs(orig))):
                    msgs.append(("not_restored:" + name.replace(" ", "_"), "%s is not back in its original representation after the contexts "
                                 "(%s context operator): deviation %g" % (name, kind, dev)))
            dev = np.max(np.abs(inner.data - out_apply))
            if dev > 1e-9 * max(1.0, np.max(np.abs(out_apply))):
                msgs.append(("apply_not_covariant", "superoperator applied inside the context (%s operator) and read outside differs from "
                             "applying outside by %g" % (kind, dev)))
            st = (list(qr.Manager().basis_stack), dict(qr.Manager().basis_registered))
            if st != ([0], {}):
                msgs.append(("bookkeeping", "bookkeeping not restored: %r" % (st,)))
            for sig, msg in msgs:
                chk.violation("float:" + sig + ":" + kind, msg, "monitor", c)
        except Exception as e:
            chk.violation("float:exception:" + kind, "float monitor (%s, n=%d) raised %r" % (kind, n, e), "monitor", c)
    reset_manager()


def at_monitors(chk, tier):
    """objects CREATED inside a context from a managed container: ev.at(t) of a density-matrix evolution and U.at(t) of an evolution
    superoperator.  After the context is left the new object is back in the original representation: it equals the same slice taken
    outside; the container itself is restored; and its action / content inside the context is the transformed one."""
    import io
    import contextlib
    import numpy as np
    import quantarhei as qr
    r = cm.rng(PID + "at")
    for k in range(4 if tier == "quick" else 24):
        reset_manager()
        rs = np.random.RandomState(r.randrange(2 ** 31))
        n = int(rs.choice([2, 3]))
        what = ["rdm_evolution", "evolution_superoperator"][k % 2]
        c = {"kind": "at:" + what, "n": n, "seed_case": k}
        try:
            with contextlib.redirect_stdout(io.StringIO()):
                Hm = rs.randn(n, n) * 0.2
                Hm = Hm + Hm.T + np.diag(np.arange(n) * 1.0)
                H = qr.Hamiltonian(data=Hm)
                ta = qr.TimeAxis(0.0, 6, 1.0)
                a = rs.randn(n, n) + 1j * rs.randn(n, n)
                rho = a.dot(a.conj().T)
                rho = rho / np.trace(rho)
                if what == "rdm_evolution":
                    cont = qr.ReducedDensityMatrixPropagator(ta, H).propagate(qr.ReducedDensityMatrix(data=rho))
                else:
                    K = np.zeros((n, n))
                    K[0, n - 1] = 1.0
                    sbi = qr.qm.SystemBathInteraction([qr.qm.Operator(data=K)], rates=[0.05])
                    cont = qr.qm.EvolutionSuperOperator(ta, H, relt=qr.qm.LindbladForm(H, sbi, as_operators=False))
                    cont.calculate()
                tq = float(rs.choice([1.0, 2.0, 4.0]))
                before = np.array(cont.data).copy()
                ref = np.array(cont.at(tq).data).copy()
                with qr.eigenbasis_of(H):
                    obj = cont.at(tq)
                    inside = np.array(obj.data).copy()
                after_obj = np.array(obj.data)
                after_cont = np.array(cont.data)
            chk.count("at:" + what)
            chk.case(("at", k, what, n), True)
            sc = max(1.0, float(np.max(np.abs(ref))))
            if float(np.max(np.abs(after_obj - ref))) > 1e-10 * sc:
                chk.violation("at:created_inside_not_restored:" + what, "%s.at(%g) taken inside eigenbasis_of(H): after the context the object differs from "
                              "the same slice taken outside by %.3g (inside it held the transformed slice: %s)"
                              % (what, tq, float(np.max(np.abs(after_obj - ref))), bool(np.max(np.abs(inside - ref)) > 1e-6)), "monitor", c)
            if float(np.max(np.abs(after_cont - before))) > 1e-10 * max(1.0, float(np.max(np.abs(before)))):
                chk.violation("at:container_not_restored:" + what, "%s after a context in which .at() was called differs from before by %.3g"
                              % (what, float(np.max(np.abs(after_cont - before)))), "monitor", c)
        except Exception as e:
            chk.violation("at:exception:" + what, "at() monitor raised %r" % (e,), "monitor", c)


def tensor_monitors(chk, tier):
    """real relaxation tensors of a small aggregate (4-index Redfield, 5-index time-dependent Redfield) inside the eigenbasis of real
    symmetric and complex Hermitian operators: the action of the tensor on a state computed inside the context (the result is an
    operator created there, so it comes back to the site basis on exit) must equal the action computed outside; the tensor itself
    must be restored."""
    import io
    import contextlib
    import numpy as np
    import quantarhei as qr
    from quantarhei.qm.hilbertspace.operators import SelfAdjointOperator, Operator
    r = cm.rng(PID + "tensors")
    for k in range(4 if tier == "quick" else 40):
        reset_manager()
        rs = np.random.RandomState(r.randrange(2 ** 31))
        N = int(rs.choice([2, 3]))
        td = bool(k % 2)
        kind = ["complex", "real"][(k // 2) % 2]
        c = {"kind": "tensor:" + kind, "N": N, "td": td, "seed_case": k}
        try:
            with contextlib.redirect_stdout(io.StringIO()):
                ta = qr.TimeAxis(0.0, 100, 2.0)
                mols = []
                with qr.energy_units("1/cm"):
                    for i in range(N):
                        m = qr.Molecule([0.0, 12000.0 + 120 * rs.randn()])
                        m.set_transition_environment((0, 1), qr.CorrelationFunction(ta, dict(ftype="OverdampedBrownian", reorg=20.0 + 25 * rs.rand(),
                                                                                             cortime=50.0 + 60 * rs.rand(), T=300.0)))
                        mols.append(m)
                    agg = qr.Aggregate(mols)
                    for i in range(N):
                        for j in range(i + 1, N):
                            agg.set_resonance_coupling(i, j, float(rs.choice([30.0, 100.0]) * rs.randn()))
                agg.build()
                RT, _ham = agg.get_RelaxationTensor(ta, relaxation_theory="stR", time_dependent=td)
            n = RT.dim
            B = rs.randn(n, n) + (1j * rs.randn(n, n) if kind == "complex" else 0)
            B = B + B.conj().T
            bop = qr.ReducedDensityMatrix(data=B.copy()) if kind == "complex" else SelfAdjointOperator(data=B.copy())
            rho = rs.randn(n, n) + 1j * rs.randn(n, n)
            rho = rho.dot(rho.conj().T)
            dm = qr.ReducedDensityMatrix(data=rho.copy())
            d0 = np.array(RT.data)
            times = [0, 1, d0.shape[0] // 2, d0.shape[0] - 1] if td else [None]
            out = [np.tensordot(d0[t] if td else d0, rho) for t in times]
            with qr.eigenbasis_of(bop):
                din = np.array(RT.data)
                rin = np.array(dm.data)
                inner = [Operator(data=np.tensordot(din[t] if td else din, rin)) for t in times]
            chk.case(("tensor", k, kind, td, N), True)
            chk.count("tensor:%s:%s" % ("td" if td else "ti", kind))
            sc = max(1e-30, float(max(np.max(np.abs(o)) for o in out)))
            for t, o, inn in zip(times, out, inner):
                dev = float(np.max(np.abs(np.array(inn.data) - o)))
                if dev > 1e-9 * sc:
                    chk.violation("float:tensor_action:%s:%s" % ("td" if td else "ti", kind), "%s: the action of the tensor on a state computed inside the "
                                  "eigenbasis of a %s operator (time index %s) and read outside differs from the action computed outside by %g (scale %g)"
                                  % (type(RT).__name__, "complex Hermitian" if kind == "complex" else "real symmetric", t, dev, sc), "monitor", c)
                    break
            dev = float(np.max(np.abs(np.array(RT.data) - d0)))
            if dev > 1e-9 * max(1e-30, float(np.max(np.abs(d0)))):
                chk.violation("float:not_restored:tensor:" + kind, "%s is not back in its original representation after the context: %g"
                              % (type(RT).__name__, dev), "monitor", c)
        except Exception as e:
            chk.violation("float:exception:tensor:" + kind, "tensor monitor (%s, td=%s) raised %r" % (kind, td, e), "monitor", c)
    reset_manager()


def main():
    chk = cm.Check(PID, args.tier)
    chk.rule = ("random programs over Operator/ReducedDensityMatrix/SelfAdjointOperator/SuperOperator objects: create, read, write, "
                "protect/unprotect, apply(copy), nested eigenbasis_of (<= 3 deep), raise at random points, try/except; exact integer data; "
                "plus real-symmetric, degenerate and complex-Hermitian float cases, and real Redfield / time-dependent Redfield tensors of small "
                "aggregates acting on a state inside real-symmetric and complex-Hermitian contexts. Non-trivial: contains a context and a read")
    chk.assumptions = ["numpy.linalg.eigh of a signed-permutation-conjugated diagonal matrix returns an exact signed permutation matrix (checked on "
                       "every case; cases where it does not are skipped and counted)",
                       "eigh/inv are oracles: the model is handed the diagonaliser the implementation used",
                       "objects protected inside a context keep their data by design (re-tagged, not transformed): excluded from the restoration claim",
                       "DensityMatrixEvolution, StateVectorEvolution, relaxation tensors in operator form are covered by the per-class action laws, "
                       "not by the program runner",
                       "static tie of the bookkeeping (GenC04b.v, harness/translate_c04.py): Python objects are labels into a heap; a local bound "
                       "to manager.basis_registered[e] is an alias, re-read at every use; `for op in lst` iterates the list as it is when the loop "
                       "starts (its body appends only to the list of another basis id); numpy.dot / numpy.linalg.inv / the unit matrix / "
                       "transform(S) / transform(S, inv=S1) are the operations gmul / ginv / gid / act / act2 of an abstract group action "
                       "(the transform() loop nests themselves: GenC04.v), eigh is an oracle; the units conversion inside managed_array_property "
                       "(C05) and the array / shape validation of the setters are outside the model; SuperOperator.apply and the construction "
                       "of a new object (class defaults, tagging block, self.data = data) are matched as whole statement sequences"]
    chk.prove()
    import translate
    translate.static_tie(cm, chk, PID, cm.REPO)      # second, static tie: the loop nests of the tensor basis change regenerated from the source
    import translate_c04
    translate_c04.static_b(cm, chk, cm.REPO)         # ... and the bookkeeping state machine (GenC04b.v): managers.py, types.py, constructors, apply
    if args.replay:
        rep = json.load(open(args.replay))
        cases = [rep["input"]] if isinstance(rep.get("input"), dict) and "prog" in rep["input"] else []
        run(chk, cases)
    else:
        r = cm.rng(PID)
        n = 200 if args.tier == "quick" else 3000
        corpus = [{"n": 2, "prog": [["new", 0, "sa", [[2, 0], [0, 1]]], ["new", 1, "op", [[1, 2], [3, 4]]],
                                    ["new", 2, "sup", [[[[1, 0], [0, 0]], [[0, 1], [0, 0]]], [[[0, 0], [1, 0]], [[0, 0], [0, 1]]]]],
                                    ["with", 0, [["read", 1], ["apply", 2, 1, 3]]], ["read", 3]]},
                  {"n": 2, "prog": [["new", 0, "sa", [[2, 0], [0, 1]]], ["new", 1, "op", [[1, 2], [3, 4]]],
                                    ["with", 0, [["read", 1], ["protect", 1, True]]], ["protect", 1, False], ["read", 1],
                                    ["with", 0, [["read", 1]]], ["read", 1]]}]
        run(chk, corpus + [gen_case(r, k) for k in range(n)])
        float_monitors(chk, args.tier)
        tensor_monitors(chk, args.tier)
        at_monitors(chk, args.tier)
    chk.finish()


main()
