# -*- coding: utf-8 -*-
"""Static tie for C07, the glue around the kernels it shares with C01/C02 (_loopit, _convert_operators_2_tensor, _COM/_TTI/_OTI, loop nests):

  redfieldtensor.py    RedfieldRelaxationTensor.apply (operator form: the sum over bath components; tensor form: SuperOperator.apply),
                       convert_2_tensor, _post_implementation, _implementation (K in the eigenbasis, frequencies, cut-off, hand-over of
                       every bath component to _guts_Cmplx_Splines), _guts_Cmplx_Splines (Lambda from the last value of the running integral)
  superoperator.py     SuperOperator.apply
  tdredfieldtensor.py  TDRedfieldRelaxationTensor._implementation (same integrand and cut-off as the time-independent code, Lambda(t) from
                       every value of the running integral, Ld = Lambda^+, hand-over)
  rdmpropagator.py     __propagate_short_exp_with_TDrel_operators: order-loop body (translate2.taylor_nest) and the index walk over the
                       stored operator families, recognised in its pinned form (one step per outer step) or in the form of the
                       tensor nest; the generated lemma states which one the source implements now

The generated lemmas conclude equality with Model/C01.v (apply_ops, convert_ops), Model/C07glue.v (rt_apply, convert_2_tensor,
hand_over, lam_ti, lam_td, k_eig, om_of, ops_next_pinned) and Model/C02.v (walk_next).
"""
import ast

from translate import Untranslatable, Expr, _src_of, MatExpr
from translate2 import unify, _live, _find_nests, taylor_nest, RDM_POST_OUTER
from translate_c02 import _is_noise, MExpr

RT = "/quantarhei/qm/liouvillespace/redfieldtensor.py"
TD = "/quantarhei/qm/liouvillespace/tdredfieldtensor.py"
SO = "/quantarhei/qm/liouvillespace/superoperator.py"
RL = "/quantarhei/qm/liouvillespace/relaxationtensor.py"
RDM = "/quantarhei/qm/propagators/rdmpropagator.py"


def _clean(stmts):
    """drop logging statements everywhere (nested blocks too)"""
    out = []
    for s in _live(stmts):
        if _is_noise(s):
            continue
        for f in ("body", "orelse", "finalbody"):
            if hasattr(s, f) and isinstance(getattr(s, f), list) and getattr(s, f) and isinstance(getattr(s, f)[0], ast.stmt):
                setattr(s, f, _clean(getattr(s, f)))
        if isinstance(s, ast.Try):
            for h in s.handlers:
                h.body = _clean(h.body)
        out.append(s)
    return out


def _match(path, qual, template):
    fn = _src_of(path, qual)
    tfn = ast.parse(template).body[0]
    env = {}
    unify([a.arg for a in tfn.args.args], [a.arg for a in fn.args.args], env, qual + ".args")
    unify(tfn.body, _clean(fn.body), env, qual)
    return env


def _require(node, text, what):
    if ast.unparse(node) != text:
        raise Untranslatable("%s: %s where %s is expected" % (what, ast.unparse(node)[:60], text))


T_APPLY = '''
def apply(self, oper, copy=True):
    if self.as_operators:
        if copy:
            import copy
            oper_ven = copy.copy(oper)
        else:
            oper_ven = oper
        rho1 = oper.data
        Lm = self.Lm
        Km = self.Km
        Ld = self.Ld
        Kd = numpy.zeros(Km.shape, dtype=numpy.float64)
        Nm = Km.shape[0]
        ven = numpy.zeros(oper.data.shape, dtype=numpy.complex128)
        for mm in range(Nm):
            Kd[H_k1, :, :] = numpy.transpose(Km[H_k2, :, :])
            ven += H_term
        oper_ven.data = ven
        return oper_ven
    else:
        return super().apply(oper, copy=copy)
'''
T_SOAPPLY = '''
def apply(self, oper, copy=True):
    if copy:
        import copy
        oper_ven = copy.copy(oper)
        oper_ven.data = numpy.tensordot(H_a1, H_b1)
        return oper_ven
    else:
        oper.data = numpy.tensordot(H_a2, H_b2)
        return oper
'''
T_CONVERT = '''
def convert_2_tensor(self):
    if self.as_operators:
        RR = self._convert_operators_2_tensor(H_a, H_b, H_c)
        if True:
            self.data = RR
            self._data_initialized = True
        self.as_operators = H_f
'''
T_POST = '''
def _post_implementation(self, Km, Lm, Ld):
    if self.as_operators:
        self.Km = H_s1
        self.Lm = H_s2
        self.Ld = H_s3
    else:
        RR = self._convert_operators_2_tensor(H_c1, H_c2, H_c3)
        if True:
            self.data = RR
            self._data_initialized = True
    self._is_initialized = True
'''
_CUT = '''
    if self._has_cutoff_time:
        tcut = ta.nearest(self.cutoff_time)
        tm = ta.data[0:tcut]
        length = tcut
    else:
        tm = ta.data
        length = ta.length
    if True:
        hD, SS = numpy.linalg.eigh(ham.data)
    Om = numpy.zeros((Na, Na))
    for a in range(Na):
        for b in range(Na):
            Om[a, b] = H_om
    Nb = sbi.N
'''
T_IMPL = '''
def _implementation(self, ham, sbi):
    Na = ham.dim
    ta = sbi.TimeAxis
    multi_ex = False
    if sbi.aggregate is not None:
        agg = sbi.aggregate
        if agg.mult > 1:
            multi_ex = True
    elif sbi.molecule is not None:
        mol = sbi.molecule
        if mol.mult > 1:
            multi_ex = True
''' + _CUT + '''
    Km = numpy.zeros((Nb, Na, Na), dtype=numpy.float64)
    S1 = scipy.linalg.inv(SS)
    for ns in range(Nb):
        Km[ns, :, :] = H_km
    Lm = numpy.zeros((Nb, Na, Na), dtype=numpy.complex128)
    start_parallel_region()
    for ms in block_distributed_range(0, Nb):
        if not multi_ex:
            ns = ms
            rc1 = sbi.CC.get_coft(ms, ns)
            self._guts_Cmplx_Splines(ms, Lm, Km, Na, Om, length, rc1, tm)
    distributed_configuration().allreduce(Lm, operation='sum')
    close_parallel_region()
    Ld = numpy.zeros((Nb, Na, Na), dtype=numpy.complex128)
    for ms in range(Nb):
        Ld[ms, :, :] += H_ld
    self._post_implementation(Km, Lm, Ld)
'''
T_GUTS = '''
def _guts_Cmplx_Splines(self, ms, Lm, Km, Na, Om, length, rc1, tm):
    for a in range(Na):
        for b in range(Na):
            eexp = numpy.exp(H_ph)
            rc = H_rc
            rr = numpy.real(rc)
            ri = numpy.imag(rc)
            sr = scipy.interpolate.UnivariateSpline(tm, rr, s=0).antiderivative()(tm)
            si = scipy.interpolate.UnivariateSpline(tm, ri, s=0).antiderivative()(tm)
            cc_mnab = sr[H_i1] + 1j * si[H_i2]
            Lm[H_m1, H_a1, H_b1] += cc_mnab * Km[H_m2, H_a2, H_b2]
'''
T_TDIMPL = '''
def _implementation(self, ham, sbi):
    Na = ham.dim
    ta = sbi.TimeAxis
    multi_ex = False
    if sbi.aggregate is not None:
        agg = sbi.aggregate
        if agg.mult > 1:
            multi_ex = True
''' + _CUT + '''
    self.Nt = length
    Nt = self.Nt
    Km = numpy.zeros((Nb, Na, Na), dtype=numpy.float64)
    S1 = scipy.linalg.inv(SS)
    for ns in range(Nb):
        Km[ns, :, :] = H_km
    Lm = numpy.zeros((Nt, Nb, Na, Na), dtype=numpy.complex128)
    for ms in range(Nb):
        if not multi_ex:
            ns = ms
            rc1 = sbi.CC.get_coft(ms, ns)
            for a in range(Na):
                for b in range(Na):
                    eexp = numpy.exp(H_ph)
                    rc = H_rc
                    rr = numpy.real(rc)
                    ri = numpy.imag(rc)
                    sr = scipy.interpolate.UnivariateSpline(tm, rr, s=0).antiderivative()(tm)
                    si = scipy.interpolate.UnivariateSpline(tm, ri, s=0).antiderivative()(tm)
                    cc_mnab = sr + 1j * si
                    Lm[:, H_m1, H_a1, H_b1] += cc_mnab * Km[H_m2, H_a2, H_b2]
    Ld = numpy.zeros((Nt, Nb, Na, Na), dtype=numpy.complex128)
    for tt in range(Nt):
        for ms in range(Nb):
            Ld[tt, ms, :, :] += H_ld
    if self.as_operators:
        self.Km = H_s1
        self.Lm = H_s2
        self.Ld = H_s3
    else:
        RR = self._convert_operators_2_tensor(H_c1, H_c2, H_c3)
        if True:
            self.data = RR
            self._data_initialized = True
    self._is_initialized = True
    self.is_time_dependent = True
'''

GEN = """
(* ---- C07 glue, GENERATED by harness/translate_c07.py from redfieldtensor.py, superoperator.py, tdredfieldtensor.py, rdmpropagator.py ---- *)
From QV Require Import Model.C07glue Proofs.C01 Proofs.C07 Proofs.C07gen.
Section GenC07.
  Context {R : StarRing}.
  Add Ring Rc07 : (rth R).
  Variable n : nat.
  Variable im : R.

  (* RedfieldRelaxationTensor.apply / SuperOperator.apply *)
  Definition gen_apply_Kd (Km : nat -> @mat R) (mm : nat) : @mat R := mT (Km %(k2)s).
  Definition gen_apply_term (Km Kd Lm Ld : nat -> @mat R) (rho1 : @mat R) (mm : nat) : @mat R := %(term)s.
  Definition gen_super_apply_copy (T : @tens R) (rho : @mat R) : @mat R := tapply n %(a1)s %(b1)s.
  Definition gen_super_apply_inplace (T : @tens R) (rho : @mat R) : @mat R := tapply n %(a2)s %(b2)s.
  Definition gen_rt_apply (as_ops : bool) (Nb : nat) (Km Lm Ld : nat -> @mat R) (T : @tens R) (rho : @mat R) : @mat R :=
    if as_ops then (fun a b => sum Nb (fun mm => gen_apply_term Km (gen_apply_Kd Km) Lm Ld rho mm a b)) else gen_super_apply_copy T rho.
  Lemma gen_rt_apply_is_model : forall as_ops Nb Km Lm Ld T rho a b,
    gen_rt_apply as_ops Nb Km Lm Ld T rho a b = rt_apply n as_ops Nb Km Lm Ld T rho a b /\\ gen_super_apply_inplace T rho a b = tapply n T rho a b.
  Proof.
    intros as_ops Nb Km Lm Ld T rho a b. split; [|reflexivity]. unfold gen_rt_apply, rt_apply. destruct as_ops; [|reflexivity].
    unfold apply_ops. apply sum_ext. intros mm _. unfold gen_apply_term, gen_apply_Kd, madd, msub. ring.
  Qed.

  (* convert_2_tensor, _post_implementation and the end of the time-dependent _implementation *)
  Definition gen_convert_2_tensor (as_ops : bool) (Nb : nat) (Km Lm Ld : nat -> @mat R) (T : @tens R) : bool * @tens R :=
    if as_ops then (%(cf)s, convert_ops n Nb %(ca)s %(cb)s %(cc)s) else (as_ops, T).
  Definition gen_hand_over (as_ops : bool) (Nb : nat) (Km Lm Ld : nat -> @mat R) : stored :=
    if as_ops then StoredOps %(s1)s %(s2)s %(s3)s else StoredTensor (convert_ops n Nb %(c1)s %(c2)s %(c3)s).
  Definition gen_td_hand_over (as_ops : bool) (Nb : nat) (Km Lm Ld : nat -> @mat R) : stored :=
    if as_ops then StoredOps %(ts1)s %(ts2)s %(ts3)s else StoredTensor (convert_ops n Nb %(tc1)s %(tc2)s %(tc3)s).
  Lemma gen_conversion_is_model : forall as_ops Nb Km Lm Ld T,
    gen_convert_2_tensor as_ops Nb Km Lm Ld T = convert_2_tensor n as_ops Nb Km Lm Ld T /\\
    gen_hand_over as_ops Nb Km Lm Ld = hand_over n as_ops Nb Km Lm Ld /\\ gen_td_hand_over as_ops Nb Km Lm Ld = hand_over n as_ops Nb Km Lm Ld.
  Proof. intros []; repeat split; reflexivity. Qed.

  (* _implementation: K in the eigenbasis, transition frequencies, Ld = Lambda^+; _guts_Cmplx_Splines and its time-dependent twin *)
  Definition gen_k_eig (S1 SS : @mat R) (KK : nat -> @mat R) (ns : nat) : @mat R := %(km)s.
  Definition gen_td_k_eig (S1 SS : @mat R) (KK : nat -> @mat R) (ns : nat) : @mat R := %(tkm)s.
  Definition gen_om (hD : @vec R) (a b : nat) : R := %(om)s.
  Definition gen_td_om (hD : @vec R) (a b : nat) : R := %(tom)s.
  Definition gen_td_Ld (Lm : @mat R) : @mat R := %(tld)s.
  Definition gen_ti_Ld (Lm : @mat R) : @mat R := %(ld)s.
  Definition g_last (length : Z) : Z := %(i1)s.
  Definition g_last' (length : Z) : Z := %(i2)s.
  Definition gen_lam_ti (sr si : nat -> nat -> nat -> nat -> R) (Km : nat -> @mat R) (length ms : nat) : @mat R :=
    fun a b => rmul R (radd R (sr ms a b (Z.to_nat (g_last (Z.of_nat length)))) (rmul R im (si ms a b (Z.to_nat (g_last' (Z.of_nat length)))))) (Km %(gm2)s %(ga2)s %(gb2)s).
  Definition gen_lam_td (sr si : nat -> nat -> nat -> nat -> R) (Km : nat -> @mat R) (tt ms : nat) : @mat R :=
    let ns := ms in fun a b => rmul R (radd R (sr ms a b tt) (rmul R im (si ms a b tt))) (Km %(tm2)s %(ta2)s %(tb2)s).
  Definition g_phase (Om : @mat R) (t : R) (a b : nat) : R := %(ph)s.
  Lemma gen_implementation_is_model : forall (S1 SS : @mat R) (KK : nat -> @mat R) (hD : @vec R) sr si (Km : nat -> @mat R) (Lm : @mat R) (length tt ms ns a b : nat),
    gen_k_eig S1 SS KK ns a b = k_eig n S1 SS KK ns a b /\\ gen_td_k_eig S1 SS KK ns a b = k_eig n S1 SS KK ns a b /\\
    gen_om hD a b = om_of hD a b /\\ gen_td_om hD a b = om_of hD a b /\\
    gen_td_Ld Lm a b = mdag Lm a b /\\ gen_ti_Ld Lm a b = mdag Lm a b /\\
    gen_lam_ti sr si Km length ms a b = lam_ti im sr si Km length ms a b /\\ gen_lam_td sr si Km tt ms a b = lam_td im sr si Km tt ms a b /\\
    (forall Om t, g_phase Om t a b = rmul R (rmul R (ropp R im) (Om a b)) t).
  Proof.
    intros. split; [reflexivity|]. split; [reflexivity|]. split; [unfold gen_om, om_of; ring|]. split; [unfold gen_td_om, om_of; ring|].
    split; [reflexivity|]. split; [reflexivity|].
    split; [unfold gen_lam_ti, lam_ti, g_last, g_last'; replace (Z.to_nat (Z.of_nat length - 1)) with (length - 1)%%nat by lia; reflexivity|].
    split; [reflexivity|]. intros Om t. unfold g_phase. ring.
  Qed.
End GenC07.
"""

GEN_PINNED = """
(* __propagate_short_exp_with_TDrel_operators: the source implements the PINNED walk over the stored operator families - one step after
   every outer step, the same family for all refined steps, whatever the ratio of the propagation step to the bath step *)
Definition g_ops_start : Z := %(iR)s.
Definition g_ops_read_Lm (indxR : Z) : Z := %(l1)s.
Definition g_ops_read_Ld (indxR : Z) : Z := %(l2)s.
Definition g_ops_next (indxR cutoff : Z) : Z := if %(g)s then (indxR + %(inc)s)%%Z else indxR.
Definition g_ops_walk_variant : ops_walk_variant := OpsWalkPinned.
(* ... which is not the walk of the tensor-form nest: the two forms generate different dynamics unless the propagation axis is the bath
   axis and Nref = 1 (Proofs.C07gen.ops_td_walk_spec); repaired in /repo by a fix: commit.  This obligation fails for the pinned form: *)
Lemma gen_ops_walk_is_tensor_walk : g_ops_walk_variant = OpsWalkRepaired.
Proof. reflexivity. Qed.
Lemma gen_ops_walk_is_pinned_model : forall indxR cutoff : nat,
  g_ops_next (Z.of_nat indxR) (Z.of_nat cutoff) = Z.of_nat (ops_next_pinned indxR cutoff) /\\ g_ops_start = 1%%Z /\\
  g_ops_read_Lm (Z.of_nat indxR) = Z.of_nat indxR /\\ g_ops_read_Ld (Z.of_nat indxR) = Z.of_nat indxR.
Proof.
  intros indxR cutoff. unfold g_ops_next, ops_next_pinned, g_ops_start, g_ops_read_Lm, g_ops_read_Ld. split; [|repeat split; reflexivity].
  destruct (Nat.ltb_spec indxR (cutoff - 1)%%nat);
    match goal with |- (if ?c then _ else _) = _ =>
      first [replace c with true by (symmetry; first [apply Z.ltb_lt | apply Z.leb_le | apply Z.gtb_lt | apply Z.geb_le]; lia)
            |replace c with false by (symmetry; first [apply Z.ltb_ge | apply Z.leb_gt | (rewrite Z.gtb_ltb; apply Z.ltb_ge) | (rewrite Z.geb_leb; apply Z.leb_gt)]; lia)]
    end; lia.
Qed.
"""

GEN_REPAIRED = """
(* __propagate_short_exp_with_TDrel_operators: the source walks the stored operator families as the tensor-form nest does
   (rdm_tdops_walk_is_model above: Model.C02.walk_next WalkRepaired, per refined step) *)
Definition g_ops_walk_variant : ops_walk_variant := OpsWalkRepaired.
Definition g_ops_read_Lm (indxR : Z) : Z := %(l1)s.
Definition g_ops_read_Ld (indxR : Z) : Z := %(l2)s.
Lemma gen_ops_reads_current_family : forall indxR, g_ops_read_Lm indxR = indxR /\\ g_ops_read_Ld indxR = indxR.
Proof. intros; split; reflexivity. Qed.
"""

T_TDOPS = '''
def __propagate_short_exp_with_TDrel_operators(self, rhoi, L=4):
    pr = ReducedDensityMatrixEvolution(self.TimeAxis, rhoi)
    rho1 = H_r1
    rho2 = H_r2
    if self.Hamiltonian.has_rwa:
        HH = H_rwa
    else:
        HH = H_plain
    if self.RelaxationTensor._has_cutoff_time:
        cutoff_indx = self.TimeAxis.nearest(self.RelaxationTensor.cutoff_time)
    else:
        sbi = self.RelaxationTensor.SystemBathInteraction
        cutoff_indx = sbi.TimeAxis.length
    Km = self.RelaxationTensor.Km
    Kd = numpy.zeros(Km.shape, dtype=numpy.float64)
    Nm = Km.shape[0]
    for m in range(Nm):
        Kd[H_m1, :, :] = numpy.transpose(Km[H_m2, :, :])
    indx = H_i0
    indxR = H_iR
    sysstep = self.RelaxationTensor.SystemBathInteraction.TimeAxis.step
    Nref_max = round(self.TimeAxis.step / sysstep)
    Nref_req = self.Nref
    if H_fit:
        stride = H_stride
    else:
        raise Exception(H_msg)
    dt = H_dt
    NEST
    if self.Hamiltonian.has_rwa:
        pr.is_in_rwa = H_v
    return pr
'''

GEN_TDOPS = """
(* statements around the operator-form time-dependent nest: the same cut-off index, stride and step as the tensor-form nest *)
Definition g_tdops_starts : list Z := [%(i0)s; %(iR)s].
Definition g_tdops_fit (nmax nreq : Z) : bool := %(fit)s.
Definition g_tdops_stride (nmax nreq : Z) : Z := %(stride)s.
Definition g_tdops_dt (sysstep stride : Z) : Z := %(dt)s.
Lemma gen_tdops_prologue_is_tensor_prologue : Forall (fun z => z = 1%%Z) g_tdops_starts /\\
  (forall nmax nreq, g_tdops_fit nmax nreq = g_td_fit nmax nreq /\\ g_tdops_stride nmax nreq = g_td_stride nmax nreq) /\\
  (forall sysstep stride, g_tdops_dt sysstep stride = g_td_dt sysstep stride).
Proof.
  split; [repeat constructor|]. split; [intros; split; unfold g_tdops_fit, g_td_fit, g_tdops_stride, g_td_stride; first [reflexivity | apply Z.eqb_sym]|].
  intros; unfold g_tdops_dt, g_td_dt; ring.
Qed.
"""



def _td_ops_nest(repo):
    """the operator-form time-dependent nest: order-loop body by translate2.taylor_nest; index walk pinned or as in the tensor nest"""
    fn = _src_of(repo + RDM, "ReducedDensityMatrixPropagator.__propagate_short_exp_with_TDrel_operators")
    nests = _find_nests(fn.body)
    if len(nests) != 1:
        raise Untranslatable("__propagate_short_exp_with_TDrel_operators: %d loop nests" % len(nests))
    nest = nests[0]
    reads = {}

    def read_of(s):
        env = {}
        for nm in ("Lm", "Ld"):
            try:
                unify(ast.parse("%s = self.RelaxationTensor.%s[H_i, :, :, :]" % (nm, nm)).body[0], s, env)
                return nm, env["H_i"]
            except Untranslatable:
                env = {}
        return None, None
    fterm, fvars = "vadd (com c x) (oti c x)", " (com oti : S -> V -> V)"
    errors = []
    # repaired form: local step dt = sysstep*stride in _COM and _OTI alike, the families are read inside the refinement loop and the
    # index advances after every refined step
    try:
        inpl = [("_OTI(H_y, Km, Kd, Lm, Ld, ll, dt, H_x)", "(vadd {y} (oti c {x}))")]
        jj = [s for s in _live(nest.body) if isinstance(s, ast.For)]
        pre_inner = set()
        if len(jj) == 1:
            for s in _live(jj[0].body):
                nm, idx = read_of(s)
                if nm:
                    reads[nm] = idx
                    pre_inner.add(ast.unparse(s))
        if set(reads) != {"Lm", "Ld"}:
            raise Untranslatable("the operator families are not read inside the refinement loop")
        t, f = taylor_nest(nest, "td", "rdm_tdops", "dt", [("-_COM(HH, ll, dt, H_x)", "(com c {x})")], inpl, set(), pre_inner, RDM_POST_OUTER, fterm, fvars)
        if not f["walk"]:
            raise Untranslatable("the index of the operator families is not advanced after the refined step")
        ez = Expr("Z", {"indxR": "indxR"})
        return t + GEN_REPAIRED % {"l1": ez.e(reads["Lm"]), "l2": ez.e(reads["Ld"])}, "index walk of the tensor-form nest"
    except Untranslatable as e:
        errors.append(str(e))
    # pinned form: the propagator's own step self.dt, one family per outer step
    try:
        inpl = [("_OTI(H_y, Km, Kd, Lm, Ld, ll, self.dt, H_x)", "(vadd {y} (oti c {x}))")]
        reads, pre_outer, post = {}, set(), set(RDM_POST_OUTER)
        walk = None
        for s in _live(nest.body):
            nm, idx = read_of(s)
            if nm:
                reads[nm] = idx
                pre_outer.add(ast.unparse(s))
            elif isinstance(s, ast.If):
                env = {}
                unify(ast.parse("if H_g:\n    indxR += H_inc\n").body[0], s, env, "index walk")
                walk = env
                post.add(ast.unparse(s))
        if set(reads) != {"Lm", "Ld"} or walk is None:
            raise Untranslatable("operator families / index walk not found at the level of the outer loop")
        t, f = taylor_nest(nest, "tens", "rdm_tdops", "self.dt", [("-_COM(HH, ll, self.dt, H_x)", "(com c {x})")], inpl, pre_outer, set(), post, fterm, fvars)
        starts = [s for s in _live(fn.body) if isinstance(s, ast.Assign) and ast.unparse(s.targets[0]) == "indxR"]
        if len(starts) != 1:
            raise Untranslatable("indxR initialised %d times" % len(starts))
        ez = Expr("Z", {"indxR": "indxR", "cutoff_indx": "cutoff"})
        d = {"iR": Expr("Z", {}).e(starts[0].value), "l1": ez.e(reads["Lm"]), "l2": ez.e(reads["Ld"]), "g": ez.b(walk["H_g"]), "inc": ez.e(walk["H_inc"])}
        return t + GEN_PINNED % d, "PINNED index walk: one family per outer step"
    except Untranslatable as e:
        errors.append(str(e))
    raise Untranslatable("__propagate_short_exp_with_TDrel_operators: neither form of the index walk (%s)" % "; ".join(errors)[:300])


def _td_ops_prologue(repo):
    from translate_c02 import _Prep
    fn = _src_of(repo + RDM, "ReducedDensityMatrixPropagator.__propagate_short_exp_with_TDrel_operators")
    fn = _Prep(_find_nests(fn.body)).visit(fn)
    tfn = ast.parse(T_TDOPS).body[0]
    env = {}
    unify([a.arg for a in tfn.args.args], [a.arg for a in fn.args.args], env, "TDrel_operators.args")
    unify(tfn.body, fn.body, env, "__propagate_short_exp_with_TDrel_operators")
    for h in ("H_r1", "H_r2"):
        _require(env[h], "rhoi.data", "operator-form time-dependent nest starts from")
    _require(env["H_rwa"], "self.Hamiltonian.get_RWA_data()", "operator-form time-dependent nest, RWA Hamiltonian")
    _require(env["H_plain"], "self.Hamiltonian.data", "operator-form time-dependent nest, Hamiltonian")
    _require(env["H_m1"], "m", "Kd is filled at")
    _require(env["H_m2"], "m", "Kd[m] is the transpose of Km at")
    if not (isinstance(env["H_v"], ast.Constant) and env["H_v"].value is True):
        raise Untranslatable("operator-form time-dependent nest marks the result as not being in RWA")
    zt = Expr("Z", {"Nref_max": "nmax", "Nref_req": "nreq", "sysstep": "sysstep", "stride": "stride"})
    d = {"i0": Expr("Z", {}).e(env["H_i0"]), "iR": Expr("Z", {}).e(env["H_iR"]), "fit": zt.b(env["H_fit"]), "stride": zt.e(env["H_stride"]), "dt": zt.e(env["H_dt"])}
    return GEN_TDOPS % d


def extra(repo):
    out = {}
    # class hierarchy apply() relies on: RedfieldRelaxationTensor -> RelaxationTensor (no apply of its own) -> SuperOperator
    c1 = _src_of(repo + RT, "RedfieldRelaxationTensor")
    if [ast.unparse(b) for b in c1.bases] != ["RelaxationTensor"]:
        raise Untranslatable("RedfieldRelaxationTensor bases %s" % [ast.unparse(b) for b in c1.bases])
    c2 = _src_of(repo + RL, "RelaxationTensor")
    if not c2.bases or ast.unparse(c2.bases[0]) != "SuperOperator" or any(isinstance(s, ast.FunctionDef) and s.name == "apply" for s in c2.body):
        raise Untranslatable("RelaxationTensor no longer inherits apply() from SuperOperator")
    c3 = _src_of(repo + TD, "TDRedfieldRelaxationTensor")
    if any(isinstance(s, ast.FunctionDef) and s.name in ("apply", "convert_2_tensor", "_post_implementation") for s in c3.body):
        raise Untranslatable("TDRedfieldRelaxationTensor overrides apply / convert_2_tensor / _post_implementation")
    # ---- apply
    env = _match(repo + RT, "RedfieldRelaxationTensor.apply", T_APPLY)
    _require(env["H_k1"], "mm", "apply fills Kd at")
    _require(env["H_k2"], "mm", "apply transposes Km at")
    out["k2"] = "mm"
    out["term"] = MatExpr({"rho1": "rho1"}, {"Km": "Km", "Kd": "Kd", "Lm": "Lm", "Ld": "Ld"}, {}).m(env["H_term"])
    env = _match(repo + SO, "SuperOperator.apply", T_SOAPPLY)
    tab = {"self.data": "T", "oper.data": "rho"}
    for h in ("a1", "b1", "a2", "b2"):
        key = ast.unparse(env["H_" + h])
        if key not in tab:
            raise Untranslatable("SuperOperator.apply contracts %s" % key[:60])
        out[h] = tab[key]
    # ---- convert_2_tensor / _post_implementation: arguments bound to the parameters of _convert_operators_2_tensor by name
    conv = _src_of(repo + RT, "RedfieldRelaxationTensor._convert_operators_2_tensor")
    params = [a.arg for a in conv.args.args][1:]
    if sorted(params) != ["Km", "Ld", "Lm"]:
        raise Untranslatable("_convert_operators_2_tensor parameters %s" % params)

    def bound(env, holes, table, what):
        vals = []
        for h in holes:
            key = ast.unparse(env[h])
            if key not in table:
                raise Untranslatable("%s: argument %s" % (what, key[:60]))
            vals.append(table[key])
        b = dict(zip(params, vals))
        return b["Km"], b["Lm"], b["Ld"]
    env = _match(repo + RT, "RedfieldRelaxationTensor.convert_2_tensor", T_CONVERT)
    out["ca"], out["cb"], out["cc"] = bound(env, ("H_a", "H_b", "H_c"), {"self.Km": "Km", "self.Lm": "Lm", "self.Ld": "Ld"}, "convert_2_tensor")
    if not (isinstance(env["H_f"], ast.Constant) and env["H_f"].value is False):
        raise Untranslatable("convert_2_tensor leaves as_operators = %s" % ast.unparse(env["H_f"]))
    out["cf"] = "false"
    loc = {"Km": "Km", "Lm": "Lm", "Ld": "Ld"}
    env = _match(repo + RT, "RedfieldRelaxationTensor._post_implementation", T_POST)
    out["c1"], out["c2"], out["c3"] = bound(env, ("H_c1", "H_c2", "H_c3"), loc, "_post_implementation")
    for k in (1, 2, 3):
        key = ast.unparse(env["H_s%d" % k])
        if key not in loc:
            raise Untranslatable("_post_implementation stores %s" % key[:60])
        out["s%d" % k] = loc[key]
    # ---- the two _implementation methods
    env = _match(repo + RT, "RedfieldRelaxationTensor._implementation", T_IMPL)
    envg = _match(repo + RT, "RedfieldRelaxationTensor._guts_Cmplx_Splines", T_GUTS)
    envt = _match(repo + TD, "TDRedfieldRelaxationTensor._implementation", T_TDIMPL)
    km = MExpr({"S1": "S1", "SS": "SS", "sbi.KK[ns, :, :]": "(KK ns)"}, {})

    def sim_form(node):
        t = km.m(node)
        if t != "(mmul n S1 (mmul n (KK ns) SS))":
            raise Untranslatable("K in the eigenbasis is computed as %s" % ast.unparse(node)[:80])
        return t
    out["km"], out["tkm"] = sim_form(env["H_km"]), sim_form(envt["H_km"])
    from translate_c02 import RExpr
    rx = RExpr({"hD[a]": "(hD a)", "hD[b]": "(hD b)"})
    out["om"], out["tom"] = rx.e(env["H_om"]), rx.e(envt["H_om"])

    class _M(MExpr):
        def m(self, node):
            if isinstance(node, ast.Call) and ast.unparse(node.func) == "numpy.transpose" and len(node.args) == 1 and not node.keywords:
                return "(mT %s)" % self.m(node.args[0])
            return MExpr.m(self, node)
    out["ld"] = _M({"Lm[ms, :, :]": "Lm"}, {}).m(env["H_ld"])
    out["tld"] = _M({"Lm[tt, ms, :, :]": "Lm"}, {}).m(envt["H_ld"])
    for h in ("H_ph", "H_rc"):
        if ast.dump(envg[h]) != ast.dump(envt[h]):
            raise Untranslatable("the time-dependent and the time-independent code integrate different functions (%s / %s)"
                                 % (ast.unparse(envg[h])[:60], ast.unparse(envt[h])[:60]))
    _require(envg["H_rc"], "rc1[0:length] * eexp", "integrand")
    out["ph"] = RExpr({"1j": "im", "Om[a, b]": "(Om a b)", "tm": "t"}).e(envg["H_ph"])
    zl = Expr("Z", {"length": "length"})
    out["i1"], out["i2"] = zl.e(envg["H_i1"]), zl.e(envg["H_i2"])
    for tag, e in (("g", envg), ("t", envt)):
        for h, want in (("H_m1", "ms"), ("H_a1", "a"), ("H_b1", "b")):
            _require(e[h], want, "Lambda is accumulated at")
        names = {"ms": "ms", "ns": "ns", "a": "a", "b": "b"} if tag == "t" else {"ms": "ms", "a": "a", "b": "b"}
        for h, k in (("H_m2", "m2"), ("H_a2", "a2"), ("H_b2", "b2")):
            key = ast.unparse(e[h])
            if key not in names:
                raise Untranslatable("Lambda uses K at index %s" % key)
            out[tag + k] = names[key]
    out["ts1"], out["ts2"], out["ts3"] = (loc.get(ast.unparse(envt["H_s%d" % k])) for k in (1, 2, 3))
    if None in (out["ts1"], out["ts2"], out["ts3"]):
        raise Untranslatable("time-dependent _implementation stores %s" % [ast.unparse(envt["H_s%d" % k]) for k in (1, 2, 3)])
    out["tc1"], out["tc2"], out["tc3"] = bound(envt, ("H_c1", "H_c2", "H_c3"), loc, "time-dependent _implementation")
    text = GEN % out
    t2, variant = _td_ops_nest(repo)
    if variant.startswith("index walk of the tensor-form nest"):
        t2 += _td_ops_prologue(repo)
    what = ["redfieldtensor.py:RedfieldRelaxationTensor.apply (both forms), superoperator.py:SuperOperator.apply",
            "redfieldtensor.py:convert_2_tensor, _post_implementation (what is stored, argument order)",
            "redfieldtensor.py:_implementation, _guts_Cmplx_Splines (K in the eigenbasis, frequencies, Lambda from the last value of the running integral)",
            "tdredfieldtensor.py:TDRedfieldRelaxationTensor._implementation (same integrand and cut-off, Lambda(t), Ld, hand-over)",
            "rdmpropagator.py:__propagate_short_exp_with_TDrel_operators (order-loop body; %s)" % variant]
    return text + "\n" + t2, what
