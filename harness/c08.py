# -*- coding: utf-8 -*-
"""C08 - the evolution superoperator is an identity-started semigroup matching propagation.

Proof: coq/theories/Props/C08.v.  Tie: EvolutionSuperOperator.calculate (mode "all"), calculate_next (mode "jit",
with and without save), apply and at are run on small systems with integer generators and dyadic steps; data at every
grid time, the jit tensors after every call and apply(t_i, rho) are compared inside Coq (1e-10 relative) with
Model.C08 run in exact complex-rational arithmetic on top of the propagator model of C02.
Monitors: U(0) = 1 exactly, U(t_i+t_j) = U(t_i)U(t_j), trace and Hermiticity preservation at every time, apply =
direct propagation with the same dense step, jit = all, refinement of the dense step within the truncation bound.
"""
import os
import sys
import json
import math
import io
import contextlib
from fractions import Fraction

sys.path.insert(0, os.path.dirname(os.path.abspath(__file__)))
import common as cm

PID = "C08"
work = cm.reexec_isolated(PID)
args = cm.parse_args(sys.argv[1:])

import numpy as np


def reset_manager():
    import quantarhei as qr
    m = qr.Manager()
    m.basis_stack = [0]
    m.basis_transformations = [1]
    m.basis_registered = {}
    m._in_eigenbasis_of_context = False
    m.current_basis_operator = None


def q2(a):
    return cm.clist([cm.clist([cm.gq(x) for x in row]) for row in np.asarray(a)])


def q4(a):
    a = np.asarray(a)
    return cm.clist([cm.clist([q2(a[i, j]) for j in range(a.shape[1])]) for i in range(a.shape[0])])


def rint(r, lo=-1, hi=1):
    return r.randint(lo, hi)


def gen_case(r, k):
    return {"kind": "exact", "n": r.choice([2, 2, 3]), "ndense": r.choice([1, 2, 3]), "nt": r.choice([2, 3, 4]), "den": r.choice([16, 32]),
            "seed": r.randrange(2 ** 30), "nb": r.choice([1, 2]), "save": r.random() < 0.5}


def make_system(c):
    import random
    from quantarhei.qm.liouvillespace.redfieldtensor import _loopit
    r = random.Random(c["seed"])
    n, nb = c["n"], c["nb"]
    H = np.array([[float(rint(r, -2, 2)) for _ in range(n)] for _ in range(n)])
    H = H + H.T
    K = np.array([[[float(rint(r)) for _ in range(n)] for _ in range(n)] for _ in range(nb)])
    Lm = np.array([[[complex(rint(r), rint(r)) for _ in range(n)] for _ in range(n)] for _ in range(nb)])
    Ld = np.conj(np.transpose(Lm, (0, 2, 1)))
    RR = np.zeros((n, n, n, n), dtype=np.complex128)
    for m in range(nb):
        _loopit(K, K[m].T.copy(), Lm, Ld, n, RR, m)
    A = np.array([[complex(rint(r, -2, 2), rint(r, -2, 2)) for _ in range(n)] for _ in range(n)])
    rho = A.dot(A.conj().T)
    if np.trace(rho) == 0:
        rho[0, 0] = 1
    return H, RR, rho


def tensor_monitors(chk, c, data, label):
    """the property's exact clauses on the implementation's tensors data[0..Nt-1]"""
    n = data.shape[1]
    I4 = np.zeros((n, n, n, n), dtype=complex)
    for i in range(n):
        for j in range(n):
            I4[i, j, i, j] = 1.0
    if not np.array_equal(data[0], I4):
        chk.violation("identity_at_zero:" + label, "U(0) is not the identity superoperator (case %s)" % json.dumps(c), "monitor", c)
    Nt = data.shape[0]
    sc = float(np.max(np.abs(data)))
    for i in range(Nt):
        for j in range(Nt - i):
            dev = float(np.max(np.abs(np.tensordot(data[i], data[j]) - data[i + j])))
            if dev > 1e-10 * sc * sc:
                chk.violation("semigroup:" + label, "U(t_%d) U(t_%d) differs from U(t_%d) by %g (case %s)" % (i, j, i + j, dev, json.dumps(c)), "monitor", c)
                return
        tr = np.einsum('aacd->cd', data[i])
        if np.max(np.abs(tr - np.eye(n))) > 1e-10 * sc:
            chk.violation("trace:" + label, "U(t_%d) does not preserve the trace: max |sum_a U[a,a,c,d] - delta_cd| = %g (case %s)"
                          % (i, np.max(np.abs(tr - np.eye(n))), json.dumps(c)), "monitor", c)
            return
        hd = float(np.max(np.abs(np.conj(data[i]) - np.transpose(data[i], (1, 0, 3, 2)))))
        if hd > 1e-10 * sc:
            chk.violation("hermiticity:" + label, "U(t_%d) does not commute with Hermitian conjugation (%g) (case %s)" % (i, hd, json.dumps(c)), "monitor", c)
            return


def run_case(chk, c, items, meta):
    import quantarhei as qr
    from quantarhei.qm.liouvillespace.relaxationtensor import RelaxationTensor
    from quantarhei.qm.liouvillespace.evolutionsuperoperator import EvolutionSuperOperator
    reset_manager()
    n, nd, nt = c["n"], c["ndense"], c["nt"]
    H, RR, rho = make_system(c)
    dense = Fraction(1, c["den"])
    step = dense * nd
    ta = qr.TimeAxis(0.0, nt, float(step))

    def relt():
        RT = RelaxationTensor()
        RT.dim = n
        RT.data = RR.copy()
        return RT
    with contextlib.redirect_stdout(io.StringIO()):
        ham = qr.Hamiltonian(data=H.copy())
        U = EvolutionSuperOperator(time=ta, ham=ham, relt=relt(), mode="all")
        U.set_dense_dt(nd)
        U.calculate()
        data = np.array(U.data)
        applied = []
        for i in range(nt):
            res = U.apply(float(ta.data[i]), qr.ReducedDensityMatrix(data=rho.copy()))
            applied.append(np.array(res.data))
        at_ok = all(np.array_equal(np.array(U.at(float(ta.data[i])).data), data[i]) for i in range(nt))
        allres = np.array(U.apply(ta, qr.ReducedDensityMatrix(data=rho.copy())).data)   # time="all" raises AttributeError in the package (str has no .data): not used
        # re-use of one object (histories): set_dense_dt(N'), calculate() again must give what a fresh object with N' gives, and
        # going back to the first setting must give the first result again (no state survives besides the settings)
        nd2 = nd % 3 + 1
        U.set_dense_dt(nd2)
        U.calculate()
        reused = np.array(U.data)
        reapplied = np.array(U.apply(float(ta.data[nt - 1]), qr.ReducedDensityMatrix(data=rho.copy())).data)
        Uf = EvolutionSuperOperator(time=ta, ham=qr.Hamiltonian(data=H.copy()), relt=relt(), mode="all")
        Uf.set_dense_dt(nd2)
        Uf.calculate()
        fresh = np.array(Uf.data)
        U.set_dense_dt(nd)
        U.calculate()
        back = np.array(U.data)
        prop2 = qr.ReducedDensityMatrixPropagator(ta, qr.Hamiltonian(data=H.copy()), RTensor=relt())
        if nd2 > 1:
            prop2.setDtRefinement(nd2)
        direct2 = np.array(prop2.propagate(qr.ReducedDensityMatrix(data=rho.copy())).data)
        # incremental mode: the mode chosen for the Coq comparison, and ALWAYS also the in-place mode (save=False) for more
        # calls than the grid has points (it keeps only the current value, so it may run on): every value must be the
        # corresponding power of the first one
        Uj = EvolutionSuperOperator(time=ta, ham=qr.Hamiltonian(data=H.copy()), relt=relt(), mode="jit")
        Uj.set_dense_dt(nd)
        jit = []
        for k in range(1, nt):
            Uj.calculate_next(save=c["save"])
            jit.append(np.array(Uj.data[k] if c["save"] else Uj.data).copy())
            if Uj.now != k:
                chk.violation("jit:now", "after %d calls of calculate_next the counter is %d" % (k, Uj.now), "monitor", c)
        Ui = EvolutionSuperOperator(time=ta, ham=qr.Hamiltonian(data=H.copy()), relt=relt(), mode="jit")
        Ui.set_dense_dt(nd)
        pw = None
        for k in range(1, 7):
            Ui.calculate_next()
            cur = np.array(Ui.data).copy()
            pw = cur.copy() if k == 1 else np.tensordot(first, pw)
            if k == 1:
                first = cur.copy()
            if np.max(np.abs(cur - pw)) > 1e-10 * max(1.0, float(np.max(np.abs(pw)))):
                chk.violation("jit_inplace_power", "incremental mode (save=False): the value after %d calls is not the %d-th power of the value after the "
                              "first call (max deviation %g) (case %s)" % (k, k, np.max(np.abs(cur - pw)), json.dumps(c)), "monitor", c)
                break
        # direct propagation with the same dense step
        prop = qr.ReducedDensityMatrixPropagator(ta, qr.Hamiltonian(data=H.copy()), RTensor=relt())
        if nd > 1:
            prop.setDtRefinement(nd)
        direct = np.array(prop.propagate(qr.ReducedDensityMatrix(data=rho.copy())).data)
    tensor_monitors(chk, c, data, "all")
    sc = float(np.max(np.abs(data))) * float(np.max(np.abs(rho)))
    if not np.array_equal(reused, fresh):
        chk.violation("reuse_vs_fresh", "calculate(), set_dense_dt(%d), calculate() on one object differs from a fresh object with dense setting %d by %g; "
                      "applied to a state it differs from direct propagation with that internal step by %g (case %s)"
                      % (nd2, nd2, float(np.max(np.abs(reused - fresh))), float(np.max(np.abs(reapplied - direct2[nt - 1]))), json.dumps(c)), "monitor", c)
    elif not np.array_equal(back, data):
        chk.violation("reuse_back", "calculate() after set_dense_dt(%d), calculate(), set_dense_dt(%d) differs from the first calculate() with dense setting %d "
                      "by %g (case %s)" % (nd2, nd, nd, float(np.max(np.abs(back - data))), json.dumps(c)), "monitor", c)
    elif np.max(np.abs(reapplied - direct2[nt - 1])) > 1e-10 * sc:
        chk.violation("reuse_vs_propagation", "after set_dense_dt(%d) and a second calculate(), U(t_%d) applied to a state differs from direct propagation "
                      "with that internal step by %g (case %s)" % (nd2, nt - 1, float(np.max(np.abs(reapplied - direct2[nt - 1]))), json.dumps(c)), "monitor", c)
    for i in range(nt):
        if np.max(np.abs(applied[i] - direct[i])) > 1e-10 * sc or np.max(np.abs(allres[i] - direct[i])) > 1e-10 * sc:
            chk.violation("apply_vs_propagation", "U(t_%d) applied to a state differs from direct propagation by %g (case %s)"
                          % (i, np.max(np.abs(applied[i] - direct[i])), json.dumps(c)), "monitor", c)
            break
    for k in range(1, nt):
        if np.max(np.abs(jit[k - 1] - data[k])) > 1e-10 * float(np.max(np.abs(data))):
            chk.violation("jit_vs_all", "incremental mode after %d calls differs from mode 'all' at index %d by %g (case %s)"
                          % (k, k, np.max(np.abs(jit[k - 1] - data[k])), json.dumps(c)), "monitor", c)
            break
    if not at_ok:
        chk.violation("at", "at(t_i) does not return data[i] (case %s)" % json.dumps(c), "monitor", c)
    tol = 1e-10 * max(1.0, float(np.max(np.abs(data)))) * max(1.0, float(np.max(np.abs(rho))))
    items.append("(mkCase08 %d%%nat %s %s %s %d%%nat %d%%nat %s %s %s %s %s)" % (
        n, q2(H), q4(RR), cm.qlit(dense), nd, nt, q2(rho), cm.clist([q4(d) for d in data]), cm.clist([q4(d) for d in jit]),
        cm.clist([q2(a) for a in applied]), cm.qlit(tol)))
    meta.append(c)
    chk.count("exact:n=%d ndense=%d nt=%d %s" % (n, nd, nt, "save" if c["save"] else "nosave"))
    chk.case(("exact", json.dumps(c, sort_keys=True)), True, sample=c if len(chk.samples) < 3 else None)
    reset_manager()


def float_monitors(chk, tier):
    """random Lindblad systems (float): all clauses incl. Lorentzian pure dephasing and refinement of the dense step"""
    import quantarhei as qr
    import scipy.linalg
    from quantarhei.qm import LindbladForm, SystemBathInteraction, Operator
    from quantarhei.qm.liouvillespace.evolutionsuperoperator import EvolutionSuperOperator
    from quantarhei.qm.liouvillespace.puredephasing import PureDephasing
    r = cm.rng(PID + "float")
    for k in range(10 if tier == "quick" else 120):
        reset_manager()
        rs = np.random.RandomState(r.randrange(2 ** 31))
        n = int(rs.choice([2, 3, 4]))
        nd = int(rs.choice([1, 2, 4]))
        deph = (k % 3 == 2)
        ops_form = (k % 4 in (1, 2))          # the relaxation tensor held as operators (the LindbladForm default) or as a tensor
        c = {"kind": "float", "n": n, "ndense": nd, "deph": deph, "ops_form": ops_form, "k": k}
        try:
            with contextlib.redirect_stdout(io.StringIO()):
                Hm = rs.randn(n, n) * 0.03
                Hm = Hm + Hm.T
                if k % 5 == 3:
                    # a complex Hermitian Hamiltonian (couplings with a phase)
                    Bm = rs.randn(n, n) * 0.02
                    Hm = Hm + 1j * (Bm - Bm.T)
                    c["complex_hamiltonian"] = True
                ops, rates = [], []
                for m in range(int(rs.randint(1, 4))):
                    Kop = np.zeros((n, n))
                    Kop[rs.randint(n), rs.randint(n)] = 1.0
                    ops.append(Kop)
                    rates.append(float(rs.rand() * 0.05))
                ta = qr.TimeAxis(0.0, 12, 2.0)

                def build(ndv):
                    ham = qr.Hamiltonian(data=Hm.copy())
                    sbi = SystemBathInteraction(sys_operators=[Operator(data=K_.copy()) for K_ in ops], rates=rates)
                    LF = LindbladForm(ham, sbi, as_operators=ops_form)
                    pd = None
                    if deph:
                        g = np.abs(rs2.randn(n, n)) * 0.02
                        g = g + g.T
                        np.fill_diagonal(g, 0.0)
                        pd = PureDephasing(drates=g, dtype="Lorentzian")
                    U = EvolutionSuperOperator(time=ta, ham=ham, relt=LF, pdeph=pd, mode="all")
                    U.set_dense_dt(ndv)
                    U.calculate()
                    return np.array(U.data), ham, LF, pd
                rs2 = np.random.RandomState(k)
                data, ham, LF, pd = build(nd)
                A = rs.randn(n, n) + 1j * rs.randn(n, n)
                rho = A.dot(A.conj().T)
                rho /= np.trace(rho)
                prop = qr.ReducedDensityMatrixPropagator(ta, ham, RTensor=LF, PDeph=pd)
                if nd > 1:
                    prop.setDtRefinement(nd)
                direct = np.array(prop.propagate(qr.ReducedDensityMatrix(data=rho.copy())).data)
            tensor_monitors(chk, c, data, "float")
            for i in range(data.shape[0]):
                if np.max(np.abs(np.tensordot(data[i], rho) - direct[i])) > 1e-10:
                    chk.violation("apply_vs_propagation:float", "U(t_%d) rho differs from direct propagation by %g (n=%d ndense=%d dephasing=%s)"
                                  % (i, np.max(np.abs(np.tensordot(data[i], rho) - direct[i])), n, nd, "%s, %s form" % (deph, "operator" if ops_form else "tensor")), "monitor", c)
                    break
            if not deph:
                # refinement: 8 times finer dense step; both within the truncation bound of the exact exponential
                rs2 = np.random.RandomState(k)
                with contextlib.redirect_stdout(io.StringIO()):
                    fine, _, _, _ = build(nd * 8)
                    # the same refinement on the object already used (calculate, set_dense_dt, calculate): must be the fresh result
                    Uo = EvolutionSuperOperator(time=ta, ham=ham, relt=LF, pdeph=pd, mode="all")
                    Uo.set_dense_dt(nd)
                    Uo.calculate()
                    Uo.set_dense_dt(nd * 8)
                    Uo.calculate()
                    inplace = np.array(Uo.data)
                if np.max(np.abs(inplace - fine)) > 1e-12:
                    chk.violation("reuse_vs_fresh:float", "refining the dense step on an object that has already been calculated (set_dense_dt(%d), calculate()) "
                                  "differs from a fresh object with that setting by %g" % (nd * 8, float(np.max(np.abs(inplace - fine)))), "monitor", c)
                G = np.zeros((n * n, n * n), dtype=complex)
                if ops_form:
                    sbit = SystemBathInteraction(sys_operators=[Operator(data=K_.copy()) for K_ in ops], rates=rates)
                    Rt = np.array(LindbladForm(qr.Hamiltonian(data=Hm.copy()), sbit, as_operators=False).data)
                else:
                    Rt = np.array(LF.data)
                I = np.eye(n)
                for a in range(n):
                    for b in range(n):
                        for cc in range(n):
                            for d in range(n):
                                G[a * n + b, cc * n + d] = -1j * (Hm[a, cc] * I[b, d] - I[a, cc] * Hm[d, b]) + Rt[a, b, cc, d]
                x = float(np.linalg.norm(G, 2)) * 2.0 / nd
                for i in range(data.shape[0]):
                    steps = i * nd
                    Cn = max(1.0, max(float(np.linalg.norm(scipy.linalg.expm(G * 2.0 / nd * s), 2)) for s in range(steps + 1)))
                    b = 2 * steps * Cn * (x ** 5 / 120) * math.exp(x) * (1 + (x ** 5 / 120) * math.exp(x)) ** steps * n + 1e-12
                    dev = float(np.linalg.norm((data[i] - fine[i]).reshape(n * n, n * n), 2))
                    if dev > 2 * b:
                        chk.violation("refinement:float", "refining the dense step changes U(t_%d) by %g > twice the truncation bound %g" % (i, dev, b), "monitor", c)
                        break
            chk.count("float:n=%d ndense=%d%s" % (n, nd, " dephasing" if deph else ""))
            chk.case(("float", k), True)
        except Exception as e:
            import traceback
            chk.violation("float:exception", "float case %s raised %r %s" % (json.dumps(c), e, traceback.format_exc()[-500:]), "monitor", c)
    reset_manager()


def dense_count_sweep(chk, tier, only=None):
    """Udt must be the Ndense-th power of the elementary step for EVERY time step / dense setting: a two-level system with a
    diagonal Hamiltonian and no relaxation makes the coherence element U[0,1,0,1] the scalar z^Ndense, z the order-4 Taylor value
    of exp(-i w dt_dense), so the number of contracted dense steps is read off exactly (cheap: sweeps all settings)."""
    import quantarhei as qr
    from quantarhei.qm.liouvillespace.relaxationtensor import RelaxationTensor
    from quantarhei.qm.liouvillespace.evolutionsuperoperator import EvolutionSuperOperator
    steps = [0.5, 1.0, 2.0, 5.0, 7.0, 10.0, 20.0, 25.0, 50.0, 0.3, 0.1]
    denses = list(range(1, 121)) if tier != "quick" else [d for d in range(1, 121)]
    w = 0.01
    bad = 0
    if only is not None:
        steps, denses = [only[0]], [only[1]]
    for step in steps:
        for nd in denses:
            reset_manager()
            with contextlib.redirect_stdout(io.StringIO()):
                RT = RelaxationTensor()
                RT.dim = 2
                RT.data = np.zeros((2, 2, 2, 2), dtype=complex)
                ta = qr.TimeAxis(0.0, 3, step)
                U = EvolutionSuperOperator(time=ta, ham=qr.Hamiltonian(data=np.diag([0.0, w / step])), relt=RT, mode="all")
                U.set_dense_dt(nd)
                U.calculate()
                d = np.array(U.data)
            x = -1j * (-(w / step)) * (step / nd)          # rho_01 rotates with +i w t
            z = 1 + x + x ** 2 / 2 + x ** 3 / 6 + x ** 4 / 24
            want1, want2 = z ** nd, z ** (2 * nd)
            if abs(d[1, 0, 1, 0, 1] - want1) > 1e-9 or abs(d[2, 0, 1, 0, 1] - want2) > 1e-9:
                bad += 1
                if bad <= 2:
                    k_eff = np.log(d[1, 0, 1, 0, 1]) / np.log(z)
                    c = {"kind": "dense_count", "step": step, "ndense": nd}
                    chk.violation("dense_count", "time step %g with dense setting %d: U(t_1) is the elementary step to the power %.3f, not %d "
                                  "(U[0,1,0,1] = %r, expected %r): the superoperator does not reproduce propagation with the same internal step"
                                  % (step, nd, float(np.real(k_eff)), nd, complex(d[1, 0, 1, 0, 1]), complex(want1)), "monitor", c)
            chk.case(("dense_count", step, nd), nd > 1)
    chk.count("dense_count_sweep", len(steps) * len(denses))
    reset_manager()


IMPORTS = "From QV Require Import Base.Alg Base.Sums Base.Mat Base.Tens Base.Util Model.C01 Model.C02 Model.C08.\n"


def rwa_monitor(chk, tier):
    """rotating-wave frame: the superoperator calculated for a Hamiltonian with RWA and converted back (convert_from_RWA) applied to a
    state is the direct propagation converted back - whether the RWA was switched on before or AFTER the superoperator object was
    created (the Hamiltonian is read when the calculation runs)."""
    import numpy as np
    import quantarhei as qr
    from quantarhei.qm import Operator, SystemBathInteraction, LindbladForm, EvolutionSuperOperator
    r = cm.rng(PID + "rwa")
    for k in range(4 if tier == "quick" else 24):
        rs = np.random.RandomState(r.randrange(2 ** 31))
        n = int(rs.choice([3, 4]))
        nd = int(rs.choice([1, 2, 5]))
        when = ["before_construction", "after_construction"][k % 2]
        c = {"kind": "rwa", "n": n, "ndense": nd, "set_rwa": when, "k": k}
        try:
            with contextlib.redirect_stdout(io.StringIO()):
                Hm = rs.randn(n, n) * 0.02
                Hm = Hm + Hm.T
                Hm[0, :] = 0.0
                Hm[:, 0] = 0.0
                for i in range(1, n):
                    Hm[i, i] += 2.2
                ta = qr.TimeAxis(0.0, 20, 1.0)
                Kop = np.zeros((n, n))
                Kop[1, n - 1] = 1.0

                def system():
                    ham = qr.Hamiltonian(data=Hm.copy())
                    sbi = SystemBathInteraction(sys_operators=[Operator(data=Kop.copy())], rates=[0.01])
                    return ham, LindbladForm(ham, sbi, as_operators=False)
                ham, LF = system()
                if when == "before_construction":
                    ham.set_rwa([0, 1])
                U = EvolutionSuperOperator(ta, ham, LF)
                U.set_dense_dt(nd)
                if when == "after_construction":
                    ham.set_rwa([0, 1])
                U.calculate()
                prop = qr.ReducedDensityMatrixPropagator(ta, ham, LF)
                if nd > 1:
                    prop.setDtRefinement(nd)
                A = rs.randn(n, n) + 1j * rs.randn(n, n)
                rho = A.dot(A.conj().T)
                rho /= np.trace(rho)
                ev = prop.propagate(qr.ReducedDensityMatrix(data=rho.copy()))
                ev.convert_from_RWA(ham)
                U.convert_from_RWA()
                worst = max(float(np.max(np.abs(np.array(U.apply(float(ta.data[i]), qr.ReducedDensityMatrix(data=rho.copy())).data) - ev.data[i])))
                            for i in range(ta.length))
            chk.count("rwa:" + when)
            chk.case(("rwa", k, when, n, nd), True)
            if worst > 1e-9:
                chk.violation("rwa:apply_vs_propagation:" + when, "RWA switched on %s of the superoperator: U(t) rho converted from the rotating "
                              "frame differs from the direct propagation converted back by %.3g" % (when.replace("_", " "), worst), "monitor", c)
        except Exception as e:
            chk.violation("rwa:exception", "RWA monitor raised %r" % (e,), "monitor", c)


def main():
    chk = cm.Check(PID, args.tier)
    chk.rule = ("exact-rational cases: n<=3, dense settings 1-3, grids of 2-4 points, dyadic dense step, modes 'all' and 'jit' (save on/off), apply at every "
                "grid time; float cases: Lindblad generators n<=4, dense 1/2/4, with and without Lorentzian pure dephasing, 12-point grids. Non-trivial: all")
    chk.assumptions = ["Gaussian pure dephasing and time-dependent tensors make the code recompute every interval; the semigroup clause of the property "
                       "is stated for time-independent generators and those branches are not part of this check",
                       "refinement clause validated against scipy.linalg.expm with the bound 2 N C (x^5/120) e^x (1+..)^N n; not proved",
                       "exact comparison tolerance 1e-10 relative (model in exact rational arithmetic)"]
    chk.prove()
    import translate
    translate.static_tie(cm, chk, PID, cm.REPO)      # second, static tie: model regenerated from the current source
    items, meta = [], []
    if args.replay:
        rep = json.load(open(args.replay))
        c = rep.get("input")
        cases = [c] if isinstance(c, dict) and c.get("kind") == "exact" else []
        if isinstance(c, dict) and c.get("kind") == "dense_count":
            dense_count_sweep(chk, args.tier, only=(c["step"], c["ndense"]))
    else:
        r = cm.rng(PID)
        cases = [gen_case(r, k) for k in range(16 if args.tier == "quick" else 160)]
    for c in cases:
        try:
            run_case(chk, c, items, meta)
        except Exception as e:
            import traceback
            chk.violation("harness:exception", "case %s raised %r\n%s" % (json.dumps(c), e, traceback.format_exc()[-700:]), "monitor", c)
            chk.case(("exc", json.dumps(c, sort_keys=True)), False)
            reset_manager()
    if not args.replay:
        float_monitors(chk, args.tier)
        rwa_monitor(chk, args.tier)
        dense_count_sweep(chk, args.tier)
    shards = [cm.HEADER + IMPORTS + "Definition cs : list case08 := [%s].\nEval vm_compute in (bad agrees08 cs).\n" % it for it in items]
    for k, (rc, out) in enumerate(cm.coq_eval(PID, shards, timeout=1500)):
        if rc != 0:
            chk.violation("correspondence:coq_error", "coqc failed on case %s: %s" % (json.dumps(meta[k]), out[-500:]), "correspondence", meta[k], found_input=False)
            continue
        badl = cm.parse_natlist(cm.parse_evals(out)[0])
        chk.corr["cases"] += 1
        chk.corr["disagreements"] += len(badl)
        if badl:
            chk.violation("correspondence:superoperator", "implementation differs from Model.C08 on case %s" % json.dumps(meta[k]), "correspondence", meta[k], found_input=False)
    chk.finish()


main()
