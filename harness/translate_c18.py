# -*- coding: utf-8 -*-
"""Static tie for C18 (DESIGN.md section 12): the current source of

  quantarhei/core/datasaveable.py   DataSaveable._data_with_axis, _extract_data_with_axis, save_data, load_data,
                                    the four writer methods and the four reader methods
  quantarhei/core/matrixdata.py     MatrixData.save_data, load_data and its six one-line writers/readers
  quantarhei/core/saveable.py       Saveable.savedir, loaddir (and save / load / scopy structurally)

is parsed on every run and turned into Gallina definitions (skeleton combinators of coq/theories/Proofs/C18gen.v
instantiated with the code's own constants, index expressions, dtype expression, comparison chains, filters) that the
generated file proves equal to Model/C18.v: pack_t / extract / kind_of / text_ndmin / export_import / auto_tag / savedir.
Everything outside the matched statement skeletons raises Untranslatable (fail-closed).
"""
import ast
import copy

from translate import Untranslatable, Expr, _src_of
from translate2 import unify, _expr_of

DS = "/quantarhei/core/datasaveable.py"
MD = "/quantarhei/core/matrixdata.py"
SV = "/quantarhei/core/saveable.py"


# ----------------------------------------------------------------------------------------------- helpers
class _NoPrint(ast.NodeTransformer):
    """print(...) statements only write to stdout: dropped before matching (an emptied block keeps a `pass`);
    `T = T + e` / `T = e + T` / `T = T - e` are read as `T += e` / `T -= e`"""

    def visit_Assign(self, s):
        if len(s.targets) == 1 and isinstance(s.value, ast.BinOp) and isinstance(s.value.op, (ast.Add, ast.Sub)):
            t = ast.dump(s.targets[0]).replace("ctx=Store()", "ctx=Load()")
            if ast.dump(s.value.left) == t:
                return ast.AugAssign(target=s.targets[0], op=s.value.op, value=s.value.right)
            if isinstance(s.value.op, ast.Add) and ast.dump(s.value.right) == t:
                return ast.AugAssign(target=s.targets[0], op=s.value.op, value=s.value.left)
        return s

    def _block(self, stmts):
        out = []
        for s in stmts:
            if (isinstance(s, ast.Expr) and isinstance(s.value, ast.Call) and isinstance(s.value.func, ast.Name)
                    and s.value.func.id == "print"):
                continue
            out.append(self.visit(s))
        return out or [ast.Pass()]

    def generic_visit(self, node):
        for f in ("body", "orelse", "finalbody"):
            v = getattr(node, f, None)
            if isinstance(v, list) and v and isinstance(v[0], ast.stmt):
                setattr(node, f, self._block(v))
        for h in getattr(node, "handlers", []) or []:
            h.body = self._block(h.body)
        return node


def fn_of(path, qual):
    return _NoPrint().visit(copy.deepcopy(_src_of(path, qual)))


def match_fn(fn, template_src, env=None, what=""):
    tfn = ast.parse(template_src).body[0]
    env = {} if env is None else env
    unify([a.arg for a in tfn.args.args], [a.arg for a in fn.args.args], env, what + ".args")
    unify(tfn.body, fn.body, env, what)
    return env


def zc(node, names=None):
    """closed integer expression -> Coq Z"""
    return Expr("Z", names or {}).e(node)


def coq_string(node, what):
    if not (isinstance(node, ast.Constant) and isinstance(node.value, str)):
        raise Untranslatable("%s: string constant expected, found %s" % (what, ast.unparse(node)))
    s = node.value
    if not all(32 <= ord(ch) < 127 and ch != '"' for ch in s):
        raise Untranslatable("%s: string %r outside printable ASCII" % (what, s))
    return '"%s"' % s


# ----------------------------------------------------------------------------------------------- _data_with_axis
T_PACK = '''
def _data_with_axis(self, axis):
    shpl = list(self.data.shape)
    dtype = H_dtype
    if len(shpl) == H_c2:
        shpl[H_i] += H_inc
        shp = tuple(shpl)
        data = numpy.zeros(shp, dtype=H_zd2)
        data[:, H_lo:] = self.data
        data[:, H_axc2] = axis.data
    elif len(shpl) == H_c1:
        shpl.append(H_app)
        shp = tuple(shpl)
        data = numpy.zeros(shp, dtype=H_zd1)
        data[:, H_dc1] = self.data
        data[:, H_axc1] = axis.data
    else:
        raise Exception(H_msg)
    return data
'''


def dtype_expr(node, names):
    """numpy dtype expressions over the dtypes of the data (td) and of the axis (ta)"""
    u = ast.unparse(node)
    if u == "self.data.dtype":
        return "td"
    if u in ("axis.data.dtype", "numpy.asarray(axis.data).dtype"):
        return "ta"
    if isinstance(node, ast.Name) and node.id in names:
        return names[node.id]
    if (isinstance(node, ast.Call) and ast.unparse(node.func) == "numpy.result_type" and len(node.args) == 2 and not node.keywords):
        return "(dt_join %s %s)" % (dtype_expr(node.args[0], names), dtype_expr(node.args[1], names))
    raise Untranslatable("dtype expression %s" % u)


def pack(repo):
    env = match_fn(fn_of(repo + DS, "DataSaveable._data_with_axis"), T_PACK, what="_data_with_axis")
    out = {h: zc(env["H_" + h]) for h in ("c2", "i", "inc", "lo", "axc2", "c1", "app", "dc1", "axc1")}
    out["dtype"] = dtype_expr(env["H_dtype"], {})
    out["zd2"] = dtype_expr(env["H_zd2"], {"dtype": "(g_dtype td ta)"})
    out["zd1"] = dtype_expr(env["H_zd1"], {"dtype": "(g_dtype td ta)"})
    return out


# ----------------------------------------------------------------------------------------------- _extract_data_with_axis
T_EXTRACT = '''
def _extract_data_with_axis(self, data, axis):
    if axis is None:
        return data
    else:
        if len(data.shape) == H_nd:
            if data.shape[H_i1] == H_w2:
                axis.data = data[:, H_a1]
                return data[:, H_d1]
            elif data.shape[H_i2] > H_w3:
                axis.data = data[:, H_a2]
                return data[:, H_d2:]
            else:
                raise Exception()
        else:
            raise Exception(H_msg)
'''


def extract(repo):
    env = match_fn(fn_of(repo + DS, "DataSaveable._extract_data_with_axis"), T_EXTRACT, what="_extract_data_with_axis")
    return {"x_" + h: zc(env["H_" + h]) for h in ("nd", "i1", "w2", "a1", "d1", "i2", "w3", "a2", "d2")}


# ----------------------------------------------------------------------------------------------- writers / readers
T_WRITER = '''
def _w(self, file, with_axis=None):
    if with_axis is not None:
        data = self._data_with_axis(with_axis)
        H_call1
    else:
        H_call2
'''
T_READER = '''
def _r(self, %s, with_axis=None):
    self.set_data_writable()
    _data = H_read
    self.data = self._extract_data_with_axis(_data, with_axis)
    self.set_data_protected()
'''
T_TEXT_READER = '''
def _r(self, filename, with_axis=None):
    self.set_data_writable()
    ndmin = H_ndmin
    try:
        _data = H_call1
    except ValueError:
        _data = H_call2
    self.data = self._extract_data_with_axis(_data, with_axis)
    self.set_data_protected()
'''


def classify_write(call, payload):
    """a library call that writes `payload` into `file` -> (kind, key or None)"""
    if not isinstance(call, ast.Call):
        raise Untranslatable("writer statement %s" % ast.unparse(call))
    f = ast.unparse(call.func)
    args = [ast.unparse(a) for a in call.args]
    kws = [(k.arg, ast.unparse(k.value)) for k in call.keywords]
    if f == "numpy.savetxt" and args == ["file", payload] and not kws:
        return "KText", None
    if f == "numpy.save" and args == ["file", payload] and not kws:
        return "KNpy", None
    if f == "numpy.savez_compressed" and args == ["file"] and len(kws) == 1 and kws[0][0] is not None and kws[0][1] == payload:
        return "KNpz", '"%s"' % kws[0][0]
    if (f == "io.savemat" and len(call.args) == 2 and args[0] == "file" and isinstance(call.args[1], ast.Dict) and not kws
            and len(call.args[1].keys) == 1 and ast.unparse(call.args[1].values[0]) == payload):
        return "KMat", coq_string(call.args[1].keys[0], "savemat key")
    raise Untranslatable("writer call %s" % ast.unparse(call))


def classify_read(node, fname):
    """an expression that reads the array back from the file -> (kind, key or None)"""
    key = None
    if isinstance(node, ast.Subscript):
        key = coq_string(node.slice, "key of the loaded file")
        node = node.value
    if not (isinstance(node, ast.Call) and not node.keywords and [ast.unparse(a) for a in node.args] == [fname]):
        raise Untranslatable("reader expression %s" % ast.unparse(node))
    f = ast.unparse(node.func)
    if f == "numpy.load":
        return ("KNpy", None) if key is None else ("KNpz", key)
    if f == "io.loadmat" and key is not None:
        return "KMat", key
    raise Untranslatable("reader call %s" % ast.unparse(node))


def writer(repo, meth):
    env = match_fn(fn_of(repo + DS, "DataSaveable." + meth), T_WRITER, what=meth)
    k1 = classify_write(env["H_call1"], "data")
    k2 = classify_write(env["H_call2"], "self.data")
    if k1 != k2:
        raise Untranslatable("%s writes with and without axis through different library calls (%s / %s)" % (meth, k1, k2))
    return k1


def reader(repo, meth):
    fn = fn_of(repo + DS, "DataSaveable." + meth)
    if len(fn.args.args) != 3 or not fn.args.args[1].arg.isidentifier():
        raise Untranslatable(meth + ": arguments")
    fname = fn.args.args[1].arg
    env = match_fn(fn, T_READER % fname, what=meth)
    return classify_read(env["H_read"], fname)


class _WA(Expr):
    """integer expressions that may branch on `with_axis is None` / `is not None`  (wa : bool)"""

    def b(self, node):
        if (isinstance(node, ast.Compare) and len(node.ops) == 1 and isinstance(node.left, ast.Name) and node.left.id == "with_axis"
                and isinstance(node.comparators[0], ast.Constant) and node.comparators[0].value is None):
            if isinstance(node.ops[0], ast.Is):
                return "(negb wa)"
            if isinstance(node.ops[0], ast.IsNot):
                return "wa"
        return Expr.b(self, node)

    def e(self, node):
        if isinstance(node, ast.IfExp):
            return "(if %s then %s else %s)" % (self.b(node.test), self.e(node.body), self.e(node.orelse))
        return Expr.e(self, node)


def text_reader(repo):
    env = match_fn(fn_of(repo + DS, "DataSaveable._importDataFromText"), T_TEXT_READER, what="_importDataFromText")
    out = {"ndmin": _WA("Z", {}).e(env["H_ndmin"])}
    for h, want_dtype, tag in (("H_call1", None, "nd_real"), ("H_call2", "complex", "nd_cplx")):
        call = env[h]
        if not (isinstance(call, ast.Call) and ast.unparse(call.func) == "numpy.loadtxt" and [ast.unparse(a) for a in call.args] == ["filename"]):
            raise Untranslatable("text reader call %s" % ast.unparse(call))
        kws = {k.arg: k.value for k in call.keywords}
        if None in kws or set(kws) - {"dtype", "ndmin"}:
            raise Untranslatable("text reader keywords %s" % ast.unparse(call))
        if (ast.unparse(kws["dtype"]) if "dtype" in kws else None) != want_dtype:
            raise Untranslatable("text reader dtype in %s" % ast.unparse(call))
        # numpy.loadtxt's default is ndmin=0
        out[tag] = _WA("Z", {"ndmin": "(g_ndmin wa)"}).e(kws["ndmin"]) if "ndmin" in kws else "(0)"
    return out


# ----------------------------------------------------------------------------------------------- dispatch by extension
def _ext_test(node):
    if isinstance(node, ast.Compare) and len(node.ops) == 1 and isinstance(node.ops[0], ast.Eq):
        a, b = node.left, node.comparators[0]
        if isinstance(b, ast.Name):
            a, b = b, a
        if isinstance(a, ast.Name) and a.id == "extension":
            return "(String.eqb ext %s)" % coq_string(b, "extension")
    if isinstance(node, ast.BoolOp):
        return "(" + (" || " if isinstance(node.op, ast.Or) else " && ").join(_ext_test(v) for v in node.values) + ")"
    raise Untranslatable("extension test %s" % ast.unparse(node))


def dispatch(path, cls, meth, call_args, kinds):
    """save_data / load_data: -> Gallina `string -> option wkind` body, list of methods called"""
    fn = fn_of(path, cls + "." + meth)
    body = [s for s in fn.body if not (isinstance(s, ast.Expr) and isinstance(s.value, ast.Constant)) and not isinstance(s, ast.Pass)]
    if len(body) != 3 or ast.unparse(body[0]) != "filename, extension = os.path.splitext(name)":
        raise Untranslatable("%s.%s: expected  splitext / unknown-format guard / dispatch chain" % (cls, meth))
    g = body[1]
    if not (isinstance(g, ast.If) and not g.orelse and len(g.body) == 1 and isinstance(g.body[0], ast.Raise)
            and isinstance(g.test, ast.Compare) and len(g.test.ops) == 1 and isinstance(g.test.ops[0], ast.NotIn)
            and ast.unparse(g.test.left) == "extension" and isinstance(g.test.comparators[0], (ast.List, ast.Tuple))):
        raise Untranslatable("%s.%s: unknown-format guard %s" % (cls, meth, ast.unparse(g)[:80]))
    known = [coq_string(e, "known extension") for e in g.test.comparators[0].elts]
    chain, called = [], []
    node = body[2]
    while True:
        if not isinstance(node, ast.If) or len(node.body) != 1:
            raise Untranslatable("%s.%s: dispatch chain %s" % (cls, meth, ast.unparse(node)[:80]))
        c = node.body[0]
        if not (isinstance(c, ast.Expr) and isinstance(c.value, ast.Call) and isinstance(c.value.func, ast.Attribute)
                and ast.unparse(c.value.func.value) == "self" and [ast.unparse(a) for a in c.value.args] == call_args and not c.value.keywords):
            raise Untranslatable("%s.%s: dispatched call %s" % (cls, meth, ast.unparse(c)[:80]))
        m = c.value.func.attr
        if m not in kinds:
            raise Untranslatable("%s.%s dispatches to %s, which is not a translated method" % (cls, meth, m))
        chain.append((_ext_test(node.test), kinds[m]))
        called.append(m)
        if not node.orelse:
            break
        if len(node.orelse) != 1:
            raise Untranslatable("%s.%s: else branch of the dispatch chain" % (cls, meth))
        node = node.orelse[0]
    text = "if negb (existsb (String.eqb ext) [%s]) then None\n  else " % "; ".join(known)
    for t, k in chain:
        text += "if %s then Some %s\n  else " % (t, k)
    return text + "None", called


def md_method(repo, meth, write):
    """MatrixData's writers and readers are single statements"""
    fn = fn_of(repo + MD, "MatrixData." + meth)
    body = [s for s in fn.body if not (isinstance(s, ast.Expr) and isinstance(s.value, ast.Constant)) and not isinstance(s, ast.Pass)]
    args = [a.arg for a in fn.args.args]
    if len(body) != 1 or len(args) != 2:
        raise Untranslatable("MatrixData.%s: one statement expected" % meth)
    s = body[0]
    if write:
        if not (isinstance(s, ast.Expr) and args[1] == "file"):
            raise Untranslatable("MatrixData.%s: %s" % (meth, ast.unparse(s)))
        return classify_write(s.value, "self.data")
    if meth == "_importDataFromText":
        # try: self.data = numpy.loadtxt(filename)  except ValueError: ... dtype=complex
        if not (isinstance(s, ast.Try) and len(s.body) == 1 and len(s.handlers) == 1 and not s.orelse and not s.finalbody):
            raise Untranslatable("MatrixData._importDataFromText: %s" % ast.unparse(s)[:80])
        for st, want in ((s.body[0], "numpy.loadtxt(filename)"), (s.handlers[0].body[0] if len(s.handlers[0].body) == 1 else None,
                                                                  "numpy.loadtxt(filename, dtype=complex)")):
            if not (isinstance(st, ast.Assign) and ast.unparse(st.targets[0]) == "self.data" and ast.unparse(st.value) == want):
                raise Untranslatable("MatrixData._importDataFromText: %s" % (ast.unparse(st) if st is not None else "handler"))
        return "KText", None
    if not (isinstance(s, ast.Assign) and len(s.targets) == 1 and ast.unparse(s.targets[0]) == "self.data"):
        raise Untranslatable("MatrixData.%s: %s" % (meth, ast.unparse(s)))
    return classify_read(s.value, args[1])


# ----------------------------------------------------------------------------------------------- savedir / loaddir
T_SAVEDIR = '''
def savedir(self, dirname, tag=None, comment=None, test=False):
    hfile = os.path.join(dirname, H_hname)
    try:
        os.makedirs(dirname)
        self.hashes = H_fresh
    except FileExistsError:
        self.hashes = load_parcel(hfile)
    if tag is None:
        itags = [tg for tg in self.hashes.keys() if H_keep]
        if len(itags) > H_bound:
            last = max(itags)
        else:
            last = H_last0
        tag = H_next
    str40 = self._get_fname()
    fname = os.path.join(dirname, str40 + H_suffix)
    if os.path.isfile(fname):
        str40 = self._get_fname()
        fname = os.path.join(dirname, str40 + H_suffix)
        if os.path.isfile(fname):
            raise Exception(H_msg)
    self.save(fname)
    self.hashes[tag] = str40
    p = Parcel()
    p.set_content(self.hashes)
    p.set_comment(H_comment)
    p.save(hfile)
'''
T_LOADDIR = '''
def loaddir(self, dirname):
    out = {}
    hfile = os.path.join(dirname, H_hname_l)
    hashes = load_parcel(hfile)
    for tag in hashes:
        fname = hashes[tag] + H_suffix_l
        fdname = os.path.join(dirname, fname)
        obj = load_parcel(fdname)
        out[tag] = obj
    return out
'''
T_SAVE = '''
def save(self, filename, comment=None, test=False):
    p = Parcel()
    p.set_content(self)
    p.set_comment(comment)
    p.save(filename)
    if test:
        if not isinstance(filename, str):
            filename.seek(0)
'''
T_LOAD = '''
def load(self, filename, test=False):
    if test:
        if not isinstance(filename, str):
            filename.seek(0)
    return load_parcel(filename)
'''
T_SCOPY = '''
def scopy(self):
    with TemporaryDirectory() as td:
        fname = os.path.join(td, H_name)
        self.save(fname)
        no = load_parcel(fname)
    return no
'''


PC = "/quantarhei/core/parcel.py"
T_SETCONTENT = '''
def set_content(self, obj):
    self.content = obj
    self.class_name = H_cn
    self.qrversion = H_ver
    self.comment = H_c
'''
T_PSAVE = '''
def save(self, filename):
    if isinstance(filename, str):
        with open(filename, "wb") as f:
            pickle.dump(self, f)
    else:
        pickle.dump(self, filename)
'''
T_LOADPARCEL = '''
def load_parcel(filename):
    if isinstance(filename, str):
        with open(filename, "rb") as f:
            obj = pickle.load(f)
    else:
        obj = pickle.load(filename)
    if isinstance(obj, Parcel):
        return obj.content
    else:
        raise Exception(H_msg)
'''
PICKLE_HOOKS = ("__getstate__", "__setstate__", "__reduce__", "__reduce_ex__", "__getnewargs__", "__getnewargs_ex__", "__copyreg__")


def parcel(repo):
    """Parcel.set_content keeps the object itself, Parcel.save pickles the parcel, load_parcel returns the content; and no class of the
    package customises pickling, so what is stored is the raw __dict__ (Model.C18 part B: save = the raw (tag, protection, data) triple)"""
    import os
    import warnings
    match_fn(fn_of(repo + PC, "Parcel.set_content"), T_SETCONTENT, what="Parcel.set_content")
    match_fn(fn_of(repo + PC, "Parcel.save"), T_PSAVE, what="Parcel.save")
    match_fn(fn_of(repo + PC, "load_parcel"), T_LOADPARCEL, what="load_parcel")
    hooks = []
    for root, _, files in os.walk(repo + "/quantarhei"):
        for f in sorted(files):
            if not f.endswith(".py"):
                continue
            path = os.path.join(root, f)
            try:
                with warnings.catch_warnings():
                    warnings.simplefilter("ignore")
                    tree = ast.parse(open(path, encoding="utf-8", errors="replace").read())
            except SyntaxError:
                raise Untranslatable("cannot parse %s" % path[len(repo):])
            for node in ast.walk(tree):
                if isinstance(node, ast.FunctionDef) and node.name in PICKLE_HOOKS:
                    hooks.append("%s:%s" % (path[len(repo):], node.name))
                elif isinstance(node, ast.Assign) and any(isinstance(t, ast.Name) and t.id in PICKLE_HOOKS for t in node.targets):
                    hooks.append("%s:%s" % (path[len(repo):], ast.unparse(node.targets[0])))
    return hooks


def keep_expr(node):
    """the filter of the automatic tag over a key tg -> bool over tagv"""
    if (isinstance(node, ast.Call) and isinstance(node.func, ast.Name) and node.func.id == "isinstance" and len(node.args) == 2
            and not node.keywords and isinstance(node.args[0], ast.Name) and node.args[0].id == "tg" and isinstance(node.args[1], ast.Name)):
        t = node.args[1].id
        if t == "int":
            return "(is_int tg)"
        if t == "bool":
            return "(is_bool tg)"
        raise Untranslatable("isinstance(tg, %s)" % t)
    if isinstance(node, ast.BoolOp):
        return "(" + (" && " if isinstance(node.op, ast.And) else " || ").join(keep_expr(v) for v in node.values) + ")"
    if isinstance(node, ast.UnaryOp) and isinstance(node.op, ast.Not):
        return "(negb %s)" % keep_expr(node.operand)
    raise Untranslatable("tag filter %s" % ast.unparse(node))


def savedir(repo):
    env = match_fn(fn_of(repo + SV, "Saveable.savedir"), T_SAVEDIR, what="savedir")
    match_fn(fn_of(repo + SV, "Saveable.loaddir"), T_LOADDIR, env, what="loaddir")
    for t, m in ((T_SAVE, "save"), (T_LOAD, "load"), (T_SCOPY, "scopy")):
        match_fn(fn_of(repo + SV, "Saveable." + m), t, what=m)
    fr = env["H_fresh"]
    if not ((isinstance(fr, ast.Dict) and not fr.keys) or ast.unparse(fr) == "dict()"):
        raise Untranslatable("table of a fresh directory: %s" % ast.unparse(fr))
    out = {"fresh": "[]", "keep": keep_expr(env["H_keep"])}
    for h in ("bound", "last0"):
        out["t_" + h] = zc(env["H_" + h])
    out["t_next"] = zc(env["H_next"], {"last": "last"})
    out["hname_s"], out["hname_l"] = coq_string(env["H_hname"], "table file"), coq_string(env["H_hname_l"], "table file")
    out["suffix_s"], out["suffix_l"] = coq_string(env["H_suffix"], "parcel suffix"), coq_string(env["H_suffix_l"], "parcel suffix")
    return out


# ----------------------------------------------------------------------------------------------- generated file
C18_FILE = """(* GENERATED on every run by harness/translate_c18.py from quantarhei/core/datasaveable.py, matrixdata.py, saveable.py.
   The statement skeletons were matched node for node against the templates; the content below is the code's. *)
From Coq Require Import String.
From Coq Require Import List Bool Arith ZArith Lia.
From QV Require Import Model.C18 Proofs.C18 Proofs.C18gen.
Import ListNotations.
Open Scope Z_scope.

(* ---- DataSaveable._data_with_axis ---- *)
Definition g_dtype (td ta : dty) : dty := %(dtype)s.
Definition g_zd2 (td ta : dty) : dty := %(zd2)s.
Definition g_zd1 (td ta : dty) : dty := %(zd1)s.
Lemma gen_dtype_is_join : forall td ta, g_zd2 td ta = dt_join td ta /\\ g_zd1 td ta = dt_join td ta.
Proof. intros [] []; split; reflexivity. Qed.
Section GenPack.
  Variable A : Type.
  Variable zero : A.
  Variable cast : dty -> A -> A.
  (* the two branches allocate with g_zd2 / g_zd1 *)
  Definition gen_pack (td ta : dty) (ax : list A) (d : arr A) : option (arr A) :=
    pack_skel A zero cast (g_zd2 td ta) (g_zd1 td ta)
              %(c2)s %(i)s %(inc)s %(lo)s %(axc2)s %(c1)s %(app)s %(dc1)s %(axc1)s ax d.
  Lemma gen_pack_is_model : forall td ta ax d, gen_pack td ta ax d = pack_t A cast (dt_join td ta) ax d.
  Proof.
    intros td ta ax d. unfold gen_pack. destruct (gen_dtype_is_join td ta) as [H2 H1].
    apply pack_skel_is_model; first [assumption | reflexivity | lia].
  Qed.
  (* hence, for values that fit the dtypes of their arrays, the untyped packing the theorems of Props/C18.v are about *)
  Lemma gen_pack_is_pack : (forall t t' x, dt_le t t' = true -> fits A cast t x -> fits A cast t' x) ->
    forall td ta ax d, Forall (fits A cast td) (flat A d) -> Forall (fits A cast ta) ax -> gen_pack td ta ax d = pack A ax d.
  Proof. intros Hm td ta ax d Hd Ha. rewrite gen_pack_is_model. now apply pack_t_lossless. Qed.

  (* ---- DataSaveable._extract_data_with_axis (axis given; without axis the array is returned as it is) ---- *)
  Definition gen_extract (d : arr A) : option (list A * arr A) :=
    extract_skel A zero %(x_nd)s %(x_i1)s %(x_w2)s %(x_a1)s %(x_d1)s %(x_i2)s %(x_w3)s %(x_a2)s %(x_d2)s d.
  Lemma gen_extract_is_model : forall d, wf A d -> gen_extract d = extract A d.
  Proof. intros d Hwf. unfold gen_extract. apply extract_skel_is_model; first [exact Hwf | reflexivity | lia]. Qed.
End GenPack.

(* ---- save_data / load_data: dispatch by extension to the writer / reader methods, classified by the library call ----
%(methods)s *)
Open Scope string_scope.
Definition gen_save_kind (ext : string) : option wkind :=
  %(save_chain)s.
Definition gen_load_kind (ext : string) : option wkind :=
  %(load_chain)s.
Definition gen_md_save_kind (ext : string) : option wkind :=
  %(md_save_chain)s.
Definition gen_md_load_kind (ext : string) : option wkind :=
  %(md_load_chain)s.
Definition g_npz_key_w : string := %(npz_key_w)s.   Definition g_npz_key_r : string := %(npz_key_r)s.
Definition g_mat_key_w : string := %(mat_key_w)s.   Definition g_mat_key_r : string := %(mat_key_r)s.
Definition g_md_npz_key_w : string := %(md_npz_key_w)s.   Definition g_md_npz_key_r : string := %(md_npz_key_r)s.
Close Scope string_scope.
Lemma gen_dispatch_is_model : forall f, gen_save_kind (ext_of f) = Some (kind_of f) /\\ gen_load_kind (ext_of f) = Some (kind_of f).
Proof. intros []; split; vm_compute; reflexivity. Qed.
Lemma gen_md_dispatch_is_model : forall f, f <> Mat ->
  gen_md_save_kind (ext_of f) = Some (kind_of f) /\\ gen_md_load_kind (ext_of f) = Some (kind_of f).
Proof. intros [] H; try (split; vm_compute; reflexivity). now elim H. Qed.
Lemma gen_keys_agree : g_npz_key_w = g_npz_key_r /\\ g_mat_key_w = g_mat_key_r /\\ g_md_npz_key_w = g_md_npz_key_r.
Proof. repeat split; reflexivity. Qed.

(* ---- DataSaveable._importDataFromText: the ndmin passed to numpy.loadtxt on the real and on the complex path ---- *)
Definition g_ndmin (wa : bool) : Z := %(ndmin)s.
Definition g_ndmin_real (wa : bool) : Z := %(nd_real)s.
Definition g_ndmin_cplx (wa : bool) : Z := %(nd_cplx)s.
Lemma gen_text_ndmin_is_model : forall wa, g_ndmin_real wa = text_ndmin drepaired wa /\\ g_ndmin_cplx wa = text_ndmin drepaired wa.
Proof. intros []; split; reflexivity. Qed.

(* ---- composed: save_data(name, with_axis) followed by load_data(name, with_axis), every format ----
   (the complex path of the text reader is the one the Gaussian-integer instance of the correspondence takes) *)
Section GenRoundTrip.
  Variable A : Type.
  Variable zero : A.
  Variable cast : dty -> A -> A.
  Hypothesis cast_mono : forall t t' x, dt_le t t' = true -> fits A cast t x -> fits A cast t' x.
  Definition gen_export_import (cplx : bool) (td ta : dty) (f : fmt) (ax : option (list A)) (d : arr A) :=
    export_import_skel A (gen_pack A zero cast td ta) (gen_extract A zero)
                       (fun f => gen_save_kind (ext_of f)) (fun f => gen_load_kind (ext_of f))
                       (if cplx then g_ndmin_cplx else g_ndmin_real) f ax d.
  Lemma gen_export_import_is_model : forall cplx td ta f ax d, wf A d ->
    Forall (fits A cast td) (flat A d) -> (forall a, ax = Some a -> Forall (fits A cast ta) a) ->
    gen_export_import cplx td ta f ax d = export_import A drepaired f ax d.
  Proof.
    intros cplx td ta f ax d Hwf Hd Ha. unfold gen_export_import. apply export_import_skel_is_model.
    - intro f0. apply gen_dispatch_is_model.
    - intro f0. apply gen_dispatch_is_model.
    - intro wa. destruct cplx; apply gen_text_ndmin_is_model.
    - intros d0 H0. now apply gen_extract_is_model.
    - exact Hwf.
    - intros a Hax. apply gen_pack_is_pack; [exact cast_mono | exact Hd | exact (Ha a Hax)].
  Qed.
End GenRoundTrip.

(* ---- Saveable.savedir / loaddir ---- *)
Definition g_keep (tg : tagv) : bool := %(keep)s.
Definition g_next (last : Z) : Z := %(t_next)s.
Section GenDir.
  Variable O : Type.
  Definition g_fresh : table O := %(fresh)s.
  Definition gen_auto_tag (t : table O) : option tagv := auto_tag_skel O g_keep %(t_bound)s %(t_last0)s g_next t.
  Definition gen_savedir (s : dirs O) (d : nat) (tag : option tagv) (x : O) : dirs O * dout O :=
    savedir_skel O g_fresh g_keep %(t_bound)s %(t_last0)s g_next s d tag x.
  Lemma g_keep_is_int : forall tg, g_keep tg = is_int tg.
  Proof. intros []; reflexivity. Qed.
  Lemma gen_auto_tag_is_model : forall t, gen_auto_tag t = auto_tag O TagRepaired t.
  Proof. intro t. unfold gen_auto_tag. apply auto_tag_skel_is_model; first [exact g_keep_is_int | intros; unfold g_next; lia]. Qed.
  Lemma gen_savedir_is_model : forall s d tag x, gen_savedir s d tag x = savedir O TagRepaired s d tag x.
  Proof. intros. unfold gen_savedir. apply savedir_skel_is_model; first [reflexivity | exact g_keep_is_int | intros; unfold g_next; lia]. Qed.
End GenDir.
(* ---- parcels: Parcel.set_content keeps the object itself, Parcel.save pickles the parcel, load_parcel returns its content
   (matched statement by statement); classes of the package that customise pickling (__getstate__, __reduce__, ...): %(hooks)s.
   With none, a parcel holds the raw __dict__ of the object: Model.C18.save = the raw (tag, protection, data) triple ---- *)
Definition g_pickle_hooks : nat := %(nhooks)s.
Lemma gen_parcel_is_raw : g_pickle_hooks = 0%%nat.
Proof. reflexivity. Qed.
Open Scope string_scope.
(* savedir and loaddir agree on the name of the table file and on the suffix of the parcels *)
Lemma gen_dir_names_agree : %(hname_s)s = %(hname_l)s /\\ %(suffix_s)s = %(suffix_l)s.
Proof. split; reflexivity. Qed.
"""

SAVE_METHODS = ["_exportDataToText", "_saveBinaryData", "_saveBinaryData_compressed", "_saveMatlab"]
LOAD_METHODS = ["_loadBinaryData", "_loadBinaryData_compressed", "_loadMatlab"]


def static(repo):
    out = {}
    out.update(pack(repo))
    out.update(extract(repo))
    wk, rk, notes = {}, {}, []
    keys = {}
    for m in SAVE_METHODS:
        k, key = writer(repo, m)
        wk[m] = k
        keys[("w", k)] = key
        notes.append("   %s writes through the %s library call" % (m, k))
    for m in LOAD_METHODS:
        k, key = reader(repo, m)
        rk[m] = k
        keys[("r", k)] = key
        notes.append("   %s reads through the %s library call" % (m, k))
    out.update(text_reader(repo))
    rk["_importDataFromText"] = "KText"
    notes.append("   _importDataFromText reads through numpy.loadtxt (real, then complex on ValueError)")
    out["save_chain"], c1 = dispatch(repo + DS, "DataSaveable", "save_data", ["name", "with_axis"], wk)
    out["load_chain"], c2 = dispatch(repo + DS, "DataSaveable", "load_data", ["name", "with_axis"], rk)
    for k in ("KNpz", "KMat"):
        if keys.get(("w", k)) is None or keys.get(("r", k)) is None:
            raise Untranslatable("no %s writer/reader pair with a key found" % k)
    out["npz_key_w"], out["npz_key_r"] = keys[("w", "KNpz")], keys[("r", "KNpz")]
    out["mat_key_w"], out["mat_key_r"] = keys[("w", "KMat")], keys[("r", "KMat")]
    # MatrixData
    mwk, mrk, mkeys = {}, {}, {}
    for m in ("_exportDataToText", "_saveBinaryData", "_saveBinaryData_compressed"):
        mwk[m], key = md_method(repo, m, True)
        mkeys[("w", mwk[m])] = key
    for m in ("_importDataFromText", "_loadBinaryData", "_loadBinaryData_compressed"):
        mrk[m], key = md_method(repo, m, False)
        mkeys[("r", mrk[m])] = key
    out["md_save_chain"], _ = dispatch(repo + MD, "MatrixData", "save_data", ["name"], mwk)
    out["md_load_chain"], _ = dispatch(repo + MD, "MatrixData", "load_data", ["name"], mrk)
    if mkeys.get(("w", "KNpz")) is None or mkeys.get(("r", "KNpz")) is None:
        raise Untranslatable("MatrixData: no npz writer/reader pair with a key")
    out["md_npz_key_w"], out["md_npz_key_r"] = mkeys[("w", "KNpz")], mkeys[("r", "KNpz")]
    out["methods"] = "\n".join(notes)
    out.update(savedir(repo))
    hooks = parcel(repo)
    out["nhooks"] = "%d" % len(hooks)
    out["hooks"] = ", ".join(hooks) if hooks else "none"
    what = ["datasaveable.py:DataSaveable._data_with_axis (both branches, dtype of the packed array)",
            "datasaveable.py:DataSaveable._extract_data_with_axis",
            "datasaveable.py:DataSaveable.save_data / load_data (dispatch chains)",
            "datasaveable.py:DataSaveable._exportDataToText, _saveBinaryData, _saveBinaryData_compressed, _saveMatlab (statement skeleton, library call, key)",
            "datasaveable.py:DataSaveable._importDataFromText (ndmin on both paths), _loadBinaryData, _loadBinaryData_compressed, _loadMatlab",
            "matrixdata.py:MatrixData.save_data / load_data and the six writers / readers",
            "saveable.py:Saveable.savedir (fresh table, automatic tag), loaddir, save, load, scopy (statement skeletons)",
            "parcel.py:Parcel.set_content, Parcel.save, load_parcel (statement skeletons) and a scan of the package for pickling hooks"]
    return C18_FILE % out, what


if __name__ == "__main__":
    import sys
    print(static(sys.argv[1] if len(sys.argv) > 1 else "/repo")[0])
