# -*- coding: utf-8 -*-
"""Static tie for C08, the bookkeeping around the numerical kernels: quantarhei/qm/liouvillespace/evolutionsuperoperator.py
EvolutionSuperOperator.__init__, _initialize_data, set_dense_dt, calculate, calculate_next, at, apply and
quantarhei/core/valueaxis.py ValueAxis.locate (what `apply(t, .)` and `at(t)` use to turn a time into a grid index).

Every function is matched node for node against a statement template (translate2.unify); the holes carry the index
expressions, constants, increments, guards and contraction operands.  The hole contents are translated and instantiate
the skeleton combinators of coq/theories/Proofs/C08objgen.v; the generated lemmas discharge "the content is the expected
one" from the code's own expressions and conclude equality with Model/C08.v (jit_next, calc_all, one_step_dense) and
Model/C08obj.v (jit_next_save, init_table, apply_at / apply_axis, locate, dense_axis).

Second part: the object as a store of fields.  For the public operations the set of `self.<attribute>` read and written
(transitively through the methods of the class) is collected; any other use of `self` (getattr, passing it on, an
attribute that is not part of the object model) is untranslatable.  The generated lemmas show the sets are inside the ones
Model/C08obj.v's frame theorem (re-use of an object = a fresh object with the same settings) is stated for.
"""
import ast

from translate import Untranslatable, Expr, _src_of
from translate2 import unify, _live, _strip

ESO = "/quantarhei/qm/liouvillespace/evolutionsuperoperator.py"
VAX = "/quantarhei/core/valueaxis.py"
TIME = "/quantarhei/core/time.py"
CLS = "EvolutionSuperOperator"


def _match(path, qual, template):
    fn = _src_of(path, qual)
    tfn = ast.parse(template).body[0]
    env = {}
    unify([a.arg for a in tfn.args.args], [a.arg for a in fn.args.args], env, qual + ".args")
    unify(tfn.body, fn.body, env, qual)
    return env


# ------------------------------------------------------------------------------------------------ templates
T_INIT = '''
def __init__(self, time=None, ham=None, relt=None, pdeph=None, mode='all', block=None):
    super().__init__()
    self.time = time
    self.ham = ham
    self.relt = relt
    self.mode = mode
    self.pdeph = pdeph
    self.block = block
    try:
        self.dim = ham.dim
    except:
        self.dim = 1
    self.is_in_rwa = False
    self.dense_time = None
    self.set_dense_dt(H_d0)
    Nt = self.time.length
    if self.block is None:
        N1 = self.dim
        N2 = self.dim
    elif self.block == (0, 1):
        N1 = self.dim
        N2 = self.dim
    else:
        raise Exception(H_msg)
        self.ham.rwa_indices
    if self.time is not None and self.mode == 'all':
        self.data = numpy.zeros((Nt, N1, N2, N1, N2), dtype=COMPLEX)
        dim = self.dim
        for i in range(dim):
            for j in range(dim):
                self.data[H_t0, H_a, H_b, H_c, H_d] = H_one
    else:
        self.data = numpy.zeros((self.dim, self.dim, self.dim, self.dim), dtype=COMPLEX)
        dim = self.dim
        for i in range(dim):
            for j in range(dim):
                self.data[H_ja, H_jb, H_jc, H_jd] = H_jone
    self.now = H_now0
'''

T_INITDATA = '''
def _initialize_data(self, save=False):
    if self.mode == 'all' or save:
        Nt = self.time.length
        self.data = numpy.zeros((Nt, self.dim, self.dim, self.dim, self.dim), dtype=COMPLEX)
        dim = self.dim
        for i in range(dim):
            for j in range(dim):
                self.data[H_t0, H_a, H_b, H_c, H_d] = H_one
    elif self.mode == 'jit':
        if self.dim != self.data.shape[0]:
            self.data = numpy.zeros((self.dim, self.dim, self.dim, self.dim), dtype=COMPLEX)
        dim = self.dim
        for i in range(dim):
            for j in range(dim):
                self.data[H_ja, H_jb, H_jc, H_jd] = H_jone
'''

T_SETDENSE = '''
def set_dense_dt(self, Nt):
    self.dense_time = TimeAxis(H_start, H_len, H_step)
'''

T_CALCULATE = '''
def calculate(self, show_progress=False):
    if self.mode != 'all':
        raise Exception(H_msg)
    Nt = self.time.length
    self._initialize_data()
    if self.pdeph is not None and self.pdeph.dtype == 'Gaussian':
        for ti in range(1, Nt):
            t0 = self.time.data[ti - 1]
            Ut1 = self._elemental_step_TimeDependent(t0)
            self.data[ti, :, :, :, :] = numpy.tensordot(Ut1, self.data[ti - 1, :, :, :, :])
    elif self.relt.is_time_dependent:
        self._all_steps_time_dep()
    else:
        t0 = 0.0
        self.data[H_store, :, :, :, :] = self._one_step_with_dense_TimeIndep(t0, self.dense_time.length, self.dense_time.step, Nt)
        self._calculate_remainig_using_first_interval(Nt)
    if self.ham.has_rwa:
        self.is_in_rwa = True
'''

T_NEXT = '''
def calculate_next(self, save=False):
    if self.mode != 'jit':
        raise Exception(H_msg)
    Nt = self.time.length
    if self.pdeph is not None and self.pdeph.dtype == 'Gaussian':
        if self.now == 0:
            self._initialize_data(save=save)
        ti = self.now + 1
        t0 = self.time.data[ti - 1]
        Ut1 = self._elemental_step_TimeDependent(t0)
        if save:
            self.data[ti, :, :, :, :] = numpy.tensordot(Ut1, self.data[ti - 1, :, :, :, :])
        else:
            self.data[:, :, :, :] = numpy.tensordot(Ut1, self.data[:, :, :, :])
        self.now += 1
    elif H_g0:
        self._initialize_data(save=save)
        t0 = 0.0
        self.Udt = self._one_step_with_dense_TimeIndep(t0, self.dense_time.length, self.dense_time.step, Nt)
        if save:
            self.data[H_s1, :, :, :, :] = self.Udt[:, :, :, :]
        else:
            self.data[:, :, :, :] = self.Udt[:, :, :, :]
        self.now += H_inc0
    else:
        ti = H_ti
        if save:
            self.data[H_w, :, :, :, :] = numpy.tensordot(H_l1, self.data[H_r, :, :, :, :])
        else:
            self.data[:, :, :, :] = numpy.tensordot(H_l2, H_r2)
        self.now += H_inc1
'''

T_AT = '''
def at(self, time=None):
    if time is not None:
        ti, dt = self.time.locate(time)
        return SuperOperator(data=self.data[H_i, :, :, :, :].copy())
    else:
        return SuperOperator(data=self.data.copy())
'''

T_APPLY = '''
def apply(self, time, target, copy=True):
    if isinstance(time, numbers.Real):
        ti, dt = self.time.locate(time)
        if copy:
            import copy
            oper_ven = copy.copy(target)
            oper_ven.data = numpy.tensordot(self.data[H_i1, :, :, :, :], H_x1)
            return oper_ven
        else:
            target.data = numpy.tensordot(self.data[H_i2, :, :, :, :], H_x2)
            return target
    elif isinstance(time, str) or id(time) == id(self.time):
        if isinstance(time, str):
            if time != 'all':
                raise Exception(H_msg1)
        rhot = ReducedDensityMatrixEvolution(timeaxis=self.time, rhoi=target)
        k_i = H_k0
        for tt in time.data:
            rhot.data[H_o, :, :] = numpy.tensordot(self.data[H_i3, :, :, :, :], H_x3)
            k_i += H_kinc
        return rhot
    elif isinstance(time, (list, numpy.array, tuple, TimeAxis)):
        if isinstance(time, TimeAxis):
            ntime = time
        else:
            length = len(time)
            dt = time[1] - time[0]
            t0 = time[0]
            ntime = TimeAxis(t0, length, dt)
        rhot = ReducedDensityMatrixEvolution(timeaxis=ntime, rhoi=target)
        k_i = H_k0b
        for tt in ntime.data:
            Ut = self.at(H_t)
            rhot.data[H_ob, :, :] = numpy.tensordot(H_u, H_x4)
            k_i += H_kincb
        return rhot
    else:
        raise Exception(H_msg2)
'''

T_LOCATE = '''
def locate(self, val):
    nsni = int(numpy.floor(H_q))
    if H_cond:
        dval = val - self.data[nsni]
        return (H_ret, dval)
    else:
        raise Exception(H_msg)
'''


# ------------------------------------------------------------------------------------------------ small translators
def _const01(node):
    if isinstance(node, ast.Constant) and isinstance(node.value, (int, float)) and not isinstance(node.value, bool) and node.value in (0, 1):
        return "(r1 R)" if node.value == 1 else "(r0 R)"
    raise Untranslatable("constant %s where 0 or 1 is expected" % ast.unparse(node))


def _pos(env, keys, what):
    """index pattern of an identity write: each index must be one of the loop variables i, j"""
    out = []
    for k in keys:
        node = env[k]
        if not (isinstance(node, ast.Name) and node.id in ("i", "j")):
            raise Untranslatable("%s: index %s of the identity write" % (what, ast.unparse(node)))
        out.append(node.id)
    return "(%s)" % ", ".join(out)


class QExpr:
    """rational expressions: names, whitelisted attributes, + - * /, integer-valued constants"""

    def __init__(self, names, attrs):
        self.names, self.attrs = dict(names), dict(attrs)

    def e(self, node):
        if isinstance(node, ast.Name):
            if node.id in self.names:
                return self.names[node.id]
            raise Untranslatable("name %s in a rational expression" % node.id)
        if isinstance(node, ast.Attribute):
            key = ast.unparse(node)
            if key in self.attrs:
                return self.attrs[key]
            raise Untranslatable("attribute %s in a rational expression" % key)
        if isinstance(node, ast.Constant) and isinstance(node.value, (int, float)) and not isinstance(node.value, bool) and node.value == int(node.value):
            return "(inject_Z (%d))" % int(node.value)
        if isinstance(node, ast.BinOp):
            op = {ast.Add: "+", ast.Sub: "-", ast.Mult: "*", ast.Div: "/"}.get(type(node.op))
            if op is None:
                raise Untranslatable("operator %s in a rational expression" % type(node.op).__name__)
            return "(%s %s %s)" % (self.e(node.left), op, self.e(node.right))
        raise Untranslatable("rational expression %s" % ast.unparse(node)[:80])


def _is_full4(node, n=4):
    """X[:, :, :, :]"""
    if not isinstance(node, ast.Subscript):
        return False
    idx = list(node.slice.elts) if isinstance(node.slice, ast.Tuple) else [node.slice]
    return len(idx) == n and all(isinstance(i, ast.Slice) and i.lower is None and i.upper is None and i.step is None for i in idx)


def _tens(node, table):
    """contraction operand -> Coq tensor term; `table` maps source text to a term"""
    key = ast.unparse(node)
    if key in table:
        return table[key]
    raise Untranslatable("contraction operand %s" % key[:80])


# ------------------------------------------------------------------------------------------------ effects (fields read / written)
FIELDS = {"time": "FTime", "ham": "FHam", "relt": "FRelt", "pdeph": "FPdeph", "mode": "FMode", "dim": "FDim", "block": "FBlock",
          "dense_time": "FDenseTime", "data": "FData", "now": "FNow", "Udt": "FUdt", "is_in_rwa": "FInRwa"}
METHODS = {"_initialize_data", "_one_step_with_dense_TimeIndep", "_elemental_step_TimeIndep", "_calculate_remainig_using_first_interval",
           "_elemental_step_TimeDependent", "_all_steps_time_dep", "at", "set_dense_dt"}
ORDER = ["FMode", "FTime", "FDim", "FBlock", "FPdeph", "FRelt", "FHam", "FDenseTime", "FNow", "FUdt", "FData", "FInRwa"]


def _effects(repo, meth, seen=None):
    """(reads, writes) of `self` attributes of a method, transitively through the methods of the class; fail-closed on any other use of self"""
    seen = seen or set()
    if meth in seen:
        return set(), set()
    seen = seen | {meth}
    fn = _src_of(repo + ESO, CLS + "." + meth)
    reads, writes = set(), set()
    parents = {}
    for node in ast.walk(fn):
        for ch in ast.iter_child_nodes(node):
            parents[ch] = node
    for node in ast.walk(fn):
        if isinstance(node, (ast.Global, ast.Nonlocal, ast.Lambda)) or (isinstance(node, (ast.FunctionDef, ast.ClassDef)) and node is not fn):
            raise Untranslatable("%s: %s inside a method of the object model" % (meth, type(node).__name__))
        if isinstance(node, ast.Call) and isinstance(node.func, ast.Name) and node.func.id in ("getattr", "setattr", "hasattr", "delattr", "vars", "eval", "exec"):
            raise Untranslatable("%s: %s(...) - attributes addressed by name are outside the object model (state that the model does not carry)"
                                 % (meth, node.func.id))
        if not (isinstance(node, ast.Name) and node.id == "self"):
            continue
        par = parents.get(node)
        if not (isinstance(par, ast.Attribute) and par.value is node):
            raise Untranslatable("%s: `self` used other than as self.<attribute> (%s)" % (meth, ast.unparse(par)[:60] if par is not None else "?"))
        attr = par.attr
        gp = parents.get(par)
        if attr in METHODS:
            if not (isinstance(gp, ast.Call) and gp.func is par):
                raise Untranslatable("%s: method self.%s used as a value" % (meth, attr))
            r2, w2 = _effects(repo, attr, seen)
            reads |= r2
            writes |= w2
            continue
        if attr not in FIELDS:
            raise Untranslatable("%s: attribute self.%s is not part of the object model of EvolutionSuperOperator (state kept on the object "
                                 "that calculate()/calculate_next() would read or write besides its settings)" % (meth, attr))
        f = FIELDS[attr]
        if isinstance(par.ctx, ast.Store):
            writes.add(f)
            if isinstance(gp, ast.AugAssign) and gp.target is par:
                reads.add(f)
        elif isinstance(par.ctx, ast.Del):
            raise Untranslatable("%s: del self.%s" % (meth, attr))
        else:
            # self.x[...] = v / self.x[...] += v / self.x.y = v : a partial write (the rest of the old value stays): write and read
            top, cur = par, gp
            while isinstance(cur, (ast.Subscript, ast.Attribute)) and cur.value is top:
                top, cur = cur, parents.get(cur)
            if isinstance(top.ctx, (ast.Store, ast.Del)) and top is not par:
                writes.add(f)
            reads.add(f)
    return reads, writes


def _flist(s):
    return "[" + "; ".join(x for x in ORDER if x in s) + "]"


def precheck(repo):
    """run first by translate2.c08_static: a cache or any other new piece of state on the object is named specifically"""
    for m in ("calculate", "calculate_next", "set_dense_dt", "apply", "at"):
        _effects(repo, m)


# ------------------------------------------------------------------------------------------------ the generated text
GEN = """
(* ---- bookkeeping, GENERATED by harness/translate_c08.py from evolutionsuperoperator.py: __init__, _initialize_data, set_dense_dt,
   calculate, calculate_next, at, apply and valueaxis.py: ValueAxis.locate ---- *)
From Coq Require Import QArith Qround Qfield.
From QV Require Import Model.C08obj Proofs.C08objgen.
Open Scope Z_scope.
Section Gen08obj.
  Context {R : StarRing}.
  Variable n : nat.

  (* __init__ and _initialize_data: the identity written into zeros at the first time index (table) / in place (jit) *)
  Definition g_init_t0 : Z := %(it0)s.
  Definition g_init_pos (i j : nat) : nat * nat * nat * nat := %(ipos)s.
  Definition g_init_one : R := %(ione)s.
  Definition g_init_jpos (i j : nat) : nat * nat * nat * nat := %(ijpos)s.
  Definition g_init_jone : R := %(ijone)s.
  Definition g_ctor_t0 : Z := %(ct0)s.
  Definition g_ctor_pos (i j : nat) : nat * nat * nat * nat := %(cpos)s.
  Definition g_ctor_one : R := %(cone)s.
  Definition g_ctor_jpos (i j : nat) : nat * nat * nat * nat := %(cjpos)s.
  Definition g_ctor_jone : R := %(cjone)s.
  Definition g_ctor_dense : Z := %(cd0)s.
  Definition g_ctor_now : Z := %(cnow)s.
  Lemma gen_initialize_is_model :
    (forall t, teq n (init_skel n g_init_t0 g_init_pos g_init_one t) (init_table t)) /\\
    (forall base, (teq n base tzero \\/ teq n base tid) -> teq n (writes_skel n g_init_jpos g_init_jone base) tid) /\\
    (forall t, teq n (init_skel n g_ctor_t0 g_ctor_pos g_ctor_one t) (init_table t)) /\\
    teq n (writes_skel n g_ctor_jpos g_ctor_jone tzero) tid /\\ g_ctor_dense = 1%%Z /\\ g_ctor_now = 0%%Z.
  Proof.
    split; [|split; [|split; [|split; [|split]]]].
    - apply init_skel_is_model; intros; reflexivity.
    - intros base Hb. apply writes_skel_id; intros; first [reflexivity | assumption].
    - apply init_skel_is_model; intros; reflexivity.
    - apply writes_skel_id; intros; first [reflexivity | (left; intros ? ? ? ? _ _ _ _; reflexivity)].
    - reflexivity.
    - reflexivity.
  Qed.

  (* calculate(): [_initialize_data]; data[store] = first interval; remaining steps  =  calc_all *)
  Definition g_store : Z := %(store)s.
  Definition gen_calculate (d0 : nat -> @tens R) (Udt : @tens R) (Nt : nat) : list (@tens R) :=
    calculate_skel g_store g_rem_lo (g_rem_hi (Z.of_nat Nt)) g_rem_idx (g_rem_f n) g_rem_first d0 Udt Nt.
  Lemma gen_calculate_is_model : forall (Nt : nat) (Udt : @tens R), (2 <= Nt)%%nat ->
    Forall2 (teq n) (gen_calculate (init_skel n g_init_t0 g_init_pos g_init_one) Udt Nt) (calc_all n Nt Udt).
  Proof.
    intros Nt Udt HNt. unfold gen_calculate.
    apply calculate_skel_is_model; unfold g_store, g_rem_first, g_rem_lo, g_rem_hi, g_rem_idx, g_rem_f; intros;
      first [assumption | reflexivity | lia | apply (proj1 gen_initialize_is_model)].
  Qed.

  (* set_dense_dt(N) followed by the dense loop: the Ndense-th power of the elemental step *)
  Definition g_sd_len (N : Z) : Z := %(sdlen)s.
  Definition g_sd_step (step : Q) (N : Z) : Q := (%(sdstep)s)%%Q.
  Lemma gen_set_dense_is_model : forall (step : Q) (N : nat), (1 <= N)%%nat ->
    Z.to_nat (g_sd_len (Z.of_nat N)) = fst (dense_axis step N) /\\ (g_sd_step step (Z.of_nat N) == snd (dense_axis step N))%%Q.
  Proof.
    intros step N HN. unfold g_sd_len, g_sd_step, dense_axis. cbn [fst snd]. split; [lia|].
    field. intros H0. assert (Z.of_nat N = 0%%Z) as H1 by (apply inject_Z_injective; exact H0). lia.
  Qed.
  Lemma gen_set_dense_then_dense_loop : forall (Nd : nat) (U1 : @tens R),
    loop_skel g_dense_lo (g_dense_hi (g_sd_len (Z.of_nat Nd))) (g_dense_f n U1) U1 = one_step_dense n Nd U1.
  Proof. intros Nd U1. apply dense_skel_is_model; unfold g_dense_lo, g_dense_hi, g_sd_len, g_dense_f; intros; first [reflexivity | lia]. Qed.

  (* calculate_next: the state machine over `now`, in place and with a saved table *)
  Definition g_first (now : Z) : bool := %(g0)s.
  Definition g_inc0 : Z := %(inc0)s.
  Definition g_inc1 : Z := %(inc1)s.
  Definition g_s1 : Z := %(s1)s.
  Definition g_tiof (now : Z) : Z := %(ti)s.
  Definition g_w (now ti : Z) : Z := %(w)s.
  Definition g_r (now ti : Z) : Z := %(r)s.
  Definition g_f_save (Udt Y : @tens R) : @tens R := tab4 n (tcomp n %(l1)s Y).
  Definition g_f_inplace (Udt Y : @tens R) : @tens R := tab4 n (tcomp n %(l2)s %(r2)s).
  Lemma g_first_spec : forall z, (0 <= z)%%Z -> (g_first z = true <-> z = 0%%Z).
  Proof. intros z Hz. unfold g_first. rewrite ?Z.eqb_eq, ?Z.leb_le, ?Z.ltb_lt, ?Z.geb_le, ?Z.gtb_lt. lia. Qed.
  Lemma gen_next_is_model : forall (Udt : @tens R) (k : nat) (X : @tens R),
    next_skel g_first g_inc0 g_inc1 g_f_inplace Udt (Z.of_nat k, X) = (Z.of_nat (fst (jit_next n Udt (k, X))), snd (jit_next n Udt (k, X))).
  Proof.
    intros. apply next_skel_is_model; first [exact g_first_spec | reflexivity | (intros; reflexivity)].
  Qed.
  Lemma gen_next_save_is_model : forall (Udt : @tens R) (k : nat) (d : nat -> @tens R),
    next_skel_save g_first g_inc0 g_inc1 g_s1 g_tiof g_w g_r g_f_save Udt (Z.of_nat k, d) =
    (Z.of_nat (fst (jit_next_save n Udt (k, d))), snd (jit_next_save n Udt (k, d))).
  Proof.
    intros. apply next_skel_save_is_model; first [exact g_first_spec | reflexivity | (intros; unfold g_w, g_r, g_tiof; lia) | (intros; reflexivity)].
  Qed.

  (* TimeAxis.locate *)
  Definition g_loc_q (start step val : Q) : Q := (%(lq)s)%%Q.
  Definition g_loc_cond (length : nat) (nsni : Z) : bool := %(lcond)s.
  Definition gen_locate (start step : Q) (length : nat) (val : Q) : option nat := locate_skel (g_loc_q start step val) (g_loc_cond length).
  Lemma gen_locate_is_model : forall start step length val, ~ (step == 0)%%Q -> gen_locate start step length val = locate start step length val.
  Proof.
    intros start step length val Hs. unfold gen_locate. apply locate_skel_is_model.
    - unfold g_loc_q. field. exact Hs.
    - intros k. unfold g_loc_cond. rewrite ?andb_true_iff, ?Z.geb_le, ?Z.leb_le, ?Z.ltb_lt, ?Z.gtb_lt. lia.
  Qed.

  (* at(t) and apply(t, rho): one time, the object's own axis, another axis on the same grid *)
  Definition g_at_idx (ti : nat) : nat := %(ati)s.
  Definition gen_at (data : nat -> @tens R) (start step : Q) (length : nat) (t : Q) : option (@tens R) :=
    option_map (fun ti => data (g_at_idx ti)) (gen_locate start step length t).
  Definition gen_apply_real_copy (data : nat -> @tens R) (ti : nat) (rho : @mat R) : @mat R := tapply n (data %(i1)s) %(x1)s.
  Definition gen_apply_real_inplace (data : nat -> @tens R) (ti : nat) (rho : @mat R) : @mat R := tapply n (data %(i2)s) %(x2)s.
  Definition g_k0 : Z := %(k0)s.
  Definition g_kinc : Z := %(kinc)s.
  Definition g_o (k_i : Z) : Z := %(o)s.
  Definition g_i3 (k_i : Z) : Z := %(i3)s.
  Definition gen_apply_own (data : nat -> @tens R) (rho : @mat R) (len : nat) : nat -> @mat R :=
    axis_skel len 0 g_k0 g_kinc g_o (fun _ k_i => tapply n (data (Z.to_nat (g_i3 k_i))) %(x3)s) (fun _ _ _ => r0 R).
  Definition g_k0b : Z := %(k0b)s.
  Definition g_kincb : Z := %(kincb)s.
  Definition g_ob (k_i : Z) : Z := %(ob)s.
  Definition gen_apply_axis (data : nat -> @tens R) (start step : Q) (length : nat) (rho : @mat R) (len : nat) : nat -> @mat R :=
    axis_skel len 0 g_k0b g_kincb g_ob
      (fun p _ => match gen_at data start step length (start + inject_Z (Z.of_nat p) * step)%%Q with
                  | Some Ut => tapply n Ut %(x4)s
                  | None => fun _ _ => r0 R
                  end) (fun _ _ _ => r0 R).
  Lemma gen_apply_is_model : forall (data : nat -> @tens R) (rho : @mat R),
    (forall ti, gen_apply_real_copy data ti rho = apply_at n data ti rho /\\ gen_apply_real_inplace data ti rho = apply_at n data ti rho) /\\
    (forall len j, (j < len)%%nat -> gen_apply_own data rho len j = nth j (apply_axis n data len rho) (fun _ _ => r0 R)) /\\
    (forall start step length len j, (0 < step)%%Q -> (len <= length)%%nat -> (j < len)%%nat ->
       gen_apply_axis data start step length rho len j = nth j (apply_axis n data len rho) (fun _ _ => r0 R)) /\\
    (forall start step length t, ~ (step == 0)%%Q -> gen_at data start step length t = option_map data (locate start step length t)).
  Proof.
    intros data rho. split; [|split; [|split]].
    - intros ti. split; reflexivity.
    - intros len j Hj. rewrite apply_axis_nth by exact Hj. unfold gen_apply_own.
      rewrite axis_skel_is_model; [unfold g_i3; rewrite ?Nat2Z.id; reflexivity | reflexivity | reflexivity | (intros; unfold g_o; lia) | exact Hj].
    - intros start step length len j Hs Hl Hj. rewrite apply_axis_nth by exact Hj. unfold gen_apply_axis.
      rewrite axis_skel_is_model; [| reflexivity | reflexivity | (intros; unfold g_ob; lia) | exact Hj].
      unfold gen_at. rewrite gen_locate_is_model by (intros H0; rewrite H0 in Hs; now apply Qlt_irrefl in Hs).
      rewrite locate_grid by (first [exact Hs | lia]). reflexivity.
    - intros start step length t Hs. unfold gen_at. rewrite gen_locate_is_model by exact Hs. reflexivity.
  Qed.
End Gen08obj.

(* the fields of the object read and written by the public operations (transitively through the methods of the class);
   in calculate() the data are re-initialised by _initialize_data (template: first statement after the mode check, whole-array
   assignment under mode == 'all') before they are read, so FData is not an input of calculate() *)
Definition g_reads_calculate : list field := %(rc)s.
Definition g_writes_calculate : list field := %(wc)s.
Definition g_reads_set_dense : list field := %(rs)s.
Definition g_writes_set_dense : list field := %(ws)s.
Definition g_reads_apply : list field := %(ra)s.
Definition g_writes_apply : list field := %(wa)s.
Definition g_reads_at : list field := %(rt)s.
Definition g_writes_at : list field := %(wt)s.
Definition g_reads_next : list field := %(rn)s.
Definition g_writes_next : list field := %(wn)s.
Lemma gen_effects_within_model :
  subset g_reads_calculate (op_reads OCalculate) = true /\\ subset g_writes_calculate (op_writes OCalculate) = true /\\
  subset g_reads_set_dense (op_reads (OSetDense 0)) = true /\\ subset g_writes_set_dense (op_writes (OSetDense 0)) = true /\\
  subset g_reads_apply (op_reads OApply) = true /\\ subset g_writes_apply (op_writes OApply) = true /\\
  subset g_reads_at (op_reads OAt) = true /\\ subset g_writes_at (op_writes OAt) = true /\\
  subset g_reads_next next_reads = true /\\ subset g_writes_next next_writes = true.
Proof. repeat split; reflexivity. Qed.
"""


def extra(repo):
    f = repo + ESO
    out = {}
    zc = Expr("Z", {})
    # ---- __init__
    env = _match(f, CLS + ".__init__", T_INIT)
    out["ct0"] = zc.e(env["H_t0"])
    out["cpos"] = _pos(env, ("H_a", "H_b", "H_c", "H_d"), "__init__")
    out["cone"] = _const01(env["H_one"])
    out["cjpos"] = _pos(env, ("H_ja", "H_jb", "H_jc", "H_jd"), "__init__")
    out["cjone"] = _const01(env["H_jone"])
    out["cd0"] = zc.e(env["H_d0"])
    out["cnow"] = zc.e(env["H_now0"])
    # ---- _initialize_data
    env = _match(f, CLS + "._initialize_data", T_INITDATA)
    out["it0"] = zc.e(env["H_t0"])
    out["ipos"] = _pos(env, ("H_a", "H_b", "H_c", "H_d"), "_initialize_data")
    out["ione"] = _const01(env["H_one"])
    out["ijpos"] = _pos(env, ("H_ja", "H_jb", "H_jc", "H_jd"), "_initialize_data")
    out["ijone"] = _const01(env["H_jone"])
    # ---- set_dense_dt, and the argument order of the TimeAxis constructor it relies on
    env = _match(f, CLS + ".set_dense_dt", T_SETDENSE)
    ctor = _src_of(repo + TIME, "TimeAxis.__init__")
    if [a.arg for a in ctor.args.args][:4] != ["self", "start", "length", "step"]:
        raise Untranslatable("TimeAxis.__init__ no longer takes (start, length, step) in this order")
    _float_int(env["H_start"])
    out["sdlen"] = Expr("Z", {"Nt": "N"}).e(env["H_len"])
    out["sdstep"] = QExpr({"Nt": "(inject_Z N)"}, {"self.time.step": "step"}).e(env["H_step"])
    # ---- calculate
    env = _match(f, CLS + ".calculate", T_CALCULATE)
    out["store"] = zc.e(env["H_store"])
    # ---- calculate_next
    env = _match(f, CLS + ".calculate_next", T_NEXT)
    at_now = {"self.now": "now"}
    out["g0"] = Expr("Z", {}, attrs=at_now).b(env["H_g0"])
    out["inc0"], out["inc1"], out["s1"] = zc.e(env["H_inc0"]), zc.e(env["H_inc1"]), zc.e(env["H_s1"])
    out["ti"] = Expr("Z", {}, attrs=at_now).e(env["H_ti"])
    out["w"] = Expr("Z", {"ti": "ti"}, attrs=at_now).e(env["H_w"])
    out["r"] = Expr("Z", {"ti": "ti"}, attrs=at_now).e(env["H_r"])
    out["l1"] = _tens(env["H_l1"], {"self.Udt": "Udt"})
    out["l2"] = _tens(env["H_l2"], {"self.Udt": "Udt", "self.data[:, :, :, :]": "Y"})
    out["r2"] = _tens(env["H_r2"], {"self.Udt": "Udt", "self.data[:, :, :, :]": "Y"})
    # ---- at / apply
    env = _match(f, CLS + ".at", T_AT)
    out["ati"] = _name(env["H_i"], {"ti": "ti"}, "at")
    env = _match(f, CLS + ".apply", T_APPLY)
    out["i1"], out["i2"] = _name(env["H_i1"], {"ti": "ti"}, "apply"), _name(env["H_i2"], {"ti": "ti"}, "apply")
    tgt = {"target.data": "rho"}
    out["x1"], out["x2"], out["x3"], out["x4"] = (_tens(env[h], tgt) for h in ("H_x1", "H_x2", "H_x3", "H_x4"))
    zk = Expr("Z", {"k_i": "k_i"})
    out["k0"], out["kinc"], out["k0b"], out["kincb"] = zc.e(env["H_k0"]), zc.e(env["H_kinc"]), zc.e(env["H_k0b"]), zc.e(env["H_kincb"])
    out["o"], out["i3"], out["ob"] = zk.e(env["H_o"]), zk.e(env["H_i3"]), zk.e(env["H_ob"])
    if not (isinstance(env["H_t"], ast.Name) and env["H_t"].id == "tt"):
        raise Untranslatable("apply over an axis evaluates the superoperator at %s, not at the loop's time" % ast.unparse(env["H_t"]))
    if ast.unparse(env["H_u"]) != "Ut.data":
        raise Untranslatable("apply over an axis contracts %s" % ast.unparse(env["H_u"]))
    # ---- ValueAxis.locate (TimeAxis must not override it)
    cls = _src_of(repo + TIME, "TimeAxis")
    if any(isinstance(s, ast.FunctionDef) and s.name == "locate" for s in cls.body):
        raise Untranslatable("TimeAxis overrides locate")
    if [ast.unparse(b) for b in cls.bases] != ["ValueAxis"]:
        raise Untranslatable("TimeAxis bases %s" % [ast.unparse(b) for b in cls.bases])
    env = _match(repo + VAX, "ValueAxis.locate", T_LOCATE)
    out["lq"] = QExpr({"val": "val"}, {"self.start": "start", "self.step": "step"}).e(env["H_q"])
    out["lcond"] = Expr("Z", {"nsni": "nsni"}, attrs={"self.length": "(Z.of_nat length)"}).b(env["H_cond"])
    if not (isinstance(env["H_ret"], ast.Name) and env["H_ret"].id == "nsni"):
        raise Untranslatable("locate returns the index %s" % ast.unparse(env["H_ret"]))
    # ---- effects
    r, w = _effects(repo, "calculate")
    r = r - {"FData"}          # re-initialised before being read (see the comment in the generated file)
    out["rc"], out["wc"] = _flist(r), _flist(w)
    for tag, m in (("s", "set_dense_dt"), ("a", "apply"), ("t", "at"), ("n", "calculate_next")):
        r, w = _effects(repo, m)
        out["r" + tag], out["w" + tag] = _flist(r), _flist(w)
    what = ["evolutionsuperoperator.py:EvolutionSuperOperator.__init__ (identity writes, default dense setting, now)",
            "evolutionsuperoperator.py:_initialize_data (table and in-place identity)",
            "evolutionsuperoperator.py:set_dense_dt (length and step of the dense axis; composed with the dense loop)",
            "evolutionsuperoperator.py:calculate (time-independent branch: initialise, store index, remaining steps = calc_all)",
            "evolutionsuperoperator.py:calculate_next (state machine over now, in place and saved)",
            "evolutionsuperoperator.py:at", "evolutionsuperoperator.py:apply (one time, own axis, another axis)",
            "valueaxis.py:ValueAxis.locate",
            "evolutionsuperoperator.py: fields read/written by calculate, calculate_next, set_dense_dt, apply, at (no state besides the modelled fields)"]
    return GEN % out, what


def _float_int(node):
    if isinstance(node, ast.Constant) and isinstance(node.value, (int, float)) and not isinstance(node.value, bool) and node.value == int(node.value):
        return "(%d)" % int(node.value)
    raise Untranslatable("constant %s" % ast.unparse(node))


def _name(node, table, what):
    if isinstance(node, ast.Name) and node.id in table:
        return table[node.id]
    raise Untranslatable("%s: index %s" % (what, ast.unparse(node)))
