# -*- coding: utf-8 -*-
"""C09 - bath correlation functions add linearly and carry consistent parameters.

Proof: coq/theories/Props/C09.v.  Tie: random expression trees (+, +=, x += x) over analytic leaves
(single and composed; value-defined ones as right operands) built on the real CorrelationFunction in
random unit contexts; the model is fed each component's own data (built alone) at sample points as
exact rationals and must reproduce, inside Coq, component order, reorganisation energy,
temperature, cut-off time and data of the implementation's result (1e-13 relative).
Monitors: data/lamb/params additivity on the full arrays, operands unchanged, refusal of different
temperatures without touching the target, measured reorganisation energy, parity of the even/odd
Fourier parts, and the same additivity for SpectralDensity inside and outside unit contexts.
"""
import os
import sys
import json

sys.path.insert(0, os.path.dirname(os.path.abspath(__file__)))
import common as cm

PID = "C09"
work = cm.reexec_isolated(PID)
args = cm.parse_args(sys.argv[1:])

FT = {"OverdampedBrownian": 1, "OverdampedBrownian-HighTemperature": 2, "UnderdampedBrownian": 3, "Underdamped": 4, "Value-defined": 9}
SAMPLE = [0, 1, 7, 250, 599]
NT = 600


def gen_comp(r, vid, T, kind=None):
    kind = kind or r.choice(["OverdampedBrownian", "OverdampedBrownian", "OverdampedBrownian-HighTemperature", "UnderdampedBrownian", "Underdamped"])
    c = {"ftype": kind, "T": T, "reorg": float(r.choice([10, 20, 35, 50, 80, 120])), "vid": vid}
    if kind in ("UnderdampedBrownian", "Underdamped"):
        c["freq"] = float(r.choice([100, 200, 350, 500]))
        c["gamma"] = float(r.choice([10, 20, 40]))
    else:
        c["cortime"] = float(r.choice([30, 50, 100, 150, 300]))
        if kind == "OverdampedBrownian" and r.random() < 0.4:
            c["matsubara"] = r.choice([5, 20, 25, 40])
    return c


def gen_tree(r, leaves):
    """random binary tree over the list of leaves, order preserved"""
    if len(leaves) == 1:
        return {"leaf": leaves[0]}
    k = r.randint(1, len(leaves) - 1)
    return {"plus": [gen_tree(r, leaves[:k]), gen_tree(r, leaves[k:])]}


def gen_case(r, k):
    ncomp = r.choice([2, 3, 3, 4, 5, 6])
    Tmain = r.choice([300, 300, 77, 150])
    comps = []
    # separate malformed stream: exactly one component at another temperature (every fourth case)
    odd_one = r.randrange(ncomp) if k % 4 == 3 else -1
    # every fifth case: an Underdamped component (built through a SpectralDensity from the component as submitted) at a random
    # position, inside a composed constructor list in either order, mixed with the Brownian families
    und = r.randrange(ncomp) if k % 5 == 4 else -1
    for i in range(ncomp):
        T = r.choice([100, 250]) if i == odd_one else Tmain
        comps.append(gen_comp(r, i, T, "Underdamped" if i == und else None))
    # group components into leaves
    leaves = []
    i = 0
    while i < ncomp:
        if i + 2 < ncomp and und in (i, i + 1, i + 2) and r.random() < 0.3:
            leaves.append({"kind": "analytic", "comps": [comps[i], comps[i + 1], comps[i + 2]], "ctx": r.choice(["1/cm", "int", "eV"])})
            i += 3
        elif i + 1 < ncomp and (r.random() < 0.3 or (und in (i, i + 1) and r.random() < 0.7)):
            leaves.append({"kind": "analytic", "comps": [comps[i], comps[i + 1]], "ctx": r.choice(["1/cm", "int", "eV"])})
            i += 2
        else:
            leaves.append({"kind": "analytic", "comps": [comps[i]], "ctx": r.choice(["1/cm", "int", "eV"])})
            i += 1
    if r.random() < 0.25:
        # a value-defined function as the right-most operand
        leaves.append({"kind": "values", "comp": {"ftype": "Value-defined", "T": Tmain, "reorg": float(r.choice([5, 15])), "vid": ncomp},
                       "scale": r.choice([0.5, 2.0]), "of": r.randrange(ncomp)})
    u = r.random()
    if odd_one >= 0:
        u = 0.3 + 0.7 * u       # more in-place additions among the mismatched cases
    if u < 0.6 or len(leaves) < 2:
        if leaves[-1]["kind"] == "values" and len(leaves) >= 2:
            prog = {"expr": {"plus": [gen_tree(r, leaves[:-1]), {"leaf": leaves[-1]}]}}
        else:
            prog = {"expr": gen_tree(r, leaves)}
    elif u < 0.92:
        k2 = r.randint(1, len(leaves) - 1)
        la, lb = leaves[:k2], leaves[k2:]
        if any(l["kind"] == "values" for l in la) or (len(lb) > 1 and lb[-1]["kind"] == "values"):
            la, lb = [l for l in leaves if l["kind"] != "values"][:1], [l for l in leaves if l["kind"] != "values"][1:] or leaves[-1:]
        prog = {"iadd": [gen_tree(r, la), gen_tree(r, lb)]}
    else:
        la = [l for l in leaves if l["kind"] != "values"]
        prog = {"iadd_self": gen_tree(r, la)}
    return {"prog": prog, "ncomp": ncomp + 1, "eval_ctx": r.choice([None, None, "1/cm", "eV", "THz"])}


class Impl:
    def __init__(self):
        import numpy
        import quantarhei as qr
        self.np, self.qr = numpy, qr
        self.ta = qr.TimeAxis(0.0, NT, 1.0)

    def conv(self, c, ctx):
        """component dictionary with its energy parameters expressed in units ctx"""
        qr = self.qr
        d = dict(c)
        for key in ("reorg", "freq", "gamma"):
            if key in d:
                d[key] = qr.convert(c[key], "1/cm", ctx) if ctx != "1/cm" else c[key]
        return d

    def alone(self, c):
        """a component built on its own (the model's oracle `gen`)"""
        qr = self.qr
        with qr.energy_units("1/cm"):
            return qr.CorrelationFunction(self.ta, dict(c))

    def leaf(self, l, table):
        qr = self.qr
        if l["kind"] == "analytic":
            ps = [self.conv(c, l["ctx"]) for c in l["comps"]]
            with qr.energy_units(l["ctx"]):
                return qr.CorrelationFunction(self.ta, ps[0] if len(ps) == 1 else ps)
        vals = table["vals"][l["comp"]["vid"]]
        with qr.energy_units("1/cm"):
            return qr.CorrelationFunction(self.ta, dict(l["comp"]), values=vals.copy())

    def ev(self, t, table, made):
        if "leaf" in t:
            o = self.leaf(t["leaf"], table)
            made.append(o)
            return o
        a = self.ev(t["plus"][0], table, made)
        b = self.ev(t["plus"][1], table, made)
        return a + b


def snap(o):
    return (o.data.copy(), o.lamb, o.temperature, o.cutoff_time, [p.get("vid") for p in o.params])


def same_snap(s1, s2, np):
    return np.array_equal(s1[0], s2[0]) and s1[1:] == s2[1:]


def spec_leaf(l, info):
    if l["kind"] == "analytic":
        return "(TLeaf (LAnalytic %s))" % cm.clist([info[c["vid"]]["lit"] for c in l["comps"]])
    i = info[l["comp"]["vid"]]
    return "(TLeaf (LValues %s %s))" % (i["lit"], cm.clist([cm.qlit(x) for x in i["samples"]]))


def spec_tree(t, info):
    if "leaf" in t:
        return spec_leaf(t["leaf"], info)
    return "(TPlus %s %s)" % (spec_tree(t["plus"][0], info), spec_tree(t["plus"][1], info))


def all_leaves(t):
    if "leaf" in t:
        return [t["leaf"]]
    return all_leaves(t["plus"][0]) + all_leaves(t["plus"][1])


def samples_of(arr):
    out = []
    for i in SAMPLE:
        out.append(float(arr[i].real))
        out.append(float(arr[i].imag))
    return out


def run(chk, cases):
    import numpy as np
    im = Impl()
    qr = im.qr
    items, meta = [], []
    for c in cases:
        try:
            prog = c["prog"]
            trees = [prog["expr"]] if "expr" in prog else (prog["iadd"] if "iadd" in prog else [prog["iadd_self"]])
            leaves = [l for t in trees for l in all_leaves(t)]
            # ---- oracle table: every component built alone ----
            info, table = {}, {"vals": {}}
            scale = 0.0
            for l in leaves:
                for comp in (l["comps"] if l["kind"] == "analytic" else []):
                    o = im.alone(comp)
                    info[comp["vid"]] = {"obj": o, "samples": samples_of(o.data), "lam": o.lamb, "cut": o.cutoff_time, "T": comp["T"],
                                         "ft": FT[comp["ftype"]]}
            for l in leaves:
                if l["kind"] == "values":
                    src = info[l["of"]]["obj"] if l["of"] in info else list(info.values())[0]["obj"]
                    vals = src.data * l["scale"]
                    table["vals"][l["comp"]["vid"]] = vals
                    with qr.energy_units("1/cm"):
                        lam_int = qr.convert(l["comp"]["reorg"], "1/cm", "int")
                    info[l["comp"]["vid"]] = {"obj": None, "samples": samples_of(vals), "lam": lam_int, "cut": 0.0,
                                              "T": l["comp"]["T"], "ft": 9}
            # the cut-off time of an Underdamped component is 25 x its `gamma` in the units in which the component was declared
            # (not a time, and different after a rebuild from the stored internal-units parameters): it is outside the
            # property's text and is not compared for programs that contain such a component
            has_und = any(comp["ftype"] == "Underdamped" for l in leaves for comp in (l["comps"] if l["kind"] == "analytic" else []))
            if has_und:
                chk.count("cutoff_not_compared:underdamped")
                for i in info.values():
                    i["cut"] = 0.0
            for i in info.values():
                scale = max(scale, max(abs(x) for x in i["samples"]))
                i["lit"] = "(%d%%nat, %s, %s, %s, %d%%nat)" % (i["ft"], cm.zlit(int(i["T"])), cm.qlit(i["lam"]), cm.qlit(i["cut"]), 0)
            for vid, i in info.items():
                i["lit"] = i["lit"][:-len("0%nat)")] + "%d%%nat)" % vid
            nvid = max(info) + 1
            tab = [info[v]["samples"] if v in info else [] for v in range(nvid)]
            # ---- the implementation ----
            made = []
            raised, res, pre_exc = False, None, False
            x_before = None

            def body():
                nonlocal raised, res, x_before
                if "expr" in prog:
                    res = im.ev(prog["expr"], table, made)
                elif "iadd" in prog:
                    x = im.ev(prog["iadd"][0], table, made)
                    y = im.ev(prog["iadd"][1], table, made)
                    x_before = snap(x)
                    res = x
                    try:
                        x += y
                    except Exception:
                        raised = True
                else:
                    x = im.ev(prog["iadd_self"], table, made)
                    x_before = snap(x)
                    res = x
                    try:
                        x += x
                    except Exception:
                        raised = True
            try:
                if c["eval_ctx"]:
                    with qr.energy_units(c["eval_ctx"]):
                        body()
                else:
                    body()
            except Exception as e:
                pre_exc = True
                exc = e
            temps = set(info[v]["T"] for v in info)
            chk.count("prog:%s" % list(prog.keys())[0])
            chk.count("temps:%d" % len(temps))
            chk.count("ctx:%s" % c["eval_ctx"])
            # ---- monitors on the implementation itself ----
            if len(temps) == 1:
                if pre_exc or raised:
                    chk.violation("add:exception", "addition of components at one temperature raised %r" % (exc if pre_exc else "in +=",),
                                  "monitor", c)
                else:
                    want = None
                    mult = 2 if "iadd_self" in prog else 1
                    order = []
                    for l in leaves:
                        for comp in (l["comps"] if l["kind"] == "analytic" else [l["comp"]]):
                            d = info[comp["vid"]]["obj"].data if info[comp["vid"]]["obj"] is not None else table["vals"][comp["vid"]]
                            want = d.copy() if want is None else want + d
                            order.append(comp["vid"])
                    want = want * mult
                    dev = np.max(np.abs(res.data - want)) / max(np.max(np.abs(want)), 1e-300)
                    if dev > 1e-12:
                        chk.violation("add:data_not_sum", "data of the result differ from the sum of the components' data by %.3g "
                                      "(relative); component ftypes %s" % (dev, [l.get("comps", [l.get("comp")])[0]["ftype"] for l in leaves]),
                                      "monitor", c)
                    lam_want = mult * sum(info[v]["lam"] for v in order)
                    if abs(res.lamb - lam_want) > 1e-12 * abs(lam_want):
                        chk.violation("add:lamb_not_sum", "reorganisation energy %r is not the sum %r" % (res.lamb, lam_want), "monitor", c)
                    with qr.energy_units("1/cm"):
                        decl = mult * sum([comp["reorg"] for l in leaves for comp in (l["comps"] if l["kind"] == "analytic" else [l["comp"]])])
                        got = res.get_reorganization_energy()
                    if abs(got - decl) > 1e-9 * decl:
                        chk.violation("add:declared_reorg", "get_reorganization_energy() = %r 1/cm, declared sum %r" % (got, decl), "monitor", c)
                    if [p.get("vid") for p in res.params] != order * mult:
                        chk.violation("add:params_order", "component list %s is not the in-order concatenation %s"
                                      % ([p.get("vid") for p in res.params], order * mult), "monitor", c)
            else:
                if not (pre_exc or raised):
                    chk.violation("add:mixed_temperature_accepted", "components at temperatures %s were added without an exception" % sorted(temps),
                                  "monitor", c)
                if raised and x_before is not None and not same_snap(x_before, snap(res), np):
                    chk.violation("iadd:refused_but_changed", "x += y at different temperatures raised but changed x "
                                  "(lamb %r -> %r, max data change %.3g)" % (x_before[1], res.lamb,
                                                                             float(np.max(np.abs(x_before[0] - res.data)))), "monitor", c)
            # leaves must not be changed by + (they are rebuilt, never written)
            if "expr" in prog and not pre_exc:
                for o, l in zip(made, leaves):
                    fresh = im.leaf(l, table)
                    if not (np.array_equal(o.data, fresh.data) and o.lamb == fresh.lamb and len(o.params) == len(fresh.params)):
                        chk.violation("add:operand_changed", "an operand of + was changed by the addition", "monitor", c)
                        break
            # ---- case for Coq ----
            if pre_exc:
                obs = "None"
            else:
                obs = "(Some (%s, %s, %s, %s, %s, %s))" % (
                    "true" if raised else "false", cm.clist(["%d%%nat" % p.get("vid") for p in res.params]), cm.qlit(res.lamb),
                    cm.zlit(int(res.temperature)), cm.qlit(0.0 if has_und else res.cutoff_time), cm.clist([cm.qlit(x) for x in samples_of(res.data)]))
            if "expr" in prog:
                ps = "(SExpr %s)" % spec_tree(prog["expr"], info)
            elif "iadd" in prog:
                ps = "(SIadd %s %s)" % (spec_tree(prog["iadd"][0], info), spec_tree(prog["iadd"][1], info))
            else:
                ps = "(SIaddSelf %s)" % spec_tree(prog["iadd_self"], info)
            tol = 1e-13 * max(scale, 1e-30) * 8
            items.append("(%s, %d%%nat, %s, %s, %s)" % (cm.clist([cm.clist([cm.qlit(x) for x in row]) for row in tab]), 2 * len(SAMPLE),
                                                     ps, obs, cm.qlit(tol)))
            meta.append(c)
            kinds = set(comp["ftype"] for l in leaves for comp in (l["comps"] if l["kind"] == "analytic" else [l["comp"]]))
            chk.case(c, len(kinds) >= 2 and len(leaves) >= 2, sample={"prog": prog, "lamb": None if pre_exc else res.lamb})
        except Exception as e:
            import traceback
            chk.violation("case:exception", "harness/implementation raised %r: %s" % (e, traceback.format_exc()[-600:]), "monitor", c)
            chk.case(c, False)
    shards, index = [], []
    CH = 12
    for k in range(0, len(items), CH):
        shards.append(cm.HEADER + "From QV Require Import Base.Alg Base.Util Model.C09.\n"
                      "Definition cs : list case09 := %s.\n"
                      "Eval vm_compute in (bad (case_agrees CheckThenMutate) cs).\n"
                      "Eval vm_compute in (bad (case_agrees MutateThenCheck) cs).\n" % cm.clist(items[k:k + CH]))
        index.append(k)
    for k, (rc, out) in zip(index, cm.coq_eval(PID, shards)):
        if rc != 0:
            chk.violation("correspondence:coq_error", "coqc failed: %s" % out[-800:], "correspondence", {}, found_input=False)
            continue
        vals = cm.parse_evals(out)
        badl, bad_old = cm.parse_natlist(vals[0]), cm.parse_natlist(vals[1])
        chk.corr["cases"] += min(CH, len(items) - k)
        chk.corr["disagreements"] += len(badl)
        for i in badl[:3]:
            which = "; it agrees with the pinned (mutate-then-check) += variant" if i not in bad_old else ""
            chk.violation("correspondence:tree", "implementation differs from Model.C09 (OwnFtype, CheckThenMutate) on %s%s"
                          % (json.dumps(meta[k + i])[:1200], which), "correspondence", meta[k + i], found_input=False)


def extra_monitors(chk, tier):
    """validated-only clauses: measured reorganisation energy, parity of even/odd Fourier parts,
    SpectralDensity additivity inside and outside unit contexts"""
    import numpy as np
    import quantarhei as qr
    r = cm.rng(PID + "x")
    ta = qr.TimeAxis(0.0, 4000, 1.0)
    n = 6 if tier == "quick" else 40
    for k in range(n):
        T = r.choice([300, 77, 150])
        comps = []
        for i in range(r.randint(1, 3)):
            comps.append({"ftype": r.choice(["OverdampedBrownian", "OverdampedBrownian-HighTemperature"]), "T": T,
                          "reorg": float(r.choice([20, 50, 100])), "cortime": float(r.choice([50, 100, 200])), "vid": i})
        c = {"extra": "measure", "comps": comps}
        try:
            with qr.energy_units("1/cm"):
                f = qr.CorrelationFunction(ta, comps[0])
                for cc in comps[1:]:
                    f = f + qr.CorrelationFunction(ta, cc)
                decl = sum(cc["reorg"] for cc in comps)
                meas = f.measure_reorganization_energy()
            chk.case(("measure", k, json.dumps(comps)), len(comps) >= 2)
            chk.count("extra:measure")
            if abs(meas - decl) > 2e-2 * decl:
                chk.violation("measure_reorg", "measured reorganisation energy %.4f 1/cm, declared %.4f (validated clause, 2%% tolerance)"
                              % (meas, decl), "monitor", c)
            ev = f.get_EvenFTCorrelationFunction().data
            od = f.get_OddFTCorrelationFunction().data
            N = len(ev)
            idx = (N - np.arange(N)) % N    # fftshifted axis of even length: point k <-> N-k (k=0 is the unpaired edge)
            e_dev = np.max(np.abs(ev[1:] - ev[idx][1:])) / max(np.max(np.abs(ev)), 1e-300)
            o_dev = np.max(np.abs(od[1:] + od[idx][1:])) / max(np.max(np.abs(od)), 1e-300)
            chk.count("extra:parity")
            if e_dev > 1e-9 or o_dev > 1e-9:
                chk.violation("ft_parity", "even/odd Fourier parts are not even/odd: deviations %.3g / %.3g" % (e_dev, o_dev), "monitor", c)
        except Exception as e:
            chk.violation("extra:exception", "measure/parity monitor raised %r" % (e,), "monitor", c)
    # spectral densities: OverdampedBrownian, UnderdampedBrownian, Underdamped; built alone in several unit contexts; added by
    # trees of + evaluated inside / outside a context, by += and x += x, and as composed constructor lists in every order
    import itertools
    ta2 = qr.TimeAxis(0.0, 1000, 1.0)

    def conv(cc, ctx):
        d = dict(cc)
        for key in ("reorg", "freq", "gamma"):
            if key in d and ctx != "1/cm":
                d[key] = qr.convert(cc[key], "1/cm", ctx)
        return d

    import io
    import contextlib

    def build(arg, ctx):
        with qr.energy_units(ctx), contextlib.redirect_stdout(io.StringIO()):      # B777 / CP29 print
            return qr.SpectralDensity(ta2, arg)
    for k in range(10 if tier == "quick" else 80):
        ctx = r.choice([None, "1/cm", "eV", "int"])
        comps = []
        for i in range(r.randint(2, 4)):
            kind = r.choice(["OverdampedBrownian", "UnderdampedBrownian", "Underdamped", "B777"]) if i or k % 2 else r.choice(["Underdamped", "B777"])
            cc = {"ftype": kind, "T": 300, "reorg": float(r.choice([20, 50, 100]))}
            if kind == "OverdampedBrownian":
                cc["cortime"] = float(r.choice([50, 100]))
            elif kind == "B777":
                cc["alternative_form"] = True          # the default form needs numpy.math, which NumPy 2 no longer has
            else:
                cc["freq"], cc["gamma"] = float(r.choice([200, 500])), float(r.choice([10, 30]))
            comps.append(cc)
        bctx = [r.choice(["1/cm", "eV", "int"]) for _ in comps]
        mode = ["plus", "iadd", "iadd_self", "composed"][k % 4]
        c = {"extra": "specdens", "comps": comps, "ctx": ctx, "built_in": bctx, "mode": mode}
        try:
            ref = [build(conv(cc, "1/cm"), "1/cm") for cc in comps]          # every component alone, declared in 1/cm
            sds = [build(conv(cc, b), b) for cc, b in zip(comps, bctx)]       # the operands, declared in their own units
            want = sum(s.data for s in ref)
            lam = sum(s.lamb for s in ref)
            with qr.energy_units("1/cm"):
                decl = sum(cc["reorg"] for cc in comps)

            def prog():
                if mode == "plus":
                    if r.random() < 0.5:
                        acc = sds[0]
                        for s in sds[1:]:
                            acc = acc + s
                    else:
                        acc = sds[-1]
                        for s in reversed(sds[:-1]):
                            acc = s + acc
                    return [(acc, 1)]
                if mode == "iadd":
                    acc = build(conv(comps[0], bctx[0]), bctx[0])
                    for s in sds[1:]:
                        acc += s
                    return [(acc, 1)]
                if mode == "iadd_self":
                    acc = sds[0]
                    for s in sds[1:]:
                        acc = acc + s
                    acc += acc
                    return [(acc, 2)]
                out = []
                perms = list(itertools.permutations(range(len(comps))))
                for pm in (perms if len(perms) <= 6 else r.sample(perms, 6)):
                    b = r.choice(["1/cm", "eV", "int"])
                    o = build([conv(comps[j], b) for j in pm], b)
                    out.append((o, 1))
                    out.append((o + build(conv(comps[0], "1/cm"), "1/cm"), None))      # a composed left operand is rebuilt, too
                return out
            with contextlib.redirect_stdout(io.StringIO()):
                if ctx:
                    with qr.energy_units(ctx):
                        results = prog()
                else:
                    results = prog()
            chk.case(("specdens", k, json.dumps(comps), ctx, mode), True)
            chk.count("extra:specdens:%s:%s" % (mode, ctx))
            for res, mult in results:
                w, l, dc = (want * mult, lam * mult, decl * mult) if mult else (want + ref[0].data, lam + ref[0].lamb, decl + comps[0]["reorg"])
                dev = np.max(np.abs(res.data - w)) / np.max(np.abs(w))
                with qr.energy_units("1/cm"):
                    got = res.get_reorganization_energy()
                if dev > 1e-12 or abs(res.lamb - l) > 1e-12 * l or abs(got - dc) > 1e-9 * dc:
                    chk.violation("specdens:not_sum", "spectral densities %s (declared in %s, %s, evaluated under units context %r) differ from the sum "
                                  "of the components built alone: data %.3g (relative), lamb %r vs %r, declared reorganisation energy %r vs %r 1/cm"
                                  % ([cc["ftype"] for cc in comps], bctx, mode, ctx, dev, res.lamb, l, got, dc), "monitor", c)
                    break
            if mode != "iadd_self":
                for s, cc, b in zip(sds, comps, bctx):
                    if not np.array_equal(s.data, build(conv(cc, b), b).data):
                        chk.violation("specdens:operand_changed", "an operand of + was changed", "monitor", c)
                        break
        except Exception as e:
            chk.violation("specdens:exception", "spectral density addition raised %r" % (e,), "monitor", c)


def cp29_monitors(chk, tier):
    """SpectralDensity of type CP29: everything that goes wrong because the maker gets the parameters as submitted
    (signature sd:cp29:declared_units) or because it overwrites the components before it (sd:cp29:composed) is reported under
    those two signatures (known findings); a CP29 declared in internal units, alone or as the FIRST component, must be right."""
    import io
    import contextlib
    import numpy as np
    import quantarhei as qr
    ta = qr.TimeAxis(0.0, 1000, 1.0)
    r = cm.rng(PID + "cp29")

    def build(arg, ctx):
        with qr.energy_units(ctx), contextlib.redirect_stdout(io.StringIO()):
            return qr.SpectralDensity(ta, arg)

    def conv(cc, ctx):
        d = dict(cc)
        for key in ("reorg", "freq", "gamma"):
            if key in d and ctx != "1/cm":
                d[key] = qr.convert(cc[key], "1/cm", ctx)
        return d

    def rel(a, b):
        return float(np.max(np.abs(a - b)) / max(np.max(np.abs(b)), 1e-300))
    for k in range(3 if tier == "quick" else 12):
        reorg = float(r.choice([20, 50, 100]))
        c = {"ftype": "CP29", "T": 300, "reorg": reorg}
        o = {"ftype": r.choice(["OverdampedBrownian", "UnderdampedBrownian"]), "T": 300, "reorg": float(r.choice([30, 60]))}
        if o["ftype"] == "OverdampedBrownian":
            o["cortime"] = float(r.choice([50, 100]))
        else:
            o["freq"], o["gamma"] = 300.0, 20.0
        inp = {"extra": "cp29", "cp29": c, "other": o}
        try:
            lam_int = qr.convert(reorg, "1/cm", "int")
            ref_c = build(conv(c, "int"), "int")           # declared in internal units: the reference
            ref_o = build(conv(o, "int"), "int")
            chk.case(("cp29", k, json.dumps(inp)), True)
            # ---- must hold: internal-units declaration, alone / first component / left operand
            bad = []
            if abs(ref_c.lamb - lam_int) > 1e-12 * lam_int:
                bad.append("lamb of a CP29 declared in internal units is %r, declared %r" % (ref_c.lamb, lam_int))
            first = build([conv(c, "int"), conv(o, "int")], "int")
            if rel(first.data, ref_c.data + ref_o.data) > 1e-12 or abs(first.lamb - (ref_c.lamb + ref_o.lamb)) > 1e-12 * first.lamb:
                bad.append("[CP29, other] declared in internal units is not the sum of its components")
            with contextlib.redirect_stdout(io.StringIO()):
                s1 = ref_c + ref_o
                s2 = ref_o + ref_c
            for nm, sres in (("CP29 + other", s1), ("other + CP29", s2)):
                if rel(sres.data, ref_c.data + ref_o.data) > 1e-12 or abs(sres.lamb - (ref_c.lamb + ref_o.lamb)) > 1e-12 * sres.lamb:
                    bad.append("%s (both declared in internal units) is not the sum" % nm)
            for b in bad:
                chk.violation("specdens:cp29_internal_units", b, "monitor", inp)
            chk.count("extra:cp29:internal_units")
            # ---- known finding: declaration in other units
            for ctx in ("1/cm", "eV"):
                sc = build(conv(c, ctx), ctx)
                dl = abs(sc.lamb - lam_int) / lam_int
                dd = rel(sc.data, ref_c.data)
                with contextlib.redirect_stdout(io.StringIO()):
                    sm = sc + ref_o
                ds = rel(sm.data, sc.data + ref_o.data)
                chk.count("extra:cp29:declared_in:%s" % ctx)
                if dl > 1e-12 or dd > 1e-9 or ds > 1e-12:
                    chk.violation("sd:cp29:declared_units", "SpectralDensity CP29 with reorg %g 1/cm declared in %s: lamb %r (internal units expected %r), "
                                  "data differ from the same component declared in internal units by %.3g, sc + so differs from sc.data + so.data "
                                  "by %.3g (relative)" % (reorg, ctx, sc.lamb, lam_int, dd, ds), "monitor", inp)
            # ---- known finding: CP29 as a later component
            for ctx in ("int", "1/cm"):
                comp = build([conv(o, ctx), conv(c, ctx)], ctx)
                alone_c = build(conv(c, ctx), ctx)
                alone_o = build(conv(o, ctx), ctx)
                dd = rel(comp.data, alone_o.data + alone_c.data)
                dl = abs(comp.lamb - (alone_o.lamb + alone_c.lamb)) / abs(alone_o.lamb + alone_c.lamb)
                chk.count("extra:cp29:composed:%s" % ctx)
                if dd > 1e-12 or dl > 1e-12:
                    chk.violation("sd:cp29:composed", "SpectralDensity [%s, CP29] declared in %s: data differ from the sum of the two components built "
                                  "alone by %.3g (relative), lamb %r vs %r" % (o["ftype"], ctx, dd, comp.lamb, alone_o.lamb + alone_c.lamb),
                                  "monitor", inp)
        except Exception as e:
            chk.violation("specdens:cp29_exception", "CP29 spectral density raised %r" % (e,), "monitor", inp)


def duplicate_monitor(chk, tier):
    """components with IDENTICAL parameters (two distinct objects, or the same object twice) as a user has them - no bookkeeping
    label in the dictionaries: every one counts, also after the sum has been rebuilt from its component list (a further +,
    copy(), the Fourier transforms)."""
    import numpy as np
    import quantarhei as qr
    r = cm.rng(PID + "dup")
    ta = qr.TimeAxis(0.0, NT, 1.0)
    for k in range(6 if tier == "quick" else 40):
        ftype = ["OverdampedBrownian", "OverdampedBrownian-HighTemperature", "UnderdampedBrownian"][k % 3]
        pa = {"ftype": ftype, "T": 300, "reorg": float(r.choice([10, 20, 35, 50])), "cortime": float(r.choice([50, 100, 150]))}
        if ftype == "UnderdampedBrownian":
            pa = {"ftype": ftype, "T": 300, "reorg": pa["reorg"], "freq": float(r.choice([100, 200, 350])), "gamma": float(r.choice([10, 20, 40]))}
        pc = {"ftype": "OverdampedBrownian", "T": 300, "reorg": float(r.choice([15, 45])), "cortime": float(r.choice([30, 80]))}
        how = ["distinct_objects", "same_object"][(k // 3) % 2]
        c = {"kind": "duplicate", "how": how, "a": pa, "c": pc}
        try:
            with qr.energy_units("1/cm"):
                a1 = qr.CorrelationFunction(ta, dict(pa))
                a2 = qr.CorrelationFunction(ta, dict(pa)) if how == "distinct_objects" else a1
                cc = qr.CorrelationFunction(ta, dict(pc))
            want = a1.data + a2.data + cc.data
            lam = a1.lamb + a2.lamb + cc.lamb
            sc = float(np.max(np.abs(want)))
            s1 = (a1 + a2) + cc
            s2 = (cc + a1) + a2
            forms = [("(a + a') + c", s1), ("(c + a) + a'", s2), ("((a + a') + c).copy()", s1.copy())]
            s3 = a1 + a2
            forms.append(("(a + a').copy() + c", s3.copy() + cc))
            chk.count("duplicate:" + how)
            chk.case(("duplicate", k, how, ftype), True)
            for nm, s in forms:
                dev = float(np.max(np.abs(s.data - want)))
                if dev > 1e-12 * sc or abs(s.lamb - lam) > 1e-12 * lam or len(s.params) != 3:
                    chk.violation("duplicate:" + how, "%s with a, a' of identical parameters (%s): data differ from the sum of the components' data by "
                                  "%.3g (relative %.3g), reorganisation energy %.6g (sum %.6g), %d components recorded"
                                  % (nm, how, dev, dev / sc, s.lamb, lam, len(s.params)), "monitor", c)
                    break
        except Exception as e:
            chk.violation("duplicate:exception", "duplicate-component monitor raised %r" % (e,), "monitor", c)


def main():
    chk = cm.Check(PID, args.tier)
    chk.rule = ("random programs: trees of + over 2-6 components (OverdampedBrownian with/without explicit Matsubara count, "
                "-HighTemperature, UnderdampedBrownian, Underdamped; single and composed leaves (every fifth case an Underdamped component "
                "inside a composed list); value-defined right operands), x += y, x += x, "
                "leaves built in 1/cm, eV or internal units, evaluated in a random units context, 7% of components at another "
                "temperature; non-trivial: >=2 leaves and >=2 distinct component types; distinct by program")
    chk.assumptions = ["the data of one component built alone by the implementation is the oracle `gen` of the model (exact rationals at 5 "
                       "complex sample points)", "measured reorganisation energy and Fourier-part parity are validated numerically only "
                       "(2% / 1e-9), not proved", "B777 is exercised in its alternative form only (the default form needs numpy.math); CP29 only as a SpectralDensity (known findings sd:cp29:*); CorrelationFunction of types B777 / CP29 are not exercised",
                       "static tie: CorrelationFunction.__init__ (initial fields, parameter loop, dispatch loop), the bookkeeping of every _make_xxx, "
                       "_set_temperature_and_cutoff_time, __add__/__iadd__/add_to_data/add_to_data2 of CorrelationFunction and SpectralDensity are "
                       "matched statement by statement against templates (harness/translate_c09.py) and their operands proved to be the "
                       "model's; trusted: the translator, DFunction._add_me (first call sets, later calls add), the formulas inside the makers "
                       "(the oracle gen) and unit conversion of the stored parameter sets"]
    chk.prove()
    import translate
    translate.static_tie(cm, chk, PID, cm.REPO)      # second, static tie: operands of the addition code regenerated from the source
    if args.replay:
        rep = json.load(open(args.replay))
        cases = [rep["input"]] if isinstance(rep.get("input"), dict) and "prog" in rep["input"] else []
        run(chk, cases)
    else:
        r = cm.rng(PID)
        n = 120 if args.tier == "quick" else 1200
        cases = [gen_case(r, k) for k in range(n)]
        run(chk, cases)
        extra_monitors(chk, args.tier)
        cp29_monitors(chk, args.tier)
        duplicate_monitor(chk, args.tier)
    chk.finish()


main()
