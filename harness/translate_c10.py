# -*- coding: utf-8 -*-
"""Static tie for C10: the vibronic part of the aggregate builder regenerated from the current source.  Machinery, templates of the
electronic kernels and their translations are those of translate_c03.py; added here: the collection of the sub-modes in
ElectronicState.__init__, vsignatures (full state space), fc_factor, the vibrational part of the energy, the statements of _build
that touch HH, DD, FC with vibrational signatures, Ntot and Nb.  Skeleton lemmas: coq/theories/Proofs/C10gen.v (and C03gen.v);
targets: Model/C10.v (vstates, venergy, fc_factor, vH, vD, vFC, vNb) and Model/C10x.v (vibmodes_of)."""
import ast

from translate import Untranslatable, _src_of
import translate_c03 as t3
from translate_c03 import (match_fn, match_projection, zhole, const_z, float01, which_name, ZE, RE, src_names, _defs, AGG, STA,
                           _rel_attr_store)

T_ESINIT = '''
def __init__(self, aggregate, elsignature, index=None):
    L_Nsig = len(elsignature)
    L_nmono = len(aggregate.monomers)
    if L_Nsig == L_nmono:
        self.nmono = L_nmono
    else:
        raise Exception()
    self.elsignature = elsignature
    self.aggregate = aggregate
    self.band = H_b0
    for L_k in self.elsignature:
        self.band = H_next
    L_elst = elsignature
    L_vb = []
    L_n = H_n0
    for L_mn in aggregate.monomers:
        for L_a in range(H_nmod):
            L_vb.append(L_mn.get_Mode(H_modeidx).get_SubMode(H_level))
        L_n = H_nnext
    self.vibmodes = L_vb
    self.vsiglength = len(L_vb)
    if index is not None:
        self.index = index
    else:
        self.index = self.aggregate.elsigs.index(self.elsignature)
    self.vibgen_approximation = None
'''

T_VSIG = '''
def vsignatures(self, approx=None, N=None, vibenergy_cutoff=None):
    L_vibmax = []
    for L_sm in self.vibmodes:
        L_vibmax.append(H_x)
    if approx is None:
        return numpy.ndindex(tuple(L_vibmax))
    else:
        S_any
'''

T_FC = '''
def fc_factor(self, state1, state2):
    L_inx1 = state1.vsig
    L_inx2 = state2.vsig
    L_sta1 = state1.elstate.vibmodes
    L_sta2 = state2.elstate.vibmodes
    if not (len(L_sta1) == len(L_sta2)):
        raise Exception()
    L_res = H_res0
    for L_kk in range(len(L_sta1)):
        L_smod1 = L_sta1[H_i1]
        L_smod2 = L_sta2[H_i2]
        L_shft = H_shft
        L_qn1 = L_inx1[H_q1]
        L_qn2 = L_inx2[H_q2]
        if not self.FC.lookup(H_k1):
            L_fc = self.ops.shift_operator(H_k2)
            self.FC.add(H_k3, L_fc)
        L_ii = self.FC.index(H_k4)
        L_rs = self.FC.get(L_ii)[H_r1, H_r2]
        L_res = H_resnext
    return L_res
'''

T_BUILD10 = '''
HH = numpy.zeros((Ntot, Ntot), dtype=numpy.float64)
DD = numpy.zeros((Ntot, Ntot, 3), dtype=numpy.float64)
FC = numpy.zeros((Ntot, Ntot), dtype=numpy.float64)
self.all_states = []
for L_a, L_s1 in self.allstates(mult=self.mult, vibgen_approx=vibgen_approx, Nvib=Nvib, vibenergy_cutoff=vibenergy_cutoff):
    self.all_states.append((L_a, L_s1))
for L_a, L_s1 in self.all_states:
    HH[H_d1, H_d2] = L_s1.energy()
    for L_b, L_s2 in self.all_states:
        DD[H_rD, H_cD, :] = numpy.real(self.transition_dipole(H_t1, H_t2))
        FC[H_rF, H_cF] = numpy.real(self.fc_factor(H_f1, H_f2))
        if H_off:
            HH[H_r2, H_c2] = numpy.real(self.coupling(H_cs1, H_cs2, full=fem_full))
self.HH = HH
self.HamOp = Hamiltonian(data=HH)
self.DD = DD
trdata = numpy.zeros((DD.shape[0], DD.shape[1], DD.shape[2]), dtype=REAL)
trdata[:, :, :] = DD[:, :, :]
self.TrDMOp = TransitionDipoleMoment(data=trdata)
self.FCf = FC
for W_a in range(Ntot):
    for W_b in range(Ntot):
        dd2[W_a, W_b] = numpy.dot(self.DD[W_a, W_b, :], self.DD[W_a, W_b, :])
self.HamOp.set_rwa(rwa_indices)
'''

T_BUILD_NTOT = '''
Ntot = self.total_number_of_states(mult=mult, vibgen_approx=vibgen_approx, Nvib=Nvib, save_indices=False, vibenergy_cutoff=vibenergy_cutoff)
self.Ntot = Ntot
Ntot = self.total_number_of_states(mult=mult, vibgen_approx=vibgen_approx, Nvib=Nvib, save_indices=True, vibenergy_cutoff=vibenergy_cutoff)
'''

T_TOTAL = '''
def total_number_of_states(self, mult=1, vibgen_approx=None, Nvib=None, vibenergy_cutoff=None, save_indices=False):
    L_nret = H_n0
    for L_state in self.allstates(mult=mult, save_indices=save_indices, vibgen_approx=vibgen_approx, Nvib=Nvib, vibenergy_cutoff=vibenergy_cutoff):
        L_nret = H_next
    return L_nret
'''


def _rel_build10(s):
    class V(ast.NodeVisitor):
        hit = False

        def visit_Attribute(self, n):
            if n.attr == "shape":
                return
            if isinstance(n.value, ast.Name) and n.value.id == "self" and n.attr in ("HH", "DD", "HamOp", "TrDMOp", "all_states", "FCf"):
                self.hit = True
            self.generic_visit(n)

        def visit_Name(self, n):
            if n.id in ("HH", "DD", "FC", "trdata"):
                self.hit = True
    v = V()
    v.visit(s)
    return v.hit


def _rel_ntot(s):
    if isinstance(s, ast.Assign):
        for t in s.targets:
            if (isinstance(t, ast.Name) and t.id == "Ntot") or ast.unparse(t) == "self.Ntot":
                return True
    return False


def k_vibmodes(repo):
    env = match_fn(repo + STA, "ElectronicState.__init__", T_ESINIT)
    an = {"L_a": "a", "L_n": "n"}
    d = [("g_vm_n0", ": Z", const_z(env, "H_n0")), ("g_vm_nnext", "(n : Z) : Z", zhole(env, "H_nnext", {"L_n": "n"})),
         ("g_vm_nmod", "(nmod : Z) : Z", ZE(attrs={"%s.nmod" % env["L_mn"]: "nmod"}).e(env["H_nmod"])),
         ("g_vm_modeidx", "(a n : Z) : Z", zhole(env, "H_modeidx", an)),
         ("g_vm_level", "(elst : sig) (a n : Z) : Z", zhole(env, "H_level", an, {"L_elst": "elst", "elsignature": "elst"}))]
    txt = "(* ElectronicState.__init__: the list of sub-modes (vibmodes) *)\n" + _defs(d)
    txt += ("Definition gen_vibmodes (SM : Type) (sub : nat -> Z -> Z -> SM) (nmodz : nat -> Z) := vibmodes_skel SM sub nmodz %s.\n"
            % " ".join(x[0] for x in d))
    txt += ("Lemma gen_vibmodes_is_model : forall SM sub nmodz (nmod : nat -> nat) N s, (forall p, nmodz p = Z.of_nat (nmod p)) ->\n"
            "  gen_vibmodes SM sub nmodz N s = vibmodes_of SM (fun p a l => sub p (Z.of_nat a) (Z.of_nat l)) nmod N s.\n"
            "Proof. intros. unfold gen_vibmodes. apply vibmodes_skel_is_model; try assumption; intros; unfold %s; hole. Qed.\n"
            "Lemma gen_vibmodes_length_indep : forall SM sub nmodz (nmod : nat -> nat) N s s', (forall p, nmodz p = Z.of_nat (nmod p)) ->\n"
            "  length (gen_vibmodes SM sub nmodz N s) = length (gen_vibmodes SM sub nmodz N s').\n"
            "Proof. intros. rewrite !(gen_vibmodes_is_model SM sub nmodz nmod) by assumption. apply vibmodes_length_indep. Qed.\n\n"
            % ", ".join(x[0] for x in d))
    # band (same statements as in the C03 slice) from the same match
    b0 = const_z(env, "H_b0")
    nxt = ZE(src_names(env, {"L_k": "k"}), attrs={"self.band": "acc"}).e(env["H_next"])
    txt += ("(* ElectronicState.__init__: self.band *)\nDefinition g_band0 : Z := %s.\nDefinition g_bandnext (acc k : Z) : Z := %s.\n"
            "Definition gen_band := band_skel g_band0 g_bandnext.\n"
            "Lemma gen_band_is_model : forall s, gen_band s = Z.of_nat (band s).\n"
            "Proof. intros. unfold gen_band. apply band_skel_is_model; intros; unfold g_band0, g_bandnext; hole. Qed.\n\n" % (b0, nxt))
    match_fn(repo + AGG, "AggregateBase.get_ElectronicState", t3.T_GETEL)
    # vsignatures
    env = match_fn(repo + STA, "ElectronicState.vsignatures", T_VSIG)
    x = ZE(attrs={"%s.nmax" % env["L_sm"]: "nmax"}).e(env["H_x"])
    txt += ("(* ElectronicState.vsignatures(approx=None): numpy.ndindex over the level counts of the sub-modes *)\n"
            "Definition g_vmax (nmax : Z) : Z := %s.\n"
            "Lemma gen_vmax_is_model : forall n : nat, Z.to_nat (g_vmax (Z.of_nat n)) = n.\nProof. intros; unfold g_vmax; lia. Qed.\n\n" % x)
    return txt


def k_fc(repo):
    env = match_fn(repo + AGG, "AggregateBase.fc_factor", T_FC)
    kk = {"L_kk": "kk"}
    sh = env["H_shft"]
    s1, s2 = "%s.shift" % env["L_smod1"], "%s.shift" % env["L_smod2"]
    if not (isinstance(sh, ast.BinOp) and isinstance(sh.op, ast.Sub) and {ast.unparse(sh.left), ast.unparse(sh.right)} <= {s1, s2}):
        raise Untranslatable("fc_factor: the table key %s is not a difference of the two sub-mode shifts" % ast.unparse(sh))
    order = (ast.unparse(sh.left) == s1, ast.unparse(sh.right) == s2)
    if order != (True, True):
        raise Untranslatable("fc_factor: the table key is %s (the model has shift1 - shift2)" % ast.unparse(sh))
    for h in ("k1", "k2", "k3", "k4"):
        which_name(env, "H_" + h, {"L_shft": "k"})             # the same key is looked up, computed, added and indexed
    qq = {"L_qn1": "qn1", "L_qn2": "qn2"}
    d = [("g_fc_res0", ": R", float01(env["H_res0"])),
         ("g_fc_i1", "(kk : Z) : Z", zhole(env, "H_i1", kk)), ("g_fc_i2", "(kk : Z) : Z", zhole(env, "H_i2", kk)),
         ("g_fc_q1", "(kk : Z) : Z", zhole(env, "H_q1", kk)), ("g_fc_q2", "(kk : Z) : Z", zhole(env, "H_q2", kk)),
         ("g_fc_r1", "(qn1 qn2 : Z) : Z", zhole(env, "H_r1", qq)), ("g_fc_r2", "(qn1 qn2 : Z) : Z", zhole(env, "H_r2", qq)),
         ("g_fc_resnext", "(res rs : R) : R", RE(src_names(env, {"L_res": "res", "L_rs": "rs"})).e(env["H_resnext"]))]
    txt = "  (* AggregateBase.fc_factor *)\n" + "".join("  " + l + "\n" for l in _defs(d).splitlines())
    txt += "  Definition gen_fc := fc_skel Sh K shiftdiff FCtab %s (fun k => k).\n" % " ".join(x[0] for x in d)
    txt += ("  Lemma gen_fc_is_model : forall (vm : sig -> list (@submode R Sh)) s1 s2 v1 v2, length (vm s1) = length (vm s2) ->\n"
            "    length v1 = length (vm s1) -> length v2 = length (vm s2) ->\n"
            "    gen_fc (vm s1) (vm s2) v1 v2 = fc_factor Sh K shiftdiff FCtab vm s1 s2 v1 v2.\n"
            "  Proof.\n    intros vm s1 s2 v1 v2 H1 H2 H3. unfold gen_fc, fc_factor. apply fc_skel_is_model; try assumption; try congruence; intros; unfold %s; hole.\n  Qed.\n\n"
            % ", ".join(x[0] for x in d))
    return txt


def k_build10(repo):
    match_fn(repo + AGG, "AggregateBase.build", t3.T_BUILDWRAP)
    env = match_projection(repo + AGG, "AggregateBase._build", _rel_build10, T_BUILD10)
    ab = {"L_a": "a", "L_b": "b"}
    d = [("g_bd_d1", "(a : Z) : Z", zhole(env, "H_d1", {"L_a": "a"})), ("g_bd_d2", "(a : Z) : Z", zhole(env, "H_d2", {"L_a": "a"})),
         ("g_bd_off", "(a b : Z) : bool", zhole(env, "H_off", ab, boolean=True))]
    d += [("g_bd_%s" % h, "(a b : Z) : Z", zhole(env, "H_" + h, ab)) for h in ("r2", "c2", "rD", "cD", "rF", "cF")]
    sel = {"L_s1": "s1", "L_s2": "s2"}
    d += [("g_bd_%s" % nm, "(s1 s2 : C03gen.vst) : C03gen.vst", which_name(env, "H_" + h, sel))
          for nm, h in (("sc1", "cs1"), ("sc2", "cs2"), ("st1", "t1"), ("st2", "t2"), ("sf1", "f1"), ("sf2", "f2"))]
    envn = match_projection(repo + AGG, "AggregateBase._build", _rel_attr_store({"Nb", "mult"}), t3.T_BUILD_NB)
    nb = [("g_nb_hi", "(mult : Z) : Z", ZE(attrs={"self.mult": "mult"}).e(envn["H_hi"])),
          ("g_nb_i", "(ii : Z) : Z", zhole(envn, "H_i", {"L_ii": "ii"})), ("g_nb_b", "(ii : Z) : Z", zhole(envn, "H_b", {"L_ii": "ii"}))]
    envc = match_fn(repo + AGG, "AggregateBase.number_of_states_in_band", t3.T_NSIB)
    if not (isinstance(envc["H_mode"], ast.Constant) and envc["H_mode"].value == "EQ"):
        raise Untranslatable("number_of_states_in_band generates the states with mode %s" % ast.unparse(envc["H_mode"]))
    nb += [("g_nb_n0", ": Z", const_z(envc, "H_n0")), ("g_nb_m", "(band : Z) : Z", ZE({"band": "band"}).e(envc["H_m"])),
           ("g_nb_next", "(nret : Z) : Z", zhole(envc, "H_next", {"L_nret": "nret"}))]
    match_projection(repo + AGG, "AggregateBase._build", _rel_ntot, T_BUILD_NTOT)
    envt = match_fn(repo + AGG, "AggregateBase.total_number_of_states", T_TOTAL)
    nb += [("g_nt_n0", ": Z", const_z(envt, "H_n0")), ("g_nt_next", "(nret : Z) : Z", zhole(envt, "H_next", {"L_nret": "nret"}))]
    return d, nb


HEAD = """(* GENERATED on every run by harness/translate_c10.py from quantarhei/builders/aggregate_base.py and aggregate_states.py.
   The statement skeletons were matched node for node against the templates of the translator (translate_c03.py,
   translate_c10.py); the arithmetic content below is the code's. *)
From Coq Require Import ZArith List Bool Arith Lia.
From QV Require Import Base.Alg Base.Sums Base.Mat Model.C03 Proofs.C03 Proofs.C03gen Model.C10 Proofs.C10 Model.C10x Proofs.C10x Proofs.C10gen.
Import ListNotations.
Open Scope Z_scope.
"""

T_GEN10 = """
(* number of vibronic states: total_number_of_states (Ntot) and number_of_states_in_band (Nb) *)
%(nbdefs)s
Section Gen10.
  Context {R : StarRing}.
  Add Ring Rr : (rth R).
  Variables (Sh K : Type) (shiftdiff : Sh -> Sh -> K) (FCtab : K -> nat -> nat -> R).
%(energy)s%(trdip)s%(coupling)s%(fc)s
  (* the statements of AggregateBase._build that touch HH, DD, FC and the operators made from them *)
%(build)s
  Section Built.
    Variable N : nat.
    Variables (E J dip : nat -> nat -> R) (sqrtf : nat -> R).
    Variable vm : sig -> list (@submode R Sh).        (* ElectronicState.vibmodes (gen_vibmodes above) *)
    Variable sigs : list sig.
    Hypothesis Hlen : forall a, (a < length sigs)%%nat -> length (nth a sigs []) = N.
    Hypothesis Hvm : forall s s', length (vm s) = length (vm s').
    Definition Ez (k n : Z) : R := E (Z.to_nat k) (Z.to_nat n).
    Definition dipz (c : nat) (k a b : Z) : R := dip (Z.to_nat (g_gd_n k a b)) c.
    Definition gen_vs (s : sig) : list (list nat) := ndindex (map (fun m => Z.to_nat (g_vmax (Z.of_nat (sm_nmax Sh m)))) (vm s)).
    Lemma gen_vs_is_model : forall s, gen_vs s = ndindex (nmaxes Sh vm s).
    Proof. intros s. unfold gen_vs, nmaxes. f_equal. apply map_ext. intros m. apply gen_vmax_is_model. Qed.
    Definition gen_states : list (Z * C03gen.vst) := gen_allstates gen_vs sigs.
    Lemma gen_states_is_model : gen_states = map zst (combine (seq 0 (length (vstates Sh vm sigs))) (vstates Sh vm sigs)).
    Proof. unfold gen_states. rewrite gen_allstates_is_model, (gstates_from_ext gen_vs (fun s => ndindex (nmaxes Sh vm s)) gen_vs_is_model). reflexivity. Qed.
    Definition gen_en (x : C03gen.vst) : R := let '(i, s, v) := x in gen_energy (Some v) (map (sm_omega Sh) (vm s)) Ez s.
    Definition gen_fcf (x y : C03gen.vst) : R := let '(i1, s1, v1) := x in let '(i2, s2, v2) := y in gen_fc (vm s1) (vm s2) v1 v2.
    Definition gen_coup (x y : C03gen.vst) : R :=
      let '(i1, s1, v1) := x in let '(i2, s2, v2) := y in gen_coupling N J sqrtf s1 i1 s2 i2 (gen_fcf x y).
    Definition gen_trd (c : nat) (x y : C03gen.vst) : R :=
      let '(i1, s1, v1) := x in let '(i2, s2, v2) := y in gen_trdip (dipz c) (gen_exindx (gen_band s1) (gen_band s2) s1 s2) (gen_fcf x y).
    Definition gen_H : @mat R := fill_H C03gen.vst gen_en gen_coup g_bd_d1 g_bd_d2 g_bd_off g_bd_r2 g_bd_c2 g_bd_sc1 g_bd_sc2 gen_states.
    Definition gen_D (c : nat) : @mat R := fill_D C03gen.vst (gen_trd c) g_bd_rD g_bd_cD g_bd_st1 g_bd_st2 gen_states.
    Definition gen_FC : @mat R := fill_D C03gen.vst gen_fcf g_bd_rF g_bd_cF g_bd_sf1 g_bd_sf2 gen_states.

    Lemma gen_en_ok : forall i s v, length s = N -> length v = length (vm s) -> gen_en (Z.of_nat i, s, v) = venergy N E Sh vm (i, s, v).
    Proof.
      intros i s v Hs Hv. unfold gen_en, gen_energy. apply venergy_skel_is_model; try assumption;
        try (intros; unfold g_en_en0, g_en_vk0, g_en_k0, g_en_vknext, g_en_knext, g_en_vnext, g_en_enext; hole).
      intros k n. unfold Ez. now rewrite !Nat2Z.id.
    Qed.
    Lemma gen_fcf_ok : forall i1 s1 v1 i2 s2 v2, length v1 = length (vm s1) -> length v2 = length (vm s2) ->
      gen_fcf (i1, s1, v1) (i2, s2, v2) = fc_factor Sh K shiftdiff FCtab vm s1 s2 v1 v2.
    Proof. intros. unfold gen_fcf. apply gen_fc_is_model; try assumption. apply Hvm. Qed.

    Lemma gen_H_is_model : forall a b, (a < length (vstates Sh vm sigs))%%nat -> (b < length (vstates Sh vm sigs))%%nat ->
      gen_H a b = vH N E J sqrtf Sh K shiftdiff FCtab vm sigs a b.
    Proof.
      intros a b Ha Hb. unfold gen_H.
      apply (vH_assembly N E J sqrtf Sh K shiftdiff FCtab vm sigs Hlen gen_en gen_coup g_bd_d1 g_bd_d2 g_bd_off g_bd_r2 g_bd_c2 g_bd_sc1 g_bd_sc2);
        try assumption; try (intros; unfold g_bd_d1, g_bd_d2, g_bd_off, g_bd_r2, g_bd_c2, g_bd_sc1, g_bd_sc2; hole).
      - exact gen_states_is_model.
      - exact gen_en_ok.
      - intros i1 s1 v1 i2 s2 v2 Hs H1 H2. unfold gen_coup. rewrite gen_fcf_ok by assumption. now apply gen_coupling_is_model.
    Qed.

    Lemma gen_D_is_model : forall c a b, (a < length (vstates Sh vm sigs))%%nat -> (b < length (vstates Sh vm sigs))%%nat ->
      gen_D c a b = vD dip Sh K shiftdiff FCtab vm sigs c a b.
    Proof.
      intros c a b Ha Hb. unfold gen_D.
      apply (vD_assembly N dip Sh K shiftdiff FCtab vm sigs Hlen (gen_trd c) g_bd_rD g_bd_cD g_bd_st1 g_bd_st2);
        try assumption; try (intros; unfold g_bd_rD, g_bd_cD, g_bd_st1, g_bd_st2; hole).
      - exact gen_states_is_model.
      - intros i1 s1 v1 i2 s2 v2 Hs H1 H2. unfold gen_trd. rewrite gen_fcf_ok by assumption. apply gen_trdip_is_model; [|exact Hs].
        intros k. unfold dipz, g_gd_n. now rewrite Nat2Z.id.
    Qed.

    Lemma gen_FC_is_model : forall a b, (a < length (vstates Sh vm sigs))%%nat -> (b < length (vstates Sh vm sigs))%%nat ->
      gen_FC a b = vFC Sh K shiftdiff FCtab vm sigs a b.
    Proof.
      intros a b Ha Hb. unfold gen_FC.
      apply (vFC_assembly Sh K shiftdiff FCtab vm sigs gen_fcf g_bd_rF g_bd_cF g_bd_sf1 g_bd_sf2);
        try assumption; try (intros; unfold g_bd_rF, g_bd_cF, g_bd_sf1, g_bd_sf2; hole).
      - exact gen_states_is_model.
      - exact gen_fcf_ok.
    Qed.

    (* Ntot and Nb *)
    Definition gen_Ntot : Z := count_skel g_nt_n0 g_nt_next gen_states.
    Lemma gen_Ntot_is_model : gen_Ntot = Z.of_nat (length (vstates Sh vm sigs)).
    Proof.
      unfold gen_Ntot. rewrite count_skel_length by (intros; unfold g_nt_n0, g_nt_next; hole).
      now rewrite gen_states_is_model, map_length, combine_length, seq_length, Nat.min_id.
    Qed.
    Definition gen_Nb := Nb_skel g_nb_n0 g_nb_next g_nb_m g_nb_hi g_nb_i g_nb_b gen_elsignatures (gen_allstates gen_vs).
    Lemma gen_Nb_is_model : forall omax (mult : nat),
      gen_Nb omax (Z.of_nat mult) = map (fun ii => (Z.of_nat ii, Z.of_nat (nth ii (vNb Sh vm omax mult) 0%%nat))) (seq 0 (S mult)).
    Proof.
      intros omax mult. unfold gen_Nb.
      rewrite (Nb_skel_spec g_nb_n0 g_nb_next g_nb_m g_nb_hi g_nb_i g_nb_b gen_elsignatures (gen_allstates gen_vs)) with (vs := gen_vs);
        try (intros; unfold g_nb_n0, g_nb_next, g_nb_m, g_nb_hi, g_nb_i, g_nb_b; hole).
      - apply map_ext_in. intros ii Hi. apply in_seq in Hi. rewrite vNb_nth by lia.
        now rewrite (gstates_from_ext gen_vs (fun s => ndindex (nmaxes Sh vm s)) gen_vs_is_model).
      - intros. exact (gen_elsignatures_is_model omax0 k false).
      - intros. apply gen_allstates_is_model.
    Qed.
  End Built.
End Gen10.
"""


def static(repo):
    txt = HEAD + t3.HOLE_TAC + "\n"
    txt += t3.k_add_excitation(repo) + t3.k_elsignatures(repo) + k_vibmodes(repo) + t3.k_exindx(repo) + t3.k_allstates(repo)
    t3.match_projection(repo + STA, "ElectronicState.__init__", _rel_attr_store({"index"}), t3.T_ELINDEX)
    d, nb = k_build10(repo)
    txt += T_GEN10 % {"nbdefs": _defs(nb), "energy": t3.k_energy(repo), "trdip": t3.k_trdip(repo), "coupling": t3.k_coupling(repo), "fc": k_fc(repo),
                      "build": "".join("  " + l + "\n" for l in _defs(d).splitlines())}
    what = ["aggregate_states.py:ElectronicState.__init__ (vibmodes, band, index)", "aggregate_states.py:ElectronicState.vsignatures (approx=None)",
            "aggregate_base.py:AggregateBase.fc_factor", "aggregate_states.py:ElectronicState.energy", "aggregate_states.py:VibronicState.energy",
            "aggregate_base.py:AggregateBase.allstates", "aggregate_base.py:AggregateBase.get_ElectronicState",
            "aggregate_base.py:AggregateBase.elsignatures", "aggregate_base.py:AggregateBase._add_excitation",
            "aggregate_base.py:AggregateBase._get_exindx", "aggregate_base.py:AggregateBase.transition_dipole", "aggregate_base.py:AggregateBase.get_dipole",
            "aggregate_base.py:AggregateBase.coupling (vibronic branch, full=False)",
            "aggregate_base.py:AggregateBase.build (internal-units context around _build)",
            "aggregate_base.py:AggregateBase._build (statements touching HH, DD, FC, HamOp, TrDMOp, FCf, all_states; Ntot; Nb loop)",
            "aggregate_base.py:AggregateBase.total_number_of_states", "aggregate_base.py:AggregateBase.number_of_states_in_band"]
    t_store, w_store = k_store(repo)
    return txt + t_store, what + w_store


# ----------------------------------------------------------------------------------------------- the look-up table class (ho.py)
# fcstorage keeps two parallel Python lists.  Its five methods are translated statement by statement into transformers of the record
# Proofs/C10store.v `store` (fail-closed: only the statement forms below are accepted) and proved equal to st_new / st_lookup /
# st_index / st_add / st_get, for which `table_is_function_of_shift` holds: every request of fc_factor is answered with the matrix
# computed for its own shift.
_FIELDS = {"_shifts": "shifts", "_fcs": "fcs"}


def _sattr(node):
    import ast as _a
    if isinstance(node, _a.Attribute) and isinstance(node.value, _a.Name) and node.value.id == "self" and node.attr in _FIELDS:
        return _FIELDS[node.attr]
    raise Untranslatable("fcstorage: attribute %s" % _a.unparse(node))


def _store_method(fn, params):
    """-> (kind, gallina) for one method body; params: python parameter name -> Coq variable"""
    import ast as _a
    body = [s for s in fn.body if not (isinstance(s, _a.Expr) and isinstance(s.value, _a.Constant))]
    cur = {"shifts": "(shifts s)", "fcs": "(fcs s)"}

    def arg(n):
        if isinstance(n, _a.Name) and n.id in params:
            return params[n.id]
        raise Untranslatable("fcstorage: argument %s" % _a.unparse(n))
    for k, st in enumerate(body):
        last = k == len(body) - 1
        if isinstance(st, _a.Assign) and len(st.targets) == 1 and isinstance(st.value, _a.List) and not st.value.elts:
            cur[_sattr(st.targets[0])] = "[]"
            continue
        if (isinstance(st, _a.Expr) and isinstance(st.value, _a.Call) and isinstance(st.value.func, _a.Attribute)
                and st.value.func.attr == "append" and len(st.value.args) == 1 and not st.value.keywords):
            f = _sattr(st.value.func.value)
            cur[f] = "(%s ++ [%s])" % (cur[f], arg(st.value.args[0]))
            continue
        if isinstance(st, _a.Return) and last:
            v = st.value
            if (isinstance(v, _a.Call) and isinstance(v.func, _a.Attribute) and v.func.attr == "index" and len(v.args) == 1
                    and not v.keywords):
                return "index", "index_of K keqb %s %s" % (arg(v.args[0]), cur[_sattr(v.func.value)])
            if isinstance(v, _a.Subscript):
                return "get", "nth_error %s %s" % (cur[_sattr(v.value)], arg(v.slice))
            if isinstance(v, _a.Constant) and v.value is False and k == 1:
                # if self.A.count(x) > N: return True ; return False
                t = body[0]
                if (isinstance(t, _a.If) and not t.orelse and len(t.body) == 1 and isinstance(t.body[0], _a.Return)
                        and isinstance(t.body[0].value, _a.Constant) and t.body[0].value.value is True
                        and isinstance(t.test, _a.Compare) and len(t.test.ops) == 1 and isinstance(t.test.ops[0], _a.Gt)
                        and isinstance(t.test.comparators[0], _a.Constant) and isinstance(t.test.comparators[0].value, int)):
                    c = t.test.left
                    if (isinstance(c, _a.Call) and isinstance(c.func, _a.Attribute) and c.func.attr == "count" and len(c.args) == 1):
                        return "lookup", "if Nat.ltb %d (count K keqb %s %s) then true else false" % (
                            t.test.comparators[0].value, arg(c.args[0]), cur[_sattr(c.func.value)])
            raise Untranslatable("fcstorage: return %s" % _a.unparse(st))
        if isinstance(st, _a.If) and k == 0 and len(body) == 2:
            continue            # handled together with the final `return False`
        raise Untranslatable("fcstorage: statement %s" % _a.unparse(st)[:80])
    return "state", "mkStore %s %s" % (cur["shifts"], cur["fcs"])


def k_store(repo):
    f = repo + "/quantarhei/qm/oscillators/ho.py"
    out = {}
    want = {"__init__": ([], "state"), "lookup": (["k"], "lookup"), "index": (["k"], "index"), "add": (["k", "v"], "state"), "get": (["i"], "get")}
    cls = _src_of(f, "fcstorage")
    import ast as _a
    methods = [n.name for n in cls.body if isinstance(n, _a.FunctionDef)]
    if sorted(methods) != sorted(want):
        raise Untranslatable("fcstorage methods %s" % methods)
    for name, (coqargs, kind) in want.items():
        fn = _src_of(f, "fcstorage." + name)
        ps = [a.arg for a in fn.args.args][1:]
        if len(ps) != len(coqargs) or fn.args.defaults or fn.args.kwonlyargs or fn.args.vararg or fn.args.kwarg:
            raise Untranslatable("fcstorage.%s signature" % name)
        k2, g = _store_method(fn, dict(zip(ps, coqargs)))
        if k2 != kind:
            raise Untranslatable("fcstorage.%s is a %s where a %s is expected" % (name, k2, kind))
        out[name] = g
    return """
(* ---- ho.py: class fcstorage, GENERATED ---- *)
From QV Require Import Proofs.C10store.
Section GenStore.
  Variables (K V : Type) (keqb : K -> K -> bool).
  Definition gs_new (s : store K V) : store K V := %(__init__)s.
  Definition gs_lookup (k : K) (s : store K V) : bool := %(lookup)s.
  Definition gs_index (k : K) (s : store K V) : option nat := %(index)s.
  Definition gs_add (k : K) (v : V) (s : store K V) : store K V := %(add)s.
  Definition gs_get (i : nat) (s : store K V) : option V := %(get)s.
  Lemma gen_store_is_model k v i s :
    gs_new s = st_new /\\ gs_lookup k s = st_lookup keqb k s /\\ gs_index k s = st_index keqb k s /\\
    gs_add k v s = st_add k v s /\\ gs_get i s = st_get i s.
  Proof.
    unfold gs_new, gs_lookup, gs_index, gs_add, gs_get, st_new, st_lookup, st_index, st_add, st_get.
    repeat split; try reflexivity. destruct (Nat.ltb _ _); reflexivity.
  Qed.
End GenStore.
""" % out, ["ho.py:fcstorage (__init__, lookup, index, add, get)"]
