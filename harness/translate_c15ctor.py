# -*- coding: utf-8 -*-
"""Static tie for C15, second part: the CONSTRUCTORS of the relaxation tensors.

harness/translate_c15.py analyses the API methods and used to take the constructors of the tensor classes on trust
("assumed not to modify the arguments except as listed in CONSTRUCTOR_EFFECTS").  This module replaces that assumption by
an analysis with the same abstract interpreter: for every constructor the shapes of Model.C15 use, `__init__` and
everything it calls (`_implementation`, `initialize`, `_reference_implementation`, the constructors of the objects it
creates on the way, the module-level kernels, the methods it calls on the objects passed in) is interpreted with

    self        a new object (root `self`); objects created inside are further new roots (`new:<Class>`)
    ham, sbi    the roots `arg:ham`, `arg:sbi` - the shared objects of the property

and the set of locations WRITTEN THROUGH THE ARGUMENTS, on any path (normal return or `raise`), must be exactly what
translate_c15.CONSTRUCTOR_EFFECTS declares for that constructor (checked here) and what Proofs/C15ctor.v:ctor_assumed
states in terms of the fields of Model.C15 (checked by the generated lemma, by computation).  Anything the interpreter does
not understand raises Untranslatable: fail-closed.

What the subclass below adds to the interpreter of translate_c15 (each item is needed by the constructor bodies only):

  heap of the new objects   `self.Hamiltonian = ham` makes `self.Hamiltonian._data[...] = x` a write to ham: the values
                            stored into attributes of the new objects are kept (flow-insensitively: the union of everything
                            ever stored there; the analysis is repeated until this map is stable) and a read of such an
                            attribute yields what may have been stored.  The storage name of a managed property
                            (`data` -> `_data`, `Km` -> `_Km`: declared in the class bodies) is used for both spellings.
  method resolution         C3 linearisation (the combined tensors have two tensor classes as bases); every base class must
                            be in the analysed files.  `super().m(...)` resolves to the next class after the one that
                            defines the running method in the linearisation of the class of `self`.
  nested constructors       a class of the analysed files called by name creates a new root and its `__init__` is analysed
                            in place; other constructors stay whitelisted by name (listed in the generated file).
  functions as values       `_td_fintegral` handed to `_td_reference_implementation` and called there; names imported with
                            `from .x import f [as g]` resolve to the function of that file.
  library callables         `UnivariateSpline(...).antiderivative()(tm)`: calling an object a library function returned.
  the Manager               `self.manager` / `Manager()` is the singleton; the methods in MANAGER_READERS only read it (this is
                            checked: their bodies are analysed and must write nothing); `register_with_basis(cb, self)` is
                            accepted for the new object only (the registration of C04's basis contexts).
  recursion                 refused (the base interpreter's rule for `propagate` is not wanted here).
  references kept           `list / tuple / dict / zip / enumerate / max / min / sum (x)` and `getattr(x, "a")` keep the references of
                            their arguments; the numpy functions in EXTRA_VIEWS (ravel, reshape, squeeze, einsum, array(copy=...), ...)
                            may return views; a reference to a shared object stored into a container (`d["h"] = ham`) is kept when
                            the container belongs to a new object and refused otherwise (an index with a slice inside a tuple,
                            `a[i, :] = v`, is a numpy element store: values are copied).
  read-only properties      `@property` methods of a class whose location is typed are analysed as calls of the getter.
"""
import ast
import os

import translate_c15 as T
from translate import Untranslatable
from translate_c15 import FRESH, GLOB, State, flat, loc, sjoin, vjoin

# files of the tensor classes, of their base classes and of what they call on the objects passed in
EXTRA_FILES = ["/qm/liouvillespace/redfieldtensor.py", "/qm/liouvillespace/relaxationtensor.py", "/qm/liouvillespace/foerstertensor.py",
               "/qm/liouvillespace/tdredfieldtensor.py", "/qm/liouvillespace/tdfoerstertensor.py", "/qm/liouvillespace/lindbladform.py",
               "/qm/liouvillespace/redfieldfoerster.py", "/qm/liouvillespace/tdredfieldfoerster.py",
               "/qm/liouvillespace/systembathinteraction.py", "/qm/liouvillespace/secular.py", "/qm/corfunctions/cfmatrix.py",
               "/qm/corfunctions/correlationfunctions.py", "/qm/liouvillespace/rates/foersterrates.py",
               "/qm/liouvillespace/rates/redfieldrates.py", "/core/valueaxis.py", "/core/datasaveable.py", "/core/frequency.py"]

# constructor -> (Coq name in Proofs/C15ctor.v, tensor kinds of Model.C15 built with it)
ANALYSED = [("RedfieldRelaxationTensor", "CRedfield"), ("TDRedfieldRelaxationTensor", "CTDRedfield"),
            ("FoersterRelaxationTensor", "CFoerster"), ("TDFoersterRelaxationTensor", "CTDFoerster"),
            ("RedfieldFoersterRelaxationTensor", "CRedFoe"), ("TDRedfieldFoersterRelaxationTensor", "CTDRedFoe"),
            ("LindbladForm", "CLindblad"), ("RedfieldRateMatrix", "CRateM")]
# constructors of translate_c15.CONSTRUCTORS that stay assumed, by name, and why
STILL_ASSUMED = {
    "ModRedfieldRelaxationTensor": "cannot run with the pinned SciPy (recorded finding 'mR'); not a call of Model.C15.api",
    "TDModRedfieldRelaxationTensor": "as ModRedfieldRelaxationTensor",
    "NEFoersterRelaxationTensor": "the non-equilibrium Foerster tensor is outside Model.C15 (no shape builds it)",
    "Hamiltonian": "Hamiltonian(data=<new array>): builds a new operator from a new array; the arguments are arrays made in the call",
    "ReducedDensityMatrixEvolution": "result container: stores the time axis and a new array",
    "DensityMatrixEvolution": "result container", "StateVectorEvolution": "result container",
    "TimeAxis": "TimeAxis(start, length, step): numbers only", "ReducedDensityMatrix": "ReducedDensityMatrix(data=<new array>)",
    "DensityMatrix": "DensityMatrix(data=<new array>)", "EvolutionOperator": "result container of the state-vector propagator",
    "ReducedDensityMatrixPropagator": "the propagator made for one sub-interval of EvolutionSuperOperator.calculate: keeps references, "
                                      "its propagate() is the analysed one",
    "Manager": "the singleton: Manager() returns the existing object",
}
# library / infrastructure calls inside the constructor bodies that are taken by name (printed into the generated file)
BY_NAME = {
    "managed_properties": "`x.data`, `x.Km` ... on the objects passed in are read as attributes; the getter behind them is the basis / units "
                          "management of properties C04 / C05 (transforms only an unprotected operator whose basis differs from the current one)",
    "parallel": "start_parallel_region / close_parallel_region / block_distributed_range / distributed_configuration().allreduce(A): the "
                "work distribution of property C20; allreduce is taken to write its first argument in place (must be an array made in the call)",
    "ssRedfieldRateMatrix": "the rate kernel dispatched at run time by @implementation (translated for property C06): writes its last two "
                            "arguments (werror, RR) in place and nothing else",
    "library_callables": "an object returned by a numpy / scipy function and then called (spline antiderivatives): evaluates, does not write "
                         "its arguments",
    "register_with_basis": "Manager.register_with_basis(cb, self): the new object registers itself with the current basis context (C04)",
    "arity_errors": "a call that does not supply a required argument raises TypeError there: the path ends in an exceptional exit whose "
                    "writes are counted (this is how the time dependent combined tensor fails: Model.C15 RelTFail FailCRFTD)",
    "argument_types": "classes assumed for the objects reachable from the arguments (ARG_TYPES): ham is a Hamiltonian, sbi a "
                      "SystemBathInteraction, sbi.CC a CorrelationFunctionMatrix whose cfuncs are CorrelationFunction objects, "
                      "sbi.TimeAxis / sbi.CC.timeAxis TimeAxis objects",
}
MANAGER_READERS = ["get_current_basis", "convert_energy_2_internal_u", "convert_energy_2_current_u", "get_real_type", "get_complex_type"]
PARALLEL_NAMES = {"start_parallel_region", "close_parallel_region", "block_distributed_range"}
ARG_TYPES = {("arg:ham", ()): "Hamiltonian", ("arg:sbi", ()): "SystemBathInteraction", ("arg:sbi", ("CC",)): "CorrelationFunctionMatrix",
             ("arg:sbi", ("CC", "cfuncs")): "CorrelationFunction", ("arg:sbi", ("TimeAxis",)): "TimeAxis",
             ("arg:sbi", ("CC", "timeAxis")): "TimeAxis", ("arg:sbi", ("CC", "cfuncs", "axis")): "TimeAxis"}
# branch conditions decided by ARG_TYPES: the axis of a bath correlation function is a TimeAxis (DFunction.get_Fourier_transform)
CONDS = {"isinstance(t, TimeAxis)": True}
FUNC = "func"
REF_KEEPING = {"list", "tuple", "dict", "zip", "enumerate", "max", "min", "sum"}
EXTRA_VIEWS = {"numpy.ravel", "numpy.reshape", "numpy.squeeze", "numpy.diagonal", "numpy.diag", "numpy.atleast_1d", "numpy.atleast_2d",
               "numpy.atleast_3d", "numpy.ascontiguousarray", "numpy.asfortranarray", "numpy.asanyarray", "numpy.asmatrix", "numpy.swapaxes",
               "numpy.moveaxis", "numpy.rollaxis", "numpy.expand_dims", "numpy.flip", "numpy.fliplr", "numpy.flipud", "numpy.rot90",
               "numpy.broadcast_to", "numpy.broadcast_arrays", "numpy.split", "numpy.array_split", "numpy.hsplit", "numpy.vsplit",
               "numpy.dsplit", "numpy.require", "numpy.nan_to_num", "numpy.real_if_close", "numpy.trim_zeros", "numpy.einsum",
               "numpy.lib.stride_tricks.as_strided", "numpy.lib.stride_tricks.sliding_window_view", "numpy.take_along_axis",
               "numpy.matrix", "numpy.frombuffer", "numpy.ndarray"}


# ----------------------------------------------------------------------------------------------- class index
class CtorIndex(T.Index):
    """translate_c15.Index over more files, with the imports of every file, the managed properties and a C3 linearisation"""

    def __init__(self, repo):
        import warnings
        self.classes, self.functions, self.where = {}, {}, {}
        self.imports, self.pure_prefixes, self.props = {}, {}, set()
        self.getters = set()          # (class, name) of @property methods
        files = list(T.FILES) + [f for f in EXTRA_FILES if f not in T.FILES]
        for f in files:
            path = repo + T.PKG + f
            if not os.path.exists(path):
                raise Untranslatable("source file %s not found" % f)
            with warnings.catch_warnings():
                warnings.simplefilter("ignore")
                tree = ast.parse(open(path).read())
            self.imports[f], self.pure_prefixes[f] = {}, set()
            for node in tree.body:
                if isinstance(node, ast.ClassDef):
                    if node.name in self.classes:
                        raise Untranslatable("two classes named %s in the analysed files" % node.name)
                    self.classes[node.name] = node
                    self.where[node.name] = f
                    for s in node.body:
                        if isinstance(s, ast.FunctionDef) and any(ast.unparse(d) == "property" for d in s.decorator_list):
                            self.getters.add((node.name, s.name))
                    for s in node.body:       # X = BasisManagedComplexArray("X"): attribute X is stored as _X
                        if isinstance(s, ast.Assign) and isinstance(s.value, ast.Call) and ast.unparse(s.value.func).endswith(("Array", "ManagedReal", "ManagedComplex")) \
                                and s.value.args and isinstance(s.value.args[0], ast.Constant) and isinstance(s.value.args[0].value, str):
                            self.props.add(s.value.args[0].value)
                elif isinstance(node, ast.FunctionDef):
                    self.functions[(f, node.name)] = node
                elif isinstance(node, ast.ImportFrom) and node.level > 0:
                    parts = f.split("/")[1:-1]
                    parts = parts[:len(parts) - (node.level - 1)]
                    target = "/" + "/".join(parts + (node.module.split(".") if node.module else [])) + ".py"
                    for a in node.names:
                        self.imports[f][a.asname or a.name] = (target, a.name)
                elif isinstance(node, ast.Import):
                    for a in node.names:
                        if a.name.split(".")[0] in ("numpy", "scipy", "math"):
                            self.pure_prefixes[f].add((a.asname or a.name.split(".")[0]) + ".")

    def mro(self, cls):
        if cls not in self.classes:
            raise Untranslatable("base class %s is not in the analysed files" % cls)
        bases = [ast.unparse(b).split(".")[-1] for b in self.classes[cls].bases]
        bases = [b for b in bases if b != "object"]
        seqs = [self.mro(b) for b in bases] + [list(bases)]
        out = [cls]
        while any(seqs):
            seqs = [s for s in seqs if s]
            for s in seqs:
                h = s[0]
                if not any(h in t[1:] for t in seqs):
                    break
            else:
                raise Untranslatable("no linearisation of the bases of %s" % cls)
            out.append(h)
            seqs = [[x for x in s if x != h] for s in seqs]
        return out

    def function(self, file_, name, seen=()):
        """module-level function `name` as seen from file_ (defined there or imported from an analysed file)"""
        if (file_, name) in self.functions:
            return file_, self.functions[(file_, name)]
        if name in self.imports.get(file_, {}) and (file_, name) not in seen:
            tf, tn = self.imports[file_][name]
            if tf in self.imports:
                return self.function(tf, tn, seen + ((file_, name),))
        return None, None


# ----------------------------------------------------------------------------------------------- the analysis
class CtorAnalysis(T.Analysis):
    def __init__(self, index, types, conds, heap, refusals):
        T.Analysis.__init__(self, index, types, conds, model_raises=refusals)
        self.heap = heap              # (root, path) of a new object -> origins ever stored there
        self.heap_changed = False
        self.by_name = set()
        self.assumed_ctors = set()
        self.visited = set()          # functions analysed in place
        self.arity_errors = set()

    @staticmethod
    def owned(root):
        return root == "self" or root.startswith("new:")

    def canon(self, attr):
        return "_" + attr if attr in self.ix.props else attr

    def here(self):
        return self.stack[-1][0]

    # ---- expressions
    def ev(self, st, node, read=True):
        if isinstance(node, ast.Name) and node.id not in st.env:
            ff, fn = self.ix.function(self.here(), node.id)
            if fn is not None:
                return frozenset([(FUNC, ff, node.id)])
            return frozenset([GLOB])
        if isinstance(node, ast.Attribute):
            base = flat(self.ev(st, node.value))
            out = set()
            for o in base:
                if o[0] != "loc":
                    if o[0] == "freshobj":
                        out.add(FRESH)
                    if o[0] != FUNC:
                        out.add(o)
                    continue
                cls = self.types.get((o[1], o[2]))
                if cls is not None and cls in self.ix.classes:
                    c, fn = self.ix.method(cls, node.attr)
                    if fn is not None and (c, node.attr) in self.ix.getters:
                        out |= flat(self.inline(st, self.ix.where[c], c, fn, frozenset([("loc", o[1], o[2], False)]), [], {}, node))
                        continue
                own = self.owned(o[1])
                attr = self.canon(node.attr) if own else node.attr
                key = (o[1], o[2] + (attr,))
                if not own and node.attr in self.ix.props:
                    self.by_name.add("managed_properties")
                hv = self.heap.get(key) if own else None
                if node.attr == "manager" and hv is None:
                    out.add(GLOB)            # class attribute of Managed: the singleton (a store into it is refused)
                    continue
                if hv is not None:
                    kept = frozenset(x for x in hv if x != FRESH)
                    out |= kept
                    if FRESH not in hv and kept:
                        continue             # only references were ever stored there
                pristine = st.last.get(key, frozenset(["none"])) == frozenset(["none"])
                out.add(("loc", key[0], key[1], pristine))
                if read and not any((key[0], key[1][:n]) in st.defined for n in range(1, len(key[1]) + 1)):
                    st.exposed.add(key)
            return frozenset(out)
        return T.Analysis.ev(self, st, node, read)

    def shared_refs(self, value):
        """origins of value through which a shared object can be reached"""
        out = set()
        for x in flat(value):
            if x[0] == "loc" and not self.owned(x[1]):
                out.add(x)
            elif x[0] == "freshobj" and any(y[0] == "loc" and not self.owned(y[1]) for y in x[1]):
                out.add(x)
        return frozenset(out)

    def assign(self, st, target, value, value_node):
        if isinstance(target, ast.Subscript):
            refs = self.shared_refs(value)
            numpy_store = isinstance(target.slice, ast.Tuple) and any(isinstance(e, ast.Slice) for e in target.slice.elts)
            if refs and not numpy_store:
                for o in flat(self.ev(st, target.value, read=False)):
                    if o[0] == "loc" and self.owned(o[1]):
                        key = (o[1], o[2])
                        new = self.heap.get(key, frozenset([FRESH])) | refs
                        if new != self.heap.get(key):
                            self.heap[key] = new
                            self.heap_changed = True
                    elif o[0] in ("fresh", "freshobj"):
                        raise Untranslatable("a reference to a shared object is stored into a container made in the call (%s)"
                                             % ast.unparse(target))
        if isinstance(target, ast.Attribute):
            base = self.ev(st, target.value)
            fv = flat(value)
            refs = frozenset(x for x in fv if x[0] in ("loc", "freshobj"))
            for o in flat(base):
                if o[0] == "loc" and self.owned(o[1]):
                    key = (o[1], o[2] + (self.canon(target.attr),))
                    new = self.heap.get(key, frozenset()) | frozenset(x if x[0] != "fresh" else FRESH for x in fv if x[0] != "glob") \
                        | (frozenset([FRESH]) if any(x[0] == "glob" for x in fv) else frozenset())
                    if new != self.heap.get(key):
                        self.heap[key] = new
                        self.heap_changed = True
                elif o[0] in ("fresh", "freshobj") and refs:
                    raise Untranslatable("a reference to a shared object is stored into an object the analysis does not follow (%s)"
                                         % ast.unparse(target))
            if any(o[0] == "loc" and self.owned(o[1]) for o in flat(base)):
                # the base interpreter's bookkeeping, with the storage name
                target = ast.Attribute(value=target.value, attr=self.canon(target.attr), ctx=target.ctx)
        return T.Analysis.assign(self, st, target, value, value_node)

    # ---- calls
    def inline(self, st, file_, cls, fn, recv, args, kws, node):
        if [s[:3] for s in self.stack].count((file_, cls, fn.name)):
            raise Untranslatable("recursive call of %s" % fn.name)
        # a call that does not supply a required argument raises TypeError: the path ends here, in an exceptional exit
        params = [a.arg for a in fn.args.args][(1 if recv is not None else 0):]
        required = params[:len(params) - len(fn.args.defaults)]
        if any(k >= len(args) and p not in kws for k, p in enumerate(required)):
            self.by_name.add("arity_errors")
            self.arity_errors.add("%s called from %s" % (fn.name, self.stack[-1][2]))
            raise T._Raise(None)
        self.visited.add((cls + "." if cls else file_.split("/")[-1] + ":") + fn.name)
        return T.Analysis.inline(self, st, file_, cls, fn, recv, args, kws, node)

    def _args(self, st, node):
        args = [self.ev(st, a) for a in node.args]
        kws = {k.arg: self.ev(st, k.value) for k in node.keywords}
        if None in kws or any(isinstance(a, ast.Starred) for a in node.args):
            raise Untranslatable("*args / **kwargs in %s" % ast.unparse(node.func))
        return args, kws

    def class_of(self, o):
        c = self.types.get((o[1], o[2]))
        if c is None:
            raise Untranslatable("class of %s.%s is not declared" % (o[1], ".".join(o[2])))
        return c

    def call(self, st, node):
        f = node.func
        fname = ast.unparse(f)
        # ---- super().m(...)
        if isinstance(f, ast.Attribute) and isinstance(f.value, ast.Call) and ast.unparse(f.value) == "super()":
            _, defcls = self.stack[-1][0], self.stack[-1][1]
            recv = st.env.get("self")
            if defcls is None or recv is None:
                raise Untranslatable("super() outside a method")
            args, kws = self._args(st, node)
            res = None
            for o in flat(recv):
                if o[0] != "loc":
                    raise Untranslatable("super() on an object that is not a declared location")
                lin = self.ix.mro(self.class_of(o))
                if defcls not in lin:
                    raise Untranslatable("super(): %s is no base of %s" % (defcls, lin[0]))
                for c in lin[lin.index(defcls) + 1:]:
                    fn = [s for s in self.ix.classes[c].body if isinstance(s, ast.FunctionDef) and s.name == f.attr]
                    if fn:
                        break
                else:
                    raise Untranslatable("super().%s not found above %s" % (f.attr, defcls))
                res = vjoin(res, self.inline(st, self.ix.where[c], c, fn[0], frozenset([("loc", o[1], o[2], False)]), args, kws, node))
            return res
        # ---- the Manager
        if isinstance(f, ast.Attribute) and f.attr in MANAGER_READERS + ["register_with_basis"]:
            recv = flat(self.ev(st, f.value))
            if recv == frozenset([GLOB]):
                args, kws = self._args(st, node)
                if f.attr == "register_with_basis":
                    who = frozenset(x for v in args[1:] + list(kws.values()) for x in flat(v))
                    if not who or not all(x[0] == "loc" and self.owned(x[1]) and not x[2] for x in who):
                        raise Untranslatable("register_with_basis of an object other than the one under construction")
                    self.by_name.add("register_with_basis")
                else:
                    self.notes.add("manager_readers")
                return frozenset([FRESH])
        # ---- infrastructure taken by name
        if isinstance(f, ast.Name) and f.id in PARALLEL_NAMES and f.id not in st.env and self.ix.imports[self.here()].get(f.id, ("",))[0] == "/core/parallel.py":
            self._args(st, node)
            self.by_name.add("parallel")
            return frozenset([FRESH])
        if fname == "distributed_configuration().allreduce" and self.ix.imports[self.here()].get("distributed_configuration", ("",))[0] == "/core/parallel.py":
            args, kws = self._args(st, node)
            if not args:
                raise Untranslatable("allreduce without a positional array")
            self.write(st, frozenset(o for o in flat(args[0]) if o[0] in ("loc", "glob")), None, "any", inplace=True, what=fname)
            self.by_name.add("parallel")
            return frozenset([FRESH])
        if isinstance(f, ast.Name) and f.id == "ssRedfieldRateMatrix" and f.id not in st.env and self.here() == "/qm/liouvillespace/rates/redfieldrates.py":
            args, kws = self._args(st, node)
            if len(args) != 7 or kws:
                raise Untranslatable("ssRedfieldRateMatrix is not called with its seven positional arguments")
            for a in args[5:]:
                self.write(st, frozenset(o for o in flat(a) if o[0] in ("loc", "glob")), None, "any", inplace=True, what=fname)
            self.by_name.add("ssRedfieldRateMatrix")
            return frozenset([FRESH])
        # ---- builtins that keep the references of their arguments; numpy functions that may return views
        if isinstance(f, ast.Name) and f.id not in st.env and f.id == "getattr":
            if len(node.args) >= 2 and isinstance(node.args[1], ast.Constant) and isinstance(node.args[1].value, str) and not node.keywords:
                v = self.ev(st, ast.Attribute(value=node.args[0], attr=node.args[1].value, ctx=ast.Load()))
                for a in node.args[2:]:
                    v = vjoin(v, self.ev(st, a))
                return v
            raise Untranslatable("getattr with a computed name")
        if (isinstance(f, ast.Name) and f.id not in st.env and f.id in REF_KEEPING) or fname in EXTRA_VIEWS \
                or (fname == "numpy.array" and any(k.arg == "copy" for k in node.keywords)):
            args, kws = self._args(st, node)
            if "out" in kws:
                raise Untranslatable("%s with out=" % fname)
            out = frozenset([FRESH])
            for v in args + list(kws.values()):
                out |= frozenset(x for x in flat(v) if x[0] in ("loc", "freshobj"))
            self.notes.add("view_functions" if "." in fname else "pure_functions")
            return out
        # ---- library functions under the names this file imports them with (the base interpreter knows numpy. / scipy. / math.)
        libs = tuple(self.ix.pure_prefixes.get(self.here(), ())) + T.PURE_PREFIXES
        if fname.startswith(libs) and isinstance(f, ast.Attribute) and not _dotted(f):
            # a method of an object a library function returned (`UnivariateSpline(...).antiderivative()`): not the library
            # function itself - the receiver must be an object made in the call, and no shared object may be handed to it
            recv = flat(self.ev(st, f.value))
            args, kws = self._args(st, node)
            argl = frozenset(x for v in args + list(kws.values()) for x in flat(v) if x[0] == "loc")
            if recv != frozenset([FRESH]) or (argl and f.attr not in T.READER_METHODS):
                raise Untranslatable("method %s of a library object" % fname)
            self.by_name.add("library_callables")
            return frozenset([FRESH])
        if fname.startswith(libs) and not fname.startswith(T.PURE_PREFIXES) and _dotted(f) and fname.split(".")[0] not in st.env:
            args, kws = self._args(st, node)
            if "out" in kws:
                raise Untranslatable("%s with out=" % fname)
            self.notes.add("pure_functions")
            return frozenset([FRESH])
        # ---- a library object kept in an attribute of a new object and called (`self._spline_r(x)` of DFunction)
        if isinstance(f, ast.Attribute) and _dotted(f):
            recv = flat(self.ev(st, f.value))
            if recv and all(o[0] == "loc" and self.owned(o[1]) and (o[1], o[2]) in self.types
                            and self.ix.method(self.types[(o[1], o[2])], f.attr)[1] is None
                            and self.heap.get((o[1], o[2] + (self.canon(f.attr),))) == frozenset([FRESH]) for o in recv):
                self._args(st, node)
                self.by_name.add("library_callables")
                return frozenset([FRESH])
        # ---- a called call: an object made by a library function
        if not isinstance(f, (ast.Name, ast.Attribute)):
            callee = flat(self.ev(st, f))
            self._args(st, node)
            if callee != frozenset([FRESH]):
                raise Untranslatable("call of the value of %s" % fname)
            self.by_name.add("library_callables")
            return frozenset([FRESH])
        if isinstance(f, ast.Name):
            # ---- functions as values
            if f.id in st.env:
                v = flat(st.env[f.id])
                if v and all(o[0] == FUNC for o in v):
                    args, kws = self._args(st, node)
                    res = None
                    for o in v:
                        res = vjoin(res, self.inline(st, o[1], None, self.ix.functions[(o[1], o[2])], None, args, kws, node))
                    return res
            else:
                # ---- functions of this file or imported from an analysed file
                ff, fn = self.ix.function(self.here(), f.id)
                if fn is not None:
                    if fn.decorator_list:
                        raise Untranslatable("decorated function %s" % f.id)
                    args, kws = self._args(st, node)
                    return self.inline(st, ff, None, fn, None, args, kws, node)
                # ---- constructors of the analysed files
                target = f.id
                if target in self.ix.classes and target not in T.CONSTRUCTORS - {a for a, _ in ANALYSED} and target != "Manager" \
                        and target not in T.CONTEXTS:
                    args, kws = self._args(st, node)
                    root = "new:" + target
                    self.types[(root, ())] = target
                    c, fn = self.ix.method(target, "__init__")
                    if fn is not None:
                        self.inline(st, self.ix.where[c], c, fn, frozenset([loc(root, ())]), args, kws, node)
                    return frozenset([loc(root, ())])
                if f.id in T.CONSTRUCTORS:
                    if f.id not in STILL_ASSUMED:
                        raise Untranslatable("constructor %s is neither analysed nor listed as assumed" % f.id)
                    self.assumed_ctors.add(f.id)
        return T.Analysis.call(self, st, node)


def _dotted(f):
    while isinstance(f, ast.Attribute):
        f = f.value
    return isinstance(f, ast.Name)


def _exits(flow):
    out = flow.norm
    for (_, s) in flow.rets:
        out = sjoin(out, s)
    for s in flow.excs:
        out = sjoin(out, s)
    return out


def analyse(index, cname):
    """locations written through `ham` / `sbi` by cname.__init__ on any path; returns (set of (root, path), analysis notes)"""
    c, fn = index.method(cname, "__init__")
    if fn is None:
        raise Untranslatable("%s.__init__ not found" % cname)
    params = [a.arg for a in fn.args.args]
    if params[1:3] != ["ham", "sbi"]:
        raise Untranslatable("%s.__init__ does not start with (self, ham, sbi)" % cname)
    heap, written, notes, by_name, assumed, visited, arity = {}, set(), set(), set(), set(), set(), set()
    for _ in range(8):
        changed = False
        for refusals in (False, True):
            types = dict(ARG_TYPES)
            types[("self", ())] = cname
            an = CtorAnalysis(index, types, dict(CONDS), heap, refusals)
            st = State()
            st.env[params[0]] = frozenset([loc("self", ())])
            for p in params[1:]:
                st.env[p] = frozenset([loc("arg:" + p, ())]) if p in ("ham", "sbi") else frozenset([FRESH])
            an.stack.append((index.where[c], c, fn.name, {}, set()))
            out = _exits(an.block(st, fn.body))
            visited |= an.visited
            arity |= an.arity_errors
            if out is None:
                if not refusals:
                    raise Untranslatable("%s.__init__ has no exit" % cname)
                continue
            written |= {k for k in out.written if k[0].startswith("arg:")}
            notes |= an.notes
            by_name |= an.by_name
            assumed |= an.assumed_ctors
            changed = changed or an.heap_changed
        if not changed:
            break
    else:
        raise Untranslatable("%s: the references kept by the new objects do not stabilise" % cname)
    by_name.add("argument_types")
    return written, notes, by_name, assumed, visited, arity


def check_manager_readers(index):
    """the Manager methods taken as reads are analysed: they must write nothing"""
    for m in MANAGER_READERS:
        w, _, _ = T.run(index, "Manager", m, {("self", ()): "Manager"}, {}, set())
        if w:
            raise Untranslatable("Manager.%s writes %s" % (m, sorted(".".join(p) for _, p in w)))


def declared(cname):
    """CONSTRUCTOR_EFFECTS of translate_c15 as a set of locations"""
    roots = {0: "arg:ham", 1: "arg:sbi"}
    return {(roots[k], tuple(path)) for (k, path, _) in T.CONSTRUCTOR_EFFECTS.get(cname, [])}


CTOR_TEXT = """
(* ---- constructors of the relaxation tensors (harness/translate_c15ctor.py) ----------------------------------------------
   For each constructor: the fields of the shared objects its __init__ (with everything it calls) may write through the
   arguments `ham` and `sbi`, on any path.  Analysed (__init__ and, in place, the functions listed):
%(seen)s
   Manager methods taken as reads (their bodies analysed: they write nothing): %(readers)s.
   Taken by name inside the constructor bodies:
%(by_name)s
   Constructors still assumed not to modify their arguments, by name:
%(assumed)s *)
From QV Require Import Proofs.C15ctor.
Definition gen_ctor_writes : list (ctor * list field) :=
  [ %(items)s ].
(* what the code of a constructor writes through its arguments is what the model assumes of it (Proofs/C15ctor.v:ctor_assumed:
   the Foerster constructors fill the cache sbi.CC._hofts, nobody else writes anything) ... *)
Lemma gen_ctor_writes_as_assumed : forallb (fun x => fl_eqb (snd x) (ctor_assumed (fst x))) gen_ctor_writes = true.
Proof. vm_compute. reflexivity. Qed.
(* ... for every constructor the calls of the property use *)
Lemma gen_ctor_all : forallb (fun c => existsb (fun x => ctor_eqb c (fst x)) gen_ctor_writes) all_ctors = true.
Proof. vm_compute. reflexivity. Qed.
(* hence no constructor changes an input field (ctor_assumed_no_input) *)
Lemma gen_ctor_inputs_untouched : forall c l f, In (c, l) gen_ctor_writes -> In f l -> is_input f = false.
Proof.
  intros c l f Hin Hf. pose proof gen_ctor_writes_as_assumed as H. rewrite forallb_forall in H. specialize (H _ Hin).
  cbn [fst snd] in H. apply fl_eqb_eq in H. subst l. exact (ctor_assumed_no_input c f Hf).
Qed.
"""


def static(repo):
    """-> (Coq text to append to GenC15.v, [what was analysed])"""
    index = CtorIndex(repo)
    check_manager_readers(index)
    sh = {"coq": "constructor", "roles": {("arg:ham", ()): "ham", ("arg:sbi", ()): "sbi"}}
    items, by_name, assumed, seen, what = [], set(), set(), [], []
    for cname, coq in ANALYSED:
        w, _, bn, asd, visited, arity = analyse(index, cname)
        seen.append("     %s: %s%s" % (cname, ", ".join(sorted(visited)), "".join("; TypeError: " + a for a in sorted(arity))))
        what.append("%s.__init__ (writes through ham / sbi) with %s" % (cname, ", ".join(sorted(visited))))
        if w != declared(cname):
            raise Untranslatable("%s writes through its arguments %s; translate_c15.CONSTRUCTOR_EFFECTS declares %s"
                                 % (cname, sorted(r[4:] + "." + ".".join(p) for r, p in w) or "nothing",
                                    sorted(r[4:] + "." + ".".join(p) for r, p in declared(cname)) or "nothing"))
        fields = []
        for key in sorted(w):
            fld = T.field_of_loc(dict(sh, coq=cname), key)
            if cname == "LindbladForm" and fld == "Sbi":
                fld = "LSbi"          # the interaction object handed to LindbladForm is the one with the Lindblad operators
            if fld not in fields:
                fields.append(fld)
        items.append("(%s, [%s])" % (coq, "; ".join(fields)))
        by_name |= bn
        assumed |= asd
    missing = T.CONSTRUCTORS - {a for a, _ in ANALYSED} - set(STILL_ASSUMED)
    if missing:
        raise Untranslatable("constructors neither analysed nor listed as assumed: %s" % sorted(missing))
    text = CTOR_TEXT % {"readers": ", ".join(MANAGER_READERS),
                        "by_name": "\n".join("     %s: %s" % (k, BY_NAME[k]) for k in sorted(by_name)),
                        "assumed": "\n".join("     %s: %s" % (k, STILL_ASSUMED[k]) for k in sorted(STILL_ASSUMED)),
                        "items": ";\n    ".join(items), "seen": "\n".join(seen)}
    return text, what


if __name__ == "__main__":
    import sys
    sys.path.insert(0, os.path.dirname(os.path.abspath(__file__)))
    print(static(sys.argv[1] if len(sys.argv) > 1 else "/repo")[0])
