# -*- coding: utf-8 -*-
"""Static tie for C04, second generated file (GenC04b.v): the BOOKKEEPING of the basis management.

`translate.tensor_transforms / operator_transforms` (GenC04.v) tie the loop nests of the `transform()` methods.  This module
translates, STATEMENT BY STATEMENT and fail-closed, the state machine that Model/C04.v transcribes:

  core/managers.py   Manager.__init__ (the five bookkeeping fields only), get_current_basis, set_new_basis,
                     transform_to_current_basis (the walk over basis_stack / basis_transformations with its break),
                     register_with_basis, store_current_basis_operator
                     BasisManaged: class defaults, get_current_basis, set_current_basis, protect_basis, unprotect_basis, __copy__
                     basis_context_manager.__init__, eigenbasis_of.__init__ / __enter__ / __exit__
  utils/types.py     basis_managed_array_property, managed_array_property (getter and setter)
  qm/...             the tagging block of Operator.__init__, SuperOperator.__init__, RelaxationTensor._initialize_basis,
                     TransitionDipoleMoment.__init__;  SelfAdjointOperator.get_diagonalization_matrix (the oracle call);
                     SuperOperator.apply (copy, read, read, write)

into Gallina over a Python-level state `pst` (basis_stack : list nat, basis_transformations : list G, basis_registered : dict,
current_basis_operator, _in_eigenbasis_of_context, heap of objects) defined in coq/theories/Proofs/C04gen.v.  That file holds
the reference transcription `py_*` and proves ONCE that every `py_*` step simulates the step function of Model/C04.v
(`enter`, `leave`/`exit_one`, `to_current`, `register`, `read`, `write`, `create`, `set_prot`, the copy of `PApply`) under the
representation relation `Rep`, and that the machine built from them (`pexec`) simulates `exec`.  The generated file proves
`gen_* = py_*` (tactic `tie`: conversion, else case split on every condition + linear arithmetic) and instantiates the
simulation and restoration theorems with the `gen_*`.

Reading of the Python constructs (the trusted part of this translator):
  * objects are labels (nat) into a heap; `x.attr` is a lookup at the moment of the read, `x.attr = e` an update;
  * a local bound to `manager.basis_registered[e]` is an ALIAS of that list: it is re-read from the dictionary at every use;
  * `for op in lst` iterates the list as it is when the loop starts (the body may only append to the list of another key);
  * `for k in range(a, b): ...; if c: break` is `for_break (seq a (b - a))` with the single loop-carried local;
  * `if c: A` followed by REST is `if c then A; REST else REST` (REST is translated in both branches, a condition already
    decided on the path is not re-tested as long as none of its names is re-assigned);
  * `if <warn flag>: print(...)` has no effect; `raise` ends the path with None.
Every other statement / expression raises Untranslatable.
"""
import ast
import glob
import os

from translate import Untranslatable, _src_of
from translate2 import _strip

MANAGERS = "/quantarhei/core/managers.py"
TYPES = "/quantarhei/utils/types.py"
OPERATORS = "/quantarhei/qm/hilbertspace/operators.py"
SUPEROP = "/quantarhei/qm/liouvillespace/superoperator.py"
RELTENS = "/quantarhei/qm/liouvillespace/relaxationtensor.py"
DMOMENT = "/quantarhei/qm/hilbertspace/dmoment.py"

WARN_FLAGS = ("warn_about_basis_change", "warn_about_basis_changing_objects")


def _u(node):
    return ast.unparse(node)


def _names(node):
    return {n.id for n in ast.walk(node) if isinstance(n, ast.Name)}


def _assigned_names(stmts):
    out = set()
    for s in stmts:
        for n in ast.walk(s):
            if isinstance(n, ast.Name) and isinstance(n.ctx, (ast.Store, ast.Del)):
                out.add(n.id)
    return out


def _only_prints(stmts):
    ss = _strip(stmts)
    return bool(ss) and all(isinstance(s, ast.Expr) and isinstance(s.value, ast.Call) and _u(s.value.func) == "print" for s in ss)


# procedures already translated: python method name -> (gen name, receiver kind, argument kinds, result)
#   result: 'ps' (new state), 'ps*nat', 'opt ps' (may raise), 'opt ps*oX'
class Procs(dict):
    pass


class Tr:
    """one function body -> Gallina text (continuation style)"""

    def __init__(self, procs, mgr, selfkind, selfterm=None, ret="ps", what=""):
        self.procs = procs
        self.mgr = set(mgr)                 # expression texts that denote the Manager
        self.selfkind = selfkind            # 'manager' | 'object' | 'ctx' | None
        self.selfterm = selfterm            # Coq term of the label when self is an object
        self.ret = ret                      # shape of the result
        self.what = what
        self.env = {}                       # python local -> (coq term, kind)
        self.fields = {}                    # fields of the context object: name -> (term, kind)
        self.facts = {}                     # condition text -> bool, decided on the current path
        self.skip = set()                   # statement texts without a modelled effect
        self.idioms = []                    # [(tuple of statement texts, function(self) -> coq let-line)]
        self.storage = None                 # name of the local holding '_' + name in the property factories
        self.value_param = None
        self.has_eigh = False
        self._fact_names = {}           # condition text -> names it mentions

    # ------------------------------------------------------------------ helpers
    def bad(self, msg):
        raise Untranslatable("%s: %s" % (self.what, msg))

    def is_mgr(self, node):
        return _u(node) in self.mgr

    def bind(self, name, kind, prefix="v_"):
        coq = prefix + name
        self.env[name] = (coq, kind)
        for k in [k for k, ns in list(self._fact_names.items()) if name in ns]:
            self.facts.pop(k, None)
            self._fact_names.pop(k, None)
        return coq

    def fork(self):
        c = Tr(self.procs, self.mgr, self.selfkind, self.selfterm, self.ret, self.what)
        c.env, c.fields, c.facts = dict(self.env), dict(self.fields), dict(self.facts)
        c._fact_names = dict(self._fact_names)
        c.skip, c.idioms, c.storage, c.value_param, c.has_eigh = self.skip, self.idioms, self.storage, self.value_param, self.has_eigh
        return c

    # ------------------------------------------------------------------ values
    def nat(self, node):
        t, k = self.value(node)
        if k != "nat":
            self.bad("%s is not a basis id / index (%s)" % (_u(node), k))
        return t

    def index(self, node, lenterm):
        if isinstance(node, ast.UnaryOp) and isinstance(node.op, ast.USub) and isinstance(node.operand, ast.Constant) \
                and isinstance(node.operand.value, int) and not isinstance(node.operand.value, bool) and node.operand.value > 0:
            return "(%s - %d)" % (lenterm, node.operand.value)           # python: a negative index counts from the end
        return self.nat(node)

    def value(self, n):
        """-> (coq term, kind); kinds: nat bool G lab olab oX natlist Glist dict alias"""
        if isinstance(n, ast.Constant):
            if n.value is None:
                return "None", "olab"
            if isinstance(n.value, bool):
                return ("true" if n.value else "false"), "bool"
            if isinstance(n.value, int) and n.value >= 0:
                return "%d" % n.value, "nat"
            self.bad("constant %r" % (n.value,))
        if isinstance(n, ast.Name):
            if n.id == "self" and self.selfkind == "object":
                return self.selfterm, "lab"
            if n.id in self.env:
                return self.env[n.id]
            self.bad("unknown name %s" % n.id)
        if isinstance(n, ast.Attribute):
            if self.is_mgr(n.value):
                m = {"current_basis_operator": ("(cbo ps)", "olab"), "_in_eigenbasis_of_context": ("(inctx ps)", "bool"),
                     "basis_stack": ("(stack ps)", "natlist"), "basis_transformations": ("(transf ps)", "Glist"),
                     "basis_registered": ("(regd ps)", "dict")}
                if n.attr in m:
                    return m[n.attr]
                self.bad("attribute %s of the Manager" % n.attr)
            if isinstance(n.value, ast.Name) and n.value.id == "self" and self.selfkind == "ctx":
                if n.attr in self.fields:
                    return self.fields[n.attr]
                self.bad("field %s of the context object read before it is set" % n.attr)
            bt, bk = self.value(n.value)
            if bk == "lab":
                if n.attr == "is_basis_protected":
                    return "(pprot ps %s)" % bt, "bool"
                if n.attr == "_current_basis":
                    return "(ptag ps %s)" % bt, "nat"
                if n.attr == "_data":
                    return "(pdat ps %s)" % bt, "oX"
            self.bad("attribute %s" % _u(n))
        if isinstance(n, ast.Subscript):
            ct, ck = self.value(n.value)
            if ck == "natlist":
                return "(nth %s %s 0)" % (self.index(n.slice, "length %s" % ct), ct), "nat"
            if ck == "Glist":
                return "(nth %s %s gid)" % (self.index(n.slice, "length %s" % ct), ct), "G"
            if ck == "dict":
                return self.nat(n.slice), "alias"
            self.bad("subscript %s" % _u(n))
        if isinstance(n, ast.BinOp) and isinstance(n.op, (ast.Add, ast.Sub)):
            return "(%s %s %s)" % (self.nat(n.left), "+" if isinstance(n.op, ast.Add) else "-", self.nat(n.right)), "nat"
        if isinstance(n, (ast.Compare, ast.BoolOp)) or (isinstance(n, ast.UnaryOp) and isinstance(n.op, ast.Not)):
            return self.cond(n), "bool"
        if isinstance(n, ast.Call):
            return self.call_value(n)
        self.bad("expression %s" % _u(n)[:80])

    def call_value(self, n):
        f, t = n.func, _u(n)
        if n.keywords:
            self.bad("call %s" % t[:80])
        if isinstance(f, ast.Name) and f.id == "len" and len(n.args) == 1:
            at, ak = self.value(n.args[0])
            if ak in ("natlist", "Glist"):
                return "(length %s)" % at, "nat"
            if ak == "alias":
                return "(length (dget (regd ps) %s))" % at, "nat"
            self.bad("len of %s" % _u(n.args[0]))
        if _u(f) == "numpy.dot" and len(n.args) == 2:
            return "(gmul %s %s)" % (self.gval(n.args[0]), self.gval(n.args[1])), "G"
        if _u(f) == "numpy.linalg.inv" and len(n.args) == 1:
            return "(ginv %s)" % self.gval(n.args[0]), "G"
        if _u(f) == "numpy.diag" and len(n.args) == 1:
            a = n.args[0]                     # numpy.diag(numpy.ones(<object>.dim)): the unit matrix of the object's dimension
            if isinstance(a, ast.Call) and _u(a.func) == "numpy.ones" and len(a.args) == 1 and not a.keywords \
                    and isinstance(a.args[0], ast.Attribute) and a.args[0].attr == "dim" and self.value(a.args[0].value)[1] == "lab":
                return "gid", "G"
            self.bad("call %s" % t[:80])
        if isinstance(f, ast.Name) and f.id == "getattr" and len(n.args) == 2 and self.selfkind == "object" \
                and _u(n.args[0]) == "self" and self.storage is not None and _u(n.args[1]) == self.storage:
            return "(pdat ps %s)" % self.selfterm, "oX"
        if isinstance(f, ast.Attribute):
            if f.attr == "get_current_basis" and not n.args:
                if self.is_mgr(f.value):
                    return self.pure("Manager.get_current_basis", []), "nat"
                return self.pure("BasisManaged.get_current_basis", [self.lab(f.value)]), "nat"
            if f.attr == "get_diagonalization_matrix" and not n.args:
                if not self.has_eigh:
                    self.bad("the diagonaliser is asked for outside __enter__")
                name = "SelfAdjointOperator.get_diagonalization_matrix"
                if name not in self.procs:
                    self.bad("%s is called before it is translated" % name)
                return "(%s eigh ps %s)" % (self.procs[name][0], self.lab(f.value)), "G"
        self.bad("call %s" % t[:80])

    def pure(self, name, args):
        if name not in self.procs:
            self.bad("%s is called before it is translated" % name)
        return "(%s ps%s)" % (self.procs[name][0], "".join(" " + a for a in args))

    def gval(self, node):
        t, k = self.value(node)
        if k == "nat" and t == "1":
            return "gid"                       # the integer 1 heading basis_transformations: numpy.dot(1, S) = S
        if k != "G":
            self.bad("%s is not a transformation matrix (%s)" % (_u(node), k))
        return t

    def lab(self, node):
        t, k = self.value(node)
        if k != "lab":
            self.bad("%s is not a basis-managed object (%s)" % (_u(node), k))
        return t

    def olab(self, node):
        t, k = self.value(node)
        if k == "lab":
            return "(Some %s)" % t
        if k != "olab":
            self.bad("%s is not an object or None (%s)" % (_u(node), k))
        return t

    # ------------------------------------------------------------------ conditions
    def cond(self, n):
        if isinstance(n, ast.BoolOp):
            return "(" + (" && " if isinstance(n.op, ast.And) else " || ").join(self.cond(v) for v in n.values) + ")"
        if isinstance(n, ast.UnaryOp) and isinstance(n.op, ast.Not):
            return "(negb %s)" % self.cond(n.operand)
        if isinstance(n, ast.Compare) and len(n.ops) == 1:
            op, a, b = n.ops[0], n.left, n.comparators[0]
            if isinstance(op, (ast.Eq, ast.NotEq)):
                t = "(%s =? %s)" % (self.nat(a), self.nat(b))
                return t if isinstance(op, ast.Eq) else "(negb %s)" % t
            if isinstance(op, (ast.In, ast.NotIn)):
                ct, ck = self.value(b)
                if ck == "natlist":
                    t = "(existsb (Nat.eqb %s) %s)" % (self.nat(a), ct)
                elif ck == "dict":
                    t = "(dmem (regd ps) %s)" % self.nat(a)
                elif ck == "alias":
                    t = "(existsb (Nat.eqb %s) (dget (regd ps) %s))" % (self.lab(a), ct)
                else:
                    self.bad("membership in %s" % _u(b))
                return t if isinstance(op, ast.In) else "(negb %s)" % t
            self.bad("comparison %s" % _u(n))
        t, k = self.value(n)
        if k != "bool":
            self.bad("%s is not a condition" % _u(n))
        return t

    # ------------------------------------------------------------------ path ends
    def end(self, node=None):
        r = self.ret
        if r == "ps":
            return "ps"
        if r == "opt ps":
            return "Some ps"
        if r == "ps*nat":
            if node is None:
                self.bad("a path returns no basis id")
            return "(ps, %s)" % self.nat(node)
        if r == "nat":
            if node is None:
                self.bad("a path returns nothing")
            return self.nat(node)
        if r == "G":
            if node is None:
                self.bad("a path returns nothing")
            return self.gval(node)
        if r == "opt ps*oX":
            if node is None:
                self.bad("a path returns nothing")
            t, k = self.value(node)
            if k != "oX":
                self.bad("returns %s, which is not the stored data" % _u(node))
            return "Some (ps, %s)" % t
        if r == "ctx":
            if node is not None or set(self.fields) != {"op", "op_outer"}:
                self.bad("__init__ does not set exactly the fields op and op_outer")
            return "(ps, %s, %s)" % (self.fields["op"][0], self.fields["op_outer"][0])
        self.bad("result shape %s" % r)

    def raised(self):
        if not self.ret.startswith("opt"):
            self.bad("raise in a function modelled as total")
        return "None"

    # ------------------------------------------------------------------ calls with an effect
    def effect(self, call, rest, k, target=None):
        """procedure call as a statement (or `target = call`) -> text, or None"""
        f = call.func
        if not isinstance(f, ast.Attribute):
            return None
        recv, meth = f.value, f.attr
        kw = {x.arg: x.value for x in call.keywords}

        def cont():
            return self.block(rest, k)

        def let_ps(term):
            if target is not None:
                self.bad("result of %s used" % _u(call)[:60])
            return "let ps := %s in\n  %s" % (term, cont())

        def opt_ps(term):
            if target is not None:
                self.bad("result of %s used" % _u(call)[:60])
            if not self.ret.startswith("opt"):
                self.bad("%s may raise inside a function modelled as total" % _u(call)[:60])
            return "obind %s (fun ps =>\n  %s)" % (term, cont())

        def proc(name):
            if name not in self.procs:
                self.bad("%s is called before it is translated" % name)
            return self.procs[name][0]

        if self.is_mgr(recv):
            if meth == "register_with_basis" and len(call.args) == 2 and not kw:
                return let_ps("%s ps %s %s" % (proc("Manager.register_with_basis"), self.nat(call.args[0]), self.lab(call.args[1])))
            if meth == "transform_to_current_basis" and len(call.args) == 1 and not kw:
                return opt_ps("(%s ps %s)" % (proc("Manager.transform_to_current_basis"), self.lab(call.args[0])))
            if meth == "store_current_basis_operator" and len(call.args) == 1 and not kw:
                return let_ps("%s ps %s" % (proc("Manager.store_current_basis_operator"), self.olab(call.args[0])))
            if meth == "set_new_basis" and len(call.args) == 1 and not kw:
                g = proc("Manager.set_new_basis")
                arg = self.gval(call.args[0])
                nb = self.bind(target, "nat") if target is not None else "_"
                return "let '(ps, %s) := %s ps %s in\n  %s" % (nb, g, arg, cont())
            return None
        # list methods of the Manager's lists
        if isinstance(recv, ast.Attribute) and self.is_mgr(recv.value) or isinstance(recv, (ast.Subscript, ast.Name)):
            try:
                ct, ck = self.value(recv)
            except Untranslatable:
                ct, ck = None, None
            if meth == "append" and len(call.args) == 1 and not kw:
                if ck == "natlist":
                    return let_ps("set_stack ps (stack ps ++ [%s])" % self.nat(call.args[0]))
                if ck == "Glist":
                    return let_ps("set_transf ps (transf ps ++ [%s])" % self.gval(call.args[0]))
                if ck == "alias":
                    return let_ps("set_regd ps (dset (regd ps) %s (dget (regd ps) %s ++ [%s]))" % (ct, ct, self.lab(call.args[0])))
            if meth == "pop" and not call.args and not kw and target is not None:
                if ck == "natlist":
                    v = self.bind(target, "nat")
                    return "let %s := last (stack ps) 0 in\n  let ps := set_stack ps (removelast (stack ps)) in\n  %s" % (v, cont())
                if ck == "Glist":
                    v = self.bind(target, "G")
                    return "let %s := last (transf ps) gid in\n  let ps := set_transf ps (removelast (transf ps)) in\n  %s" % (v, cont())
        # methods of basis-managed objects
        try:
            rt, rk = self.value(recv)
        except Untranslatable:
            return None
        if rk == "lab":
            if meth == "set_current_basis" and len(call.args) == 1 and not kw:
                return let_ps("%s ps %s %s" % (proc("BasisManaged.set_current_basis"), rt, self.nat(call.args[0])))
            if meth == "transform" and len(call.args) == 1 and not kw:
                return let_ps("ptransform ps %s %s" % (rt, self.gval(call.args[0])))
            if meth == "transform" and len(call.args) == 1 and set(kw) == {"inv"}:
                return let_ps("ptransform2 ps %s %s %s" % (rt, self.gval(call.args[0]), self.gval(kw["inv"])))
        return None

    # ------------------------------------------------------------------ statements
    def block(self, stmts, k):
        stmts = _strip(stmts)
        if not stmts:
            return k()
        texts = [_u(s) for s in stmts]
        for pat, fn in self.idioms:
            if tuple(texts[:len(pat)]) == tuple(pat):
                return "%s\n  %s" % (fn(self), self.block(stmts[len(pat):], k))
        s, rest = stmts[0], stmts[1:]
        text = texts[0]
        if text in self.skip:
            return self.block(rest, k)
        if isinstance(s, ast.Return):
            return self.end(s.value)
        if isinstance(s, ast.Raise):
            return self.raised()
        if isinstance(s, ast.If):
            return self.if_(s, rest, k)
        if isinstance(s, ast.For):
            return self.for_(s, rest, k)
        if isinstance(s, ast.Delete) and len(s.targets) == 1 and isinstance(s.targets[0], ast.Subscript):
            ct, ck = self.value(s.targets[0].value)
            if ck == "dict":
                return "let ps := set_regd ps (ddel (regd ps) %s) in\n  %s" % (self.nat(s.targets[0].slice), self.block(rest, k))
        if isinstance(s, ast.Expr) and isinstance(s.value, ast.Call):
            r = self.effect(s.value, rest, k)
            if r is not None:
                return r
        if isinstance(s, ast.Expr) and not isinstance(s.value, ast.Call):
            # an expression statement evaluated for nothing: only a plain local / attribute read is accepted
            self.bad("statement %s" % text[:80])
        if isinstance(s, ast.Assign) and len(s.targets) == 1:
            return self.assign(s.targets[0], s.value, rest, k)
        self.bad("statement %s" % text[:80])

    def assign(self, tgt, val, rest, k):
        if isinstance(tgt, ast.Name):
            if isinstance(val, ast.Call):
                r = self.effect(val, rest, k, target=tgt.id)
                if r is not None:
                    return r
            t, kind = self.value(val)
            if kind in ("natlist", "Glist", "dict"):
                self.bad("the local %s would alias %s" % (tgt.id, _u(val)))
            if kind == "alias":
                # reference to a list inside basis_registered: the key is captured now, the list is re-read at every use
                key = self.bind(tgt.id + "_key", "nat")
                self.env[tgt.id] = (key, "alias")
                return "let %s := %s in\n  %s" % (key, t, self.block(rest, k))
            v = self.bind(tgt.id, kind)
            return "let %s := %s in\n  %s" % (v, t, self.block(rest, k))
        if isinstance(tgt, ast.Attribute):
            base, attr = tgt.value, tgt.attr
            if self.is_mgr(base):
                if attr == "current_basis_operator":
                    return "let ps := set_cbo ps %s in\n  %s" % (self.olab(val), self.block(rest, k))
                if attr == "_in_eigenbasis_of_context":
                    t, kind = self.value(val)
                    if kind != "bool":
                        self.bad("flag set to %s" % _u(val))
                    return "let ps := set_inctx ps %s in\n  %s" % (t, self.block(rest, k))
                if attr == "basis_stack" and _u(val) == "[]":
                    return "let ps := set_stack ps [] in\n  %s" % self.block(rest, k)
                if attr == "basis_transformations" and _u(val) == "[]":
                    return "let ps := set_transf ps [] in\n  %s" % self.block(rest, k)
                if attr == "basis_registered" and _u(val) == "{}":
                    return "let ps := set_regd ps dempty in\n  %s" % self.block(rest, k)
                self.bad("assignment to %s" % _u(tgt))
            if isinstance(base, ast.Name) and base.id == "self" and self.selfkind == "ctx" and attr in ("op", "op_outer"):
                t, kind = self.value(val)
                if (attr, kind) not in (("op", "lab"), ("op_outer", "olab")):
                    self.bad("field %s set to %s" % (attr, _u(val)))
                v = "f_" + attr
                self.fields[attr] = (v, kind)
                return "let %s := %s in\n  %s" % (v, t, self.block(rest, k))
            bt, bk = self.value(base)
            if bk == "lab":
                if attr == "_current_basis":
                    return "let ps := pset_tag ps %s %s in\n  %s" % (bt, self.nat(val), self.block(rest, k))
                if attr == "is_basis_protected":
                    t, kind = self.value(val)
                    if kind != "bool":
                        self.bad("protection flag set to %s" % _u(val))
                    return "let ps := pset_prot ps %s %s in\n  %s" % (bt, t, self.block(rest, k))
            self.bad("assignment to %s" % _u(tgt))
        if isinstance(tgt, ast.Subscript):
            ct, ck = self.value(tgt.value)
            if ck == "dict" and _u(val) == "[]":
                return "let ps := set_regd ps (dset (regd ps) %s []) in\n  %s" % (self.nat(tgt.slice), self.block(rest, k))
        self.bad("assignment to %s" % _u(tgt))

    def if_(self, s, rest, k):
        test = s.test
        if isinstance(test, ast.Attribute) and self.is_mgr(test.value) and test.attr in WARN_FLAGS and not s.orelse \
                and _only_prints(s.body):
            return self.block(rest, k)                      # diagnostics only, whatever the flag
        key = _u(test)
        if key in self.facts:
            return self.block(list(s.body if self.facts[key] else s.orelse) + list(rest), k)
        c = self.cond(test)
        out = []
        for val, body in ((True, s.body), (False, s.orelse)):
            br = self.fork()
            br.facts[key] = val
            br._fact_names[key] = _names(test)
            out.append(br.block(list(body) + list(rest), k))
        return "(if %s\n   then %s\n   else %s)" % (c, out[0], out[1])

    def for_(self, s, rest, k):
        if s.orelse or not isinstance(s.target, ast.Name):
            self.bad("loop %s" % _u(s)[:60])
        body = _strip(s.body)
        it = s.iter
        # ---- for op in <alias of a registration list>: body
        if isinstance(it, ast.Name) and self.env.get(it.id, (None, None))[1] == "alias":
            key = self.env[it.id][0]
            for n in ast.walk(ast.Module(body=body, type_ignores=[])):
                if isinstance(n, (ast.Return, ast.Raise, ast.Break, ast.Continue)):
                    self.bad("the loop over %s leaves its body early" % it.id)
            clash = (_assigned_names(body) | {s.target.id}) & set(self.env)
            if clash:
                self.bad("the loop over %s re-assigns %s" % (it.id, sorted(clash)))
            inner = self.fork()
            inner.ret = "ps"
            op = inner.bind(s.target.id, "lab")
            b = inner.block(body, lambda: "ps")
            return "let ps := fold_left (fun ps %s =>\n  %s) (dget (regd ps) %s) ps in\n  %s" % (op, b, key, self.block(rest, k))
        # ---- for k in range(a, b): <locals only>; if c: break
        if isinstance(it, ast.Call) and isinstance(it.func, ast.Name) and it.func.id == "range" and not it.keywords and len(it.args) in (1, 2):
            lo = "0" if len(it.args) == 1 else self.nat(it.args[0])
            hi = self.nat(it.args[-1])
            carried = sorted(_assigned_names(body) & set(self.env))
            if len(carried) != 1 or self.env[carried[0]][1] != "G":
                self.bad("the range loop carries %s (exactly one transformation matrix expected)" % carried)
            cv = self.env[carried[0]][0]
            inner = self.fork()
            kv = inner.bind(s.target.id, "nat")
            b = inner.loop_body(body, cv)
            return "let %s := for_break (seq %s (%s - %s)) (fun %s %s =>\n  %s) %s in\n  %s" % (cv, lo, hi, lo, kv, cv, b, cv, self.block(rest, k))
        self.bad("loop %s" % _u(s)[:60])

    def loop_body(self, stmts, cv):
        """body of the range loop: assignments to locals, `if c: break`; -> (carried, broke?)"""
        stmts = _strip(stmts)
        if not stmts:
            return "(%s, false)" % cv
        s, rest = stmts[0], stmts[1:]
        if isinstance(s, ast.Break):
            return "(%s, true)" % cv
        if isinstance(s, ast.Assign) and len(s.targets) == 1 and isinstance(s.targets[0], ast.Name) and not isinstance(s.value, ast.Call) \
                or (isinstance(s, ast.Assign) and len(s.targets) == 1 and isinstance(s.targets[0], ast.Name)
                    and _u(s.value.func) in ("numpy.dot", "numpy.linalg.inv")):
            t, kind = self.value(s.value)
            if kind not in ("nat", "G"):
                self.bad("loop local %s of kind %s" % (s.targets[0].id, kind))
            v = self.bind(s.targets[0].id, kind)
            return "let %s := %s in\n  %s" % (v, t, self.loop_body(rest, cv))
        if isinstance(s, ast.If):
            c = self.cond(s.test)
            a = self.fork().loop_body(list(s.body) + list(rest), cv)
            b = self.fork().loop_body(list(s.orelse) + list(rest), cv)
            return "(if %s then %s else %s)" % (c, a, b)
        self.bad("statement %s in the range loop" % _u(s)[:60])


# ----------------------------------------------------------------------------------------------- the functions
def _args(fn):
    if fn.args.vararg or fn.args.kwarg or fn.args.kwonlyargs or fn.args.posonlyargs:
        raise Untranslatable("%s signature" % fn.name)
    return [a.arg for a in fn.args.args]


def _define(name, params, rtype, body):
    return "Definition %s %s: %s :=\n  %s.\n" % (name, params + (" " if params else ""), rtype, body)


def manager_methods(repo, procs, out):
    def method(qual, gen, params, ret, rtype, selfkind="manager", mgr=("self",), selfterm=None):
        fn = _src_of(repo + MANAGERS, qual)
        names = [p[0] for p in params]
        if _args(fn) != ["self"] + names:
            raise Untranslatable("%s signature %s" % (qual, _args(fn)))
        tr = Tr(procs, mgr, selfkind, selfterm=selfterm, ret=ret, what=qual)
        sig = "(ps : pst)"
        for n, kind in params:
            v = tr.bind(n, kind)
            sig += " (%s : %s)" % (v, {"nat": "nat", "G": "G", "lab": "nat", "olab": "option nat", "bool": "bool"}[kind])
        if selfkind == "object":
            sig = "(ps : pst) (self : nat)" + sig[len("(ps : pst)"):]
        body = tr.block(fn.body, lambda: tr.end(None))
        out.append(_define(gen, sig, rtype, body))
        procs[qual] = (gen,)

    method("Manager.get_current_basis", "gen_get_current_basis", [], "nat", "nat")
    method("Manager.register_with_basis", "gen_register", [("nb", "nat"), ("operator", "lab")], "ps", "pst")
    method("Manager.set_new_basis", "gen_set_new_basis", [("SS", "G")], "ps*nat", "pst * nat")
    method("Manager.store_current_basis_operator", "gen_store_cbo", [("op", "olab")], "ps", "pst")
    obj = dict(selfkind="object", mgr=("self.manager",), selfterm="self")
    method("BasisManaged.get_current_basis", "gen_obj_get_basis", [], "nat", "nat", **obj)
    method("BasisManaged.set_current_basis", "gen_obj_set_basis", [("bb", "nat")], "ps", "pst", **obj)
    method("BasisManaged.protect_basis", "gen_protect", [], "ps", "pst", **obj)
    method("BasisManaged.unprotect_basis", "gen_unprotect", [], "ps", "pst", **obj)
    method("Manager.transform_to_current_basis", "gen_to_current", [("operator", "lab")], "opt ps", "option pst")


def class_defaults(repo, out):
    """BasisManaged._current_basis = Manager().get_current_basis() (evaluated at import: the basis outside every context),
    is_basis_protected = False: what a new object starts from"""
    cls = _src_of(repo + MANAGERS, "BasisManaged")
    vals = {}
    for s in cls.body:
        if isinstance(s, ast.Assign) and len(s.targets) == 1 and isinstance(s.targets[0], ast.Name):
            vals.setdefault(s.targets[0].id, []).append(_u(s.value))
    if vals.get("_current_basis") != ["Manager().get_current_basis()"] or vals.get("is_basis_protected") != ["False"]:
        raise Untranslatable("class defaults of BasisManaged: %s" % {k: vals.get(k) for k in ("_current_basis", "is_basis_protected")})
    out.append("(* class defaults: tag = get_current_basis() of the manager as constructed, not protected *)\n"
               "Definition gen_default_tag : nat := gen_get_current_basis gen_init.\nDefinition gen_default_prot : bool := false.\n")


def manager_init(repo, out):
    """the statements of Manager.__init__ that set the five bookkeeping fields, in their order"""
    fn = _src_of(repo + MANAGERS, "Manager.__init__")
    fields = ("basis_stack", "basis_transformations", "basis_registered", "current_basis_operator", "_in_eigenbasis_of_context")
    top = []
    for s in fn.body:
        mentions = any(isinstance(n, ast.Attribute) and n.attr in fields for n in ast.walk(s))
        if not mentions:
            continue
        if not isinstance(s, (ast.Assign, ast.Expr)):
            raise Untranslatable("Manager.__init__ touches the basis bookkeeping inside %s" % type(s).__name__)
        top.append(s)
    tr = Tr({}, ("self",), "manager", ret="ps", what="Manager.__init__")
    body = tr.block(top, lambda: "ps")
    out.append(_define("gen_init", "", "pst", "let ps := p_blank in\n  " + body))


def copy_method(repo, procs, out):
    fn = _src_of(repo + MANAGERS, "BasisManaged.__copy__")
    if _args(fn) != ["self"]:
        raise Untranslatable("__copy__ signature")
    tr = Tr(procs, ("self.manager",), "object", selfterm="self", ret="ps", what="BasisManaged.__copy__")

    def alloc(t):
        t.env["new"] = ("new", "lab")
        return "let ps := p_alloc_copy ps self new in"
    tr.idioms.append((("cls = self.__class__", "new = cls.__new__(cls)", "new.__dict__.update(self.__dict__)"), alloc))
    ret_checked = []

    def end(node=None, _orig=tr.end):
        if node is None or _u(node) != "new":
            tr.bad("does not return the copy")
        ret_checked.append(1)
        return "ps"
    tr.end = end
    body = tr.block(fn.body, lambda: tr.bad("falls off its end"))
    # forks do not inherit the patched end: require the plain shape `...; return new` instead
    last = _strip(fn.body)[-1]
    if not (isinstance(last, ast.Return) and _u(last.value) == "new"):
        raise Untranslatable("__copy__ does not end in `return new`")
    out.append(_define("gen_copy", "(ps : pst) (self new : nat)", "pst", body))
    procs["BasisManaged.__copy__"] = ("gen_copy",)


def context_methods(repo, procs, out):
    base = _src_of(repo + MANAGERS, "basis_context_manager.__init__")
    if [_u(s) for s in _strip(base.body)] != ["self.manager = Manager()"] or _args(base) != ["self"]:
        raise Untranslatable("basis_context_manager.__init__ is not `self.manager = Manager()`")
    cls = _src_of(repo + MANAGERS, "eigenbasis_of")
    if [_u(b) for b in cls.bases] != ["basis_context_manager"]:
        raise Untranslatable("eigenbasis_of bases")
    present = {s.name for s in cls.body if isinstance(s, ast.FunctionDef)}
    if present != {"__init__", "__enter__", "__exit__"}:
        raise Untranslatable("eigenbasis_of defines %s" % sorted(present))
    # __init__
    fn = _src_of(repo + MANAGERS, "eigenbasis_of.__init__")
    if _args(fn) != ["self", "operator"]:
        raise Untranslatable("eigenbasis_of.__init__ signature")
    tr = Tr(procs, ("self.manager",), "ctx", ret="ctx", what="eigenbasis_of.__init__")
    tr.skip.add("super().__init__()")
    tr.bind("operator", "lab")
    out.append(_define("gen_ctx_init", "(ps : pst) (v_operator : nat)", "pst * nat * option nat", tr.block(fn.body, lambda: tr.end(None))))
    # __enter__
    fn = _src_of(repo + MANAGERS, "eigenbasis_of.__enter__")
    if _args(fn) != ["self"]:
        raise Untranslatable("eigenbasis_of.__enter__ signature")
    tr = Tr(procs, ("self.manager",), "ctx", ret="opt ps", what="eigenbasis_of.__enter__")
    tr.fields = {"op": ("f_op", "lab"), "op_outer": ("f_op_outer", "olab")}
    tr.has_eigh = True
    out.append(_define("gen_enter", "(eigh : X -> G) (ps : pst) (f_op : nat) (f_op_outer : option nat)", "option pst", tr.block(fn.body, lambda: tr.end(None))))
    # __exit__
    fn = _src_of(repo + MANAGERS, "eigenbasis_of.__exit__")
    if _args(fn) != ["self", "ext_ty", "exc_val", "tb"]:
        raise Untranslatable("eigenbasis_of.__exit__ signature")
    for n in ast.walk(fn):
        if isinstance(n, ast.Name) and n.id in ("ext_ty", "exc_val", "tb"):
            raise Untranslatable("__exit__ looks at the exception")
        if isinstance(n, ast.Return) and n.value is not None:
            raise Untranslatable("__exit__ returns a value (it could swallow the exception)")
    tr = Tr(procs, ("self.manager",), "ctx", ret="ps", what="eigenbasis_of.__exit__")
    tr.fields = {"op": ("f_op", "lab"), "op_outer": ("f_op_outer", "olab")}
    out.append(_define("gen_exit", "(ps : pst) (f_op : nat) (f_op_outer : option nat)", "pst", tr.block(fn.body, lambda: tr.end(None))))


SETTER_TRY = {
    "basis_managed_array_property": ("vl = check_numpy_array(value)", "setattr(self, storage_name, vl)"),
    "managed_array_property": ("vl = check_numpy_array(value)", "setattr(self, storage_name, self.convert_2_internal_u(vl))"),
}
SHAPE_CHECK = "if not shape == None:\n    if not shape == vl.shape:\n        raise TypeError('{} must be of shape {}'.format(name, shape))"


def property_wrappers(repo, procs, out):
    """getter: bring the object to the current basis (which registers it), hand out the stored array;
    setter: the same, then store.  The units conversion of managed_array_property is C05's subject (identity in internal units);
    the argument validation (array-like, shape) raises TypeError before anything is stored."""
    for fac, sfx in (("basis_managed_array_property", "b"), ("managed_array_property", "m")):
        f = _src_of(repo + TYPES, fac)
        body = _strip(f.body)
        if _u(body[0]) != "storage_name = '_' + name":
            raise Untranslatable("%s: storage name" % fac)
        funs = [s for s in body if isinstance(s, ast.FunctionDef)]
        rest = [s for s in body[1:] if not isinstance(s, ast.FunctionDef)]
        if [x.name for x in funs] != ["prop", "prop"] or [_u(s) for s in rest] != ["return prop"]:
            raise Untranslatable("%s: shape of the factory" % fac)
        getter, setter = funs
        if [_u(d) for d in getter.decorator_list] != ["property"] or [_u(d) for d in setter.decorator_list] != ["prop.setter"]:
            raise Untranslatable("%s: decorators" % fac)
        if _args(getter) != ["self"] or _args(setter) != ["self", "value"]:
            raise Untranslatable("%s: signatures" % fac)
        # getter
        tr = Tr(procs, ("self.manager",), "object", selfterm="self", ret="opt ps*oX", what=fac + " getter")
        tr.storage = "storage_name"
        if sfx == "m":
            gb = _strip(getter.body)
            if [_u(s) for s in gb[-2:]] != ["val = getattr(self, storage_name)", "return self.convert_2_current_u(val)"]:
                raise Untranslatable("%s getter: tail" % fac)
            gb = gb[:-2] + [ast.parse("return getattr(self, storage_name)").body[0]]
        else:
            gb = getter.body
        out.append(_define("gen_getter_" + sfx, "(ps : pst) (self : nat)", "option (pst * option X)", tr.block(gb, lambda: tr.end(None))))
        # setter
        sb = _strip(setter.body)
        if not isinstance(sb[-1], ast.Try):
            raise Untranslatable("%s setter: no try block at its end" % fac)
        t = sb[-1]
        if t.orelse or t.finalbody or len(t.handlers) != 1 or t.handlers[0].type is not None \
                or not (len(t.handlers[0].body) == 1 and isinstance(t.handlers[0].body[0], ast.Raise)):
            raise Untranslatable("%s setter: try/except shape" % fac)
        tb = [_u(s) for s in _strip(t.body)]
        if len(tb) != 3 or (tb[0], tb[2]) != SETTER_TRY[fac] or tb[1] != SHAPE_CHECK:
            raise Untranslatable("%s setter: body of the try block %s" % (fac, tb))
        tr = Tr(procs, ("self.manager",), "object", selfterm="self", ret="opt ps", what=fac + " setter")
        pre = tr.block(sb[:-1], lambda: "Some (pset_dat ps self v_value)")
        out.append(_define("gen_setter_" + sfx, "(ps : pst) (self : nat) (v_value : X)", "option pst", pre))


CTORS = (("Operator", OPERATORS, "Operator.__init__", ("not (dim is None and data is None)",)),
         ("SuperOperator", SUPEROP, "SuperOperator.__init__", ()),
         ("RelaxationTensor", RELTENS, "RelaxationTensor._initialize_basis", ()),
         ("TransitionDipoleMoment", DMOMENT, "TransitionDipoleMoment.__init__", ("not (dim is None and data is None)",)))


def constructors(repo, procs, out):
    """the block `cb = manager.get_current_basis(); self.set_current_basis(cb); if cb != 0: manager.register_with_basis(cb, self)`
    heading the constructors, which must be the constructor's only direct use of the bookkeeping"""
    names = []
    for cls, path, qual, guards in CTORS:
        fn = _src_of(repo + path, qual)
        stmts = _strip(fn.body)
        seen = []
        while len(stmts) == 1 and isinstance(stmts[0], ast.If) and not stmts[0].orelse:
            seen.append(_u(stmts[0].test))
            stmts = _strip(stmts[0].body)
        if tuple(seen) != tuple(guards):
            raise Untranslatable("%s: enclosing conditions %s" % (qual, seen))
        if len(stmts) < 3:
            raise Untranslatable("%s: no tagging block" % qual)
        block, tail = stmts[:3], stmts[3:]
        for s in tail:
            for n in ast.walk(s):
                if isinstance(n, ast.Attribute) and n.attr in ("set_current_basis", "register_with_basis", "_current_basis", "is_basis_protected",
                                                               "protect_basis", "unprotect_basis", "basis_registered", "basis_stack"):
                    raise Untranslatable("%s uses the bookkeeping (%s) after its tagging block" % (qual, n.attr))
        tr = Tr(procs, ("self.manager",), "object", selfterm="self", ret="ps", what=qual)
        g = "gen_tag_" + cls
        out.append(_define(g, "(ps : pst) (self : nat)", "pst", tr.block(block, lambda: "ps")))
        names.append(g)
    # RelaxationTensor.__init__ starts with the block
    fn = _src_of(repo + RELTENS, "RelaxationTensor.__init__")
    if _u(_strip(fn.body)[0]) != "self._initialize_basis()":
        raise Untranslatable("RelaxationTensor.__init__ does not start with self._initialize_basis()")
    return names


def diagonalizer(repo, procs, out):
    fn = _src_of(repo + OPERATORS, "SelfAdjointOperator.get_diagonalization_matrix")
    if _args(fn) != ["self"]:
        raise Untranslatable("get_diagonalization_matrix signature")
    tr = Tr(procs, ("self.manager",), "object", selfterm="self", ret="G", what="get_diagonalization_matrix")

    def eigh(t):
        t.env["SS"] = ("v_SS", "G")
        return "let v_SS := pdiag eigh ps self in"
    tr.idioms.append((("dd, SS = numpy.linalg.eigh(self._data)",), eigh))
    out.append(_define("gen_get_diag", "(eigh : X -> G) (ps : pst) (self : nat)", "G", tr.block(fn.body, lambda: tr.bad("falls off its end"))))
    procs["SelfAdjointOperator.get_diagonalization_matrix"] = ("gen_get_diag",)


def apply_method(repo, out):
    """SuperOperator.apply, copy=True: copy.copy(oper) -> __copy__; the right-hand side reads self.data then oper.data (getter),
    the assignment goes through the setter of the copy"""
    fn = _src_of(repo + SUPEROP, "SuperOperator.apply")
    if _args(fn) != ["self", "oper", "copy"] or [_u(d) for d in fn.args.defaults] != ["True"]:
        raise Untranslatable("SuperOperator.apply signature")
    body = _strip(fn.body)
    if not (len(body) == 1 and isinstance(body[0], ast.If) and _u(body[0].test) == "copy"):
        raise Untranslatable("SuperOperator.apply: shape")
    thn = [_u(s) for s in _strip(body[0].body)]
    if thn != ["import copy", "oper_ven = copy.copy(oper)", "oper_ven.data = numpy.tensordot(self.data, oper.data)", "return oper_ven"]:
        raise Untranslatable("SuperOperator.apply, copy branch: %s" % thn)
    els = [_u(s) for s in _strip(body[0].orelse)]
    if els != ["oper.data = numpy.tensordot(self.data, oper.data)", "return oper"]:
        raise Untranslatable("SuperOperator.apply, in-place branch: %s" % els)
    for cls, path in (("SuperOperator", SUPEROP), ("Operator", OPERATORS)):
        c = _src_of(repo + path, cls)
        d = [_u(s.value) for s in c.body if isinstance(s, ast.Assign) and _u(s.targets[0]) == "data"]
        if d != ["BasisManagedComplexArray('data')"]:
            raise Untranslatable("%s.data is not a BasisManagedComplexArray" % cls)
    alias = [s for s in ast.parse(open(repo + TYPES).read()).body if isinstance(s, ast.Assign) and _u(s.targets[0]) == "BasisManagedComplexArray"]
    if len(alias) != 1 or _u(alias[0].value) != "partial(basis_managed_array_property, dtype=numbers.Complex)":
        raise Untranslatable("BasisManagedComplexArray")
    out.append("(* dst = sup.apply(src): copy.copy(src) -> dst, sup.data, src.data, dst.data = tensordot *)\n"
               "Definition gen_apply (ps : pst) (sup src dst : nat) : option pst :=\n"
               "  let ps := gen_copy ps src dst in\n"
               "  obind (gen_getter_b ps sup) (fun '(ps, r) =>\n"
               "  obind (gen_getter_b ps src) (fun '(ps, x) =>\n"
               "  match r, x with\n  | Some rv, Some xv => gen_setter_b ps dst (app rv xv)\n  | _, _ => None\n  end)).\n")


# ----------------------------------------------------------------------------------------------- nobody else touches it
BOOK_ATTRS = ("basis_stack", "basis_transformations", "basis_registered", "_current_basis", "is_basis_protected",
              "current_basis_operator", "_in_eigenbasis_of_context")
BOOK_CALLS = ("set_current_basis", "register_with_basis", "set_new_basis", "store_current_basis_operator",
              "remove_current_basis_operator", "transform_to_current_basis")
ALLOWED = {
    MANAGERS: {"Manager.__init__", "Manager.store_current_basis_operator", "Manager.remove_current_basis_operator",
               "Manager.set_new_basis", "Manager.transform_to_current_basis", "Manager.register_with_basis",
               "BasisManaged", "BasisManaged.set_current_basis", "BasisManaged.protect_basis", "BasisManaged.unprotect_basis",
               "BasisManaged.__copy__", "eigenbasis_of.__init__", "eigenbasis_of.__enter__", "eigenbasis_of.__exit__"},
    TYPES: {"basis_managed_array_property.prop", "managed_array_property.prop"},
    OPERATORS: {"Operator.__init__"}, SUPEROP: {"SuperOperator.__init__"}, RELTENS: {"RelaxationTensor._initialize_basis"},
    DMOMENT: {"TransitionDipoleMoment.__init__"},
}


def only_here(repo):
    """no other code of the package writes the bookkeeping fields or calls the bookkeeping procedures"""
    import warnings
    root = repo + "/quantarhei"
    for path in sorted(glob.glob(root + "/**/*.py", recursive=True)):
        rel = path[len(repo):]
        if "/wizard/" in rel or "/testing/" in rel:
            continue
        src = open(path, encoding="utf-8", errors="replace").read()
        if not any(a in src for a in BOOK_ATTRS + BOOK_CALLS):
            continue
        with warnings.catch_warnings():
            warnings.simplefilter("ignore")
            tree = ast.parse(src)
        allowed = ALLOWED.get(rel, set())

        def visit(node, qual):
            for ch in ast.iter_child_nodes(node):
                q = qual
                if isinstance(ch, (ast.FunctionDef, ast.ClassDef)):
                    q = (qual + "." if qual else "") + ch.name
                hit = None
                if isinstance(ch, ast.Attribute) and ch.attr in BOOK_ATTRS and isinstance(ch.ctx, (ast.Store, ast.Del)):
                    hit = "writes " + ch.attr
                if isinstance(ch, ast.Subscript) and isinstance(ch.ctx, (ast.Store, ast.Del)) and isinstance(ch.value, ast.Attribute) \
                        and ch.value.attr in BOOK_ATTRS:
                    hit = "writes into " + ch.value.attr
                if isinstance(ch, ast.Call) and isinstance(ch.func, ast.Attribute):
                    if ch.func.attr in BOOK_CALLS:
                        hit = "calls " + ch.func.attr
                    if ch.func.attr in ("append", "pop", "insert", "remove", "clear", "extend", "update", "setdefault", "sort", "reverse"):
                        v = ch.func.value
                        if isinstance(v, ast.Subscript):
                            v = v.value
                        if isinstance(v, ast.Attribute) and v.attr in BOOK_ATTRS:
                            hit = "modifies " + v.attr
                if isinstance(ch, ast.Call) and isinstance(ch.func, ast.Name) and ch.func.id == "setattr" and len(ch.args) >= 2 \
                        and isinstance(ch.args[1], ast.Constant) and ch.args[1].value in BOOK_ATTRS:
                    hit = "setattr " + str(ch.args[1].value)
                if hit and not any(qual == a or qual.startswith(a + ".") or q == a for a in allowed):
                    raise Untranslatable("%s: %s %s outside the translated functions" % (rel, qual or "module level", hit))
                visit(ch, q)
        visit(tree, "")
    # Manager.remove_current_basis_operator exists but nobody may call it (checked above): it would clear the operator of an
    # enclosing context


# ----------------------------------------------------------------------------------------------- the generated file
HEAD = """(* GENERATED by harness/translate_c04.py from the current source of quantarhei/core/managers.py, utils/types.py and the
   constructors: the bookkeeping of the basis management, statement by statement.  Do not edit. *)
From Coq Require Import List Bool Arith Lia.
From QV Require Import Model.C04 Proofs.C04 Proofs.C04gen.
Import ListNotations.

Section Gen.
  Variables G X : Type.
  Variable gid : G.
  Variable gmul : G -> G -> G.
  Variable ginv : G -> G.
  Variable act : G -> X -> X.
  Variable act2 : G -> G -> X -> X.
  Variable app : X -> X -> X.
  Notation pst := (pst G X).
  Notation stack := (stack G X).
  Notation transf := (transf G X).
  Notation regd := (regd G X).
  Notation cbo := (cbo G X).
  Notation inctx := (inctx G X).
  Notation set_stack := (set_stack G X).
  Notation set_transf := (set_transf G X).
  Notation set_regd := (set_regd G X).
  Notation set_cbo := (set_cbo G X).
  Notation set_inctx := (set_inctx G X).
  Notation p_blank := (p_blank G X).
  Notation ptag := (ptag G X).
  Notation pprot := (pprot G X).
  Notation pdat := (pdat G X).
  Notation pset_tag := (pset_tag G X).
  Notation pset_prot := (pset_prot G X).
  Notation pset_dat := (pset_dat G X).
  Notation ptransform := (ptransform G X act).
  Notation ptransform2 := (ptransform2 G X act2).
  Notation p_alloc_copy := (p_alloc_copy G X).
  Notation pdiag := (pdiag G X gid).
  Notation p_alloc := (p_alloc G X).

"""


LEMMAS = [
    ("gen_init", "", "py_init G X gid"),
    ("gen_get_current_basis", "ps", "py_get_current_basis G X"),
    ("gen_register", "ps nb i", "py_register G X"),
    ("gen_set_new_basis", "ps S", "py_set_new_basis G X"),
    ("gen_store_cbo", "ps o", "py_store_cbo G X"),
    ("gen_obj_get_basis", "ps i", "py_obj_get_basis G X"),
    ("gen_obj_set_basis", "ps i b", "py_obj_set_basis G X"),
    ("gen_protect", "ps i", "py_protect G X"),
    ("gen_unprotect", "ps i", "py_unprotect G X"),
    ("gen_to_current", "ps i", "py_to_current G X gid gmul act"),
    ("gen_default_tag", "", "py_default_tag G X gid"),
    ("gen_default_prot", "", "py_default_prot"),
    ("gen_copy", "ps i j", "py_copy G X"),
    ("gen_getter_b", "ps i", "py_getter G X gid gmul act"),
    ("gen_setter_b", "ps i x", "py_setter G X gid gmul act"),
    ("gen_getter_m", "ps i", "py_getter G X gid gmul act"),
    ("gen_setter_m", "ps i x", "py_setter G X gid gmul act"),
    ("gen_get_diag", "eigh ps i", "py_get_diag G X gid"),
    ("gen_ctx_init", "ps i", "py_ctx_init G X"),
    ("gen_enter", "eigh ps i oo", "py_enter G X gid gmul act"),
    ("gen_exit", "ps i oo", "py_exit G X gid ginv act2"),
    ("gen_tag_Operator", "ps i", "py_tag_new G X"),
    ("gen_tag_SuperOperator", "ps i", "py_tag_new G X"),
    ("gen_tag_RelaxationTensor", "ps i", "py_tag_new G X"),
    ("gen_tag_TransitionDipoleMoment", "ps i", "py_tag_new G X"),
    ("gen_new_Operator", "ps i x", "py_new G X gid gmul act"),
    ("gen_new_SuperOperator", "ps i x", "py_new G X gid gmul act"),
    ("gen_apply", "ps a b c", "py_apply G X gid gmul act app"),
]
PY_NAMES = ["py_init", "py_get_current_basis", "py_register", "py_set_new_basis", "py_store_cbo", "py_obj_get_basis", "py_obj_set_basis",
            "py_protect", "py_unprotect", "py_to_current", "py_default_tag", "py_default_prot", "py_copy", "py_getter", "py_setter",
            "py_get_diag", "py_ctx_init", "py_enter", "py_exit", "py_tag_new", "py_new", "py_apply"]

NEW_OBJECTS = """(* Operator(data = x) / SuperOperator(data = x): a new object with the class defaults, the tagging block, `self.data = data` *)
Definition gen_new_Operator (ps : pst) (i : nat) (x : X) : option pst :=
  let ps := p_alloc ps i (mkObj X gen_default_tag gen_default_prot x) in
  let ps := gen_tag_Operator ps i in
  gen_setter_b ps i x.
Definition gen_new_SuperOperator (ps : pst) (i : nat) (x : X) : option pst :=
  let ps := p_alloc ps i (mkObj X gen_default_tag gen_default_prot x) in
  let ps := gen_tag_SuperOperator ps i in
  gen_setter_b ps i x.
"""

STEPS = r"""
  (* ---------- the machine made of the generated steps ---------- *)
  Definition gen_steps : steps G X :=
    mkSteps G X gen_new_Operator gen_getter_b gen_setter_b gen_protect gen_unprotect gen_apply gen_ctx_init gen_enter gen_exit.
  Lemma gen_steps_are_py : steps_eq G X gen_steps (py_steps G X gid gmul ginv act act2 app).
  Proof.
    constructor; intros; cbn [gen_steps py_steps s_new s_read s_write s_protect s_unprotect s_apply s_ctx_init s_enter s_exit].
    - apply gen_new_Operator_is_py.
    - apply gen_getter_b_is_py.
    - apply gen_setter_b_is_py.
    - apply gen_protect_is_py.
    - apply gen_unprotect_is_py.
    - apply gen_apply_is_py.
    - apply gen_ctx_init_is_py.
    - apply gen_enter_is_py.
    - apply gen_exit_is_py.
  Qed.

  Section Laws.
    Hypothesis gmul_assoc : forall a b c, gmul a (gmul b c) = gmul (gmul a b) c.
    Hypothesis gid_l : forall a, gmul gid a = a.
    Hypothesis gid_r : forall a, gmul a gid = a.
    Hypothesis ginv_r : forall a, gmul a (ginv a) = gid.
    Hypothesis ginv_l : forall a, gmul (ginv a) a = gid.
    Hypothesis act_id : forall x, act gid x = x.
    Hypothesis act_mul : forall g h x, act (gmul g h) x = act h (act g x).
    Hypothesis act2_inv : forall a b x, gmul a b = gid -> act2 a b x = act a x.

    (* what the code says now simulates Model.C04.exec, step functions and whole programs *)
    Theorem gen_machine_simulates_exec : forall p ps s, repaired G X p = true -> Inv G X s -> RepX G X gid None ps s -> Flag G X ps s ->
      let '(ps', r', o') := mexec G X gen_steps p ps in
      let '(s', r, o) := exec G X gid gmul ginv act app p s in
      RepX G X gid None ps' s' /\ Flag G X ps' s' /\ cbo ps' = cbo ps /\ r' = r /\ o' = o.
    Proof.
      intros p ps s. rewrite (mexec_ext G X _ _ gen_steps_are_py).
      exact (mexec_sim G X gid gmul ginv act act2 app gmul_assoc gid_l gid_r ginv_r ginv_l act_id act_mul act2_inv p ps s).
    Qed.

    (* ... so every program run outside every context leaves the bookkeeping of the code as it found it *)
    Theorem gen_machine_restores : forall p ps, repaired G X p = true -> PTop G X gid ps ->
      let '(ps', r, obs) := mexec G X gen_steps p ps in
      PTop G X gid ps' /\ cbo ps' = cbo ps /\
      (forall j o, ~ In j (writes G X p) -> pheap G X ps j = Some o -> prot X o = false ->
         exists o', pheap G X ps' j = Some o' /\ dat X o' = dat X o /\ tag X o' = 0 /\ prot X o' = false) /\
      (let '(s', r0, obs0) := exec G X gid gmul ginv act app p (abs_top G X ps) in r = r0 /\ obs = obs0).
    Proof.
      intros p ps. rewrite (mexec_ext G X _ _ gen_steps_are_py).
      exact (py_top_level_restores G X gid gmul ginv act act2 app gmul_assoc gid_l gid_r ginv_r ginv_l act_id act_mul act2_inv p ps).
    Qed.

    (* the single steps, against the step functions of Model/C04.v *)
    Lemma gen_exit_refines_leave : forall ps s T ts l rs op oo, RepX G X gid None ps s -> Flag G X ps s -> trans G X s = T :: ts -> reg G X s = l :: rs ->
      (forall i, In i l -> exists o, heap G X s i = Some o) ->
      RepX G X gid None (gen_exit ps op oo) (leave G X ginv act s) /\ Flag G X (gen_exit ps op oo) (leave G X ginv act s) /\ cbo (gen_exit ps op oo) = oo.
    Proof. intros. rewrite gen_exit_is_py. eapply exit_sim; eassumption. Qed.
    Lemma gen_to_current_refines : forall ps s i o, RepX G X gid None ps s -> heap G X s i = Some o ->
      match to_current G X gid gmul act s i with
      | Some s' => exists ps', gen_to_current ps i = Some ps' /\ RepX G X gid None ps' s' /\ cbo ps' = cbo ps /\ inctx ps' = inctx ps
      | None => gen_to_current ps i = None
      end.
    Proof. intros. rewrite gen_to_current_is_py. eapply to_current_sim; eassumption. Qed.
    Lemma gen_copy_refines : forall ps s src dst o, RepX G X gid None ps s -> heap G X s src = Some o -> tag X o <= depth G X s ->
      RepX G X gid None (gen_copy ps src dst) (let s1 := set_new G X s dst o in if Nat.eqb (tag X o) 0 then s1 else register G X s1 (tag X o) dst).
    Proof. intros. rewrite gen_copy_is_py. eapply copy_sim; eassumption. Qed.
  End Laws.

  (* the Manager as constructed is a state outside every context *)
  Lemma gen_init_outside : PTop G X gid gen_init.
  Proof. rewrite gen_init_is_py. apply PTop_init. Qed.
End Gen.
Print Assumptions gen_machine_restores.
Print Assumptions gen_machine_simulates_exec.
"""


def static(repo):
    only_here(repo)
    procs, out = Procs(), []
    manager_init(repo, out)
    manager_methods(repo, procs, out)
    class_defaults(repo, out)
    copy_method(repo, procs, out)
    property_wrappers(repo, procs, out)
    diagonalizer(repo, procs, out)
    context_methods(repo, procs, out)
    constructors(repo, procs, out)
    out.append(NEW_OBJECTS)
    apply_method(repo, out)
    lem, done = [], []
    for g, args, py in LEMMAS:
        unf = "unfold %s, %s" % (g, py.split()[0])
        rw = ("repeat match goal with " + " ".join(done) + " end") if done else "idtac"
        if args:
            lem.append("Lemma %s_is_py : forall %s, %s %s = %s %s.\nProof. tie ltac:(%s) ltac:(%s). Qed." % (g, args, g, args, py, args, unf, rw))
        else:
            lem.append("Lemma %s_is_py : %s = %s.\nProof. tie ltac:(%s) ltac:(%s). Qed." % (g, g, py, unf, rw))
        n = len(args.split())              # syntactic match on the head constant (rewrite alone unifies up to unfolding)
        pat = " ".join("?x%d" % k for k in range(n))
        done.append("| |- context [%s] => rewrite (%s_is_py%s)" % ((g + " " + pat).strip(), g, "".join(" x%d" % k for k in range(n))))
    what = ["managers.py:Manager.__init__ (basis bookkeeping fields)", "managers.py:Manager.get_current_basis",
            "managers.py:Manager.register_with_basis", "managers.py:Manager.set_new_basis",
            "managers.py:Manager.store_current_basis_operator", "managers.py:Manager.transform_to_current_basis",
            "managers.py:BasisManaged (class defaults, get_current_basis, set_current_basis, protect_basis, unprotect_basis, __copy__)",
            "managers.py:basis_context_manager.__init__", "managers.py:eigenbasis_of.__init__", "managers.py:eigenbasis_of.__enter__",
            "managers.py:eigenbasis_of.__exit__", "utils/types.py:basis_managed_array_property (getter, setter)",
            "utils/types.py:managed_array_property (getter, setter; units conversion left to C05)",
            "operators.py:Operator.__init__ (tagging block)", "superoperator.py:SuperOperator.__init__ (tagging block)",
            "relaxationtensor.py:RelaxationTensor._initialize_basis", "dmoment.py:TransitionDipoleMoment.__init__ (tagging block)",
            "operators.py:SelfAdjointOperator.get_diagonalization_matrix (oracle call)", "superoperator.py:SuperOperator.apply",
            "whole package: nothing else writes the bookkeeping fields or calls the bookkeeping procedures"]
    body = "\n".join("  " + l if l else l for d in out + ["\n".join(lem)] for l in d.split("\n"))
    return HEAD + body + "\n" + STEPS, what


def static_b(cm, chk, repo):
    """second generated file of C04 (GenC04b.v): generate, compile, merge the verdict into the evidence entry `static_tie`"""
    import hashlib
    import fcntl
    pid = "C04"
    info = chk.extra.get("static_tie") or {"translated": [], "status": "ok"}
    outdir = os.path.join(cm.WORK, pid, "gen")
    os.makedirs(outdir, exist_ok=True)
    try:
        text, what = static(repo)
    except Untranslatable as e:
        info["status_b"] = "untranslatable: %s" % e
        info["status"] = info["status"] if info["status"] != "ok" else info["status_b"]
        chk.violation("static_tie:untranslatable_b", "the source of the basis bookkeeping left the supported fragment (%s): the generated model "
                      "can no longer be produced, so the equivalence with the hand-written model is not shown" % e, "proof",
                      {"theorem": "GenC04b equivalence lemmas", "reason": str(e)}, found_input=False)
        chk.extra["static_tie"] = info
        return info
    cm.ensure_makefile()                       # the committed library of the generated file (no-op when current)
    with open(os.path.join(cm.WORK, ".coqlock"), "w") as lock:
        fcntl.flock(lock, fcntl.LOCK_EX)
        rc0, out0, _ = cm._run(["timeout", "600", "make", "theories/Proofs/C04gen.vo"], cwd=cm.COQDIR, timeout=650, env=cm.coq_env())
        fcntl.flock(lock, fcntl.LOCK_UN)
    path = os.path.join(outdir, "GenC04b.v")
    open(path, "w").write(text)
    rc, out, _ = cm._run(["timeout", "300", "coqc", "-Q", os.path.join(cm.COQDIR, "theories"), "QV", path], cwd=outdir, timeout=320, env=cm.coq_env())
    info["translated"] = list(info.get("translated", [])) + what
    info["generated_file_b_sha1"] = hashlib.sha1(text.encode()).hexdigest()
    info["generated_theorems_b"] = ["gen_machine_simulates_exec", "gen_machine_restores", "gen_steps_are_py", "gen_exit_refines_leave",
                                    "gen_to_current_refines", "gen_copy_refines", "gen_init_outside"]
    closed = out.count("Closed under the global context")
    if rc0 != 0 or rc != 0 or closed != 2:
        info["status_b"] = "equivalence lemma fails" if (rc0 or rc) else "generated theorems are not closed under the global context"
        info["status"] = info["status"] if info["status"] != "ok" else info["status_b"]
        chk.violation("static_tie:equivalence_b", "the bookkeeping generated from the current source of managers.py / types.py / the constructors "
                      "is no longer provably equal to the transcription that simulates Model/C04.v: %s" % (out0[-300:] if rc0 else out[-700:]),
                      "proof", {"theorem": "GenC04b equivalence lemmas", "coq_output": (out0 if rc0 else out)[-1500:], "generated": text[:6000]},
                      found_input=False)
    else:
        info["status_b"] = "ok"
        info["assumptions_b"] = "Closed under the global context (gen_machine_restores, gen_machine_simulates_exec)"
    chk.extra["static_tie"] = info
    return info


if __name__ == "__main__":
    import sys
    text, what = static(sys.argv[1] if len(sys.argv) > 1 else "/repo")
    print(text)
