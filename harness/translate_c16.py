# -*- coding: utf-8 -*-
"""Static tie for C16, right-hand sides: heom.py KTHierarchyPropagator._ado_self_rhs and _ado_cros_rhs.

The statement skeletons are matched against templates (translate2.unify); the matrix-valued right-hand sides in the holes
are translated to ring expressions at one matrix element (a, b): numpy.dot -> Mat.mmul, scalar * matrix, matrix +/- matrix,
ado1[jj,:,:] with a Python integer jj -> C16rhsgen.ado_z (index -1 = last ADO).  The generated lemmas rewrite the guards
(`nk*jj >= 0`, `jj > 0`) and the negative-index read with the lemmas of Proofs/C16rhsgen.v and close by `ring`:
generated right-hand side = Model/C16.v self_rhs / cros_term, the definitions the HEOM theorems are about.
"""
import ast

from translate import Untranslatable, _src_of
from translate2 import unify, _live

HEOM = "/quantarhei/qm/liouvillespace/heom.py"


def _idx(sl):
    return list(sl.elts) if isinstance(sl, ast.Tuple) else [sl]


def _full(node):
    return isinstance(node, ast.Slice) and node.lower is None and node.upper is None and node.step is None


class Pt:
    """matrix-valued numpy expressions -> (kind, coq) with kind 'M' (a Mat.v matrix term) or 'S' (a scalar of R)"""

    def __init__(self, mats, scalars, locals_=None):
        self.mats = dict(mats)          # unparse text of a family subscript base -> function of the translated index
        self.scalars = dict(scalars)    # unparse text -> Coq scalar
        self.locals = dict(locals_ or {})   # local matrix names -> Coq matrix term

    def mat(self, node):
        """a matrix term (function nat -> nat -> R)"""
        if isinstance(node, ast.Name):
            if node.id in self.locals:
                return self.locals[node.id]
            raise Untranslatable("matrix name %s" % node.id)
        if isinstance(node, ast.Subscript):
            base = ast.unparse(node.value)
            idx = _idx(node.slice)
            if base in self.mats and len(idx) == 3 and all(_full(i) for i in idx[1:]) and isinstance(idx[0], ast.Name):
                return self.mats[base](idx[0].id)
            raise Untranslatable("matrix subscript %s" % ast.unparse(node))
        if isinstance(node, ast.Call) and ast.unparse(node.func) == "numpy.dot" and len(node.args) == 2 and not node.keywords:
            return "(mmul dim %s %s)" % (self.mat(node.args[0]), self.mat(node.args[1]))
        raise Untranslatable("matrix term %s" % ast.unparse(node)[:80])

    def scal(self, node):
        key = ast.unparse(node)
        if key in self.scalars:
            return self.scalars[key]
        if isinstance(node, ast.BinOp) and isinstance(node.op, ast.Mult):
            return "(rmul R %s %s)" % (self.scal(node.left), self.scal(node.right))
        if isinstance(node, ast.UnaryOp) and isinstance(node.op, ast.USub):
            return "(ropp R %s)" % self.scal(node.operand)
        raise Untranslatable("scalar %s" % key[:60])

    def is_scal(self, node):
        try:
            self.scal(node)
            return True
        except Untranslatable:
            return False

    def pt(self, node):
        """the (a, b) element of a matrix-valued expression"""
        if isinstance(node, ast.BinOp):
            if isinstance(node.op, ast.Mult):
                if self.is_scal(node.left):
                    return "(rmul R %s %s)" % (self.scal(node.left), self.pt(node.right))
                if self.is_scal(node.right):
                    return "(rmul R %s %s)" % (self.scal(node.right), self.pt(node.left))
                raise Untranslatable("product of two matrices written with * : %s" % ast.unparse(node)[:80])
            if isinstance(node.op, ast.Add):
                return "(radd R %s %s)" % (self.pt(node.left), self.pt(node.right))
            if isinstance(node.op, ast.Sub):
                return "(rsub R %s %s)" % (self.pt(node.left), self.pt(node.right))
            raise Untranslatable("operator %s" % type(node.op).__name__)
        if isinstance(node, ast.UnaryOp) and isinstance(node.op, ast.USub):
            return "(ropp R %s)" % self.pt(node.operand)
        return "(%s a b)" % self.mat(node)


T_SELF = '''
def _ado_self_rhs(self, ado1, dt, slevel=0):
    ado3 = numpy.zeros(ado1.shape, dtype=ado1.dtype)
    if self.hy.ham.has_rwa:
        HH = self.hy.ham.data - self.HOmega
    else:
        HH = self.hy.ham.data
    for nn in range(slevel, self.hy.hsize):
        ado3[nn, :, :] = H_self
    return ado3
'''

T_CROS = '''
def _ado_cros_rhs(self, ado1, dt, slevel=0):
    ado3 = numpy.zeros(ado1.shape, dtype=ado1.dtype)
    rl = numpy.zeros((ado1.shape[1], ado1.shape[2]), dtype=ado1.dtype)
    rr = numpy.zeros((ado1.shape[1], ado1.shape[2]), dtype=ado1.dtype)
    for nn in range(slevel, self.hy.hsize):
        for kk in range(self.hy.nbath):
            nk = self.hy.hinds[nn, kk]
            jj = self.hy.nm1[nn, kk]
            if H_g1:
                rr = H_rr1
                rl = H_rl1
                ado3[nn, :, :] += H_t1
                ado3[nn, :, :] += H_t2
            jj = self.hy.np1[nn, kk]
            if H_g2:
                rr = H_rr2
                rl = H_rl2
                ado3[nn, :, :] += H_t3
    return ado3
'''

SCALARS = {"dt": "dt", "1j": "ii", "2.0": "two", "self.hy.kBT": "kBT", "nk": "(ofnat nk)",
           "self.hy.lam[kk]": "(lam kk)", "self.hy.gamma[kk]": "(gam kk)", "self.hy.Gamma[nn]": "(Gamma nb H gam nn)"}


def _guard(node, which):
    """guards over Python integers: nk (a hierarchy index, >= 0) and jj (an entry of nm1 / np1, -1 when absent)"""
    if not (isinstance(node, ast.Compare) and len(node.ops) == 1 and len(node.comparators) == 1):
        raise Untranslatable("guard %s" % ast.unparse(node))
    op = {ast.GtE: ">=?", ast.Gt: ">?", ast.Lt: "<?", ast.LtE: "<=?", ast.Eq: "=?"}.get(type(node.ops[0]))
    if op is None:
        raise Untranslatable("guard comparison %s" % ast.unparse(node))

    def z(n):
        if isinstance(n, ast.Name) and n.id == "nk":
            return "(Z.of_nat nk)"
        if isinstance(n, ast.Name) and n.id == "jj":
            return "jj"
        if isinstance(n, ast.Constant) and isinstance(n.value, int) and not isinstance(n.value, bool):
            return "%d" % n.value
        if isinstance(n, ast.BinOp) and isinstance(n.op, ast.Mult):
            return "(%s * %s)" % (z(n.left), z(n.right))
        raise Untranslatable("guard operand %s" % ast.unparse(n))
    return "(%s %s %s)%%Z" % (z(node.left), op, z(node.comparators[0]))


def rhs(repo):
    f = repo + HEOM
    env = {}
    fn = _src_of(f, "KTHierarchyPropagator._ado_self_rhs")
    tfn = ast.parse(T_SELF).body[0]
    unify([a.arg for a in tfn.args.args], [a.arg for a in fn.args.args], env, "_ado_self_rhs.args")
    unify(tfn.body, fn.body, env, "_ado_self_rhs")
    mats = {"ado1": lambda i: "(ado %s)" % {"nn": "nn"}[i]}
    p = Pt(mats, SCALARS, {"HH": "HH"})
    gself = p.pt(env["H_self"])

    env = {}
    fn = _src_of(f, "KTHierarchyPropagator._ado_cros_rhs")
    tfn = ast.parse(T_CROS).body[0]
    unify([a.arg for a in tfn.args.args], [a.arg for a in fn.args.args], env, "_ado_cros_rhs.args")
    unify(tfn.body, fn.body, env, "_ado_cros_rhs")

    def ado_idx(i):
        if i == "jj":
            return "(ado_z H ado jj)"
        raise Untranslatable("ADO index %s in the cross terms" % i)
    mats = {"ado1": ado_idx, "self.hy.Vs": lambda i: "(Vs %s)" % {"kk": "k"}[i]}
    sc = dict(SCALARS)
    sc["self.hy.lam[kk]"] = "(lam k)"
    sc["self.hy.gamma[kk]"] = "(gam k)"
    del sc["self.hy.Gamma[nn]"]
    p0 = Pt(mats, sc)
    rr1, rl1 = p0.mat(env["H_rr1"]), p0.mat(env["H_rl1"])
    p1 = Pt(mats, sc, {"rr": "rr", "rl": "rl"})
    t1, t2 = p1.pt(env["H_t1"]), p1.pt(env["H_t2"])
    rr2, rl2 = p0.mat(env["H_rr2"]), p0.mat(env["H_rl2"])
    t3 = p1.pt(env["H_t3"])
    d = dict(gself=gself, g1=_guard(env["H_g1"], 1), g2=_guard(env["H_g2"], 2), rr1=rr1, rl1=rl1, t1=t1, t2=t2, rr2=rr2, rl2=rl2, t3=t3)
    text = """
(* ---- right-hand sides, GENERATED by harness/translate_c16.py from heom.py:_ado_self_rhs / _ado_cros_rhs ---- *)
From QV Require Import Proofs.C16rhsgen.
Section GenRHS.
  Context {R : StarRing}.
  Add Ring Rrhs : (rth R).
  Variable dim : nat.
  Variable nb : nat.
  Variable H : list mi.
  Variable HH : @mat R.
  Variable Vs : nat -> @mat R.
  Variable ii : R.
  Variables lam gam : nat -> R.
  Variable kBT : R.
  Variable two : R.

  Definition gen_self (dt : R) (ado : nat -> @mat R) (nn : nat) (a b : nat) : R := %(gself)s.
  Lemma gen_self_is_model dt ado nn a b : gen_self dt ado nn a b = self_rhs dim nb H HH ii gam dt ado nn a b.
  Proof. unfold gen_self, self_rhs, comm, mscale, madd, msub. ring. Qed.

  Definition gen_cros_term (dt : R) (ado : nat -> @mat R) (n k : nat) (a b : nat) : R :=
    let nk := nth k (nth n H []) 0%%nat in
    let up := (let jj := oz (nm1 H n k) in
               if %(g1)s then (let rr := %(rr1)s in let rl := %(rl1)s in radd R %(t1)s %(t2)s) else r0 R) in
    let dn := (let jj := oz (np1 H n k) in
               if %(g2)s then (let rr := %(rr2)s in let rl := %(rl2)s in %(t3)s) else r0 R) in
    radd R up dn.
  Lemma gen_cros_term_is_model dt ado n k a b :
    gen_cros_term dt ado n k a b = cros_term dim H Vs ii lam gam kBT two dt ado n k a b.
  Proof.
    unfold gen_cros_term, cros_term. cbv zeta.
    first [rewrite guard_up_spec | rewrite guard_up_spec']. rewrite guard_dn_spec.
    destruct (np1 H n k) as [[|jp]|]; rewrite ?ado_z_pos;
      (destruct (Nat.eqb (nth k (nth n H []) 0%%nat) 0 || match nm1 H n k with Some _ => true | None => false end);
       rewrite ?ado_z_spec; unfold acomm, comm, madd, mscale, msub; ring).
  Qed.
  Lemma gen_cros_is_model dt ado n a b :
    sum nb (fun k => gen_cros_term dt ado n k a b) = cros_rhs dim nb H Vs ii lam gam kBT two dt ado n a b.
  Proof. unfold cros_rhs. apply sum_ext; intros k Hk. apply gen_cros_term_is_model. Qed.
End GenRHS.
""" % d
    return text, ["heom.py:KTHierarchyPropagator._ado_self_rhs", "heom.py:KTHierarchyPropagator._ado_cros_rhs (guards, negative-index read, three terms)"]
