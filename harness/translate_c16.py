# -*- coding: utf-8 -*-
"""Static tie for C16, right-hand sides: heom.py KTHierarchyPropagator._ado_self_rhs and _ado_cros_rhs.

The statement skeletons are matched against templates (translate2.unify); the matrix-valued right-hand sides in the holes
are translated to ring expressions at one matrix element (a, b): numpy.dot -> Mat.mmul, scalar * matrix, matrix +/- matrix,
ado1[jj,:,:] with a Python integer jj -> C16rhsgen.ado_z (index -1 = last ADO).  The generated lemmas rewrite the guards
(`nk*jj >= 0`, `jj > 0`) and the negative-index read with the lemmas of Proofs/C16rhsgen.v and close by `ring`:
generated right-hand side = Model/C16.v self_rhs / cros_term, the definitions the HEOM theorems are about.
"""
import ast

from translate import Untranslatable, _src_of
from translate2 import unify, _live

HEOM = "/quantarhei/qm/liouvillespace/heom.py"


def _idx(sl):
    return list(sl.elts) if isinstance(sl, ast.Tuple) else [sl]


def _full(node):
    return isinstance(node, ast.Slice) and node.lower is None and node.upper is None and node.step is None


class Pt:
    """matrix-valued numpy expressions -> (kind, coq) with kind 'M' (a Mat.v matrix term) or 'S' (a scalar of R)"""

    def __init__(self, mats, scalars, locals_=None):
        self.mats = dict(mats)          # unparse text of a family subscript base -> function of the translated index
        self.scalars = dict(scalars)    # unparse text -> Coq scalar
        self.locals = dict(locals_ or {})   # local matrix names -> Coq matrix term

    def mat(self, node):
        """a matrix term (function nat -> nat -> R)"""
        if isinstance(node, ast.Name):
            if node.id in self.locals:
                return self.locals[node.id]
            raise Untranslatable("matrix name %s" % node.id)
        if isinstance(node, ast.Subscript):
            base = ast.unparse(node.value)
            idx = _idx(node.slice)
            if base in self.mats and len(idx) == 3 and all(_full(i) for i in idx[1:]) and isinstance(idx[0], ast.Name):
                return self.mats[base](idx[0].id)
            raise Untranslatable("matrix subscript %s" % ast.unparse(node))
        if isinstance(node, ast.Call) and ast.unparse(node.func) == "numpy.dot" and len(node.args) == 2 and not node.keywords:
            return "(mmul dim %s %s)" % (self.mat(node.args[0]), self.mat(node.args[1]))
        raise Untranslatable("matrix term %s" % ast.unparse(node)[:80])

    def scal(self, node):
        key = ast.unparse(node)
        if key in self.scalars:
            return self.scalars[key]
        if isinstance(node, ast.BinOp) and isinstance(node.op, ast.Mult):
            return "(rmul R %s %s)" % (self.scal(node.left), self.scal(node.right))
        if isinstance(node, ast.UnaryOp) and isinstance(node.op, ast.USub):
            return "(ropp R %s)" % self.scal(node.operand)
        raise Untranslatable("scalar %s" % key[:60])

    def is_scal(self, node):
        try:
            self.scal(node)
            return True
        except Untranslatable:
            return False

    def pt(self, node):
        """the (a, b) element of a matrix-valued expression"""
        if isinstance(node, ast.BinOp):
            if isinstance(node.op, ast.Mult):
                if self.is_scal(node.left):
                    return "(rmul R %s %s)" % (self.scal(node.left), self.pt(node.right))
                if self.is_scal(node.right):
                    return "(rmul R %s %s)" % (self.scal(node.right), self.pt(node.left))
                raise Untranslatable("product of two matrices written with * : %s" % ast.unparse(node)[:80])
            if isinstance(node.op, ast.Add):
                return "(radd R %s %s)" % (self.pt(node.left), self.pt(node.right))
            if isinstance(node.op, ast.Sub):
                return "(rsub R %s %s)" % (self.pt(node.left), self.pt(node.right))
            raise Untranslatable("operator %s" % type(node.op).__name__)
        if isinstance(node, ast.UnaryOp) and isinstance(node.op, ast.USub):
            return "(ropp R %s)" % self.pt(node.operand)
        return "(%s a b)" % self.mat(node)


T_SELF = '''
def _ado_self_rhs(self, ado1, dt, slevel=0):
    ado3 = numpy.zeros(ado1.shape, dtype=ado1.dtype)
    if self.hy.ham.has_rwa:
        HH = self.hy.ham.data - self.HOmega
    else:
        HH = self.hy.ham.data
    for nn in range(slevel, self.hy.hsize):
        ado3[nn, :, :] = H_self
    return ado3
'''

T_CROS = '''
def _ado_cros_rhs(self, ado1, dt, slevel=0):
    ado3 = numpy.zeros(ado1.shape, dtype=ado1.dtype)
    rl = numpy.zeros((ado1.shape[1], ado1.shape[2]), dtype=ado1.dtype)
    rr = numpy.zeros((ado1.shape[1], ado1.shape[2]), dtype=ado1.dtype)
    for nn in range(slevel, self.hy.hsize):
        for kk in range(self.hy.nbath):
            nk = self.hy.hinds[nn, kk]
            jj = self.hy.nm1[nn, kk]
            if H_g1:
                rr = H_rr1
                rl = H_rl1
                ado3[nn, :, :] += H_t1
                ado3[nn, :, :] += H_t2
            jj = self.hy.np1[nn, kk]
            if H_g2:
                rr = H_rr2
                rl = H_rl2
                ado3[nn, :, :] += H_t3
    return ado3
'''

SCALARS = {"dt": "dt", "1j": "ii", "2.0": "two", "self.hy.kBT": "kBT", "nk": "(ofnat nk)",
           "self.hy.lam[kk]": "(lam kk)", "self.hy.gamma[kk]": "(gam kk)", "self.hy.Gamma[nn]": "(Gamma nb H gam nn)"}


def _guard(node, which):
    """guards over Python integers: nk (a hierarchy index, >= 0) and jj (an entry of nm1 / np1, -1 when absent)"""
    if not (isinstance(node, ast.Compare) and len(node.ops) == 1 and len(node.comparators) == 1):
        raise Untranslatable("guard %s" % ast.unparse(node))
    op = {ast.GtE: ">=?", ast.Gt: ">?", ast.Lt: "<?", ast.LtE: "<=?", ast.Eq: "=?"}.get(type(node.ops[0]))
    if op is None:
        raise Untranslatable("guard comparison %s" % ast.unparse(node))

    def z(n):
        if isinstance(n, ast.Name) and n.id == "nk":
            return "(Z.of_nat nk)"
        if isinstance(n, ast.Name) and n.id == "jj":
            return "jj"
        if isinstance(n, ast.Constant) and isinstance(n.value, int) and not isinstance(n.value, bool):
            return "%d" % n.value
        if isinstance(n, ast.BinOp) and isinstance(n.op, ast.Mult):
            return "(%s * %s)" % (z(n.left), z(n.right))
        raise Untranslatable("guard operand %s" % ast.unparse(n))
    return "(%s %s %s)%%Z" % (z(node.left), op, z(node.comparators[0]))


def rhs(repo):
    f = repo + HEOM
    env = {}
    fn = _src_of(f, "KTHierarchyPropagator._ado_self_rhs")
    tfn = ast.parse(T_SELF).body[0]
    unify([a.arg for a in tfn.args.args], [a.arg for a in fn.args.args], env, "_ado_self_rhs.args")
    unify(tfn.body, fn.body, env, "_ado_self_rhs")
    mats = {"ado1": lambda i: "(ado %s)" % {"nn": "nn"}[i]}
    p = Pt(mats, SCALARS, {"HH": "HH"})
    gself = p.pt(env["H_self"])

    env = {}
    fn = _src_of(f, "KTHierarchyPropagator._ado_cros_rhs")
    tfn = ast.parse(T_CROS).body[0]
    unify([a.arg for a in tfn.args.args], [a.arg for a in fn.args.args], env, "_ado_cros_rhs.args")
    unify(tfn.body, fn.body, env, "_ado_cros_rhs")

    def ado_idx(i):
        if i == "jj":
            return "(ado_z H ado jj)"
        raise Untranslatable("ADO index %s in the cross terms" % i)
    mats = {"ado1": ado_idx, "self.hy.Vs": lambda i: "(Vs %s)" % {"kk": "k"}[i]}
    sc = dict(SCALARS)
    sc["self.hy.lam[kk]"] = "(lam k)"
    sc["self.hy.gamma[kk]"] = "(gam k)"
    del sc["self.hy.Gamma[nn]"]
    p0 = Pt(mats, sc)
    rr1, rl1 = p0.mat(env["H_rr1"]), p0.mat(env["H_rl1"])
    p1 = Pt(mats, sc, {"rr": "rr", "rl": "rl"})
    t1, t2 = p1.pt(env["H_t1"]), p1.pt(env["H_t2"])
    rr2, rl2 = p0.mat(env["H_rr2"]), p0.mat(env["H_rl2"])
    t3 = p1.pt(env["H_t3"])
    d = dict(gself=gself, g1=_guard(env["H_g1"], 1), g2=_guard(env["H_g2"], 2), rr1=rr1, rl1=rl1, t1=t1, t2=t2, rr2=rr2, rl2=rl2, t3=t3)
    text = """
(* ---- right-hand sides, GENERATED by harness/translate_c16.py from heom.py:_ado_self_rhs / _ado_cros_rhs ---- *)
From QV Require Import Proofs.C16rhsgen.
Section GenRHS.
  Context {R : StarRing}.
  Add Ring Rrhs : (rth R).
  Variable dim : nat.
  Variable nb : nat.
  Variable H : list mi.
  Variable HH : @mat R.
  Variable Vs : nat -> @mat R.
  Variable ii : R.
  Variables lam gam : nat -> R.
  Variable kBT : R.
  Variable two : R.

  Definition gen_self (dt : R) (ado : nat -> @mat R) (nn : nat) (a b : nat) : R := %(gself)s.
  Lemma gen_self_is_model dt ado nn a b : gen_self dt ado nn a b = self_rhs dim nb H HH ii gam dt ado nn a b.
  Proof. unfold gen_self, self_rhs, comm, mscale, madd, msub. ring. Qed.

  Definition gen_cros_term (dt : R) (ado : nat -> @mat R) (n k : nat) (a b : nat) : R :=
    let nk := nth k (nth n H []) 0%%nat in
    let up := (let jj := oz (nm1 H n k) in
               if %(g1)s then (let rr := %(rr1)s in let rl := %(rl1)s in radd R %(t1)s %(t2)s) else r0 R) in
    let dn := (let jj := oz (np1 H n k) in
               if %(g2)s then (let rr := %(rr2)s in let rl := %(rl2)s in %(t3)s) else r0 R) in
    radd R up dn.
  Lemma gen_cros_term_is_model dt ado n k a b :
    gen_cros_term dt ado n k a b = cros_term dim H Vs ii lam gam kBT two dt ado n k a b.
  Proof.
    unfold gen_cros_term, cros_term. cbv zeta.
    first [rewrite guard_up_spec | rewrite guard_up_spec']. rewrite guard_dn_spec.
    destruct (np1 H n k) as [[|jp]|]; rewrite ?ado_z_pos;
      (destruct (Nat.eqb (nth k (nth n H []) 0%%nat) 0 || match nm1 H n k with Some _ => true | None => false end);
       rewrite ?ado_z_spec; unfold acomm, comm, madd, mscale, msub; ring).
  Qed.
  Lemma gen_cros_is_model dt ado n a b :
    sum nb (fun k => gen_cros_term dt ado n k a b) = cros_rhs dim nb H Vs ii lam gam kBT two dt ado n a b.
  Proof. unfold cros_rhs. apply sum_ext; intros k Hk. apply gen_cros_term_is_model. Qed.
End GenRHS.
""" % d
    return text, ["heom.py:KTHierarchyPropagator._ado_self_rhs", "heom.py:KTHierarchyPropagator._ado_cros_rhs (guards, negative-index read, three terms)"]


# ------------------------------------------------------------------------------------------------ system parts of the bath couplings
AGG = "/quantarhei/builders/aggregate_base.py"
MOL = "/quantarhei/builders/molecules.py"


def _only_diagonal_stores(stmts, var, what):
    """every store into `var` (through .data or directly) inside stmts has the shape X[i, i] = 1.0 with textually identical
    row and column index expressions; returns the list of index expressions (unparsed)"""
    idx = []
    for st in stmts:
        for n in ast.walk(st):
            tg = []
            if isinstance(n, ast.Assign):
                tg = n.targets
            elif isinstance(n, ast.AugAssign):
                tg = [n.target]
            for t in tg:
                base = t
                while isinstance(base, (ast.Subscript, ast.Attribute)):
                    base = base.value
                if not (isinstance(base, ast.Name) and base.id == var) or base is t:
                    continue
                if isinstance(n, ast.AugAssign):
                    raise Untranslatable("%s: augmented store into %s" % (what, ast.unparse(t)))
                if not (isinstance(t, ast.Subscript) and isinstance(t.slice, ast.Tuple) and len(t.slice.elts) == 2):
                    raise Untranslatable("%s: store %s is no element of a matrix" % (what, ast.unparse(t)))
                r, c = t.slice.elts
                if ast.unparse(r) != ast.unparse(c):
                    raise Untranslatable("%s: store into %s is off the diagonal" % (what, ast.unparse(t)))
                idx.append((ast.unparse(r), n.value))
    return idx


def sysops(repo):
    """Aggregate._build (both branches that make the site projectors) and Molecule.get_SystemBathInteraction (the projector on the block
    of one electronic state): operators created as zeros into which 1 is stored at diagonal positions only."""
    out = {}
    # ---- aggregate: the two `for i in range(1, Nop + 1):` loops below `if self._has_system_bath_interaction:`
    fn = _src_of(repo + AGG, "AggregateBase._build")
    guards = [n for n in ast.walk(fn) if isinstance(n, ast.If) and ast.unparse(n.test) == "self._has_system_bath_interaction"]
    if len(guards) != 1:
        raise Untranslatable("_build: `if self._has_system_bath_interaction:` found %d times" % len(guards))
    loops = [n for n in ast.walk(guards[0]) if isinstance(n, ast.For) and ast.unparse(n.iter) == "range(1, Nop + 1)"]
    if len(loops) != 2:
        raise Untranslatable("_build: %d loops over the sites make system operators (2 expected)" % len(loops))
    kinds = []
    for lp in loops:
        body = _live(lp.body)
        if not (isinstance(body[0], ast.Assign) and ast.unparse(body[0].targets[0]) == "op1"
                and ast.unparse(body[0].value) == "Operator(dim=self.HH.shape[0], real=True)"):
            raise Untranslatable("_build: the system operator is created as %s" % ast.unparse(body[0])[:60])
        if ast.unparse(body[-1]) != "iops.append(op1)":
            raise Untranslatable("_build: the system operator loop ends with %s" % ast.unparse(body[-1])[:60])
        st = _only_diagonal_stores(body[1:-1], "op1", "_build")
        if len(st) != 1 or not (isinstance(st[0][1], ast.Constant) and st[0][1].value == 1.0):
            raise Untranslatable("_build: stores into the system operator: %s" % [(i, ast.unparse(v)) for i, v in st])
        inner = body[1]
        if isinstance(inner, ast.For):
            if ast.unparse(inner.iter) != "self.vibindices[i]" or ast.unparse(inner.target) != st[0][0]:
                raise Untranslatable("_build: vibronic projector runs over %s" % ast.unparse(inner.iter))
            kinds.append("vib")
        else:
            if st[0][0] != ast.unparse(lp.target):
                raise Untranslatable("_build: electronic projector stored at %s" % st[0][0])
            kinds.append("el")
    if sorted(kinds) != ["el", "vib"]:
        raise Untranslatable("_build: system operator loops of kinds %s" % kinds)
    for other in ast.walk(guards[0]):
        if isinstance(other, ast.Call) and ast.unparse(other.func) == "iops.append" and not any(other in ast.walk(lp) for lp in loops):
            raise Untranslatable("_build: a system operator is appended outside the two projector loops")
    # ---- molecule: KK[a:b, a:b] = numpy.diag(numpy.ones(ldim[state], dtype=REAL)) with a = sum of ldim below state, b = a + ldim[state]
    fn = _src_of(repo + MOL, "Molecule.get_SystemBathInteraction")
    loops = [n for n in ast.walk(fn) if isinstance(n, ast.For) and ast.unparse(n.iter) == "range(ntr)"]
    if len(loops) != 1:
        raise Untranslatable("get_SystemBathInteraction: loop over the transition baths found %d times" % len(loops))
    tfn = ast.parse(T_MOLPROJ).body[0]
    env = {}
    unify(tfn.body, _live(loops[0].body), env, "get_SystemBathInteraction")
    ez = {"states_before": "sb", "states_inc": "(sb + nth state ldim 0%nat)%nat", "state": "state"}

    def nat(node):
        key = ast.unparse(node)
        if key in ez:
            return ez[key]
        if isinstance(node, ast.Constant) and isinstance(node.value, int) and not isinstance(node.value, bool) and node.value >= 0:
            return "%d%%nat" % node.value
        if isinstance(node, ast.BinOp) and isinstance(node.op, ast.Add):
            return "(%s + %s)%%nat" % (nat(node.left), nat(node.right))
        if isinstance(node, ast.Subscript) and ast.unparse(node.value) == "ldim":
            return "(nth %s ldim 0%%nat)" % nat(node.slice)
        raise Untranslatable("get_SystemBathInteraction: index expression %s" % key[:60])
    if ast.unparse(env["H_sb0"]) != "0" or ast.unparse(env["H_khi"]) != "state":
        raise Untranslatable("get_SystemBathInteraction: offset starts at %s and runs to %s" % (ast.unparse(env["H_sb0"]), ast.unparse(env["H_khi"])))
    if ast.unparse(env["H_inc"]) != "ldim[k]":
        raise Untranslatable("get_SystemBathInteraction: offset advanced by %s" % ast.unparse(env["H_inc"]))
    if ast.unparse(env["H_sinc"]) != "states_before + ldim[state]":
        raise Untranslatable("get_SystemBathInteraction: block end %s" % ast.unparse(env["H_sinc"]))
    d = dict(r0=nat(env["H_r0"]), r1=nat(env["H_r1"]), c0=nat(env["H_c0"]), c1=nat(env["H_c1"]), cnt=nat(env["H_cnt"]))
    text = """
(* ---- system parts of the bath couplings, GENERATED by harness/translate_c16.py from aggregate_base.py:_build (site projectors,
   electronic and vibronic branch) and molecules.py:Molecule.get_SystemBathInteraction (projector on the block of one electronic state):
   zero operators into which 1 is stored at diagonal positions only ---- *)
From QV Require Import Proofs.C16diag Proofs.C16sysops.
Section GenSysOps.
  Context {R : StarRing}.
  (* aggregate: for j in (the basis states of site i): op1.data[j, j] = 1.0 *)
  Definition gen_agg_sysop (js : list nat) : @mat R := stores_skel (fun j => j) (fun j => j) js.
  Lemma gen_agg_sysop_is_projector js a b : gen_agg_sysop js a b = site_projector js a b.
  Proof. apply stores_skel_is_projector. Qed.
  Lemma gen_agg_sysop_diagonal dim js : diagonal dim (gen_agg_sysop js).
  Proof. intros i j Hi Hj Hne. rewrite gen_agg_sysop_is_projector. exact (site_projector_diagonal dim js i j Hi Hj Hne). Qed.
  (* molecule: states_before = sum of ldim below `state`; KK[r0:r1, c0:c1] = diag(ones(cnt)) *)
  Definition gen_mol_sysop (ldim : list nat) (state : nat) : @mat R :=
    let sb := list_sum (firstn state ldim) in block_skel %(r0)s %(r1)s %(c0)s %(c1)s %(cnt)s.
  Lemma gen_mol_sysop_is_projector ldim state a b :
    gen_mol_sysop ldim state a b = block_projector (list_sum (firstn state ldim)) (list_sum (firstn state ldim) + nth state ldim 0%%nat)%%nat a b.
  Proof.
    unfold gen_mol_sysop. cbv zeta. rewrite <- block_skel_is_projector. f_equal. lia.
  Qed.
  Lemma gen_mol_sysop_diagonal dim ldim state : diagonal dim (gen_mol_sysop ldim state).
  Proof. intros i j Hi Hj Hne. rewrite gen_mol_sysop_is_projector. exact (block_projector_diagonal dim _ _ i j Hi Hj Hne). Qed.
End GenSysOps.
""" % d
    return text, ["aggregate_base.py:AggregateBase._build (system operators: site projectors, electronic and vibronic branch)",
                  "molecules.py:Molecule.get_SystemBathInteraction (projector on the block of one electronic state: offset, block, diagonal of ones)"]


T_MOLPROJ = '''
def f():
    KK = numpy.zeros((totdim, totdim), dtype=REAL)
    state = d[n]
    states_before = H_sb0
    for k in range(H_khi):
        states_before += H_inc
    states_inc = H_sinc
    KK[H_r0:H_r1, H_c0:H_c1] = numpy.diag(numpy.ones(H_cnt, dtype=REAL))
    sys_operators.append(KK)
'''
