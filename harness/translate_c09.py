# -*- coding: utf-8 -*-
"""Static tie for C09: the addition code of bath correlation functions / spectral densities, translated on every run.

Translated from quantarhei/qm/corfunctions/correlationfunctions.py (class CorrelationFunction):
  * `__init__`: the initial values of lamb / temperature / cutoff_time, the loop that stores one converted parameter set
    per component, and the dispatch loop `for prms in self.params` - from which expression the family `ftype` is read
    (the loop's own component or a name left over from the first loop), which string selects which `_make_xxx`, and which
    parameter set each maker receives;
  * every `_make_xxx`: the bookkeeping after the (oracle) formula - one `_add_me`, `self.lamb += lamb` with `lamb` read
    from the maker's own `params["reorg"]`, `_set_temperature_and_cutoff_time(temperature, ..)` with `temperature` read
    from `params["T"]`; `params` is only read;
  * `_set_temperature_and_cutoff_time`, `__add__`, `__iadd__`, `add_to_data`, `add_to_data2`;
and from spectraldensities.py (class SpectralDensity): `__add__`, `__iadd__`, `add_to_data`, `add_to_data2`.
The statement skeletons are matched fail-closed (`translate2.unify` templates / structural extraction); the operands are
spliced into the skeleton combinators of coq/theories/Proofs/C09gen.v, whose lemmas give equality with Model/C09.v's
`ctor OwnFtype`, `add_to_data`, `add`, `iadd CheckThenMutate`, `iadd_self`, `sd_add_to_data`, `sd_add`, `sd_iadd_self`
provided the operands are the expected ones; the generated lemmas discharge that by `reflexivity` / case analysis.
"""
import ast
import os
import sys

sys.path.insert(0, os.path.dirname(os.path.abspath(__file__)))
from translate import Untranslatable, _src_of   # noqa: E402
from translate2 import unify, _strip            # noqa: E402

CF = "/quantarhei/qm/corfunctions/correlationfunctions.py"
SD = "/quantarhei/qm/corfunctions/spectraldensities.py"
FIELDS = {"temperature": "temp", "data": "data", "lamb": "lamb", "cutoff_time": "cutoff", "params": "comps"}


def fexpr(node, who):
    """`self.lamb`, `other.data`, ... -> `(lamb x)`, `(data y)`; `who` maps python object names to Gallina variables"""
    if isinstance(node, ast.Attribute) and isinstance(node.value, ast.Name) and node.value.id in who and node.attr in FIELDS:
        return "(%s %s)" % (FIELDS[node.attr], who[node.value.id])
    raise Untranslatable("operand %s" % ast.unparse(node)[:60])


def tmatch(fn, templates, what):
    """bindings of the first template (list of source texts) that the function matches"""
    errs = []
    for t in templates:
        tfn = ast.parse(t).body[0]
        env = {}
        try:
            unify([a.arg for a in tfn.args.args], [a.arg for a in fn.args.args], env, what + ".args")
            unify(tfn.body, fn.body, env, what)
            return env
        except Untranslatable as e:
            errs.append(str(e))
    raise Untranslatable(errs[0] if len(errs) == 1 else " / ".join(errs)[:400])


def variants(t):
    """`if H_ca > H_cb:` may be written `if H_cb < H_ca:`; `!=` operands are symmetric in the lemma"""
    return [t, t.replace("if H_ca > H_cb:", "if H_cb < H_ca:")]


def longer_cutoff(env, who, what):
    """if <other cut-off> > self.cutoff_time: self.cutoff_time = <other cut-off>   ->   qmax (cutoff x) <other>"""
    if ast.unparse(env["H_cb"]) != "self.cutoff_time" or ast.dump(env["H_ca"]) != ast.dump(env["H_cc"]):
        raise Untranslatable("%s: the cut-off update is not `if X > self.cutoff_time: self.cutoff_time = X` (%s > %s: %s)"
                             % (what, ast.unparse(env["H_ca"]), ast.unparse(env["H_cb"]), ast.unparse(env["H_cc"])))
    return env["H_ca"]


T_SETTC = """
def _set_temperature_and_cutoff_time(self, temperature, ctime):
    if self.temperature == H_unset:
        self.temperature = H_newT
    elif self.temperature != H_cmpT:
        raise Exception(H_m)
    new_cutoff_time = H_fac * ctime
    if H_ca > H_cb:
        self.cutoff_time = H_cc
"""

T_ATD = """
def add_to_data(self, other):
    t1 = self.axis
    t2 = other.axis
    if t1 == t2:
        if H_ta != H_tb:
            raise Exception(H_m1)
        self.data += H_d
        self.lamb += H_l
        if H_ca > H_cb:
            self.cutoff_time = H_cc
        for p in H_ps:
            self.params.append(p)
        self._is_composed = True
        self._is_empty = False
    else:
        raise Exception(H_m2)
"""

T_ATD2 = """
def add_to_data2(self, other):
    if self == other:
        with energy_units(H_units):
            ocor = H_cls(H_ax, H_src)
    else:
        ocor = other
    t1 = self.axis
    t2 = ocor.axis
    if t1 == t2:
        if H_ta != H_tb:
            raise Exception(H_m1)
        self.data += H_d
        self.lamb += H_l
        if H_ca > H_cb:
            self.cutoff_time = H_cc
        for p in H_ps:
            self.params.append(p)
        self._is_composed = True
        self._is_empty = False
    else:
        raise Exception(H_m2)
"""

T_ADD = """
def __add__(self, other):
    t1 = self.axis
    t2 = other.axis
    if t1 == t2:
        with energy_units(H_units):
            f = H_cls(H_ax, params=H_src)
        f.add_to_data(H_rhs)
    else:
        raise Exception(H_m)
    return f
"""

T_IADD = """
def __iadd__(self, other):
    self.add_to_data2(other)
    return self
"""

T_SD_ATD = """
def add_to_data(self, other):
    t1 = self.axis
    t2 = other.axis
    if t1 == t2:
        self.data += H_d
        self.lamb += H_l
        for i in range(2):
            self.lim_omega[i] += other.lim_omega[i]
        for p in H_ps:
            self.params.append(p)
        self._is_composed = True
        self._is_empty = False
    else:
        raise Exception(H_m)
"""

T_SD_ATD2 = """
def add_to_data2(self, other):
    if self == other:
        with energy_units(H_units):
            ocor = H_cls(H_ax, H_src)
    else:
        ocor = other
    t1 = self.axis
    t2 = ocor.axis
    if t1 == t2:
        self.data += H_d
        self.lamb += H_l
        for p in H_ps:
            self.params.append(p)
        self._is_composed = True
        self._is_empty = False
    else:
        raise Exception(H_m)
"""

T_FIRSTLOOP = """
for params in p2calc:
    try:
        ftype = params["ftype"]
        if ftype not in CorrelationFunction.allowed_types:
            raise Exception(H_m1)
        prms = {}
        for key in params.keys():
            if key in self.energy_params:
                prms[key] = self.convert_energy_2_internal_u(params[key])
            else:
                prms[key] = params[key]
    except:
        raise Exception(H_m2)
    self.params.append(prms)
"""

T_VALUES_BRANCH = """
self._add_me(self.axis, values)
self.lamb = 0.0
self.temperature = self.params[0]["T"]
for prms in self.params:
    self.lamb += prms["reorg"]
    if self.temperature != prms["T"]:
        raise Exception(H_m)
"""

EXPECTED_DISPATCH = {"OverdampedBrownian-HighTemperature": "_make_overdamped_brownian_ht", "OverdampedBrownian": "_make_overdamped_brownian",
                     "UnderdampedBrownian": "_make_underdamped_brownian", "Underdamped": "_make_underdamped", "B777": "_make_B777",
                     "CP29": "_make_CP29_spectral_density", "Value-defined": "_make_value_defined"}


def rebuild_check(env, cls, who, what):
    """with energy_units("int"): X = Class(axis, params)   -> Gallina term for the component list handed to the constructor"""
    u = env["H_units"]
    if not (isinstance(u, ast.Constant) and u.value == "int"):
        raise Untranslatable("%s: the operand is rebuilt under energy_units(%s), the stored parameters are in internal units" % (what, ast.unparse(u)))
    if not (isinstance(env["H_cls"], ast.Name) and env["H_cls"].id == cls):
        raise Untranslatable("%s: rebuilt as %s" % (what, ast.unparse(env["H_cls"])))
    if ast.unparse(env["H_ax"]) not in ("t1", "t2", "self.axis", "other.axis"):
        raise Untranslatable("%s: rebuilt on %s" % (what, ast.unparse(env["H_ax"])))
    return fexpr(env["H_src"], who)


def const0(node, what):
    if isinstance(node, ast.Constant) and isinstance(node.value, (int, float)) and not isinstance(node.value, bool):
        return node.value
    raise Untranslatable("%s: %s is not a number" % (what, ast.unparse(node)))


def qlit(v):
    from fractions import Fraction
    f = Fraction(v)
    return "(%d # %d)" % (f.numerator, f.denominator) if f >= 0 else "(-(%d) # %d)" % (-f.numerator, f.denominator)


def stores_of(fn):
    """attribute stores on self and appends to self.params inside a function: (kind, attr, node)"""
    out = []
    for n in ast.walk(fn):
        if isinstance(n, ast.Attribute) and isinstance(n.ctx, ast.Store) and isinstance(n.value, ast.Name) and n.value.id == "self":
            out.append(n.attr)
        if isinstance(n, ast.Call) and ast.unparse(n.func) == "self.params.append":
            out.append("params.append")
    return out


def maker(path, cls, name):
    """the bookkeeping of one _make_xxx(self, params, ...): returns (lamb update, temperature source) as Gallina"""
    fn = _src_of(path, cls + "." + name)
    what = name
    args = [a.arg for a in fn.args.args]
    if args[:2] != ["self", "params"] or args[2:] not in ([], ["values"]):
        raise Untranslatable("%s: signature %r" % (what, args))
    body = [s for s in _strip(fn.body) if not isinstance(s, (ast.ImportFrom, ast.Import))]
    body = [s for s in body if not (isinstance(s, ast.Expr) and isinstance(s.value, ast.Call) and ast.unparse(s.value.func) == "print")]
    if len(body) < 3:
        raise Untranslatable("%s: too short" % what)
    addme, lam, settc = body[-3:]
    # self._add_me(self.axis, cfce)
    if not (isinstance(addme, ast.Expr) and isinstance(addme.value, ast.Call) and ast.unparse(addme.value.func) == "self._add_me"
            and len(addme.value.args) == 2 and ast.unparse(addme.value.args[0]) == "self.axis" and isinstance(addme.value.args[1], ast.Name)
            and not addme.value.keywords):
        raise Untranslatable("%s: third statement from the end is not self._add_me(self.axis, <data>): %s" % (what, ast.unparse(addme)[:60]))
    # self.lamb += lamb
    if isinstance(lam, ast.AugAssign) and isinstance(lam.op, ast.Add) and ast.unparse(lam.target) == "self.lamb" and isinstance(lam.value, ast.Name):
        upd, lname = "(lamb o + %s)", lam.value.id
    elif isinstance(lam, ast.Assign) and len(lam.targets) == 1 and ast.unparse(lam.targets[0]) == "self.lamb" and isinstance(lam.value, ast.Name):
        upd, lname = "%s", lam.value.id
    else:
        raise Untranslatable("%s: second statement from the end is not an update of self.lamb: %s" % (what, ast.unparse(lam)[:60]))
    # self._set_temperature_and_cutoff_time(temperature, <contribution to the cut-off>)
    if not (isinstance(settc, ast.Expr) and isinstance(settc.value, ast.Call) and ast.unparse(settc.value.func) == "self._set_temperature_and_cutoff_time"
            and len(settc.value.args) == 2 and isinstance(settc.value.args[0], ast.Name) and not settc.value.keywords):
        raise Untranslatable("%s: last statement is not self._set_temperature_and_cutoff_time(<temperature>, ..): %s" % (what, ast.unparse(settc)[:60]))
    tname = settc.value.args[0].id
    # single bindings of the two names, from the maker's own params
    def binding(nm):
        found = [s for s in ast.walk(fn) if isinstance(s, (ast.Assign, ast.AugAssign, ast.For, ast.With))
                 and any(isinstance(t, ast.Name) and t.id == nm and isinstance(t.ctx, ast.Store) for t in ast.walk(s))]
        found = [s for s in found if isinstance(s, ast.Assign) and any(isinstance(t, ast.Name) and t.id == nm for t in s.targets)] \
            if all(isinstance(s, ast.Assign) for s in found) else None
        if not found or len(found) != 1 or found[0] not in fn.body:
            raise Untranslatable("%s: %s is not bound exactly once at the top level of the function" % (what, nm))
        return found[0].value
    src = {'params["reorg"]': "(clam c)", "params['reorg']": "(clam c)",
           'self.manager.iu_energy(params["reorg"], units=self.energy_units)': "(clam c)",
           'self.convert_energy_2_internal_u(params["reorg"])': "(clam c)", 'params["T"]': "(ctemp c)", "params['T']": "(ctemp c)"}
    lsrc, tsrc = ast.unparse(binding(lname)), ast.unparse(binding(tname))
    norm = {ast.unparse(ast.parse(k, mode="eval").body): v for k, v in src.items()}
    if norm.get(lsrc) != "(clam c)":
        raise Untranslatable("%s: the reorganisation energy added is %s = %s" % (what, lname, lsrc))
    if norm.get(tsrc) != "(ctemp c)":
        raise Untranslatable("%s: the temperature checked is %s = %s" % (what, tname, tsrc))
    # params is only read; no other field of self is written; the data go through _add_me once
    for n in ast.walk(fn):
        if isinstance(n, ast.Name) and n.id == "params":
            if not isinstance(n.ctx, ast.Load):
                raise Untranslatable("%s: params is rebound" % what)
    parents = {}
    for p in ast.walk(fn):
        for ch in ast.iter_child_nodes(p):
            parents[ch] = p
    for n in ast.walk(fn):
        if isinstance(n, ast.Name) and n.id == "params":
            p = parents[n]
            ok = (isinstance(p, ast.Subscript) and p.value is n and isinstance(p.ctx, ast.Load))
            ok = ok or (isinstance(p, ast.Attribute) and p.attr == "keys" and isinstance(parents[p], ast.Call))
            ok = ok or (isinstance(p, ast.Call) and ast.unparse(p.func) == "SpectralDensity" and n in p.args)
            ok = ok or (isinstance(p, ast.Compare) and n in p.comparators and isinstance(p.ops[0], (ast.In, ast.NotIn)))
            if not ok:
                raise Untranslatable("%s: params is used other than by reading it: %s" % (what, ast.unparse(p)[:60]))
    st = stores_of(fn)
    if sorted(st) != ["lamb"]:
        raise Untranslatable("%s: writes %r of self" % (what, sorted(st)))
    if sum(1 for n in ast.walk(fn) if isinstance(n, ast.Call) and ast.unparse(n.func) in ("self._add_me", "self._make_me")) != 1:
        raise Untranslatable("%s: the data are set / added more than once" % what)
    return upd % norm[lsrc], norm[tsrc], ("convert" in lsrc or "iu_energy" in lsrc)


T_SD_TRY = """
try:
    ftype = params["ftype"]
    if ftype not in CorrelationFunction.allowed_types:
        raise Exception(H_m1)
    prms = {}
    for key in params.keys():
        if key in self.energy_params:
            prms[key] = self.convert_energy_2_internal_u(params[key])
        else:
            prms[key] = params[key]
except:
    raise Exception
"""
T_SD_TEMP = """
if "T" in params.keys():
    self.temperature = params["T"]
"""
SD_TIED = ("OverdampedBrownian", "UnderdampedBrownian", "Underdamped", "B777")
SD_PINNED = ("CP29",)


def dispatch_chain(first_if, own, stale, what):
    """if ftype == "S": self._make_xxx(ARG, ..) elif ... else: raise   ->  [(S, maker, whose, form)]"""
    def whose(name, w):
        if name in own:
            return "own", own[name]
        if name == stale:
            return "stale", "raw"
        raise Untranslatable("%s: %s is %s, not a component of the loop" % (what, w, name))
    chain, cur = [], first_if
    while True:
        t = cur.test
        if not (isinstance(t, ast.Compare) and len(t.ops) == 1 and isinstance(t.ops[0], ast.Eq)):
            raise Untranslatable("%s: dispatch test %s" % (what, ast.unparse(t)))
        a, b = t.left, t.comparators[0]
        if isinstance(a, ast.Constant):
            a, b = b, a
        if not (isinstance(a, ast.Name) and a.id == "ftype" and isinstance(b, ast.Constant) and isinstance(b.value, str)):
            raise Untranslatable("%s: dispatch test %s" % (what, ast.unparse(t)))
        bd = _strip(cur.body)
        if not (len(bd) == 1 and isinstance(bd[0], ast.Expr) and isinstance(bd[0].value, ast.Call) and isinstance(bd[0].value.func, ast.Attribute)
                and isinstance(bd[0].value.func.value, ast.Name) and bd[0].value.func.value.id == "self" and bd[0].value.args
                and isinstance(bd[0].value.args[0], ast.Name)):
            raise Untranslatable("%s: branch %r is not a single self._make_xxx(<parameters>, ..)" % (what, b.value))
        call = bd[0].value
        extra = [ast.unparse(x) for x in call.args[1:]] + ["%s=%s" % (k.arg, ast.unparse(k.value)) for k in call.keywords]
        if any(e not in ("values", "values=values") for e in extra):
            raise Untranslatable("%s: branch %r passes %r" % (what, b.value, extra))
        chain.append((b.value, call.func.attr) + whose(call.args[0].id, "the parameter set given to %s" % call.func.attr))
        if len(cur.orelse) == 1 and isinstance(cur.orelse[0], ast.If):
            cur = cur.orelse[0]
        else:
            if not (len(_strip(cur.orelse)) == 1 and isinstance(_strip(cur.orelse)[0], ast.Raise)):
                raise Untranslatable("%s: the dispatch chain does not end in `else: raise`" % what)
            break
    if len(set(c[0] for c in chain)) != len(chain):
        raise Untranslatable("%s: a type string is tested twice" % what)
    return chain


def sd_init(repo):
    """SpectralDensity.__init__: the loop over the parameter sets"""
    fn = _src_of(repo + SD, "SpectralDensity.__init__")
    if [a.arg for a in fn.args.args] != ["self", "axis", "params", "values"]:
        raise Untranslatable("SpectralDensity.__init__: signature")
    top = [s for s in _strip(fn.body) if isinstance(s, ast.If)]
    if len(top) != 1 or ast.unparse(top[0].test) != "axis is not None and params is not None" or top[0].orelse:
        raise Untranslatable("SpectralDensity.__init__: the block `if (axis is not None) and (params is not None)`")
    blk = _strip(top[0].body)
    loops = [s for s in blk if isinstance(s, ast.For) and ast.unparse(s.iter) == "p2calc"]
    if len(loops) != 1 or not isinstance(loops[0].target, ast.Name) or loops[0].target.id != "params" or loops[0].orelse:
        raise Untranslatable("SpectralDensity.__init__: the loop `for params in p2calc`")
    k = blk.index(loops[0])
    before = [ast.unparse(x) for x in blk[:k]]
    for need in ("self.lamb = 0.0", "self.temperature = -1.0", "self.params = []"):
        if before.count(need) != 1:
            raise Untranslatable("SpectralDensity.__init__: `%s` before the loop" % need)
    if blk[k + 1:]:
        raise Untranslatable("SpectralDensity.__init__: statements after the loop")
    body = _strip(loops[0].body)
    if len(body) != 4:
        raise Untranslatable("SpectralDensity.__init__: the loop body has %d statements (conversion, temperature, dispatch, append expected)" % len(body))
    unify(ast.parse(T_SD_TRY).body[0], body[0], {}, "SpectralDensity.__init__ conversion")
    unify(ast.parse(T_SD_TEMP).body[0], body[1], {}, "SpectralDensity.__init__ temperature")
    if not isinstance(body[2], ast.If):
        raise Untranslatable("SpectralDensity.__init__: dispatch")
    chain = dispatch_chain(body[2], {"prms": "converted", "params": "raw"}, None, "SpectralDensity.__init__")
    if ast.unparse(body[3]) != "self.params.append(prms)":
        raise Untranslatable("SpectralDensity.__init__: last statement of the loop is %s" % ast.unparse(body[3])[:60])
    # the early return for given values sits before the loop and is not modelled; nothing else appends parameter sets
    if sum(1 for n in ast.walk(fn) if isinstance(n, ast.Call) and ast.unparse(n.func) == "self.params.append") != 1:
        raise Untranslatable("SpectralDensity.__init__: parameter sets are appended elsewhere")
    return chain


def sd_maker(path, name, form="converted"):
    """bookkeeping of a spectral-density maker: (lamb expression, data expression)"""
    fn = _src_of(path, "SpectralDensity." + name)
    what = "SpectralDensity." + name
    args = [a.arg for a in fn.args.args]
    if args[:2] != ["self", "params"] or args[2:] not in ([], ["values"]):
        raise Untranslatable("%s: signature %r" % (what, args))
    calls = [n for n in ast.walk(fn) if isinstance(n, ast.Call) and ast.unparse(n.func) in ("self._add_me", "self._make_me")]
    kinds = set(ast.unparse(n.func) for n in calls)
    for n in calls:
        if len(n.args) != 2 or ast.unparse(n.args[0]) != "self.axis" or n.keywords:
            raise Untranslatable("%s: %s" % (what, ast.unparse(n)[:60]))
    top = _strip(fn.body)
    single = [s for s in top if isinstance(s, ast.Expr) and s.value in calls]
    branch = [s for s in top if isinstance(s, ast.If) and ast.unparse(s.test) == "values is not None" and len(_strip(s.body)) == 1
              and len(_strip(s.orelse)) == 1 and isinstance(_strip(s.body)[0], ast.Expr) and _strip(s.body)[0].value in calls
              and isinstance(_strip(s.orelse)[0], ast.Expr) and _strip(s.orelse)[0].value in calls]
    if len(kinds) != 1:
        raise Untranslatable("%s: the data are both set and added (%s)" % (what, sorted(kinds)))
    if kinds == {"self._add_me"}:
        # added: exactly once on every path
        if not ((len(calls) == 1 and len(single) == 1) or (len(calls) == 2 and len(branch) == 1)):
            raise Untranslatable("%s: the data are not added exactly once (%d calls)" % (what, len(calls)))
        data = "(data o + d)"
    else:
        # set (overwritten): whatever was there before is lost, the last _make_me of the path decides
        vb = [s for s in top if isinstance(s, ast.If) and ast.unparse(s.test) == "values is not None"]
        if not (single or (len(vb) == 1 and any(c in ast.walk(vb[0]) for c in calls))):
            raise Untranslatable("%s: _make_me is not called on every path" % what)
        data = "d"
    lam = [n for n in ast.walk(fn) if isinstance(n, (ast.Assign, ast.AugAssign))
           and any(ast.unparse(t) == "self.lamb" for t in (n.targets if isinstance(n, ast.Assign) else [n.target]))]
    if len(lam) != 1 or lam[0] not in top:
        raise Untranslatable("%s: self.lamb is not updated exactly once at the top level" % what)
    v = lam[0].value
    if isinstance(v, ast.Name):
        b = [s for s in top if isinstance(s, ast.Assign) and any(isinstance(t, ast.Name) and t.id == v.id for t in s.targets)]
        nb = sum(1 for n in ast.walk(fn) if isinstance(n, ast.Name) and n.id == v.id and isinstance(n.ctx, ast.Store))
        if len(b) != 1 or nb != 1:
            raise Untranslatable("%s: %s is not bound exactly once" % (what, v.id))
        v = b[0].value
    if ast.unparse(v) not in ("params['reorg']",):
        raise Untranslatable("%s: the reorganisation energy added is %s" % (what, ast.unparse(v)))
    lsrc = "clam c" if form == "converted" else "lraw c"          # a raw parameter set carries the declared units
    if isinstance(lam[0], ast.AugAssign):
        if not isinstance(lam[0].op, ast.Add):
            raise Untranslatable("%s: %s" % (what, ast.unparse(lam[0])))
        lamb = "(lamb o + %s)" % lsrc
    else:
        lamb = "(%s)" % lsrc
    for n in ast.walk(fn):
        if isinstance(n, ast.Name) and n.id == "params" and not isinstance(n.ctx, ast.Load):
            raise Untranslatable("%s: params is rebound" % what)
        if isinstance(n, ast.Call) and isinstance(n.func, ast.Attribute) and isinstance(n.func.value, ast.Name) and n.func.value.id == "params" \
                and n.func.attr != "keys":
            raise Untranslatable("%s: params.%s(..)" % (what, n.func.attr))
        if isinstance(n, ast.Subscript) and isinstance(n.value, ast.Name) and n.value.id == "params" and not isinstance(n.ctx, ast.Load):
            raise Untranslatable("%s: params is written" % what)
    st = sorted(set(stores_of(fn)))
    if not set(st) <= {"lamb", "lim_omega"}:
        raise Untranslatable("%s: writes %r of self" % (what, st))
    return lamb, data


def cf_init(repo):
    """CorrelationFunction.__init__ -> (lam0, t0 text, c0, family source, [(string, maker, arg)], first-loop variable)"""
    fn = _src_of(repo + CF, "CorrelationFunction.__init__")
    if [a.arg for a in fn.args.args] != ["self", "axis", "params", "values"]:
        raise Untranslatable("__init__: signature")
    top = [s for s in _strip(fn.body) if isinstance(s, ast.If)]
    if len(top) != 1 or ast.unparse(top[0].test) != "axis is not None and params is not None" or top[0].orelse:
        raise Untranslatable("__init__: the block `if (axis is not None) and (params is not None)`")
    blk = _strip(top[0].body)
    init, first, second = {}, None, None
    for s in blk:
        u = ast.unparse(s)
        if isinstance(s, ast.Assign) and len(s.targets) == 1 and u.startswith(("self.lamb =", "self.temperature =", "self.cutoff_time =")):
            k = s.targets[0].attr
            if k in init or first is None:
                raise Untranslatable("__init__: %s set twice or before the parameter loop" % k) if k in init else Untranslatable("__init__: %s set before the parameter sets are collected" % k)
            init[k] = s.value
        elif isinstance(s, ast.For) and ast.unparse(s.iter) == "p2calc":
            if first == "done":
                raise Untranslatable("__init__: two loops over p2calc")
            tl = ast.parse(T_FIRSTLOOP).body[0]
            unify(tl, s, {}, "__init__ first loop")
            first = "done"
            v1 = s.target.id
        elif isinstance(s, ast.Try) and "p2calc.append" in u:
            first = "collected"           # params is one dictionary or a list of them
        elif isinstance(s, ast.If) and ast.unparse(s.test) == "values is None":
            second = s
    if set(init) != {"lamb", "temperature", "cutoff_time"} or first != "done" or second is None:
        raise Untranslatable("__init__: initial fields %r, parameter loop %r, `if values is None` %r" % (sorted(init), first, second is not None))
    # order: collect p2calc, initial fields, first loop, dispatch  (the fields are set before any maker runs)
    order = [("init" if (isinstance(s, ast.Assign) and ast.unparse(s.targets[0]) in ("self.lamb", "self.temperature", "self.cutoff_time")) else
              "first" if (isinstance(s, ast.For) and ast.unparse(s.iter) == "p2calc") else
              "second" if s is second else None) for s in blk]
    order = [o for o in order if o]
    if order != ["init", "init", "init", "first", "second"]:
        raise Untranslatable("__init__: order of initial fields / parameter loop / dispatch loop: %r" % order)
    # the dispatch loop: `for prms in self.params` (the converted sets) or
    # `for params, prms in zip(p2calc, self.params)` (each component as submitted together with its converted set)
    loops = _strip(second.body)
    if len(loops) != 1 or not isinstance(loops[0], ast.For) or loops[0].orelse:
        raise Untranslatable("__init__: the dispatch loop")
    it, tg = ast.unparse(loops[0].iter), loops[0].target
    if it == "self.params" and isinstance(tg, ast.Name):
        own = {tg.id: "converted"}
    elif it == "zip(p2calc, self.params)" and isinstance(tg, ast.Tuple) and len(tg.elts) == 2 and all(isinstance(e, ast.Name) for e in tg.elts) \
            and tg.elts[0].id != tg.elts[1].id:
        own = {tg.elts[0].id: "raw", tg.elts[1].id: "converted"}
    else:
        raise Untranslatable("__init__: dispatch loop header `for %s in %s`" % (ast.unparse(tg), it))
    lb = _strip(loops[0].body)
    if len(lb) != 2 or not (isinstance(lb[0], ast.Assign) and ast.unparse(lb[0].targets[0]) == "ftype" and isinstance(lb[0].value, ast.Subscript)
                            and isinstance(lb[0].value.value, ast.Name) and ast.unparse(lb[0].value.slice) == "'ftype'") or not isinstance(lb[1], ast.If):
        raise Untranslatable("__init__: body of the dispatch loop is not `ftype = X['ftype']; if ftype == ...`")
    for n in ast.walk(loops[0]):
        if isinstance(n, ast.Name) and isinstance(n.ctx, ast.Store) and n.id in own and n not in ast.walk(tg):
            raise Untranslatable("__init__: the loop variable %s is rebound inside the dispatch loop" % n.id)

    def whose(name, what):
        if name in own:
            return "own", own[name]
        if name == v1:
            return "stale", "raw"
        raise Untranslatable("__init__: %s is %s, neither the dispatch loop's component nor the first loop's" % (what, name))
    fam = whose(lb[0].value.value.id, "the component whose ftype is dispatched on")[0]
    chain, cur = [], lb[1]
    while True:
        t = cur.test
        if not (isinstance(t, ast.Compare) and len(t.ops) == 1 and isinstance(t.ops[0], ast.Eq)):
            raise Untranslatable("__init__: dispatch test %s" % ast.unparse(t))
        a, b = t.left, t.comparators[0]
        if isinstance(a, ast.Constant):
            a, b = b, a
        if not (isinstance(a, ast.Name) and a.id == "ftype" and isinstance(b, ast.Constant) and isinstance(b.value, str)):
            raise Untranslatable("__init__: dispatch test %s" % ast.unparse(t))
        bd = _strip(cur.body)
        if not (len(bd) == 1 and isinstance(bd[0], ast.Expr) and isinstance(bd[0].value, ast.Call) and isinstance(bd[0].value.func, ast.Attribute)
                and isinstance(bd[0].value.func.value, ast.Name) and bd[0].value.func.value.id == "self" and bd[0].value.args
                and isinstance(bd[0].value.args[0], ast.Name)):
            raise Untranslatable("__init__: branch %r is not a single self._make_xxx(<parameters>, ..)" % b.value)
        call = bd[0].value
        extra = [ast.unparse(x) for x in call.args[1:]] + ["%s=%s" % (k.arg, ast.unparse(k.value)) for k in call.keywords]
        if any(e not in ("values", "values=values") for e in extra):
            raise Untranslatable("__init__: branch %r passes %r" % (b.value, extra))
        chain.append((b.value, call.func.attr) + whose(call.args[0].id, "the parameter set given to %s" % call.func.attr))
        if len(cur.orelse) == 1 and isinstance(cur.orelse[0], ast.If):
            cur = cur.orelse[0]
        else:
            if not (len(_strip(cur.orelse)) == 1 and isinstance(_strip(cur.orelse)[0], ast.Raise)):
                raise Untranslatable("__init__: the dispatch chain does not end in `else: raise`")
            break
    if len(set(c[0] for c in chain)) != len(chain):
        raise Untranslatable("__init__: a type string is tested twice")
    # values given: the value-defined constructor (matched, not modelled here)
    unify(ast.parse(T_VALUES_BRANCH).body, second.orelse, {}, "__init__ values branch")
    # nothing else writes the modelled fields
    st = sorted(stores_of(fn))
    allowed = sorted(["axis", "axis", "params", "_is_composed", "_is_composed", "lamb", "temperature", "cutoff_time", "params.append",
                      "lamb", "temperature", "lamb"])
    if st != allowed:
        raise Untranslatable("__init__: fields written %r (expected %r)" % (st, allowed))
    return init, fam, chain


CF_FILE = """(* GENERATED on every run by harness/translate_c09.py from quantarhei/qm/corfunctions/correlationfunctions.py
   (CorrelationFunction.__init__ dispatch loops, the _make_xxx bookkeeping, _set_temperature_and_cutoff_time, __add__,
   __iadd__, add_to_data, add_to_data2) and spectraldensities.py (SpectralDensity.__add__, __iadd__, add_to_data,
   add_to_data2): the operands below are the code's. *)
From Coq Require Import ZArith List Bool QArith Lia String.
From QV Require Import Base.Alg Model.C09 Proofs.C09gen.
Import ListNotations.
Section Gen09.
Context {R : StarRing}.
Variable gen : nat -> @comp R -> R.
Variable lraw : @comp R -> R.      (* reorganisation energy of a component in the units in which it was declared *)
Open Scope sr_scope.
Notation cf := (@cf R).
Notation comp := (@comp R).

(* _set_temperature_and_cutoff_time; the unset temperature is the constant %(unset)s in the constructor and here *)
Definition g_settc (o : cf) (temperature : Z) (new_cutoff_time : Q) : option cf :=
  settc_skel o %(newT)s %(cmpT)s (qmax (cutoff o) %(cutE)s).
Lemma g_settc_is_model o t q : g_settc o t q = set_tc o t q.
Proof. reflexivity. Qed.

(* the makers: data through _add_me, reorganisation energy, then temperature / cut-off *)
%(makers)s
Definition g_make (f : nat) : cf -> comp -> R -> option cf :=
  match f with
%(make_cases)s  | _ => g_make_0
  end.
(* which component's ftype the dispatch loop reads, and whose parameters the maker of family f receives
   (own = the loop's component, stale = the one left over from the first loop) *)
Definition g_fam (own stale : comp) : nat := ftype %(fam)s.
Definition g_arg (f : nat) (own stale : comp) : comp :=
  match f with
%(arg_cases)s  | _ => own
  end.
Definition g_lam0 : R := %(lam0)s.
Definition g_t0 : option Z := %(t0)s.
Definition g_c0 : Q := %(c0)s.
Definition g_ctor : list comp -> option cf := ctor_skel gen g_lam0 g_t0 g_c0 0 g_fam g_arg g_make.
Definition g_dispatch : list (string * string) := [%(dispatch)s]%%string.
Lemma g_dispatch_is_expected : g_dispatch = expected_dispatch.
Proof. reflexivity. Qed.
(* true: the maker receives the component as it was submitted (it builds a SpectralDensity from it, which converts the
   parameters itself); false: the parameter set converted to internal units *)
Definition g_raw_form : list (string * bool) := [%(forms)s]%%string.
Lemma g_raw_form_is_expected : g_raw_form = expected_raw_form.
Proof. reflexivity. Qed.
(* a maker that receives the component as submitted converts the reorganisation energy itself; the others read it converted *)
Definition g_lamb_converted_in_maker : list (string * bool) := [%(lforms)s]%%string.
Lemma g_lamb_units_consistent : g_lamb_converted_in_maker = g_raw_form.
Proof. reflexivity. Qed.
Lemma g_ctor_is_model cs : known %(nfam)d%%nat cs -> g_ctor cs = ctor gen OwnFtype cs.
Proof.
  apply (ctor_skel_is_model gen %(nfam)d%%nat); try reflexivity.
  - intros f own stale Hf. do %(nfam)d (destruct f as [|f]; [reflexivity|]). lia.
  - intros f o c d Hf. do %(nfam)d (destruct f as [|f]; [reflexivity|]). lia.
Qed.

(* add_to_data / add_to_data2 / __add__ / __iadd__ *)
Definition g_atd (x y : cf) : option cf := atd_skel x %(a_ta)s %(a_tb)s %(a_d)s %(a_l)s (qmax (cutoff x) %(a_c)s) %(a_ps)s.
Lemma g_atd_is_model x y : g_atd x y = add_to_data x y.
Proof. unfold g_atd. apply atd_skel_is_model; first [reflexivity | left; split; reflexivity | right; split; reflexivity]. Qed.
Definition g_iadd (x y : cf) : cf * bool := iadd_skel x %(i_ta)s %(i_tb)s %(i_d)s %(i_l)s (qmax (cutoff x) %(i_c)s) %(i_ps)s.
Lemma g_iadd_is_model x y : g_iadd x y = iadd CheckThenMutate x y.
Proof. unfold g_iadd. apply iadd_skel_is_model; first [reflexivity | left; split; reflexivity | right; split; reflexivity]. Qed.
Definition g_iadd_self (x : cf) : option (cf * bool) := iadd_self_skel g_ctor g_iadd x %(is_src)s.
Lemma g_iadd_self_is_model x : known %(nfam)d%%nat (comps x) -> g_iadd_self x = iadd_self gen OwnFtype CheckThenMutate x.
Proof. intros H. unfold g_iadd_self. apply iadd_self_skel_is_model; [reflexivity|now apply g_ctor_is_model|apply g_iadd_is_model]. Qed.
Definition g_add (x y : cf) : option cf := add_skel g_ctor g_atd %(add_src)s %(add_rhs)s.
Lemma g_add_is_model x y : known %(nfam)d%%nat (comps x) -> g_add x y = add gen OwnFtype x y.
Proof. intros H. unfold g_add. apply add_skel_is_model; [reflexivity|reflexivity|now apply g_ctor_is_model|intros f; apply g_atd_is_model]. Qed.

(* SpectralDensity *)
Definition g_sd_atd (x y : cf) : cf := sd_atd_skel x %(s_d)s %(s_l)s %(s_ps)s.
Lemma g_sd_atd_is_model x y : g_sd_atd x y = sd_add_to_data x y.
Proof. unfold g_sd_atd. apply sd_atd_skel_is_model; reflexivity. Qed.
Definition g_sd_iadd (x y : cf) : cf := sd_atd_skel x %(s2_d)s %(s2_l)s %(s2_ps)s.
Lemma g_sd_iadd_is_model x y : g_sd_iadd x y = sd_add_to_data x y.
Proof. unfold g_sd_iadd. apply sd_atd_skel_is_model; reflexivity. Qed.
(* SpectralDensity.__init__: per component  temperature := T; the maker's bookkeeping; append of the converted set.
   Additive families: %(sd_tied)s; CP29 as it is (pinned: overwrites); Value-defined is not part of a lemma
   (its maker's signature does not take the parameter set: that branch raises) *)
%(sd_makers)s
Definition g_sd_step (f : nat) (o : cf) (c : comp) (d : R) : cf :=
  let o1 := mkCf (comps o) (lamb o) (Some (ctemp c)) (cutoff o) (data o) in
  let o2 := match f with
%(sd_cases)s            | _ => o1
            end in
  mkCf (comps o2 ++ [c]) (lamb o2) (temp o2) (cutoff o2) (data o2).
Definition g_sd_ctor : list comp -> option cf := sd_ctor_skel gen 0 0 (fun c => ftype c) g_sd_step.
Definition g_sd_dispatch : list (string * string) := [%(sd_dispatch)s]%%string.
Lemma g_sd_dispatch_is_expected : g_sd_dispatch = expected_sd_dispatch.
Proof. reflexivity. Qed.
Definition g_sd_raw_form : list (string * bool) := [%(sd_forms)s]%%string.
Lemma g_sd_raw_form_is_expected : g_sd_raw_form = expected_sd_raw_form.
Proof. reflexivity. Qed.
Lemma g_sd_ctor_is_model cs : tied [%(sd_idx)s] cs -> g_sd_ctor cs = sd_ctor gen cs.
Proof.
  apply (sd_ctor_skel_is_model gen [%(sd_idx)s]); try reflexivity.
  intros f o c d Hf. cbn [In] in Hf. repeat (destruct Hf as [<-|Hf]; [reflexivity|]). destruct Hf.
Qed.
(* CP29 as the code has it now (known finding): raw parameter set, data and reorganisation energy overwritten *)
Lemma g_sd_cp29_is_pinned_overwrite o c d : g_sd_step %(cp29_idx)s o c d = sd_make_one_cp29_pinned lraw o c d.
Proof. reflexivity. Qed.
Definition g_sd_add (sdctor : list comp -> option cf) (x y : cf) : option cf :=
  match sdctor %(sadd_src)s with Some f => Some (g_sd_atd f %(sadd_rhs)s) | None => None end.
Lemma g_sd_add_is_model sdctor x y : g_sd_add sdctor x y = sd_add sdctor x y.
Proof. unfold g_sd_add, sd_add. destruct (sdctor (comps x)); [rewrite g_sd_atd_is_model|]; reflexivity. Qed.
Definition g_sd_iadd_self (sdctor : list comp -> option cf) (x : cf) : option cf :=
  match sdctor %(s2_src)s with Some y => Some (g_sd_iadd x y) | None => None end.
Lemma g_sd_iadd_self_is_model sdctor x : g_sd_iadd_self sdctor x = sd_iadd_self sdctor x.
Proof. unfold g_sd_iadd_self, sd_iadd_self. destruct (sdctor (comps x)); [rewrite g_sd_iadd_is_model|]; reflexivity. Qed.
End Gen09.
"""


def static(repo):
    out, what = {}, []
    cfp, sdp = repo + CF, repo + SD
    # ---- _set_temperature_and_cutoff_time
    env = tmatch(_src_of(cfp, "CorrelationFunction._set_temperature_and_cutoff_time"), variants(T_SETTC), "_set_temperature_and_cutoff_time")
    unset = ast.unparse(env["H_unset"])
    for h in ("H_newT", "H_cmpT"):
        if not (isinstance(env[h], ast.Name) and env[h].id == "temperature"):
            raise Untranslatable("_set_temperature_and_cutoff_time: %s is %s" % (h, ast.unparse(env[h])))
    c = longer_cutoff(env, {}, "_set_temperature_and_cutoff_time")
    if not (isinstance(c, ast.Name) and c.id == "new_cutoff_time"):
        raise Untranslatable("_set_temperature_and_cutoff_time: compares %s" % ast.unparse(c))
    out.update(unset=unset, newT="temperature", cmpT="temperature", cutE="new_cutoff_time")
    what.append("correlationfunctions.py:CorrelationFunction._set_temperature_and_cutoff_time")
    # ---- __init__
    init, fam, chain = cf_init(repo)
    if ast.unparse(init["temperature"]) != unset:
        raise Untranslatable("the constructor starts with temperature %s, _set_temperature_and_cutoff_time takes %s for 'not set'"
                             % (ast.unparse(init["temperature"]), unset))
    lam0 = const0(init["lamb"], "__init__ lamb")
    if lam0 != 0:
        raise Untranslatable("__init__: lamb starts at %r" % lam0)
    out.update(lam0="0", t0="None", c0=qlit(const0(init["cutoff_time"], "__init__ cutoff_time")), fam=fam, nfam=len(chain))
    out["dispatch"] = "; ".join('("%s", "%s")' % (s, m) for s, m, _, _ in sorted(chain))       # compared with expected_dispatch by the lemma
    out["forms"] = "; ".join('("%s", %s)' % (s, "true" if f == "raw" else "false") for s, m, _, f in sorted(chain))
    out["arg_cases"] = "".join("  | %d%%nat => %s   (* %s: %s, %s parameters *)\n" % (k, a, s, m, f) for k, (s, m, a, f) in enumerate(chain))
    what.append("correlationfunctions.py:CorrelationFunction.__init__ (initial fields, parameter loop, dispatch loop)")
    # ---- makers
    mk, cases = [], []
    lforms = []
    for k, (s, m, a, f) in enumerate(chain):
        upd, tsrc, lconv = maker(cfp, "CorrelationFunction", m)
        lforms.append((s, lconv))
        mk.append("Definition g_make_%d (o : cf) (c : comp) (d : R) : option cf :=   (* %s *)\n"
                  "  g_settc (mkCf (comps o) %s (temp o) (cutoff o) (data o + d)) %s (ccut c).\n" % (k, m, upd, tsrc))
        cases.append("  | %d%%nat => g_make_%d\n" % (k, k))
        what.append("correlationfunctions.py:CorrelationFunction.%s (bookkeeping)" % m)
    out["makers"], out["make_cases"] = "".join(mk), "".join(cases)
    out["lforms"] = "; ".join('("%s", %s)' % (s, "true" if b else "false") for s, b in sorted(lforms))
    # ---- add_to_data, add_to_data2, __add__, __iadd__
    who = {"self": "x", "other": "y", "ocor": "y"}
    env = tmatch(_src_of(cfp, "CorrelationFunction.add_to_data"), variants(T_ATD), "add_to_data")
    out.update(a_ta=fexpr(env["H_ta"], who), a_tb=fexpr(env["H_tb"], who), a_d=fexpr(env["H_d"], who), a_l=fexpr(env["H_l"], who),
               a_c=fexpr(longer_cutoff(env, who, "add_to_data"), who), a_ps=fexpr(env["H_ps"], who))
    env = tmatch(_src_of(cfp, "CorrelationFunction.add_to_data2"), variants(T_ATD2), "add_to_data2")
    who2 = {"self": "x", "ocor": "y"}
    out.update(i_ta=fexpr(env["H_ta"], who2), i_tb=fexpr(env["H_tb"], who2), i_d=fexpr(env["H_d"], who2), i_l=fexpr(env["H_l"], who2),
               i_c=fexpr(longer_cutoff(env, who2, "add_to_data2"), who2), i_ps=fexpr(env["H_ps"], who2),
               is_src=rebuild_check(env, "CorrelationFunction", {"self": "x", "other": "x"}, "add_to_data2"))
    env = tmatch(_src_of(cfp, "CorrelationFunction.__add__"), [T_ADD], "__add__")
    out.update(add_src=rebuild_check(env, "CorrelationFunction", {"self": "x", "other": "y"}, "__add__"))
    if not (isinstance(env["H_rhs"], ast.Name) and env["H_rhs"].id in ("self", "other")):
        raise Untranslatable("__add__: adds %s" % ast.unparse(env["H_rhs"]))
    out["add_rhs"] = {"self": "x", "other": "y"}[env["H_rhs"].id]
    tmatch(_src_of(cfp, "CorrelationFunction.__iadd__"), [T_IADD], "__iadd__")
    what += ["correlationfunctions.py:CorrelationFunction." + n for n in ("add_to_data", "add_to_data2", "__add__", "__iadd__")]
    # ---- SpectralDensity
    env = tmatch(_src_of(sdp, "SpectralDensity.add_to_data"), [T_SD_ATD], "SpectralDensity.add_to_data")
    out.update(s_d=fexpr(env["H_d"], who), s_l=fexpr(env["H_l"], who), s_ps=fexpr(env["H_ps"], who))
    env = tmatch(_src_of(sdp, "SpectralDensity.add_to_data2"), [T_SD_ATD2], "SpectralDensity.add_to_data2")
    out.update(s2_d=fexpr(env["H_d"], who2), s2_l=fexpr(env["H_l"], who2), s2_ps=fexpr(env["H_ps"], who2),
               s2_src=rebuild_check(env, "SpectralDensity", {"self": "x", "other": "x"}, "SpectralDensity.add_to_data2"))
    env = tmatch(_src_of(sdp, "SpectralDensity.__add__"), [T_ADD], "SpectralDensity.__add__")
    out.update(sadd_src=rebuild_check(env, "SpectralDensity", {"self": "x", "other": "y"}, "SpectralDensity.__add__"))
    if not (isinstance(env["H_rhs"], ast.Name) and env["H_rhs"].id in ("self", "other")):
        raise Untranslatable("SpectralDensity.__add__: adds %s" % ast.unparse(env["H_rhs"]))
    out["sadd_rhs"] = {"self": "x", "other": "y"}[env["H_rhs"].id]
    tmatch(_src_of(sdp, "SpectralDensity.__iadd__"), [T_IADD], "SpectralDensity.__iadd__")
    # ---- SpectralDensity.__init__ and the makers of the tied families
    sdchain = sd_init(repo)
    smk, scases, sidx = [], [], []
    cp29_idx = None
    for k, (s_, m, a, f) in enumerate(sdchain):
        if a != "own":
            raise Untranslatable("SpectralDensity.__init__: %s receives a parameter set of another component" % m)
        if s_ in SD_TIED or s_ in SD_PINNED:
            lam_, dat_ = sd_maker(sdp, m, f)
            if s_ in SD_TIED:
                sidx.append(k)
            else:
                cp29_idx = k
            what.append("spectraldensities.py:SpectralDensity.%s (bookkeeping%s)" % (m, "" if s_ in SD_TIED else ", as it is: known finding"))
        else:
            lam_, dat_ = "(lamb o)", "(data o)"        # not part of a lemma
        smk.append("Definition g_sd_make_%d (o : cf) (c : comp) (d : R) : cf :=   (* %s%s *)\n"
                   "  mkCf (comps o) %s (temp o) (cutoff o) %s.\n" % (k, m, "" if s_ in SD_TIED + SD_PINNED else ", not in a lemma", lam_, dat_))
        scases.append("            | %d%%nat => g_sd_make_%d o1 c d\n" % (k, k))
    if cp29_idx is None:
        raise Untranslatable("SpectralDensity.__init__: CP29 is not dispatched")
    if sorted(s_ for s_, _, _, _ in sdchain if s_ in SD_TIED) != sorted(SD_TIED):
        raise Untranslatable("SpectralDensity.__init__: the tied families %r are not all dispatched" % (SD_TIED,))
    out.update(sd_makers="".join(smk), sd_cases="".join(scases), sd_idx="; ".join("%d%%nat" % k for k in sidx),
               sd_tied=", ".join(SD_TIED),
               sd_dispatch="; ".join('("%s", "%s")' % (s_, m) for s_, m, _, _ in sorted(sdchain)),
               sd_forms="; ".join('("%s", %s)' % (s_, "true" if f == "raw" else "false") for s_, m, _, f in sorted(sdchain)),
               cp29_idx="%d%%nat" % cp29_idx)
    what.append("spectraldensities.py:SpectralDensity.__init__ (loop: conversion, temperature, dispatch, append)")
    what += ["spectraldensities.py:SpectralDensity." + n for n in ("add_to_data", "add_to_data2", "__add__", "__iadd__")]
    return CF_FILE % out, what


if __name__ == "__main__":
    t, w = static(sys.argv[1] if len(sys.argv) > 1 else "/repo")
    sys.stdout.write(t)
    sys.stderr.write("\n".join(w) + "\n")
