#!/bin/sh
# usage: all_checks.sh [tier] [parallel]   -- every registered check against /repo, one summary line each (VERIF_SEED is honoured)
tier="${1:-quick}"; par="${2:-4}"
cd /verif || exit 2
out="/verif/.work/all_${tier}_${VERIF_SEED:-default}"; mkdir -p "$out"
for p in C01 C02 C03 C04 C05 C06 C07 C08 C09 C10 C11 C12 C13 C14 C15 C16 C17 C18 C19 C20; do echo $p; done | \
  xargs -P "$par" -I{} sh -c "./check {} --tier $tier > $out/{}.log 2>&1; echo \"{} rc=\$? \$(grep -c '^VIOLATION' $out/{}.log) violations: \$(tail -1 $out/{}.log | cut -c1-150)\""
