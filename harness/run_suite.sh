#!/bin/sh
# Runs the repository's baseline suite on a scratch worktree of /repo HEAD (removed afterwards) and
# compares with /root/.vp/BASELINE.json's stable_pass list. Prints the number of baseline tests that pass.
wt=/tmp/suite_wt_$$
git -C /repo worktree add -q --detach "$wt" HEAD || exit 2
mkdir -p /tmp/suite_home_$$
( cd "$wt" && HOME=/tmp/suite_home_$$ MPLBACKEND=Agg PYTHONPATH="$wt" timeout 3400 /venv/bin/python -m pytest -ra -q -p no:cacheprovider --timeout=900 --continue-on-collection-errors --junitxml=/tmp/suite_$$.xml > /tmp/suite_$$.log 2>&1 )
/venv/bin/python - <<PY
import json, xml.etree.ElementTree as ET
base = set(json.load(open('/root/.vp/BASELINE.json'))['stable_pass'])
passed = set()
for tc in ET.parse('/tmp/suite_$$.xml').getroot().iter('testcase'):
    if not any(ch.tag in ('failure','error','skipped') for ch in tc):
        passed.add(tc.get('classname','') + '::' + tc.get('name',''))
missing = sorted(base - passed)
print("baseline tests passing: %d / %d" % (len(base & passed), len(base)))
for m in missing: print("  MISSING", m)
PY
tail -2 /tmp/suite_$$.log
git -C /repo worktree remove --force "$wt"; rm -rf /tmp/suite_home_$$ /tmp/suite_$$.xml; mv /tmp/suite_$$.log /tmp/suite_last.log
