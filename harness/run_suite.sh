#!/bin/sh
# Runs the repository's baseline suite (the command of /root/.vp/BASELINE.json) in /repo itself and compares with the
# stable_pass list.  (A scratch worktree cannot be used for the full suite: the editable install maps the package
# `tests.unit` to /repo/tests/unit, so collecting another checkout ends in "import file mismatch" errors; `tests/unit` alone
# can be run in a worktree - that is what seed_confirm.sh does.)  The suite only writes ignored / untracked files in /repo.
mkdir -p /tmp/suite_home_$$
( cd /repo && HOME=/tmp/suite_home_$$ MPLBACKEND=Agg timeout 3400 /venv/bin/python -m pytest -ra -q -p no:cacheprovider --timeout=900 --continue-on-collection-errors --junitxml=/tmp/suite_$$.xml > /tmp/suite_$$.log 2>&1 )
/venv/bin/python - <<PY
import json, xml.etree.ElementTree as ET
base = set(json.load(open('/root/.vp/BASELINE.json'))['stable_pass'])
passed = set()
for tc in ET.parse('/tmp/suite_$$.xml').getroot().iter('testcase'):
    if not any(ch.tag in ('failure','error','skipped') for ch in tc):
        passed.add(tc.get('classname','') + '::' + tc.get('name',''))
missing = sorted(base - passed)
print("baseline tests passing: %d / %d" % (len(base & passed), len(base)))
for m in missing: print("  MISSING", m)
PY
tail -2 /tmp/suite_$$.log
rm -rf /tmp/suite_home_$$ /tmp/suite_$$.xml; mv /tmp/suite_$$.log /tmp/suite_last.log
git -C /repo status --short
