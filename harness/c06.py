# -*- coding: utf-8 -*-
"""C06 - rates and bath functions obey detailed balance and conserve probability.

Proof: coq/theories/Props/C06.v.
Tie: (1) ssRedfieldRateMatrix (python implementation and the dispatching wrapper) on integer KI, cc, rtol with negative bath
values that exercise the clamp, compared exactly (matrix and both werror flags) with Model.C06.ss_rate over Z;
(2) foersterrates._reference_implementation with the Foerster integral replaced by an integer table, exactly;
(3) RedfieldRateMatrix end to end on random aggregates: the run's own eigh output, interaction operators, spline values
cw_k.at(w) and Boltzmann factors are handed to Model.C06.redfield_rates (rationals; keyed by the exact transition frequency)
which must reproduce .data within 1e-11 of its largest element.
Monitors: zero column sums, non-negative off-diagonals, no ground-state transfer, detailed balance between eigenstates
(1e-11 relative), golden-rule value (1+coth(w/2kT)) J(w) for downhill rates of the rate matrix and of the Redfield tensor in
the eigenbasis (tolerance from the time grid and from the truncated Matsubara series, computed per case), Foerster column
sums / detailed balance w.r.t. relaxed site energies (2e-2 relative + quadrature floor 5e-3 |H_ab|^2 x envelope of the integrand, T >= 200 K), oddness of the three analytic
spectral densities, C(-w) = exp(-w/kT) C(w) on every grid point of get_FTCorrelationFunction, tanh/exp oracle relation.
Further ties (with the static tie): (4) the Foerster reference implementation with the integral replaced by an integer function of all
five arguments (roles of donor/acceptor energy and reorganisation energy) against Model.C06.foerster_F; (5) the temperature that
get_FTCorrelationFunction uses for stored / missing / overriding temperatures of one to three components against ft_temperature;
(6) its values on frequency grids with and without a zero point against ftcf_grid fed numpy's tanh (1e-12 relative plus
4e-15 |J| (1 + 1/|tanh|) for the cancellation in 1 + 1/tanh at negative frequencies).
(7) requests for the Fourier-transformed correlation function and the correlation function made directly inside energy-units contexts
(1/cm, eV, THz, meV) for spectral densities created inside or outside such contexts: equal (1e-11) to the request outside any context
and, for the former, C(-w) = exp(-w/kT) C(w); the grid cases of (6) are also requested inside such contexts and carry their own
monitors (float formula, detailed balance on exactly symmetric grids), so that a broken correspondence comes with a failing input.
Static tie: harness/translate_c06.py (see there).
"""
import os
import sys
import json
import math
from fractions import Fraction

sys.path.insert(0, os.path.dirname(os.path.abspath(__file__)))
import common as cm

PID = "C06"
work = cm.reexec_isolated(PID)
args = cm.parse_args(sys.argv[1:])


def fr(x):
    return Fraction(*float(x).as_integer_ratio())


# ------------------------------------------------------------------ generators
def gen_ss(r, k):
    Na = r.choice([1, 2, 3, 3, 4, 5])
    Nk = r.choice([1, 1, 2, 3])
    sym = r.random() < 0.6
    KI = []
    for _ in range(Nk):
        A = [[r.randint(-3, 3) for _ in range(Na)] for _ in range(Na)]
        if sym:
            A = [[A[min(i, j)][max(i, j)] for j in range(Na)] for i in range(Na)]
        KI.append(A)
    neg = r.random() < 0.5
    cc = [[[r.randint(-3 if neg else 0, 6) for _ in range(Na)] for _ in range(Na)] for _ in range(Nk)]
    if r.random() < 0.2:
        RR0 = [[r.randint(-2, 3) for _ in range(Na)] for _ in range(Na)]
    else:
        RR0 = [[0] * Na for _ in range(Na)]
    rtol = r.choice([1e-6, 2.5, 10.5, 40.0])
    return {"kind": "ss", "Na": Na, "Nk": Nk, "KI": KI, "cc": cc, "RR0": RR0, "rtol": rtol, "wrapper": r.random() < 0.2}


def gen_fo(r, k):
    Na = r.choice([2, 3, 4, 5])
    HH = [[r.randint(-4, 4) for _ in range(Na)] for _ in range(Na)]
    F = [[r.randint(-2, 9) for _ in range(Na)] for _ in range(Na)]
    return {"kind": "fo", "Na": Na, "HH": HH, "F": F}


def gen_sys(r, low_t=True, composite=True):
    nmol = r.choice([2, 2, 3, 3, 4])
    mols = []
    for i in range(nmol):
        mols.append({"e": 12000.0 + r.uniform(-400, 400), "reorg": r.choice([10.0, 30.0, 60.0, 120.0]) * (0.5 + r.random()),
                     "cortime": r.choice([50.0, 100.0, 200.0])})
    coup = []
    for i in range(nmol):
        for j in range(i + 1, nmol):
            if r.random() < 0.85:
                coup.append([i, j, r.choice([30.0, 100.0, 250.0, -120.0]) * r.uniform(0.3, 1.0)])
    T = r.choice([77.0, 150.0, 200.0, 300.0, 300.0, 400.0]) if low_t else r.choice([200.0, 300.0, 400.0])
    if r.random() < 0.15:
        mols[1]["e"] = mols[0]["e"]                      # degenerate site energies
    # composite baths: further components (overdamped with another correlation time, underdamped Brownian mode), put together
    # either as a list of parameter sets or by in-place addition of CorrelationFunction objects
    for m in mols:
        if composite and r.random() < 0.6:
            extra = []
            for _ in range(r.choice([1, 1, 2])):
                if r.random() < 0.6:
                    extra.append({"ftype": "OverdampedBrownian", "reorg": r.choice([8.0, 20.0, 50.0]) * (0.5 + r.random()),
                                  "cortime": r.choice([40.0, 150.0, 200.0])})
                else:
                    extra.append({"ftype": "UnderdampedBrownian", "reorg": r.choice([5.0, 15.0, 40.0]) * (0.5 + r.random()),
                                  "freq": r.choice([120.0, 250.0, 500.0]), "gamma": r.choice([30.0, 60.0, 100.0])})
            m["extra"] = extra
            m["how"] = r.choice(["list", "add", "add_first"])
    dt = r.choice([1.0, 0.5])
    taus = [m["cortime"] for m in mols] + [x.get("cortime", 180.0) for m in mols for x in m.get("extra", [])]
    window = 10.0 * max(taus) * r.choice([1.0, 1.5])      # the time axis resolves the bath: >= 10 correlation times
    return {"mols": mols, "coup": coup, "T": T, "Nt": int(window / dt), "dt": dt, "matsubara": r.choice([10, 10, 40])}


def gen_sd(r, k):
    ftype = r.choice(["OverdampedBrownian", "UnderdampedBrownian", "Underdamped"])
    p = {"ftype": ftype, "reorg": r.choice([10.0, 30.0, 100.0]) * (0.5 + r.random()), "T": r.choice([20.0, 77.0, 300.0, 500.0])}
    if ftype == "OverdampedBrownian":
        p["cortime"] = r.choice([30.0, 100.0, 300.0])
    else:
        p["freq"] = r.choice([100.0, 300.0, 800.0])
        p["gamma"] = r.choice([20.0, 50.0, 150.0])
    mode = r.choice(["stored", "override", "override", "noT", "equal"])
    treq = r.choice([t for t in [20.0, 77.0, 150.0, 300.0, 500.0] if t != p["T"]])
    return {"kind": "sd", "params": p, "Nt": r.choice([200, 500, 1001, 3000, 3000]), "dt": r.choice([1.0, 2.0, 0.5]), "dyadic": r.random() < 0.4,
            "mode": mode, "Treq": treq}


def gen_fo2(r, k):
    Na = r.choice([2, 3, 4, 5])
    HH = [[r.randint(-4, 4) for _ in range(Na)] for _ in range(Na)]
    return {"kind": "fo2", "Na": Na, "HH": HH, "ll": [r.randint(0, 3) for _ in range(Na)]}


def gen_ftT(r, k):
    n = r.choice([1, 1, 2, 2, 3])
    temps = [77.0, 150.0, 300.0, 300.0]
    base = r.choice(temps)
    stored = []
    for _ in range(n):
        u = r.random()
        stored.append(None if u < 0.15 else (base if u < 0.75 else r.choice(temps)))
    arg = None if r.random() < 0.5 else r.choice(temps)
    return {"kind": "ftT", "stored": stored, "arg": arg}


UNITS = ["1/cm", "eV", "THz", "meV"]


def gen_sdu(r, k):
    """a spectral density created inside some energy-units context (or outside any: internal units) whose Fourier-transformed
    correlation function / correlation function is requested directly inside another non-internal context"""
    c = gen_sd(r, k)
    c["kind"] = "sdu"
    c["dyadic"] = False
    c["mode"] = r.choice(["stored", "stored", "override"])
    c["create_units"] = r.choice(UNITS + ["1/cm", None])
    c["call_units"] = r.choice(UNITS)
    c["route"] = r.choice(["ft", "ft", "cf"])
    return c


def gen_ftg(r, k):
    ftype = r.choice(["OverdampedBrownian", "UnderdampedBrownian", "Underdamped"])
    p = {"ftype": ftype, "reorg": r.choice([10.0, 30.0, 100.0]) * (0.5 + r.random()), "T": r.choice([20.0, 77.0, 300.0, 500.0])}
    if ftype == "OverdampedBrownian":
        p["cortime"] = r.choice([30.0, 100.0, 300.0])
    else:
        p["freq"] = r.choice([100.0, 300.0, 800.0])
        p["gamma"] = r.choice([20.0, 50.0, 150.0])
    # offset of the grid against zero in units of the step: 0 -> zero is a grid point (L'Hospital branch); a tiny offset below the
    # code's atol = 1e-7 still takes that branch; anything larger evaluates the formula everywhere
    return {"kind": "ftg", "params": p, "nh": r.choice([8, 20, 64]), "step": r.choice([2.0 ** -9, 2.0 ** -7, 3e-3]),
            "offset": r.choice([0.0, 0.0, 0.0, 0.25, 0.5, 1e-6, -1e-6, -1e-6]), "arg": r.choice([None, None, 150.0]),
            "call_units": r.choice([None, None] + UNITS)}


# ------------------------------------------------------------------ exact kernels
def run_ss(chk, c, items, meta):
    import numpy
    from quantarhei.implementations.python.redfieldrates import ssRedfieldRateMatrix as ss_py
    from quantarhei.qm.liouvillespace.rates.redfieldrates import ssRedfieldRateMatrix as ss_wrap
    Na, Nk = c["Na"], c["Nk"]
    KI = numpy.array(c["KI"], dtype=float).reshape(Nk, Na, Na)
    cc = numpy.array(c["cc"], dtype=float).reshape(Nk, Na, Na)
    RR = numpy.array(c["RR0"], dtype=float).reshape(Na, Na)
    werror = numpy.zeros(2, dtype=numpy.int8)
    (ss_wrap if c["wrapper"] else ss_py)(Na, Nk, KI, cc, c["rtol"], werror, RR)
    chk.count("ss:" + ("wrapper" if c["wrapper"] else "python"))
    RR0 = numpy.array(c["RR0"], dtype=float).reshape(Na, Na)
    if not numpy.array_equal(RR.sum(axis=0), numpy.diag(RR0)):
        chk.violation("ssRedfieldRateMatrix:colsum", "column sums %s differ from the initial diagonal %s" %
                      (RR.sum(axis=0).tolist(), numpy.diag(RR0).tolist()), "monitor", c)
    symm = all(numpy.array_equal(KI[k], KI[k].T) for k in range(Nk))
    offd = RR - numpy.diag(numpy.diag(RR))
    if symm and (cc >= 0).all() and not RR0.any() and (offd < 0).any():
        chk.violation("ssRedfieldRateMatrix:negative", "negative transfer rate from non-negative bath values and symmetric operators",
                      "monitor", c)
    clamped = bool(werror[0] == -1)
    chk.count("ss:clamp_path" if clamped else "ss:plain")
    p, q = float(c["rtol"]).as_integer_ratio()
    lit = "(%d%%nat, %d%%nat, %s, %s, %s, (%s,%s), %s, %s, %s)" % (
        Na, Nk, cm.clist([cm.mat_lit(A, cm.zlit) for A in c["KI"]]), cm.clist([cm.mat_lit(A, cm.zlit) for A in c["cc"]]),
        cm.mat_lit(c["RR0"], cm.zlit), cm.zlit(p), cm.zlit(q), cm.mat_lit(RR.astype(int).tolist(), cm.zlit),
        "true" if werror[0] == -1 else "false", "true" if werror[1] == -1 else "false")
    if not numpy.array_equal(RR, numpy.round(RR)):
        raise AssertionError("non-integer result from integer input")
    items.append(lit)
    meta.append(c)
    chk.case(c, Na >= 2, sample={"case": c, "RR": RR.tolist(), "werror": werror.tolist()})


def run_fo(chk, c, items, meta):
    import numpy
    from quantarhei.qm.liouvillespace.rates import foersterrates as fm
    Na = c["Na"]
    F = c["F"]
    orig = fm._fintegral
    # the acceptor/donor index is carried by the first element of the (otherwise unused) line-shape rows
    fm._fintegral = lambda tt, gtd, gta, ed, ea, ld: float(F[int(gtd[0].real)][int(gta[0].real)])
    try:
        gt = numpy.array([[a] for a in range(Na)], dtype=numpy.complex64)
        KK = fm._reference_implementation(Na, numpy.array(c["HH"], dtype=float), numpy.zeros(1), gt, numpy.zeros(Na))
    finally:
        fm._fintegral = orig
    if numpy.abs(KK.sum(axis=0)).max() != 0.0:
        chk.violation("foerster:colsum", "column sums %s" % KK.sum(axis=0).tolist(), "monitor", c)
    items.append("(%d%%nat, %s, %s, %s)" % (Na, cm.mat_lit(c["HH"], cm.zlit), cm.mat_lit(F, cm.zlit), cm.mat_lit(KK.astype(int).tolist(), cm.zlit)))
    meta.append(c)
    chk.count("fo:exact")
    chk.case(c, True, sample={"case": c, "KK": KK.tolist()})


def run_fo2(chk, c, items, meta):
    """_reference_implementation with _fintegral replaced by an integer function of ALL its arguments (which line-shape function,
    which energy, which reorganisation energy goes where), against Model.C06.foerster_F"""
    import numpy
    from quantarhei.qm.liouvillespace.rates import foersterrates as fm
    Na = c["Na"]
    orig = fm._fintegral
    fm._fintegral = lambda tt, gtd, gta, ed, ea, ld: float(int(gtd[0].real) + 10 * int(gta[0].real) + 100 * ed + 1000 * ea + 10000 * ld)
    try:
        gt = numpy.array([[a] for a in range(Na)], dtype=numpy.complex64)
        KK = fm._reference_implementation(Na, numpy.array(c["HH"], dtype=float), numpy.zeros(1), gt, numpy.array(c["ll"], dtype=float))
    finally:
        fm._fintegral = orig
    if not numpy.array_equal(KK, numpy.round(KK)):
        raise AssertionError("non-integer result from integer input")
    items.append("(%d%%nat, %s, %s, %s)" % (Na, cm.mat_lit(c["HH"], cm.zlit), cm.clist([cm.zlit(x) for x in c["ll"]]),
                                           cm.mat_lit(KK.astype(int).tolist(), cm.zlit)))
    meta.append(c)
    chk.count("fo:argument_roles")
    chk.case(c, True, sample={"case": c, "KK": KK.tolist()})


def _qopt(x):
    return "None" if x is None else "(Some %s)" % cm.qlit(x)


def run_ftT(chk, c, items, meta):
    """which temperature get_FTCorrelationFunction uses (or that it raises), against Model.C06.ft_temperature"""
    import quantarhei as qr
    ax = qr.TimeAxis(0.0, 100, 1.0)
    plist = []
    for t in c["stored"]:
        p = {"ftype": "OverdampedBrownian", "reorg": 20.0, "cortime": 100.0}
        if t is not None:
            p["T"] = t
        plist.append(p)
    with qr.energy_units("1/cm"):
        sd = qr.SpectralDensity(ax, plist if len(plist) > 1 else plist[0])
    try:
        ft = sd.get_FTCorrelationFunction() if c["arg"] is None else sd.get_FTCorrelationFunction(temperature=c["arg"])
        prm = ft.params if isinstance(ft.params, (list, tuple)) else [ft.params]
        ts = set(float(p["T"]) for p in prm)
        if len(ts) != 1:
            chk.violation("ftcf:temperature_mixed", "components of the result carry the temperatures %s" % sorted(ts), "monitor", c)
        res = ts.pop()
        chk.count("ftT:ok")
    except Exception:
        res = None
        chk.count("ftT:raises")
    if c["arg"] is not None and res != c["arg"]:
        chk.violation("ftcf:temperature_argument", "get_FTCorrelationFunction(temperature=%r) on stored temperatures %r used %r" %
                      (c["arg"], c["stored"], res), "monitor", c)
    items.append("(%s, %s, %s)" % (_qopt(c["arg"]), cm.clist([_qopt(t) for t in c["stored"]]), _qopt(res)))
    meta.append(c)
    chk.case(c, True)


def _in_units(u):
    import contextlib
    import quantarhei as qr
    return contextlib.nullcontext() if u is None else qr.energy_units(u)


def run_ftg(chk, c, items, meta):
    """the values of get_FTCorrelationFunction on grids with and without a zero point, requested outside or inside an energy-units
    context, against Model.C06.ftcf_grid fed numpy's tanh; everything is read back outside any context (internal units).
    Monitors on the same case: the float formula (1 + 1/tanh(w/2kT)) J(w) resp. the symmetric-difference limit at zero, and
    C(-w) = exp(-w/kT) C(w) on exactly symmetric grids."""
    import numpy
    import quantarhei as qr
    from quantarhei.core.units import kB_int
    p = dict(c["params"])
    nh, st = c["nh"], c["step"]
    ax = qr.FrequencyAxis(-nh * st + c["offset"] * st, 2 * nh, st)
    with qr.energy_units("1/cm"):
        sd = qr.SpectralDensity(ax, p)
    T = p["T"] if c["arg"] is None else c["arg"]
    cu = c.get("call_units")
    with _in_units(cu):
        ft = sd.get_FTCorrelationFunction() if c["arg"] is None else sd.get_FTCorrelationFunction(temperature=c["arg"])
    vals = numpy.array(ft.data, dtype=float)
    w = numpy.array(sd.axis.data, dtype=float)
    d = numpy.array(sd.data, dtype=float)
    # which branch the code takes is its own comparison |diff| > atol, made in internal units whatever the units current at the call
    with qr.energy_units("int"):
        i0, diff = sd.axis.locate(0.0)
    direct = bool(abs(diff) > 1.0e-7)
    chk.count("ftg:" + ("direct" if direct else "zero_point") + (":offset" if c["offset"] else ""))
    chk.count("ftg:called_in:" + str(cu))
    twokbt = 2.0 * kB_int * T
    what = "get_FTCorrelationFunction(%s) of SpectralDensity(%s) called inside energy_units(%r)" % (
        "" if c["arg"] is None else "temperature=%r" % c["arg"], p["ftype"], cu)
    if not numpy.isfinite(vals).all():
        chk.violation("ftcf:not_finite", "%s returned non-finite values (grid offset %r)" % (what, c["offset"]), "monitor", c)
        chk.case(c, False)
        return
    if not (1 <= i0 < len(w) - 1):
        chk.case(c, False)
        return
    with numpy.errstate(divide="ignore", invalid="ignore"):
        th = numpy.tanh(w / twokbt)
        want = (1.0 + 1.0 / th) * d
    if not direct:
        want[i0] = twokbt * (d[i0 + 1] - d[i0 - 1]) / (2.0 * float(sd.axis.step))
    tolf = 1e-9 * numpy.abs(want) + 1e-13 * numpy.abs(d) * (1.0 + 1.0 / numpy.maximum(numpy.abs(th), 1e-300))
    badf = numpy.abs(vals - want) > tolf
    if badf.any():
        j = int(numpy.argmax(numpy.abs(vals - want) - tolf))
        chk.violation("ftcf:formula", "%s: value %r at w = %r (internal units) where (1 + coth(w/2kT)) J(w) = %r for T = %g K" %
                      (what, vals[j], w[j], want[j], T), "monitor", c)
    if not direct:
        m = min(i0, len(w) - 1 - i0)
        pos = numpy.arange(i0 + 1, i0 + m + 1)
        neg = 2 * i0 - pos
        if numpy.abs(w[pos] + w[neg]).max() == 0.0:
            e = numpy.exp(-w[pos] / (twokbt / 2.0))
            dev = numpy.abs(vals[neg] - e * vals[pos])
            ref = 1e-9 * numpy.abs(vals[pos]) + 1e-13 * numpy.abs(d[pos]) * (1.0 + 1.0 / numpy.abs(th[pos]))
            chk.count("ftg:detailed_balance_checked")
            if (dev > ref).any():
                j = int(numpy.argmax(dev - ref))
                chk.violation("ftcf:detailed_balance", "%s: C(-w) = %r, exp(-w/kT) C(w) = %r at w = %r for T = %g K" %
                              (what, vals[neg][j], (e * vals[pos])[j], w[pos][j], T), "monitor", c)
    idx = sorted(set([0, 1, i0 - 2, i0 - 1, i0, i0 + 1, i0 + 2, len(w) - 2, len(w) - 1] + list(range(3, len(w), max(1, len(w) // 9)))))
    idx = [i for i in idx if 0 <= i < len(w)]
    rows = ["(%d%%nat, %s, %s, %s, %s)" % (i, cm.qlit(w[i]), cm.qlit(d[i]), cm.qlit(th[i]) if th[i] != 0.0 else cm.qlit(1.0), cm.qlit(vals[i])) for i in idx]
    items.append("(%s, %s, %d%%nat, %s, %s)" % (cm.qlit(twokbt), cm.qlit(float(sd.axis.step)), i0, "true" if direct else "false", cm.clist(rows)))
    meta.append(c)
    chk.case(c, True)


def run_sdu(chk, c):
    """requests made directly inside a non-internal energy-units context, for objects created inside / outside such contexts:
    the result, read in internal units, must be the one obtained without any context, and obey C(-w) = exp(-w/kT) C(w)"""
    import numpy
    import quantarhei as qr
    from quantarhei.core.units import kB_int, conversion_facs_energy as fac
    p = dict(c["params"])
    cr, cu = c["create_units"], c["call_units"]
    conv = fac["1/cm"] / (1.0 if cr is None else fac[cr])       # the nominal values are in 1/cm
    for key in ("reorg", "freq", "gamma"):
        if key in p:
            p[key] = p[key] * conv
    T0 = p["T"]
    Tj = T0 if c["mode"] == "stored" else c["Treq"]
    targ = None if c["mode"] == "stored" else Tj
    ax = qr.TimeAxis(0.0, c["Nt"], c["dt"])

    def make_sd():
        with _in_units(cr):
            return qr.SpectralDensity(ax, dict(p))

    def request(sd):
        if c["route"] == "ft":
            return sd.get_FTCorrelationFunction() if targ is None else sd.get_FTCorrelationFunction(temperature=targ)
        return sd.get_CorrelationFunction() if targ is None else sd.get_CorrelationFunction(temperature=targ)
    chk.count("sdu:%s:created_in:%s" % (c["route"], cr))
    chk.count("sdu:called_in:%s" % cu)
    what = "%s of SpectralDensity(%s) created inside energy_units(%r), requested inside energy_units(%r)" % (
        "get_FTCorrelationFunction" if c["route"] == "ft" else "get_CorrelationFunction", p["ftype"], cr, cu)
    ref = request(make_sd())
    sd1 = make_sd()
    with _in_units(cu):
        got = request(sd1)
    r0 = numpy.array(ref.data)
    g0 = numpy.array(got.data)
    sc = float(numpy.abs(r0).max()) + 1e-300
    if g0.shape != r0.shape or not numpy.isfinite(g0).all() or numpy.abs(g0 - r0).max() > 1e-11 * sc:
        j = int(numpy.argmax(numpy.abs(g0 - r0))) if g0.shape == r0.shape else 0
        chk.violation("units_context:" + c["route"], "%s: value %r at axis point %r (internal units) where the same request outside any "
                      "context gives %r (T = %g K)" % (what, g0.flat[j] if g0.size else None, float(numpy.array(got.axis.data)[j]), r0.flat[j], Tj),
                      "monitor", c)
    if numpy.abs(numpy.array(got.axis.data) - numpy.array(ref.axis.data)).max() > 0.0:
        chk.violation("units_context:axis", "%s: the axis of the result differs from the one obtained outside any context" % what, "monitor", c)
    if c["route"] == "ft":
        w = numpy.array(got.axis.data, dtype=float)
        f = numpy.real(g0).astype(float)
        i0 = int(numpy.argmin(numpy.abs(w)))
        m = min(i0, len(w) - 1 - i0)
        pos = numpy.arange(i0 + 1, i0 + m + 1)
        neg = 2 * i0 - pos
        kT = kB_int * Tj
        sel = w[pos] < 20.0 * kT
        e = numpy.exp(-w[pos] / kT)
        # the grid is symmetric up to rounding of start + k*step: allow for the slope of C(w) times the asymmetry (finite differences)
        asy = numpy.abs(w[pos] + w[neg])
        slope = numpy.abs(numpy.gradient(f, w))
        tol = 1e-9 * numpy.abs(f[pos]) + 4.0 * asy * (numpy.maximum(slope[pos], slope[neg]) + numpy.abs(f[pos]) / kT)
        dev = numpy.abs(f[neg] - e * f[pos])
        if (dev[sel] > tol[sel] + 1e-300).any():
            j = int(numpy.argmax((dev - tol) * sel))
            chk.violation("ftcf:detailed_balance", "%s: C(-w) = %r, exp(-w/kT) C(w) = %r at w = %r for the requested T = %g K" %
                          (what, f[neg][j], (e * f[pos])[j], w[pos][j], Tj), "monitor", c)
    elif got.get_temperature() != Tj:
        chk.violation("sd2cf:temperature", "%s reports temperature %r, requested %r" % (what, got.get_temperature(), Tj), "monitor", c)
    chk.case({k: v for k, v in c.items() if not k.startswith("_")}, True)


# ------------------------------------------------------------------ real aggregates
_CACHE = {}


def build(s):
    import quantarhei as qr
    key = json.dumps(s, sort_keys=True)
    if key in _CACHE:
        return _CACHE[key]
    ta = qr.TimeAxis(0.0, s["Nt"], s["dt"])
    mols = []
    with qr.energy_units("1/cm"):
        for m in s["mols"]:
            mol = qr.Molecule([0.0, m["e"]])
            plist = [dict(ftype="OverdampedBrownian", reorg=m["reorg"], cortime=m["cortime"], T=s["T"], matsubara=s["matsubara"])]
            for x in m.get("extra", []):
                px = dict(x)
                px["T"] = s["T"]
                if px["ftype"] == "OverdampedBrownian":
                    px["matsubara"] = s["matsubara"]
                plist.append(px)
            how = m.get("how", "list")
            if len(plist) == 1:
                cf = qr.CorrelationFunction(ta, plist[0])
            elif how == "list":
                cf = qr.CorrelationFunction(ta, plist)
            elif how == "add":
                cf = qr.CorrelationFunction(ta, plist[0])
                for px in plist[1:]:
                    cf += qr.CorrelationFunction(ta, px)
            else:                                   # the first component is the one that is added last
                cf = qr.CorrelationFunction(ta, plist[-1])
                for px in plist[-2::-1]:
                    cf += qr.CorrelationFunction(ta, px)
            mol.set_transition_environment((0, 1), cf)
            mols.append(mol)
        agg = qr.Aggregate(molecules=mols)
        for (i, j, v) in s["coup"]:
            agg.set_resonance_coupling(i, j, v)
    agg.build()
    _CACHE.clear()
    _CACHE[key] = (agg, ta)
    return agg, ta


def ft_reference(w, lam, tc, kT, nm, dt, window):
    """(1+coth(w/2kT)) J(w) for the overdamped Brownian oscillator, the same from the series with nm Matsubara terms (what the
    code's C(t) contains), and an estimate of the error of a second-order (trapezoid-like) transform with step dt:
    dt^2/6 |Re C'(0+)|"""
    g = 1.0 / tc
    J = (2.0 * lam * g) * w / (w * w + g * g)
    full = (1.0 + 1.0 / math.tanh(w / (2.0 * kT))) * J
    c0 = (lam * g) / math.tan(g / (2.0 * kT))
    tr = 2.0 * c0 * g / (g * g + w * w) + J
    slope = c0 * g
    nut = 2.0 * math.pi * kT
    for n in range(1, nm + 1):
        cn = (4.0 * lam * kT * g) * nut * n / ((nut * n) ** 2 - g * g)
        tr += 2.0 * cn * (nut * n) / ((nut * n) ** 2 + w * w)
        slope += cn * nut * n
    gerr = dt * dt / 6.0 * abs(slope)                          # second-order quadrature, cusp of C(t) at t = 0
    gerr += 4.0 * abs(c0) * tc * math.exp(-window / tc)        # part of C(t) beyond the time axis
    gerr += 0.1 * (math.pi / window * tc) ** 4 * abs(full)     # cubic spline between frequency grid points (spacing pi/window)
    return full, tr, gerr


def comp_reference(w, prm, kT, nm, dt, window):
    """reference value, truncated-model value and numerical error estimate of the Fourier-transformed correlation function
    of ONE component (parameters in internal units as stored in CorrelationFunction.params)"""
    if prm["ftype"] == "OverdampedBrownian":
        return ft_reference(w, float(prm["reorg"]), float(prm["cortime"]), kT, int(prm.get("matsubara", nm)), dt, window)
    # underdamped Brownian mode: the time-domain data are the inverse FFT of (1+coth) J, so that the transform returns to it
    lam, w0, g = float(prm["reorg"]), float(prm["freq"]), float(prm["gamma"])
    J = 2.0 * lam * g * w0 * w0 * w / ((w * w - w0 * w0) ** 2 + w * w * g * g)
    full = (1.0 + 1.0 / math.tanh(w / (2.0 * kT))) * J
    peak = (1.0 + 1.0 / math.tanh(w0 / (2.0 * kT))) * 2.0 * lam * w0 / g
    gerr = 1e-3 * abs(full) + 1e-4 * peak + 4.0 * peak * math.exp(-window * g / 2.0)
    return full, full, gerr


def site_components(cf):
    prm = cf.params
    return list(prm) if isinstance(prm, (list, tuple)) else [prm]


def run_rf(chk, c, items, meta):
    import numpy
    import quantarhei as qr
    from quantarhei.core.units import kB_intK, cm2int
    from quantarhei.qm.liouvillespace.rates.redfieldrates import RedfieldRateMatrix
    s = c["sys"]
    agg, ta = build(s)
    H = agg.get_Hamiltonian()
    sbi = agg.get_SystemBathInteraction()
    K = numpy.array(RedfieldRateMatrix(H, sbi).data)
    Na = K.shape[0]
    Nk = sbi.N
    T = s["T"]
    kT = kB_intK * T
    hD, SS = numpy.linalg.eigh(H._data)
    S1 = numpy.linalg.inv(SS)
    chk.count("rf:N=%d" % (Na - 1))
    chk.count("rf:T=%g" % T)
    for m in s["mols"]:
        chk.count("rf:bath:" + ("single" if not m.get("extra") else m["how"] + ":" + "+".join(sorted(set(x["ftype"][:5] for x in m["extra"])))))
    what = "RedfieldRateMatrix (N=%d, T=%g K)" % (Na - 1, T)
    scale = float(numpy.abs(K).max()) + 1e-300
    # ---- monitors
    cs = numpy.abs(K.sum(axis=0)).max()
    if cs > 1e-14 * scale:
        chk.violation("redfield:colsum", "%s: column sums up to %g (largest element %g)" % (what, cs, scale), "monitor", c)
    offd = K - numpy.diag(numpy.diag(K))
    if offd.min() < 0.0:
        chk.violation("redfield:negative", "%s: negative transfer rate %g" % (what, offd.min()), "monitor", c)
    if numpy.abs(K[0, :]).max() != 0.0 or numpy.abs(K[:, 0]).max() != 0.0:
        chk.violation("redfield:ground", "%s: transfer to/from the ground state: row %s column %s" % (what, K[0, :].tolist(), K[:, 0].tolist()),
                      "monitor", c)
    cut = 3000.0 * cm2int
    for a in range(1, Na):
        for b in range(1, a):
            w = hD[a] - hD[b]                # >= 0: a is the upper state; K[a,b] is uphill
            if abs(w) > cut:
                continue
            beta = math.exp(-w / kT)
            if abs(K[a, b] - beta * K[b, a]) > 1e-11 * max(abs(K[a, b]), abs(K[b, a])) + 1e-300:
                chk.violation("redfield:detailed_balance", "%s: K[%d,%d]/K[%d,%d] = %r but exp(-(E_a-E_b)/kT) = %r" %
                              (what, a, b, b, a, K[a, b] / K[b, a] if K[b, a] else float("nan"), beta), "monitor", c)
            # golden rule for the downhill rate K[b,a]
            if w > 1e-6:
                ref, tol = 0.0, 0.0
                for n in range(Na - 1):
                    geo = SS[n + 1, a] ** 2 * SS[n + 1, b] ** 2
                    # the FULL spectral density of site n: every component of its bath correlation function
                    for prm in site_components(sbi.CC.get_correlation_function(n, n)):
                        full, tr, gerr = comp_reference(w, prm, kT, s["matsubara"], s["dt"], s["Nt"] * s["dt"])
                        ref += geo * full
                        tol += geo * (abs(full - tr) + 3.0 * gerr + 2e-3 * abs(full))
                tol += 1e-12 * scale        # rates between states mixed only at rounding level (|c_na c_nb| ~ 1e-14) are noise
                if abs(K[b, a] - ref) > tol:
                    chk.violation("redfield:golden_rule", "%s: downhill rate K[%d,%d] = %r, golden-rule value %r, tolerance %r" %
                                  (what, b, a, K[b, a], ref, tol), "monitor", c)
                c.setdefault("_gold", []).append((b, a, ref, tol))
    # ---- correspondence: oracle tables keyed by the exact frequency
    hx = [fr(x) for x in hD]
    cwt, bt, seen = [[] for _ in range(Nk)], [], set()
    cws = [sbi.CC.get_correlation_function(k, k).get_Fourier_transform() for k in range(Nk)]
    for i in range(Na):
        for j in range(Na):
            if i == j:
                continue
            wx = hx[i] - hx[j]
            wf = hD[i] - hD[j]
            if wx < 0 or abs(wf) > cut or wx in seen:
                continue
            seen.add(wx)
            for k in range(Nk):
                cwt[k].append("(%s, %s)" % (cm.qlit(wx), cm.qlit(float(numpy.real(cws[k].at(wf, approx="spline"))))))
            bt.append("(%s, %s)" % (cm.qlit(wx), cm.qlit(float(numpy.exp(-wf / (kB_intK * T))))))
    qm = lambda A: cm.clist([cm.clist([cm.qlit(float(x)) for x in row]) for row in A])
    lit = "(%d%%nat, %d%%nat, %s, %s, %s, %s, %s, %s, %s, %s, %s)" % (
        Na, Nk, qm(S1), qm(SS), cm.clist([qm(sbi.KK[k]) for k in range(Nk)]), cm.clist([cm.qlit(x) for x in hD]),
        cm.qlit(1.0e-6), cm.qlit(cut), cm.clist([cm.clist(t) for t in cwt]), cm.clist(bt), qm(K))
    items.append(lit)
    meta.append({k: v for k, v in c.items() if not k.startswith("_")})
    # ---- Redfield tensor in the eigenstate basis: downhill population-transfer elements
    if c.get("tensor"):
        RT, ham = agg.get_RelaxationTensor(ta, relaxation_theory="standard_Redfield")
        with qr.eigenbasis_of(ham):
            Rd = numpy.array(RT.data)
        chk.count("rf:tensor")
        for (b, a, ref, tol) in c.get("_gold", []):
            val = Rd[b, b, a, a]
            if abs(val.imag) > 1e-12 * scale:
                chk.violation("tensor:complex", "%s: R[%d,%d,%d,%d] = %r is not real" % (what, b, b, a, a, val), "monitor", c)
            if abs(val.real - K[b, a]) > 2.0 * tol + 6e-3 * abs(ref):
                chk.violation("tensor:rate_matrix", "%s: tensor element R[%d,%d,%d,%d] = %r differs from the rate-matrix element K[%d,%d] = %r" %
                              (what, b, b, a, a, val.real, b, a, K[b, a]), "monitor", c)
            if abs(val.real - ref) > tol + 3e-3 * abs(ref):
                chk.violation("tensor:golden_rule", "%s: tensor element R[%d,%d,%d,%d] = %r, golden-rule value %r, tolerance %r" %
                              (what, b, b, a, a, val.real, ref, tol + 3e-3 * abs(ref)), "monitor", c)
        trdev = max(abs(sum(Rd[x, x, y, y] for x in range(Na))) for y in range(Na))
        if trdev > 1e-12 * float(numpy.abs(Rd).max()):
            chk.violation("tensor:colsum", "%s: sum_a R[a,a,b,b] = %g" % (what, trdev), "monitor", c)
    c.pop("_gold", None)
    chk.case(meta[-1], True, sample={"T": T, "N": Na - 1, "K": K.round(8).tolist()})


# relative accuracy of the Foerster quadrature w.r.t. the envelope of its integrand: worst value measured over 229 pairs of 8 seeds
# (dt = 0.5 fs, resolved Matsubara terms, 200-400 K) is 1.7e-3; resolved (near-resonant) pairs: <= 1.0e-3
EPS_F = 5e-3


def run_foe(chk, c):
    import numpy
    from quantarhei.core.units import kB_intK
    from quantarhei.qm.liouvillespace.rates import foersterrates as fm
    from quantarhei.qm.corfunctions.correlationfunctions import c2g
    s = c["sys"]
    agg, ta = build(s)
    H = agg.get_Hamiltonian()
    sbi = agg.get_SystemBathInteraction()
    F = numpy.array(fm.FoersterRateMatrix(H, sbi).data)
    Na = F.shape[0]
    what = "FoersterRateMatrix (N=%d, T=%g K)" % (Na - 1, s["T"])
    chk.count("foerster:real")
    scale = float(numpy.abs(F).max()) + 1e-300
    if numpy.abs(F.sum(axis=0)).max() > 1e-14 * scale:
        chk.violation("foerster:colsum", "%s: column sums %s" % (what, F.sum(axis=0).tolist()), "monitor", c)
    ll = [0.0] + [sbi.CC.get_reorganization_energy(i, i) for i in range(Na - 1)]
    HH = H.data
    kT = kB_intK * s["T"]
    tt = numpy.array(sbi.TimeAxis.data, dtype=float)
    # the off-diagonal element is |H_ab|^2 times the integral (same float operations)
    gt = numpy.zeros((Na, sbi.TimeAxis.length), dtype=numpy.complex64)
    for ii in range(1, Na):
        gt[ii, :] = c2g(sbi.TimeAxis, sbi.CC.get_coft(ii - 1, ii - 1))
    for a in range(1, Na):
        for b in range(1, Na):
            if a == b:
                continue
            want = (HH[a, b] ** 2) * fm._fintegral(sbi.TimeAxis.data, gt[a, :], gt[b, :], HH[b, b], HH[a, a], ll[b])
            if F[a, b] != want:
                chk.violation("foerster:form", "%s: K[%d,%d] = %r is not |H_ab|^2 F = %r" % (what, a, b, F[a, b], want), "monitor", c)
            # envelope of the integrand: 2 int_0^inf |exp(-g_d - g_a)| dt = the value of the Foerster integral at perfect
            # resonance without Stokes shift; the quadrature error of the oscillatory integral is a fraction EPS_F of it
            env = 2.0 * float(numpy.trapezoid(numpy.exp(-numpy.real(gt[a, :] + gt[b, :]).astype(float)), tt))
            floor = EPS_F * HH[a, b] ** 2 * env
            if F[a, b] < -floor:
                chk.violation("foerster:negative", "%s: K[%d,%d] = %r is negative beyond the quadrature error %r" % (what, a, b, F[a, b], floor),
                              "monitor", c)
            if a > b and HH[a, b] != 0.0:
                ea, eb = HH[a, a] - ll[a], HH[b, b] - ll[b]
                # well-conditioned direction: the uphill rate against the downhill rate damped by a factor <= 1, so that the
                # quadrature error of a far-tail rate is not amplified by exp(+|dE|/kT)
                if ea >= eb:
                    up, down, iu, idn = F[a, b], F[b, a], (a, b), (b, a)
                else:
                    up, down, iu, idn = F[b, a], F[a, b], (b, a), (a, b)
                damp = math.exp(-abs(ea - eb) / kT)
                dev = abs(up - damp * down)
                if dev > 2e-2 * max(abs(up), abs(damp * down)) + floor:
                    chk.violation("foerster:detailed_balance", "%s: uphill K[%d,%d] = %r, exp(-|dE|/kT) K[%d,%d] = %r (relaxed site energies; "
                                  "quadrature floor %r)" % (what, iu[0], iu[1], up, idn[0], idn[1], damp * down, floor), "monitor", c)
    chk.case(c, True)


def run_sd(chk, c):
    import numpy
    import quantarhei as qr
    from quantarhei.core.units import kB_int
    p = dict(c["params"])
    if c.get("dyadic"):
        # exactly symmetric axis (dyadic step): every grid value and its mirror image are exact floats
        nh = c["Nt"]
        ax = qr.FrequencyAxis(-nh * 2.0 ** -9, 2 * nh, 2.0 ** -9)
    else:
        ax = qr.TimeAxis(0.0, c["Nt"], c["dt"])
    # how the temperature reaches the Fourier-transformed correlation function: stored in the parameters, stored but overridden
    # by the temperature= argument, only given by the argument, stored and given again; judged against the REQUESTED temperature
    mode = c.get("mode", "stored")
    T0 = p["T"]
    Tj = T0 if mode in ("stored", "equal") else c["Treq"]
    targ = None if mode == "stored" else Tj
    if mode == "noT":
        del p["T"]

    def make_sd():
        with qr.energy_units("1/cm"):
            return qr.SpectralDensity(ax, dict(p))
    sd = make_sd()
    chk.count("sd:" + p["ftype"] + (":dyadic_axis" if c.get("dyadic") else ""))
    chk.count("sd:temperature:" + mode)
    w = numpy.array(sd.axis.data)
    d = numpy.array(sd.data)
    n = len(w)
    what = "SpectralDensity(%s)" % p["ftype"]
    i0 = int(numpy.argmin(numpy.abs(w)))
    if abs(w[i0]) > 1e-6 * abs(w[1] - w[0]):
        chk.violation("sd:axis", "%s: frequency axis has no zero point" % what, "monitor", c)
        chk.case(c, False)
        return
    ks = [k for k in range(1, n) if 0 <= 2 * i0 - k < n]
    mirror = numpy.array([2 * i0 - k for k in ks])
    ks = numpy.array(ks)
    sc = float(numpy.abs(d).max()) + 1e-300
    if numpy.abs(w[ks] + w[mirror]).max() > 1e-12 * numpy.abs(w).max():
        chk.violation("sd:axis", "%s: frequency axis is not symmetric about zero" % what, "monitor", c)
    # the axis start + k*step is symmetric only up to rounding: allow for slope times asymmetry
    # analytic bound of |dJ/dw| (internal units): the grid need not resolve the peak
    pi_ = sd.params[0] if isinstance(sd.params, (list, tuple)) else sd.params
    lam_i = float(pi_["reorg"])
    if p["ftype"] == "OverdampedBrownian":
        slope = 2.0 * lam_i * float(pi_["cortime"])
    else:
        w0_i, g_i = float(pi_["freq"]), float(pi_["gamma"])
        slope = 8.0 * lam_i * w0_i / g_i ** 2 + 2.0 * lam_i * g_i / w0_i ** 2 + 8.0 * lam_i / g_i
    grad = numpy.full(len(w), slope)
    asym = numpy.abs(w[ks] + w[mirror])
    otol = 1e-13 * sc + 4.0 * asym * numpy.maximum(grad[ks], grad[mirror])
    dev = numpy.abs(d[ks] + d[mirror])
    if (dev > otol).any() or abs(d[i0]) > 1e-13 * sc + 4.0 * abs(w[i0]) * grad[i0]:
        chk.violation("sd:odd", "%s: J(-w) + J(w) up to %g (scale %g), J(0) = %r" % (what, dev.max(), sc, d[i0]), "monitor", c)
    ft = sd.get_FTCorrelationFunction() if targ is None else sd.get_FTCorrelationFunction(temperature=targ)
    f = numpy.array(ft.data)
    twokbt = 2.0 * kB_int * Tj
    pos = ks[w[ks] > 0]
    neg = 2 * i0 - pos
    e = numpy.exp(-w[pos] / (twokbt / 2.0))
    ok = numpy.isfinite(f[pos]) & numpy.isfinite(f[neg])
    dev = numpy.abs(f[neg] - e * f[pos])[ok]
    asy = numpy.abs(w[pos] + w[neg])
    amp = 1.0 + 1.0 / numpy.tanh(w[pos] / twokbt)
    ref = (1e-9 * numpy.abs(f[pos]) + 4.0 * amp * asy * numpy.maximum(grad[pos], grad[neg]) + 4.0 * asy / twokbt * numpy.abs(f[pos]))[ok]
    if not ok.all() or (dev > ref + 1e-300).any():
        bad = int(numpy.argmax(dev - ref)) if ok.all() else int(numpy.argmin(ok))
        chk.violation("ftcf:detailed_balance", "FTCorrelationFunction from %s (stored T %r, temperature argument %r): C(-w) = %r, "
                      "exp(-w/kT) C(w) = %r at w = %r for the requested T = %g K" %
                      (what, p.get("T"), targ, f[neg][bad], (e * f[pos])[bad], w[pos][bad], Tj), "monitor", c)
    # oracle relation used by the theorem: tanh(x) = (1-e)/(1+e), e = exp(-2x); tanh odd
    x = w[pos] / twokbt
    th = numpy.tanh(x)
    rel = numpy.abs(th - (1.0 - e) / (1.0 + e))
    if (rel > 1e-13 * numpy.maximum(th, 1e-300) + 1e-16).any() or (numpy.tanh(-x) != -th).any():
        chk.violation("oracle:tanh", "numpy.tanh(x) differs from (1-e)/(1+e), e = exp(-2x), or is not odd", "monitor", c)
    if (f[pos][ok] < 0).any() or (f[neg][ok] < 0).any():
        chk.violation("ftcf:negative", "FTCorrelationFunction from %s has negative values" % what, "monitor", c)
    # time-domain route: the correlation function at the requested temperature, transformed back to frequencies
    pint = sd.params[0] if isinstance(sd.params, (list, tuple)) else sd.params
    decay = float(pint["cortime"]) if p["ftype"] == "OverdampedBrownian" else 2.0 / float(pint["gamma"])
    resolved = (not c.get("dyadic")) and c["Nt"] * c["dt"] >= 5.0 * decay      # C(t) has decayed within the time axis
    if resolved:
        chk.count("sd:time_domain_route")
        sd2 = make_sd()
        cf = sd2.get_CorrelationFunction() if targ is None else sd2.get_CorrelationFunction(temperature=targ)
        if cf.get_temperature() != Tj:
            chk.violation("sd2cf:temperature", "CorrelationFunction from %s reports temperature %r, requested %r" %
                          (what, cf.get_temperature(), Tj), "monitor", c)
        cwf = cf.get_Fourier_transform()
        wf = numpy.array(cwf.axis.data)
        cwd = numpy.real(numpy.array(cwf.data))
        j0 = int(numpy.argmin(numpy.abs(wf)))
        mm = min(j0, len(wf) - 1 - j0)
        pp = numpy.arange(j0 + 1, j0 + mm + 1)
        nn = 2 * j0 - pp
        sel = wf[pp] < 8.0 * (twokbt / 2.0)          # where exp(-w/kT) is not negligible
        if sel.any():
            defect = numpy.abs(cwd[nn][sel] - numpy.exp(-wf[pp][sel] / (twokbt / 2.0)) * cwd[pp][sel]).max() / (numpy.abs(cwd[pp]).max() + 1e-300)
            chk.extra["max_sd2cf_defect"] = max(chk.extra.get("max_sd2cf_defect", 0.0), float(defect))
            if defect > 5e-3:      # largest value measured on resolved axes: 5e-4
                chk.violation("sd2cf:detailed_balance", "Fourier transform of the CorrelationFunction from %s (stored T %r, temperature "
                              "argument %r) violates C(-w) = exp(-w/kT) C(w) for the requested T = %g K: relative defect %g" %
                              (what, p.get("T"), targ, Tj, defect), "monitor", c)
    chk.case({k: v for k, v in c.items() if not k.startswith("_")}, True)


# ------------------------------------------------------------------ run
def run(chk, cases):
    import time
    ss_items, ss_meta, fo_items, fo_meta, rf_items, rf_meta = [], [], [], [], [], []
    extra = {"fo2": ([], []), "ftT": ([], []), "ftg": ([], [])}
    tk = {}
    for c in cases:
        t1 = time.time()
        try:
            if c["kind"] == "ss":
                run_ss(chk, c, ss_items, ss_meta)
            elif c["kind"] == "fo":
                run_fo(chk, c, fo_items, fo_meta)
            elif c["kind"] == "rf":
                run_rf(chk, c, rf_items, rf_meta)
            elif c["kind"] == "foe":
                run_foe(chk, c)
            elif c["kind"] == "sd":
                run_sd(chk, c)
            elif c["kind"] == "sdu":
                run_sdu(chk, c)
            elif c["kind"] in extra:
                {"fo2": run_fo2, "ftT": run_ftT, "ftg": run_ftg}[c["kind"]](chk, c, *extra[c["kind"]])
        except Exception as e:
            import traceback
            chk.violation("%s:exception" % c["kind"], "case raised %r: %s" % (e, traceback.format_exc()[-500:]), "monitor",
                          {k: v for k, v in c.items() if not k.startswith("_")})
            chk.case({k: v for k, v in c.items() if not k.startswith("_")}, False)
        finally:
            tk[c["kind"]] = tk.get(c["kind"], 0.0) + time.time() - t1
    chk.notes.append("implementation time per kind (s): %s" % {k: round(v, 1) for k, v in tk.items()})
    shards, index = [], []
    imp = "From QV Require Import Base.Alg Base.Util Model.C06.\n"
    CH = 150
    for k in range(0, len(ss_items), CH):
        shards.append(cm.HEADER + imp + "Definition cs : list case_ss := %s.\nEval vm_compute in (bad ss_agrees cs).\n" % cm.clist(ss_items[k:k + CH]))
        index.append(("ss", k, CH, ss_meta))
    for k in range(0, len(fo_items), CH):
        shards.append(cm.HEADER + imp + "Definition cs : list case_fo := %s.\nEval vm_compute in (bad fo_agrees cs).\n" % cm.clist(fo_items[k:k + CH]))
        index.append(("fo", k, CH, fo_meta))
    CR = 4
    for k in range(0, len(rf_items), CR):
        shards.append(cm.HEADER + imp + "Definition cs : list case_rf := %s.\nEval vm_compute in (bad (rf_agrees (Qmake 1 100000000000)) cs).\n"
                      % cm.clist(rf_items[k:k + CR]))
        index.append(("rf", k, CR, rf_meta))
    for kind, typ, fn, ch in (("fo2", "case_fo2", "fo2_agrees", CH), ("ftT", "case_ftT", "ftT_agrees", CH),
                              ("ftg", "case_ftg", "(ftg_agrees (Qmake 1 1000000000000))", 40)):
        its, mt = extra[kind]
        for k in range(0, len(its), ch):
            shards.append(cm.HEADER + imp + "Definition cs : list %s := %s.\nEval vm_compute in (bad %s cs).\n" % (typ, cm.clist(its[k:k + ch]), fn))
            index.append((kind, k, ch, mt))
    t0 = time.time()
    results = cm.coq_eval(PID, shards)
    chk.notes.append("coq evaluation of %d shards: %.1f s" % (len(shards), time.time() - t0))
    names = {"ss": "ssRedfieldRateMatrix", "fo": "foerster_reference_implementation", "rf": "RedfieldRateMatrix",
             "fo2": "foerster_argument_roles", "ftT": "ftcf_temperature_selection", "ftg": "ftcf_grid_values"}
    for (kind, k, ch, meta), (rc, out) in zip(index, results):
        if rc != 0:
            chk.violation("correspondence:coq_error", "coqc failed on %s cases: %s" % (kind, out[-600:]), "correspondence",
                          {"kind": kind}, found_input=False)
            continue
        badl = cm.parse_natlist(cm.parse_evals(out)[0])
        chk.corr["cases"] += min(ch, len(meta) - k)
        chk.corr["disagreements"] += len(badl)
        for i in badl[:3]:
            chk.violation("correspondence:" + names[kind], "implementation differs from Model.C06 on %s" % json.dumps(meta[k + i])[:700],
                          "correspondence", meta[k + i], found_input=False)


def main():
    chk = cm.Check(PID, args.tier)
    chk.rule = ("ssRedfieldRateMatrix: Na<=5, Nk<=3, integer KI in [-3,3] (60% symmetric), integer cc in [-3,6] or [0,6], rtol in "
                "{1e-6, 2.5, 10.5, 40}, 20% non-zero initial matrix; Foerster reference implementation with integer table; aggregates of "
                "2-4 molecules (random energies, couplings, reorganisation energies, correlation times, T in 77..400 K, time axes "
                "1000-2000 points of 0.5-1 fs, 10 or 40 Matsubara terms); spectral densities of the three analytic types on random axes. "
                "Non-trivial: Na >= 2 (exact kernels), every end-to-end case; distinct by canonical input")
    chk.assumptions = [
        "oracles: numpy.linalg.eigh/inv (transformation handed to the model as data), the spline through the FFT of the correlation "
        "function (cw_k.at), numpy.exp, numpy.tanh (relation to exp monitored), the Foerster integral (spline quadrature)",
        "golden-rule clause is VALIDATED: |K - sum_n c_na^2 c_nb^2 (1+coth) J_n| <= sum_n c_na^2 c_nb^2 (Matsubara truncation remainder "
        "+ 3 dt^2/6 |Re C'(0)| + 2e-3 |value|), tensor elements 3e-3 relative more (spline quadrature over the finite time axis)",
        "Foerster detailed balance w.r.t. E_n - lambda_n is VALIDATED (T >= 200 K, dt = 0.5 fs, as many Matsubara terms as the step resolves): |K_up - exp(-|dE|/kT) K_down| <= 2e-2 max(|K_up|, exp(-|dE|/kT)|K_down|) + EPS |H_ab|^2 E, E = 2 int |exp(-g_d-g_a)| dt the envelope of the integrand (rate at perfect resonance), EPS = 5e-3 = 3 x the largest quadrature error measured (1.7e-3 E); far-tail rates below the floor EPS |H_ab|^2 E, including slightly negative ones, are inside the quadrature error; a negative rate beyond the floor is flagged",
        "all baths at one temperature (the code reads T from component 0)",
        "static tie: ssRedfieldRateMatrix, _set_rates, the Foerster reference implementation, the analytic spectral densities and "
        "get_FTCorrelationFunction are matched statement by statement against templates and their arithmetic content is translated "
        "(harness/translate_c06.py, skeleton lemmas in Proofs/C06gen.v); the translator is trusted to read the ast faithfully; the "
        "@implementation dispatch from rates/redfieldrates.py to implementations/python is not translated (exercised by the wrapper cases)"]
    chk.prove()
    import translate
    translate.static_tie(cm, chk, PID, cm.REPO)      # second, static tie: model regenerated from the current source
    if args.replay:
        rep = json.load(open(args.replay))
        cases = [rep["input"]] if isinstance(rep.get("input"), dict) and "kind" in rep["input"] else []
    else:
        r = cm.rng(PID)
        nss, nfo, nrf, nfoe, nsd = (400, 120, 40, 12, 60) if args.tier == "quick" else (4000, 1000, 300, 80, 300)
        cases = [{"kind": "ss", "Na": 3, "Nk": 1, "KI": [[[0, 1, 1], [1, 0, 1], [1, 1, 0]]], "cc": [[[0, 3, -2], [4, 0, 5], [-7, 6, 0]]],
                  "RR0": [[0] * 3] * 3, "rtol": 2.5, "wrapper": False}]
        # composite baths (list of parameter sets / in-place addition) and a temperature argument overriding a stored one
        for how in ("list", "add", "add_first"):
            cases.append({"kind": "rf", "tensor": True, "sys": {
                "mols": [{"e": 10000.0, "reorg": 20.0, "cortime": 200.0, "how": how,
                          "extra": [{"ftype": "OverdampedBrownian", "reorg": 30.0, "cortime": 50.0}]},
                         {"e": 10150.0, "reorg": 20.0, "cortime": 200.0, "how": how,
                          "extra": [{"ftype": "UnderdampedBrownian", "reorg": 15.0, "freq": 200.0, "gamma": 40.0}]}],
                "coup": [[0, 1, 80.0]], "T": 300.0, "Nt": 2000, "dt": 1.0, "matsubara": 10}})
        cases.append({"kind": "sd", "params": {"ftype": "OverdampedBrownian", "reorg": 30.0, "cortime": 100.0, "T": 300.0},
                      "Nt": 1000, "dt": 1.0, "dyadic": False, "mode": "override", "Treq": 77.0})
        cases += [gen_ss(r, k) for k in range(nss)] + [gen_fo(r, k) for k in range(nfo)]
        for k in range(nrf):
            cases.append({"kind": "rf", "sys": gen_sys(r), "tensor": k % 2 == 0})
        for k in range(nfoe):
            sy = gen_sys(r, low_t=False)
            # detailed balance of Foerster rates rests on the KMS symmetry of C(t): with the default 10 Matsubara terms it is
            # off by several per cent at 200 K for strongly coupled baths (truncated model, not integration); validated with as many terms as the time step resolves
            sy["Nt"] = int(sy["Nt"] * sy["dt"] / 0.5)
            sy["dt"] = 0.5
            # as many Matsubara terms as the time step resolves (nu_n dt <= 2)
            sy["matsubara"] = max(10, int(2.0 / (2.0 * math.pi * 1.3092e-4 * sy["T"] * sy["dt"])))
            cases.append({"kind": "foe", "sys": sy})
        cases += [gen_sd(r, k) for k in range(nsd)]
        r2 = cm.rng(PID + "/additions")        # separate stream: the cases above stay what they were
        nfo2, nftT, nftg, nsdu = (60, 60, 50, 40) if args.tier == "quick" else (600, 400, 300, 300)
        cases += [{"kind": "ftT", "stored": [300.0, None], "arg": 77.0}, {"kind": "ftT", "stored": [300.0, 200.0], "arg": None},
                  {"kind": "ftT", "stored": [None], "arg": None}]
        cases += [gen_fo2(r2, k) for k in range(nfo2)] + [gen_ftT(r2, k) for k in range(nftT)] + [gen_ftg(r2, k) for k in range(nftg)]
        r3 = cm.rng(PID + "/units")
        cases.append({"kind": "ftg", "params": {"ftype": "OverdampedBrownian", "reorg": 30.0, "cortime": 100.0, "T": 300.0}, "nh": 64,
                      "step": 2.0 ** -9, "offset": 0.0, "arg": None, "call_units": "1/cm"})
        # regression (fixed in /repo 3028409): zero frequency was located in the current units; in THz floor((0 - start)/step) fell one
        # index low and the value at w = 0 became (1 + 1/tanh(0)) * 0 = NaN
        cases.append({"kind": "ftg", "params": {"ftype": "Underdamped", "reorg": 37.466045004313095, "T": 20.0, "freq": 300.0, "gamma": 150.0},
                      "nh": 20, "step": 0.003, "offset": 0.0, "arg": None, "call_units": "THz"})
        cases += [gen_sdu(r3, k) for k in range(nsdu)]
    run(chk, cases)
    chk.finish()


main()
