# -*- coding: utf-8 -*-
"""Static tie for C02 (and, through the shared generated file, C07): the glue around the propagation kernels.

Translated on every run (statement templates with expression holes, translate2.unify; hole contents translated fail-closed):
  hamiltonian.py            Hamiltonian.get_RWA_data, get_RWA_skeleton, set_rwa
  dmevolution.py            DensityMatrixEvolution.convert_from_RWA, convert_to_RWA
  statevectorevolution.py   StateVectorEvolution.convert_from_RWA, convert_to_RWA
  rdmpropagator.py          _INIT_EXP, _INIT_RWA, _CLOSE_RWA, _BOOT_DEPH, _APPLY_DEPH, setDtRefinement, propagate (per-call refinement and the
                            whole option / method-string decision tree), the statements around the loop nests of the four
                            __propagate_short_exp* variants (the nests themselves are tied by translate2.rdm_taylor)
  svpropagator.py           StateVectorPropagator.propagate, setDtRefinement, the statements around the nest of _propagate_short_exp
The generated lemmas conclude equality with Model/C02.v (rwa_ham, rwa_dm, rwa_sv, dephase) and Model/C02glue.v (conv_*, init_rwa,
close_rwa, deph_expo / deph_t0, rwa_energies, dispatch, percall, refine), using the lemmas of Proofs/C02gen.v.
"""
import ast

from translate import Untranslatable, Expr, _src_of
from translate2 import unify, _live, _find_nests

HAM = "/quantarhei/qm/hilbertspace/hamiltonian.py"
DME = "/quantarhei/qm/propagators/dmevolution.py"
SVE = "/quantarhei/qm/propagators/statevectorevolution.py"
RDM = "/quantarhei/qm/propagators/rdmpropagator.py"
SVP = "/quantarhei/qm/propagators/svpropagator.py"
PCLS = "ReducedDensityMatrixPropagator"

NOISE = ("debug", "qr.log_detail", "qr.printlog", "print", "qr.log_report", "qr.log_quick")


def _is_noise(s):
    return isinstance(s, ast.Expr) and isinstance(s.value, ast.Call) and ast.unparse(s.value.func) in NOISE


class _Prep(ast.NodeTransformer):
    """drops logging statements and replaces the loop nests (tied by translate2.rdm_taylor) by the placeholder statement NEST"""

    def __init__(self, nests):
        self.nests = set(id(x) for x in nests)

    def _block(self, stmts):
        out = []
        for s in _live(stmts):
            if _is_noise(s):
                continue
            if id(s) in self.nests:
                out.append(ast.Expr(value=ast.Name(id="NEST", ctx=ast.Load())))
                continue
            out.append(self.visit(s))
        return out

    def visit_If(self, node):
        return ast.If(test=node.test, body=self._block(node.body), orelse=self._block(node.orelse))

    def visit_Try(self, node):
        return ast.Try(body=self._block(node.body), handlers=[ast.ExceptHandler(type=h.type, name=h.name, body=self._block(h.body)) for h in node.handlers],
                       orelse=self._block(node.orelse), finalbody=self._block(node.finalbody))

    def visit_FunctionDef(self, node):
        node.body = self._block(node.body)
        return node


def _match(path, qual, template, nests=False):
    fn = _src_of(path, qual)
    if nests:
        fn = _Prep(_find_nests(fn.body)).visit(fn)
    tfn = ast.parse(template).body[0]
    env = {}
    unify([a.arg for a in tfn.args.args], [a.arg for a in fn.args.args], env, qual + ".args")
    unify(tfn.body, fn.body, env, qual)
    return env


# ------------------------------------------------------------------------------------------------ expression translators
class RExpr:
    """ring expressions (elementwise numpy arithmetic at one element): names and whitelisted source texts, + - * unary -, x ** 2,
    x / 2.0 -> x * half, 0 / 0.0 / 1 / 1.0"""

    def __init__(self, table, half=None):
        self.table, self.half = dict(table), half

    def e(self, node):
        key = ast.unparse(node)
        if key in self.table:
            return self.table[key]
        if isinstance(node, ast.Constant) and isinstance(node.value, (int, float)) and not isinstance(node.value, bool) and node.value in (0, 1):
            return "(r1 R)" if node.value == 1 else "(r0 R)"
        if isinstance(node, ast.UnaryOp) and isinstance(node.op, ast.USub):
            return "(ropp R %s)" % self.e(node.operand)
        if isinstance(node, ast.BinOp):
            if isinstance(node.op, ast.Pow) and isinstance(node.right, ast.Constant) and node.right.value == 2:
                a = self.e(node.left)
                return "(rmul R %s %s)" % (a, a)
            if isinstance(node.op, ast.Div) and isinstance(node.right, ast.Constant) and node.right.value == 2 and self.half:
                return "(rmul R %s %s)" % (self.e(node.left), self.half)
            op = {ast.Add: "radd R", ast.Sub: "rsub R", ast.Mult: "rmul R"}.get(type(node.op))
            if op is None:
                raise Untranslatable("operator %s in %s" % (type(node.op).__name__, key[:60]))
            return "(%s %s %s)" % (op, self.e(node.left), self.e(node.right))
        raise Untranslatable("scalar expression %s" % key[:80])


class MExpr:
    """matrix expressions: numpy.dot -> mmul n, numpy.conj -> mconj, numpy.diag(v) -> mdiag v, +/- -> madd/msub, whitelisted texts"""

    def __init__(self, mats, vecs):
        self.mats, self.vecs = dict(mats), dict(vecs)

    def m(self, node):
        key = ast.unparse(node)
        if key in self.mats:
            return self.mats[key]
        if isinstance(node, ast.Call) and not node.keywords:
            f = ast.unparse(node.func)
            if f == "numpy.dot" and len(node.args) == 2:
                return "(mmul n %s %s)" % (self.m(node.args[0]), self.m(node.args[1]))
            if f == "numpy.conj" and len(node.args) == 1:
                return "(mconj %s)" % self.m(node.args[0])
            if f == "numpy.diag" and len(node.args) == 1:
                k2 = ast.unparse(node.args[0])
                if k2 in self.vecs:
                    return "(mdiag %s)" % self.vecs[k2]
                raise Untranslatable("numpy.diag of %s" % k2[:60])
        if isinstance(node, ast.BinOp) and isinstance(node.op, (ast.Add, ast.Sub)):
            return "(%s %s %s)" % ("madd" if isinstance(node.op, ast.Add) else "msub", self.m(node.left), self.m(node.right))
        if isinstance(node, ast.UnaryOp) and isinstance(node.op, ast.USub):
            return "(mscale (ropp R (r1 R)) %s)" % self.m(node.operand)
        raise Untranslatable("matrix expression %s" % key[:80])


def _zconst(node):
    return Expr("Z", {}).e(node)


def _bool_flag(node, table):
    """boolean expressions over flags (table: source text -> Coq bool term) and integer comparisons of sgn / Nref"""
    key = ast.unparse(node)
    if key in table:
        return table[key]
    if isinstance(node, ast.BoolOp):
        parts = [_bool_flag(v, table) for v in node.values]
        return "(" + (" && " if isinstance(node.op, ast.And) else " || ").join(parts) + ")"
    if isinstance(node, ast.UnaryOp) and isinstance(node.op, ast.Not):
        return "(negb %s)" % _bool_flag(node.operand, table)
    if isinstance(node, ast.Compare):
        return Expr("Z", {"sgn": "sgn", "Nref": "k"}).b(node)
    if isinstance(node, ast.Constant) and isinstance(node.value, bool):
        return "true" if node.value else "false"
    raise Untranslatable("condition %s" % key[:80])


def _boolconst(node):
    if isinstance(node, ast.Constant) and isinstance(node.value, bool):
        return "true" if node.value else "false"
    raise Untranslatable("flag value %s" % ast.unparse(node))


def _require(node, text, what):
    if ast.unparse(node) != text:
        raise Untranslatable("%s: %s where %s is expected" % (what, ast.unparse(node)[:60], text))


# ------------------------------------------------------------------------------------------------ templates
T_GETRWA = '''
def get_RWA_data(self):
    return H_e
'''
T_SKEL = '''
def get_RWA_skeleton(self):
    HH = self.data
    shape = HH.shape[0]
    HOmega = numpy.zeros(shape, dtype=REAL)
    for ii in range(shape):
        HOmega[H_i] = self.convert_2_current_u(H_e)
    return HOmega
'''
T_SETRWA = '''
def set_rwa(self, rwa_indices):
    if rwa_indices[0] != 0:
        raise Exception(H_msg)
    self.rwa_indices = numpy.array(rwa_indices, dtype=int)
    self.Nblocks = len(self.rwa_indices)
    self.rwa_energies = numpy.zeros(self.data.shape[0], dtype=REAL)
    with energy_units('int'):
        en_block = numpy.zeros(self.Nblocks, dtype=REAL)
        for block in range(self.Nblocks):
            if H_cond:
                upper = H_up1
            else:
                upper = H_up2
            k = H_k0
            for ii in range(H_lo1, H_hi1):
                en_block[block] += H_term
                k += H_kinc
            en_block[block] = en_block[block] / float(k)
            for ii in range(H_lo2, H_hi2):
                self.rwa_energies[ii] = en_block[block]
    self.has_rwa = True
'''
T_FROM_DM = '''
def convert_from_RWA(self, ham, sgn=1):
    if H_guard:
        HOmega = ham.get_RWA_skeleton()
        for i, t in enumerate(self.TimeAxis.data):
            Ut = numpy.diag(numpy.exp(H_phase))
            rhot = H_conv
            self.data[H_w, :, :] = rhot
    if H_fguard:
        self.is_in_rwa = H_fval
'''
T_FROM_SV = '''
def convert_from_RWA(self, ham, sgn=1):
    if H_guard:
        HOmega = ham.get_RWA_skeleton()
        for i, t in enumerate(self.TimeAxis.data):
            Ut = numpy.exp(H_phase)
            rhot = H_conv
            self.data[H_w, :] = rhot
    if H_fguard:
        self.is_in_rwa = H_fval
'''
T_TO = '''
def convert_to_RWA(self, ham):
    if H_g:
        self.convert_from_RWA(ham, sgn=H_s)
        self.is_in_rwa = H_v
'''
T_INITEXP = '''
def _INIT_EXP(self, rhoi):
    pr = ReducedDensityMatrixEvolution(self.TimeAxis, rhoi)
    rho1 = H_r1
    rho2 = H_r2
    return (pr, rho1, rho2)
'''
T_INITRWA = '''
def _INIT_RWA(self):
    if self.Hamiltonian.has_rwa:
        HH = H_rwa
    else:
        HH = H_plain
    if self.has_NonHerm:
        HH = H_nh
    return HH
'''
T_CLOSERWA = '''
def _CLOSE_RWA(self, pr):
    if self.Hamiltonian.has_rwa:
        pr.is_in_rwa = H_v
'''
T_BOOT = '''
def _BOOT_DEPH(self):
    if self.PDeph.dtype == 'Lorentzian':
        self.expo = numpy.exp(H_le)
        self.t0 = H_lt
    elif self.PDeph.dtype == 'Gaussian':
        self.expo = numpy.exp(H_ge)
        self.t0 = H_gt
'''
T_APPLYDEPH = '''
def _APPLY_DEPH(self, tt, rho2):
    return H_a * numpy.exp(H_b)
'''
T_REFINE = '''
def setDtRefinement(self, Nref):
    self.Nref = H_a
    self.dt = H_b
'''
T_PROP_HEAD = '''
def propagate(self, rhoi, method='short-exp', mdata=None, Nref=1):
    if H_g:
        saved = (self.Nref, self.dt)
        self.setDtRefinement(H_k)
        try:
            return self.propagate(rhoi, method=method, mdata=mdata)
        finally:
            self.Nref, self.dt = saved
    if not (isinstance(rhoi, ReducedDensityMatrix) or isinstance(rhoi, DensityMatrix)):
        raise Exception(H_msg)
    TREE
'''
T_HAM = '''
def __propagate_short_exp(self, rhoi, L=4):
    pr, rho1, rho2 = self._INIT_EXP(rhoi)
    HH = self._INIT_RWA()
    indx = H_i0
    NEST
    self._CLOSE_RWA(pr)
    return pr
'''
T_REL = '''
def __propagate_short_exp_with_relaxation(self, rhoi, L=4):
    if self.RelaxationTensor.as_operators:
        return self.__propagate_short_exp_with_rel_operators(rhoi, L=L)
    pr, rho1, rho2 = self._INIT_EXP(rhoi)
    HH = self._INIT_RWA()
    RR = self.RelaxationTensor.data
    if self.has_PDeph:
        self._BOOT_DEPH()
        IR = 0.0
        indx = H_i0
        NEST
    else:
        indx = H_i1
        NEST
    self._CLOSE_RWA(pr)
    return pr
'''
T_OPS = '''
def __propagate_short_exp_with_rel_operators(self, rhoi, L=4):
    pr, rho1, rho2 = self._INIT_EXP(rhoi)
    HH = self._INIT_RWA()
    Km = self.RelaxationTensor.Km
    Lm = self.RelaxationTensor.Lm
    Ld = self.RelaxationTensor.Ld
    Kd = numpy.zeros(Km.shape, dtype=numpy.float64)
    Nm = Km.shape[0]
    for m in range(Nm):
        Kd[H_m1, :, :] = numpy.transpose(Km[H_m2, :, :])
    indx = H_i0
    levs = [qr.LOG_QUICK]
    verb = qr.loglevels2bool(levs)
    if self.has_PDeph:
        self._BOOT_DEPH()
        NEST
    else:
        NEST
    self._CLOSE_RWA(pr)
    return pr
'''
T_TD = '''
def __propagate_short_exp_with_TD_relaxation(self, rhoi, L=4):
    if self.RelaxationTensor.as_operators:
        return self.__propagate_short_exp_with_TDrel_operators(rhoi, L=L)
    pr = ReducedDensityMatrixEvolution(self.TimeAxis, rhoi)
    rho1 = H_r1
    rho2 = H_r2
    if self.Hamiltonian.has_rwa:
        HH = H_rwa
    else:
        HH = H_plain
    if self.RelaxationTensor._has_cutoff_time:
        cutoff_indx = self.TimeAxis.nearest(self.RelaxationTensor.cutoff_time)
    else:
        sbi = self.RelaxationTensor.SystemBathInteraction
        cutoff_indx = sbi.TimeAxis.length
    indx = H_i0
    indxR = H_iR
    try:
        self.has_Iterm = self.RelaxationTensor.has_Iterm
    except:
        self.has_Iterm = False
    if self.has_Iterm:
        self.RelaxationTensor.initial_term(rhoi)
    sysstep = self.RelaxationTensor.SystemBathInteraction.TimeAxis.step
    Nref_max = round(self.TimeAxis.step / sysstep)
    Nref_req = self.Nref
    if H_fit:
        stride = H_stride
    else:
        time = self.TimeAxis
        raise Exception(H_msg)
    IR = 0.0
    dt = H_dt
    NEST
    if self.Hamiltonian.has_rwa:
        pr.is_in_rwa = H_v
    return pr
'''
T_SVPROP = '''
def propagate(self, psii, L=4, hfce=None, nonlinear=False):
    if hfce is not None:
        if nonlinear:
            return self._propagate_short_exp_nonlin(psii, hfce, L=L)
        else:
            return self._propagate_short_exp_tdep(psii, hfce, L=L)
    return self._propagate_short_exp(H_x, L=H_L)
'''
T_SVEXP = '''
def _propagate_short_exp(self, psii, L=4):
    pr = StateVectorEvolution(self.timeaxis, psii)
    psi1 = H_r1
    psi2 = H_r2
    if self.ham.has_rwa:
        HH = H_rwa
    else:
        HH = H_plain
    indx = H_i0
    NEST
    if self.ham.has_rwa:
        pr.is_in_rwa = H_v
    return pr
'''

METHODS = {"short-exp": "MShort", "short-exp-2": "MShort2", "short-exp-4": "MShort4", "short-exp-6": "MShort6"}
TARGETS = {"__propagate_short_exp": "THam", "__propagate_short_exp_with_relaxation": "TRelax",
           "__propagate_short_exp_with_TD_relaxation": "TTDRelax", "__propagate_short_exp_efield": "THamField",
           "__propagate_short_exp_EField": "THamEField", "__propagate_short_exp_with_relaxation_field": "TRelaxField",
           "__propagate_short_exp_with_relaxation_EField": "TRelaxEField", "__propagate_short_exp_with_TD_relaxation_field": "TTDField",
           "__propagate_short_exp_with_TD_relaxation_EField": "TTDEField"}
FLAGS = {"self.has_relaxation": "has_relax", "isinstance(self.RelaxationTensor, TimeDependent)": "is_td", "self.has_Efield": "efield",
         "self.has_Trdip": "trdip", "self.has_EField": "efield_obj"}


def _tree(stmts, what):
    """if / elif / else tree whose leaves are `return self.__propagate_X(rhoi, L=k)` or `raise`  ->  Gallina option (target * Z)"""
    stmts = [s for s in _live(stmts) if not _is_noise(s)]
    if len(stmts) != 1:
        raise Untranslatable("%s: %d statements in a branch of the decision tree" % (what, len(stmts)))
    s = stmts[0]
    if isinstance(s, ast.Raise):
        return "None"
    if isinstance(s, ast.Return):
        c = s.value
        if not (isinstance(c, ast.Call) and isinstance(c.func, ast.Attribute) and ast.unparse(c.func.value) == "self" and c.func.attr in TARGETS):
            raise Untranslatable("%s: leaf %s" % (what, ast.unparse(s)[:80]))
        if [ast.unparse(a) for a in c.args] != ["rhoi"] or [k.arg for k in c.keywords] != ["L"]:
            raise Untranslatable("%s: arguments of %s" % (what, ast.unparse(c)[:80]))
        return "(Some (%s, %s))" % (TARGETS[c.func.attr], _zconst(c.keywords[0].value))
    if isinstance(s, ast.If):
        return "(if %s then %s else %s)" % (_cond(s.test, what), _tree(s.body, what), _tree(s.orelse, what))
    raise Untranslatable("%s: statement %s in the decision tree" % (what, ast.unparse(s)[:80]))


def _cond(node, what):
    key = ast.unparse(node)
    if key in FLAGS:
        return FLAGS[key]
    if isinstance(node, ast.BoolOp):
        return "(" + (" && " if isinstance(node.op, ast.And) else " || ").join(_cond(v, what) for v in node.values) + ")"
    if isinstance(node, ast.UnaryOp) and isinstance(node.op, ast.Not):
        return "(negb %s)" % _cond(node.operand, what)
    if isinstance(node, ast.Compare) and len(node.ops) == 1 and isinstance(node.ops[0], ast.Eq):
        a, b = node.left, node.comparators[0]
        if isinstance(b, ast.Name):
            a, b = b, a
        if isinstance(a, ast.Name) and a.id == "method" and isinstance(b, ast.Constant) and b.value in METHODS:
            return "(meth_eqb method %s)" % METHODS[b.value]
    raise Untranslatable("%s: condition %s" % (what, key[:80]))


# ------------------------------------------------------------------------------------------------ the generated text
GEN = """
(* ---- glue around the kernels, GENERATED by harness/translate_c02.py from hamiltonian.py, dmevolution.py, statevectorevolution.py,
   rdmpropagator.py and svpropagator.py ---- *)
From QV Require Import Model.C02glue Proofs.C02gen.
Section GenGlue.
  Context {R : StarRing}.
  Add Ring Rglue : (rth R).
  Variable n : nat.
  Variable ex : R -> R.       (* numpy.exp *)
  Variable im : R.            (* 1j *)
  Variable half : R.          (* 1/2.0 *)

  (* Hamiltonian.get_RWA_data / get_RWA_skeleton *)
  Definition gen_rwa_data (H : @mat R) (Om : @vec R) : @mat R := %(rwadata)s.
  Lemma gen_rwa_data_is_model : forall H Om i j, gen_rwa_data H Om i j = rwa_ham H Om i j.
  Proof. intros. unfold gen_rwa_data, rwa_ham, msub, madd, mscale, mdiag. destruct (Nat.eqb i j); ring. Qed.
  Definition gen_rwa_skeleton (conv : R -> R) (E : @vec R) (ii : nat) : R := conv %(skel)s.
  Lemma gen_rwa_skeleton_is_model : forall conv E ii, gen_rwa_skeleton conv E ii = conv (E ii).
  Proof. reflexivity. Qed.

  (* Hamiltonian.set_rwa: block means of the diagonal *)
  Definition g_up (idx : nat -> nat) (nblocks dim block : nat) : nat := if %(cond)s then %(up1)s else %(up2)s.
  Definition g_lo1 (idx : nat -> nat) (block upper : nat) : nat := %(lo1)s.
  Definition g_hi1 (idx : nat -> nat) (block upper : nat) : nat := %(hi1)s.
  Definition g_lo2 (idx : nat -> nat) (block upper : nat) : nat := %(lo2)s.
  Definition g_hi2 (idx : nat -> nat) (block upper : nat) : nat := %(hi2)s.
  Definition g_k0 : nat := %(k0)s.
  Definition g_kinc : nat := %(kinc)s.
  Definition g_term (diag : @vec R) (ii : nat) : R := %(term)s.
  Definition gen_rwa_energies (inv : nat -> R) (diag : @vec R) (idx : nat -> nat) (nblocks dim : nat) : @vec R :=
    set_rwa_skel inv (g_up idx nblocks dim) (g_lo1 idx) (g_hi1 idx) (g_lo2 idx) (g_hi2 idx) g_k0 g_kinc (g_term diag) nblocks 0 (fun _ => r0 R).
  Lemma g_up_is_model : forall idx nblocks dim b, g_up idx nblocks dim b = block_upper idx nblocks dim b.
  Proof.
    intros. unfold g_up, block_upper.
    destruct (Nat.ltb_spec b (nblocks - 1)%%nat);
      match goal with |- (if ?c then _ else _) = _ =>
        first [replace c with true by (symmetry; first [apply Z.ltb_lt | apply Z.leb_le | apply Z.gtb_lt | apply Z.geb_le]; lia)
              |replace c with false by (symmetry; first [apply Z.ltb_ge | apply Z.leb_gt | (rewrite Z.gtb_ltb; apply Z.ltb_ge) | (rewrite Z.geb_leb; apply Z.leb_gt)]; lia)]
      end; rewrite ?Nat.add_1_r; reflexivity.
  Qed.
  Lemma gen_rwa_energies_is_model : forall inv diag idx nblocks dim,
    gen_rwa_energies inv diag idx nblocks dim = rwa_energies inv diag idx nblocks dim.
  Proof.
    intros. unfold gen_rwa_energies, rwa_energies.
    apply set_rwa_skel_is_model; first [apply g_up_is_model | reflexivity | (intros; reflexivity)].
  Qed.

  (* DensityMatrixEvolution.convert_from_RWA / convert_to_RWA *)
  Definition g_dm_applies (in_rwa : bool) (sgn : Z) : bool := %(dmguard)s.
  Definition g_dm_flag (in_rwa : bool) (sgn : Z) : bool := if %(dmfguard)s then %(dmfval)s else in_rwa.
  Definition g_dm_phase (sgn : R) (Om : @vec R) (t : R) (k : nat) : R := ex %(dmphase)s.
  Definition g_dm_conv (u : @vec R) (rho : @mat R) : @mat R := %(dmconv)s.
  Definition gen_conv_from_dm (in_rwa : bool) (sgn : Z) (u : @vec R) (rho : @mat R) : bool * @mat R :=
    (g_dm_flag in_rwa sgn, if g_dm_applies in_rwa sgn then g_dm_conv u rho else rho).
  Definition gen_conv_to_dm (in_rwa : bool) (um : @vec R) (rho : @mat R) : bool * @mat R :=
    if %(dmtog)s then (%(dmtov)s, snd (gen_conv_from_dm in_rwa %(dmtos)s um rho)) else (in_rwa, rho).
  Lemma g_flags_ok : forall in_rwa sgn, g_dm_applies in_rwa sgn = conv_applies in_rwa sgn /\\ g_dm_flag in_rwa sgn = conv_flag in_rwa sgn.
  Proof.
    intros. unfold g_dm_applies, g_dm_flag, conv_applies, conv_flag. rewrite ?(Z.eqb_sym 1 sgn), ?(Z.eqb_sym (-1) sgn), ?(Z.eqb_sym (- (1)) sgn).
    change (- (1))%%Z with (-1)%%Z. destruct in_rwa, (sgn =? 1)%%Z, (sgn =? -1)%%Z; split; reflexivity.
  Qed.
  Lemma gen_conv_dm_is_model : forall in_rwa sgn u rho,
    fst (gen_conv_from_dm in_rwa sgn u rho) = fst (conv_from_dm in_rwa sgn u rho) /\\
    meq n (snd (gen_conv_from_dm in_rwa sgn u rho)) (snd (conv_from_dm in_rwa sgn u rho)) /\\
    fst (gen_conv_to_dm in_rwa u rho) = fst (conv_to_dm in_rwa u rho) /\\
    meq n (snd (gen_conv_to_dm in_rwa u rho)) (snd (conv_to_dm in_rwa u rho)) /\\
    (forall sg Om t k, g_dm_phase sg Om t k = rwa_phase ex im sg Om t k).
  Proof.
    intros in_rwa sgn u rho.
    assert (Hc : forall v r, meq n (g_dm_conv v r) (rwa_dm v r)) by (intros; unfold g_dm_conv; first [apply dm_convert_is_model | apply dm_convert_is_model']).
    assert (Hfrom : forall b s v r, fst (gen_conv_from_dm b s v r) = fst (conv_from_dm b s v r) /\\ meq n (snd (gen_conv_from_dm b s v r)) (snd (conv_from_dm b s v r))).
    { intros b s v r. unfold gen_conv_from_dm, conv_from_dm. cbn [fst snd]. destruct (g_flags_ok b s) as [-> ->]. split; [reflexivity|].
      destruct (conv_applies b s); [apply Hc|intros ? ? _ _; reflexivity]. }
    split; [apply Hfrom|]. split; [apply Hfrom|].
    split; [unfold gen_conv_to_dm, conv_to_dm; destruct in_rwa; reflexivity|].
    split; [unfold gen_conv_to_dm, conv_to_dm; destruct in_rwa; [cbn [snd negb]; intros ? ? _ _; reflexivity|cbn [snd negb]; apply Hfrom]|].
    intros sg Om t k. unfold g_dm_phase, rwa_phase. f_equal; ring.
  Qed.

  (* StateVectorEvolution.convert_from_RWA / convert_to_RWA *)
  Definition g_sv_applies (in_rwa : bool) (sgn : Z) : bool := %(svguard)s.
  Definition g_sv_flag (in_rwa : bool) (sgn : Z) : bool := if %(svfguard)s then %(svfval)s else in_rwa.
  Definition g_sv_phase (sgn : R) (Om : @vec R) (t : R) (k : nat) : R := ex %(svphase)s.
  Definition g_sv_conv (u psi : @vec R) : @vec R := fun k => %(svconv)s.
  Definition gen_conv_from_sv (in_rwa : bool) (sgn : Z) (u psi : @vec R) : bool * @vec R :=
    (g_sv_flag in_rwa sgn, if g_sv_applies in_rwa sgn then g_sv_conv u psi else psi).
  Definition gen_conv_to_sv (in_rwa : bool) (um psi : @vec R) : bool * @vec R :=
    if %(svtog)s then (%(svtov)s, snd (gen_conv_from_sv in_rwa %(svtos)s um psi)) else (in_rwa, psi).
  Lemma g_sv_flags_ok : forall in_rwa sgn, g_sv_applies in_rwa sgn = conv_applies in_rwa sgn /\\ g_sv_flag in_rwa sgn = conv_flag in_rwa sgn.
  Proof.
    intros. unfold g_sv_applies, g_sv_flag, conv_applies, conv_flag. rewrite ?(Z.eqb_sym 1 sgn), ?(Z.eqb_sym (-1) sgn), ?(Z.eqb_sym (- (1)) sgn).
    change (- (1))%%Z with (-1)%%Z. destruct in_rwa, (sgn =? 1)%%Z, (sgn =? -1)%%Z; split; reflexivity.
  Qed.
  Lemma gen_conv_sv_is_model : forall in_rwa sgn u psi,
    fst (gen_conv_from_sv in_rwa sgn u psi) = fst (conv_from_sv n in_rwa sgn u psi) /\\
    veq n (snd (gen_conv_from_sv in_rwa sgn u psi)) (snd (conv_from_sv n in_rwa sgn u psi)) /\\
    fst (gen_conv_to_sv in_rwa u psi) = fst (conv_to_sv n in_rwa u psi) /\\
    veq n (snd (gen_conv_to_sv in_rwa u psi)) (snd (conv_to_sv n in_rwa u psi)) /\\
    (forall sg Om t k, g_sv_phase sg Om t k = rwa_phase ex im sg Om t k).
  Proof.
    intros in_rwa sgn u psi.
    assert (Hc : forall v p, veq n (g_sv_conv v p) (rwa_sv n SvRepaired v p)) by (intros v p k _; unfold g_sv_conv, rwa_sv; ring).
    assert (Hfrom : forall b s v p, fst (gen_conv_from_sv b s v p) = fst (conv_from_sv n b s v p) /\\ veq n (snd (gen_conv_from_sv b s v p)) (snd (conv_from_sv n b s v p))).
    { intros b s v p. unfold gen_conv_from_sv, conv_from_sv. cbn [fst snd]. destruct (g_sv_flags_ok b s) as [-> ->]. split; [reflexivity|].
      destruct (conv_applies b s); [apply Hc|intros ? _; reflexivity]. }
    split; [apply Hfrom|]. split; [apply Hfrom|].
    split; [unfold gen_conv_to_sv, conv_to_sv; destruct in_rwa; reflexivity|].
    split; [unfold gen_conv_to_sv, conv_to_sv; destruct in_rwa; [cbn [snd negb]; intros ? _; reflexivity|cbn [snd negb]; apply Hfrom]|].
    intros sg Om t k. unfold g_sv_phase, rwa_phase. f_equal; ring.
  Qed.

  (* _INIT_EXP, _INIT_RWA (without the non-Hermitian term, which Model/C02.v does not carry), _CLOSE_RWA *)
  Definition gen_init_exp (rhoi : @mat R) : @mat R * @mat R := (%(ie1)s, %(ie2)s).
  Definition gen_init_rwa (has_rwa : bool) (H : @mat R) (Om : @vec R) : @mat R := if has_rwa then %(irwa)s else %(iplain)s.
  Definition gen_close_rwa (has_rwa flag : bool) : bool := if has_rwa then %(cval)s else flag.
  Lemma gen_init_close_is_model :
    (forall r, gen_init_exp r = (r, r)) /\\ (forall b H Om i j, gen_init_rwa b H Om i j = init_rwa b H Om i j) /\\
    (forall b f, gen_close_rwa b f = close_rwa b f).
  Proof.
    split; [reflexivity|]. split; [intros b H Om i j; unfold gen_init_rwa, init_rwa; destruct b; [apply gen_rwa_data_is_model|reflexivity]|].
    intros b f. unfold gen_close_rwa, close_rwa. destruct b; reflexivity.
  Qed.

  (* _BOOT_DEPH / _APPLY_DEPH *)
  Definition gen_expo (k : deph_kind) (g dt : R) : R := match k with Lorentzian => ex %(le)s | Gaussian => ex %(ge)s end.
  Definition gen_t0 (k : deph_kind) (g dt : R) : R := match k with Lorentzian => %(lt)s | Gaussian => %(gt)s end.
  Definition gen_apply_deph (r e1 t0 tt : R) : R := rmul R %(apa)s (ex %(apb)s).
  Lemma gen_deph_is_model : forall k (gam : @mat R) dt tt (rho : @mat R) i j, (i < n)%%nat -> (j < n)%%nat ->
    gen_expo k (gam i j) dt = deph_expo ex half k gam dt i j /\\ gen_t0 k (gam i j) dt = deph_t0 k gam dt i j /\\
    gen_apply_deph (rho i j) (gen_expo k (gam i j) dt) (gen_t0 k (gam i j) dt) tt = dephase n (deph_mult ex half k gam dt tt) rho i j.
  Proof.
    intros k gam dt tt rho i j Hi Hj.
    assert (H1 : gen_expo k (gam i j) dt = deph_expo ex half k gam dt i j) by (unfold gen_expo, deph_expo; destruct k; f_equal; ring).
    assert (H2 : gen_t0 k (gam i j) dt = deph_t0 k gam dt i j) by (unfold gen_t0, deph_t0; destruct k; ring).
    split; [exact H1|]. split; [exact H2|]. rewrite H1, H2.
    transitivity (rmul R (rmul R (rho i j) (deph_expo ex half k gam dt i j)) (ex (rmul R (ropp R (deph_t0 k gam dt i j)) tt))).
    - unfold gen_apply_deph. set (t0 := deph_t0 k gam dt i j). set (e1 := deph_expo ex half k gam dt i j). set (r := rho i j).
      replace %(apb)s with (rmul R (ropp R t0) tt) by ring. ring.
    - apply (apply_deph_is_model n (deph_expo ex half k gam dt) (fun a b => ex (rmul R (ropp R (deph_t0 k gam dt a b)) tt)) rho i j Hi Hj).
  Qed.

  (* Kd[m] = transpose(Km[m]) built before the operator-form nests (the hypothesis of gen_OTI_is_model) *)
  Definition gen_Kd (Km : nat -> @mat R) (m : nat) : @mat R := mT (Km %(kdm)s).
  Lemma gen_Kd_is_transpose : forall Km m, gen_Kd Km m = mT (Km m).
  Proof. reflexivity. Qed.
End GenGlue.

(* setDtRefinement, the per-call refinement of propagate and its decision tree; start indices of the stored trajectory *)
Section GenDispatch.
  Context {R : StarRing}.
  Definition gen_refine (Odt : R) (inv : Z -> R) (Nref : Z) : Z * R := (%(refa)s, %(refb)s).
  Definition gen_sv_refine (Odt : R) (inv : Z -> R) (Nref : Z) : Z * R := (%(svrefa)s, %(svrefb)s).
  Definition gen_percall (st : Z * R) (Odt : R) (inv : Z -> R) (k : Z) : (Z * R) * (Z * R) :=
    if %(pcg)s then (gen_refine Odt inv %(pck)s, st) else (st, st).
  Lemma gen_percall_is_model : forall st Odt inv k, gen_percall st Odt inv k = percall st Odt inv k /\\ gen_sv_refine Odt inv k = refine Odt inv k.
  Proof.
    intros. unfold gen_percall, percall, gen_refine, gen_sv_refine, refine. rewrite ?Z.gtb_ltb, ?Z.geb_leb. split; [|reflexivity].
    destruct (1 <? k)%%Z eqn:E; first [reflexivity | (replace (2 <=? k)%%Z with (1 <? k)%%Z by (apply Bool.eq_iff_eq_true; rewrite Z.ltb_lt, Z.leb_le; lia); rewrite E; reflexivity)].
  Qed.
End GenDispatch.
Definition gen_dispatch (has_relax is_td efield trdip efield_obj : bool) (method : meth) : option (target * Z) :=
  %(tree)s.
Lemma gen_dispatch_is_model : forall a b c d e m, gen_dispatch a b c d e m = dispatch a b c d e m.
Proof. intros a b c d e m. destruct a, b, c, d, e, m; reflexivity. Qed.
Definition gen_form (as_operators : bool) : form := if as_operators then FOperators else FTensor.
Definition g_starts : list Z := [%(starts)s].
Lemma gen_starts_are_one : Forall (fun z => z = 1%%Z) g_starts /\\ (forall b, gen_form b = form_of b).
Proof. split; [repeat constructor|reflexivity]. Qed.
(* time-dependent tensor: how many bath steps one refined step covers *)
Definition g_td_fit (nmax nreq : Z) : bool := %(tdfit)s.
Definition g_td_stride (nmax nreq : Z) : Z := %(tdstride)s.
Definition g_td_dt (sysstep stride : Z) : Z := %(tddt)s.
Lemma gen_td_stride_fits : forall nmax nreq, (0 < nreq)%%Z -> g_td_fit nmax nreq = true ->
  (g_td_stride nmax nreq * nreq = nmax)%%Z /\\ (forall sysstep, g_td_dt sysstep (g_td_stride nmax nreq) * nreq = sysstep * nmax)%%Z.
Proof.
  intros nmax nreq Hn Hf. unfold g_td_fit in Hf. unfold g_td_stride, g_td_dt.
  assert (H0 : (nmax mod nreq = 0)%%Z) by (revert Hf; rewrite ?Z.eqb_eq; intros Hf; first [exact Hf | (symmetry; exact Hf)]).
  assert (H1 : (nmax / nreq * nreq = nmax)%%Z) by (pose proof (Z.div_mod nmax nreq ltac:(lia)); lia).
  split; [exact H1|]. intros sysstep. rewrite <- H1 at 2. ring.
Qed.
(* StateVectorPropagator.propagate hands the state and the order on unchanged *)
Definition gen_sv_dispatch (L : Z) : Z := %(svL)s.
Lemma gen_sv_dispatch_is_identity : forall L, gen_sv_dispatch L = L.
Proof. reflexivity. Qed.
"""


class NExpr:
    """natural-number expressions of set_rwa: block, upper, ii, self.rwa_indices[e] -> idx e, self.data.shape[0] -> dim, e + c"""

    def __init__(self, names):
        self.names = dict(names)

    def e(self, node):
        if isinstance(node, ast.Name) and node.id in self.names:
            return self.names[node.id]
        key = ast.unparse(node)
        if key == "self.data.shape[0]":
            return "dim"
        if key == "self.Nblocks":
            return "nblocks"
        if isinstance(node, ast.Constant) and isinstance(node.value, int) and not isinstance(node.value, bool) and node.value >= 0:
            return "%d%%nat" % node.value
        if isinstance(node, ast.Subscript) and ast.unparse(node.value) == "self.rwa_indices":
            return "(idx %s)" % self.e(node.slice)
        if isinstance(node, ast.BinOp) and isinstance(node.op, ast.Add):
            return "(%s + %s)%%nat" % (self.e(node.left), self.e(node.right))
        raise Untranslatable("set_rwa index expression %s" % key[:60])

    def z(self, node):
        """the same expressions as integers (conditions may subtract)"""
        if isinstance(node, ast.BinOp) and isinstance(node.op, (ast.Add, ast.Sub)):
            return "(%s %s %s)%%Z" % (self.z(node.left), "+" if isinstance(node.op, ast.Add) else "-", self.z(node.right))
        if isinstance(node, ast.Constant) and isinstance(node.value, int) and not isinstance(node.value, bool):
            return "(%d)%%Z" % node.value
        return "(Z.of_nat %s)" % self.e(node)

    def b(self, node):
        if isinstance(node, ast.Compare) and len(node.ops) == 1:
            op = {ast.Lt: "<?", ast.LtE: "<=?", ast.Gt: ">?", ast.GtE: ">=?"}.get(type(node.ops[0]))
            if op:
                return "(%s %s %s)%%Z" % (self.z(node.left), op, self.z(node.comparators[0]))
        raise Untranslatable("set_rwa condition %s" % ast.unparse(node)[:60])


def extra(repo):
    out = {}
    # ---------------- hamiltonian.py
    f = repo + HAM
    env = _match(f, "Hamiltonian.get_RWA_data", T_GETRWA)
    out["rwadata"] = MExpr({"self.data": "H"}, {"self.get_RWA_skeleton()": "Om"}).m(env["H_e"])
    env = _match(f, "Hamiltonian.get_RWA_skeleton", T_SKEL)
    _require(env["H_i"], "ii", "get_RWA_skeleton writes HOmega at")
    e = env["H_e"]
    if not (isinstance(e, ast.Subscript) and ast.unparse(e.value) == "self.rwa_energies" and isinstance(e.slice, ast.Name) and e.slice.id == "ii"):
        raise Untranslatable("get_RWA_skeleton converts %s" % ast.unparse(e)[:60])
    out["skel"] = "(E ii)"
    env = _match(f, "Hamiltonian.set_rwa", T_SETRWA)
    ne = NExpr({"block": "block", "upper": "upper"})
    out["cond"] = ne.b(env["H_cond"])
    out["up1"], out["up2"] = ne.e(env["H_up1"]), ne.e(env["H_up2"])
    for h in ("lo1", "hi1", "lo2", "hi2"):
        out[h] = ne.e(env["H_" + h])
    out["k0"], out["kinc"] = NExpr({}).e(env["H_k0"]), NExpr({}).e(env["H_kinc"])
    t = env["H_term"]
    if not (isinstance(t, ast.Subscript) and ast.unparse(t.value) == "self.data" and isinstance(t.slice, ast.Tuple) and len(t.slice.elts) == 2
            and all(isinstance(x, ast.Name) and x.id == "ii" for x in t.slice.elts)):
        raise Untranslatable("set_rwa accumulates %s" % ast.unparse(t)[:60])
    out["term"] = "(diag ii)"
    # ---------------- dmevolution.py / statevectorevolution.py
    flags = {"self.is_in_rwa": "in_rwa"}
    for tag, path, cls, tmpl in (("dm", DME, "DensityMatrixEvolution", T_FROM_DM), ("sv", SVE, "StateVectorEvolution", T_FROM_SV)):
        env = _match(repo + path, cls + ".convert_from_RWA", tmpl)
        out[tag + "guard"] = _bool_flag(env["H_guard"], flags)
        out[tag + "fguard"] = _bool_flag(env["H_fguard"], flags)
        out[tag + "fval"] = _boolconst(env["H_fval"])
        out[tag + "phase"] = RExpr({"sgn": "sgn", "1j": "im", "HOmega": "(Om k)", "t": "t"}).e(env["H_phase"])
        _require(env["H_w"], "i", cls + ".convert_from_RWA stores at")
        if tag == "dm":
            out["dmconv"] = MExpr({"self.data[i, :, :]": "rho", "Ut": "(mdiag u)"}, {}).m(env["H_conv"])
        else:
            out["svconv"] = RExpr({"Ut": "(u k)", "self.data[i, :]": "(psi k)"}).e(env["H_conv"])
        env = _match(repo + path, cls + ".convert_to_RWA", T_TO)
        out[tag + "tog"] = _bool_flag(env["H_g"], flags)
        out[tag + "tos"] = _zconst(env["H_s"])
        out[tag + "tov"] = _boolconst(env["H_v"])
    # ---------------- rdmpropagator.py
    f = repo + RDM
    env = _match(f, PCLS + "._INIT_EXP", T_INITEXP)
    tab = {"rhoi.data": "rhoi"}
    out["ie1"], out["ie2"] = MExpr(tab, {}).m(env["H_r1"]), MExpr(tab, {}).m(env["H_r2"])
    env = _match(f, PCLS + "._INIT_RWA", T_INITRWA)
    ham = {"self.Hamiltonian.get_RWA_data()": "(gen_rwa_data H Om)", "self.Hamiltonian.data": "H"}
    out["irwa"], out["iplain"] = MExpr(ham, {}).m(env["H_rwa"]), MExpr(ham, {}).m(env["H_plain"])
    env = _match(f, PCLS + "._CLOSE_RWA", T_CLOSERWA)
    out["cval"] = _boolconst(env["H_v"])
    env = _match(f, PCLS + "._BOOT_DEPH", T_BOOT)
    rx = RExpr({"self.PDeph.data": "g", "self.dt": "dt"}, half="half")
    for h in ("le", "lt", "ge", "gt"):
        out[h] = rx.e(env["H_" + h])
    env = _match(f, PCLS + "._APPLY_DEPH", T_APPLYDEPH)
    rx = RExpr({"rho2": "r", "self.expo": "e1", "self.t0": "t0", "tt": "tt"})
    out["apa"], out["apb"] = rx.e(env["H_a"]), rx.e(env["H_b"])
    env = _match(f, PCLS + ".setDtRefinement", T_REFINE)
    out["refa"], out["refb"] = _refine(env)
    env = _match(repo + SVP, "StateVectorPropagator.setDtRefinement", T_REFINE)
    out["svrefa"], out["svrefb"] = _refine(env)
    # propagate: head by template, the rest as a decision tree
    fn = _src_of(f, PCLS + ".propagate")
    body = [s for s in _live(fn.body) if not _is_noise(s)]
    tfn = ast.parse(T_PROP_HEAD).body[0]
    env = {}
    unify([a.arg for a in tfn.args.args], [a.arg for a in fn.args.args], env, "propagate.args")
    if len(body) != 3:
        raise Untranslatable("propagate: %d top-level statements where the per-call refinement, the type check and the decision tree are expected" % len(body))
    unify(tfn.body[:2], body[:2], env, "propagate")
    out["pcg"] = _bool_flag(env["H_g"], {})
    out["pck"] = Expr("Z", {"Nref": "k"}).e(env["H_k"])
    out["tree"] = _tree(body[2:], "propagate")
    # the statements around the loop nests
    starts = []
    env = _match(f, PCLS + ".__propagate_short_exp", T_HAM, nests=True)
    starts.append(_zconst(env["H_i0"]))
    env = _match(f, PCLS + ".__propagate_short_exp_with_relaxation", T_REL, nests=True)
    starts += [_zconst(env["H_i0"]), _zconst(env["H_i1"])]
    env = _match(f, PCLS + ".__propagate_short_exp_with_rel_operators", T_OPS, nests=True)
    starts.append(_zconst(env["H_i0"]))
    _require(env["H_m1"], "m", "Kd is filled at")
    out["kdm"] = {"m": "m"}.get(ast.unparse(env["H_m2"]))
    if out["kdm"] is None:
        raise Untranslatable("Kd[m] is the transpose of Km[%s]" % ast.unparse(env["H_m2"]))
    env = _match(f, PCLS + ".__propagate_short_exp_with_TD_relaxation", T_TD, nests=True)
    starts += [_zconst(env["H_i0"]), _zconst(env["H_iR"])]
    for h in ("H_r1", "H_r2"):
        _require(env[h], "rhoi.data", "time-dependent nest starts from")
    _require(env["H_rwa"], "self.Hamiltonian.get_RWA_data()", "time-dependent nest, RWA Hamiltonian")
    _require(env["H_plain"], "self.Hamiltonian.data", "time-dependent nest, Hamiltonian")
    if _boolconst(env["H_v"]) != "true":
        raise Untranslatable("time-dependent nest marks the result as not being in RWA")
    zt = Expr("Z", {"Nref_max": "nmax", "Nref_req": "nreq", "sysstep": "sysstep", "stride": "stride"})
    out["tdfit"], out["tdstride"], out["tddt"] = zt.b(env["H_fit"]), zt.e(env["H_stride"]), zt.e(env["H_dt"])
    # ---------------- svpropagator.py
    env = _match(repo + SVP, "StateVectorPropagator.propagate", T_SVPROP)
    _require(env["H_x"], "psii", "StateVectorPropagator.propagate hands on")
    out["svL"] = Expr("Z", {"L": "L"}).e(env["H_L"])
    env = _match(repo + SVP, "StateVectorPropagator._propagate_short_exp", T_SVEXP, nests=True)
    starts.append(_zconst(env["H_i0"]))
    for h in ("H_r1", "H_r2"):
        _require(env[h], "psii.data", "state-vector nest starts from")
    _require(env["H_rwa"], "self.ham.get_RWA_data()", "state-vector nest, RWA Hamiltonian")
    _require(env["H_plain"], "self.ham.data", "state-vector nest, Hamiltonian")
    if _boolconst(env["H_v"]) != "true":
        raise Untranslatable("state-vector nest marks the result as not being in RWA")
    out["starts"] = "; ".join(starts)
    what = ["hamiltonian.py:Hamiltonian.get_RWA_data", "hamiltonian.py:Hamiltonian.get_RWA_skeleton", "hamiltonian.py:Hamiltonian.set_rwa (block means)",
            "dmevolution.py:DensityMatrixEvolution.convert_from_RWA / convert_to_RWA (guard, flag, phases, diag(u) rho conj(diag(u)))",
            "statevectorevolution.py:StateVectorEvolution.convert_from_RWA / convert_to_RWA (elementwise phases)",
            "rdmpropagator.py:_INIT_EXP, _INIT_RWA, _CLOSE_RWA", "rdmpropagator.py:_BOOT_DEPH, _APPLY_DEPH (Lorentzian and Gaussian factors)",
            "rdmpropagator.py:setDtRefinement, propagate (per-call refinement with save/restore; option and method-string decision tree)",
            "rdmpropagator.py: statements around the loop nests of __propagate_short_exp, _with_relaxation, _with_rel_operators (Kd = transpose), "
            "_with_TD_relaxation (stride, dt, start indices)",
            "svpropagator.py:StateVectorPropagator.propagate, setDtRefinement, statements around the nest of _propagate_short_exp"]
    return GEN % out, what


def _refine(env):
    """self.Nref = Nref ; self.dt = self.Odt / self.Nref   ->  (Nref, Odt * inv Nref)"""
    a = Expr("Z", {"Nref": "Nref"}).e(env["H_a"])
    b = env["H_b"]
    if not (isinstance(b, ast.BinOp) and isinstance(b.op, ast.Div) and ast.unparse(b.left) == "self.Odt" and ast.unparse(b.right) in ("self.Nref", "Nref")):
        raise Untranslatable("setDtRefinement sets dt = %s" % ast.unparse(b)[:60])
    return a, "(rmul R Odt (inv %s))" % (a if ast.unparse(b.right) == "self.Nref" else "Nref")
