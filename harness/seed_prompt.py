#!/usr/bin/env python3
"""usage: seed_prompt.py <property id> <tag>  -- creates a scratch worktree and prints the prompt for an independent
sub-agent that is to write a property-breaking change (the agent sees the property text only, nothing from /verif)."""
import sys, json, subprocess, os
pid, tag = sys.argv[1], sys.argv[2]
prop = [json.loads(l) for l in open("/verif/properties.jsonl") if json.loads(l)["id"] == pid][0]
wt = "/tmp/seedwt_%s_%s" % (pid, tag)
out = "/tmp/seed_%s_%s" % (pid, tag)
if not os.path.exists(wt):
    subprocess.check_call(["git", "-C", "/repo", "worktree", "add", "-q", "--detach", wt, "HEAD"])
os.makedirs(out, exist_ok=True)
hint = sys.argv[3] if len(sys.argv) > 3 else ""
print(f"""You are testing how well a verification effort detects realistic regressions in the Python package tmancal74/quantarhei (an open quantum systems simulator). You have your own scratch git worktree of the repository at {wt} (work ONLY there; never touch /repo or /verif, do not read anything under /verif). Use /venv/bin/python (the package imports from the worktree when PYTHONPATH={wt}); set HOME to a scratch directory such as {out}/home and MPLBACKEND=Agg for every run, because the package's Manager singleton reads and writes ~/.quantarhei.

The property under test (this text is all you are given about it):

TITLE: {prop['title']}
STATEMENT: {prop['statement']}
QUANTIFIED OVER: {prop['quantifier']['text']}
CODE ANCHORS: {json.dumps(prop['anchors']['files'])}
MECHANISMS: {json.dumps(prop['anchors'].get('mechanism', []))}

Your task: write ONE small, realistic change to the package source (the kind of slip a maintainer could make in a refactoring or optimisation: a wrong index, a missing reset, a stale cache, a swapped argument, an off-by-one on a boundary, a condition that is wrong only for unusual inputs, two cooperating sites that each look fine alone ...) that BREAKS the property above while the package still imports and the existing unit tests still pass exactly as before. {hint}
The change must need something specific to manifest - a particular multi-step sequence of operations, an unusual but legitimate input (size, parity, degenerate values, a particular option combination), an exception at a particular point, re-use of an object - NOT something ordinary use or the existing tests would expose at once. Do not touch tests. Do not add new files to the package. Keep the diff minimal (a few lines).

Deliverables, all under {out}/ :
1. patch.diff  - `git -C {wt} diff` of your change (must apply to a clean checkout with `git apply`);
2. demo.py     - a small self-contained program (run with PYTHONPATH set to a checkout) that exits 0 on the unchanged code and exits non-zero (assertion failure with a clear message) with your change, demonstrating the property violation through the package's public behaviour;
3. meta.json   - {{"summary": "<what the change does, file and function>", "needs_to_manifest": "<what specific input/sequence is needed>", "tests_run": "<the commands you ran and their results>"}}.

You must verify yourself: (a) demo.py exits 0 on the clean worktree (run it before editing, or against an export made with `git -C {wt} archive HEAD | tar -x -C <dir>`; NEVER use `git stash`: the stash is shared by all worktrees of the repository and other agents work concurrently), (b) exits non-zero with the change, (c) the unit tests behave the same with and without the change: `cd {wt} && HOME={out}/home MPLBACKEND=Agg PYTHONPATH={wt} /venv/bin/python -m pytest -q -p no:cacheprovider --timeout=900 --continue-on-collection-errors tests/unit` (takes 5-8 minutes; baseline on the clean tree: 147 passed, 5 failed, 1 collection error - the same tests must pass/fail with your change). Leave the change applied in the worktree when you finish. Final message: a short summary of the change and the results of (a), (b), (c).""")
