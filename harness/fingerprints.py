#!/usr/bin/env python3
"""usage: harness/fingerprints.py --update | --show
Records the AST fingerprints of every property's anchored source files of /repo's current working tree in
/verif/fingerprints.json (committed). The checks compare against this record: when an anchored file differs, the quick tier
runs with the thorough budget. Run --update after every fix: commit (the record must describe the tree the checks were
last validated against)."""
import sys, os, json
if os.path.realpath(sys.executable) != os.path.realpath("/venv/bin/python") and os.path.exists("/venv/bin/python"):
    os.execv("/venv/bin/python", ["/venv/bin/python"] + sys.argv)    # ast.dump differs between interpreter versions: always the checks' interpreter
sys.path.insert(0, os.path.dirname(os.path.abspath(__file__)))
os.environ.setdefault("VERIF_ISOLATED", "x")
import common as cm
pids = [json.loads(l)["id"] for l in open(os.path.join(cm.VERIF, "properties.jsonl"))]
if "--update" in sys.argv:
    rec = {p: cm.fingerprints(p) for p in pids}
    json.dump(rec, open(os.path.join(cm.VERIF, "fingerprints.json"), "w"), indent=1, sort_keys=True)
    print("recorded", sum(len(v) for v in rec.values()), "files for", len(rec), "properties")
else:
    for p in pids:
        print(p, cm.changed_anchors(p))
