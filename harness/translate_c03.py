# -*- coding: utf-8 -*-
"""Static tie for C03 (and the shared machinery for C10): the current source of the aggregate builder is matched statement by
statement against templates, the arithmetic content (holes) is translated to Gallina and spliced into a generated file whose
definitions instantiate the skeleton combinators of coq/theories/Proofs/C03gen.v; the generated lemmas show that they are the
definitions of Model/C03.v (elsigs, elsigs_eq, band, exindx, trdip, coupling, energy, build_H, build_D, Nb, dipole_dipole,
eps0_int) and Model/C03dd.v (dd_matrix).

Fail-closed: anything outside the templates / the expression fragment raises Untranslatable.  Conventions of the templates:
  H_x   expression hole (bound once; translated with an explicit table of the variables it may mention)
  L_x   local-variable hole: binds a local name of the source consistently and injectively (alpha-renaming of locals)
  W_x   any name (used only in statements that merely read the tracked objects)
  S_any as the only statement of a block: any block (used only for blocks the modelled path does not execute)
Augmented assignments are normalised to plain ones (x += y  ==  x = x + y) in template and source before matching.
"""
import ast
import copy

from translate import Untranslatable, _src_of
from translate2 import _live

_SKIP = {"ctx", "lineno", "col_offset", "end_lineno", "end_col_offset", "type_comment", "kind"}


# ------------------------------------------------------------------------------------------------ normalisation, unification
def _simple_target(t):
    if isinstance(t, ast.Name):
        return True
    if isinstance(t, ast.Attribute):
        return _simple_target(t.value)
    if isinstance(t, ast.Subscript):
        idx = t.slice.elts if isinstance(t.slice, ast.Tuple) else [t.slice]
        return _simple_target(t.value) and all(isinstance(i, (ast.Name, ast.Constant)) for i in idx)
    return False


class _Norm(ast.NodeTransformer):
    """x op= y  ->  x = x op y  for targets whose evaluation has no effect (names, attributes, subscripts by names/constants)"""

    def visit_AugAssign(self, n):
        self.generic_visit(n)
        if not _simple_target(n.target):
            return n
        load = copy.deepcopy(n.target)
        return ast.copy_location(ast.Assign(targets=[n.target], value=ast.BinOp(left=load, op=n.op, right=n.value), type_comment=None), n)


def normalise(node):
    return ast.fix_missing_locations(_Norm().visit(copy.deepcopy(node)))


def _is_any(stmts):
    return (len(stmts) == 1 and isinstance(stmts[0], ast.Expr) and isinstance(stmts[0].value, ast.Name)
            and stmts[0].value.id.startswith("S_any"))


def unify(t, s, env, path="body"):
    """env: hole name -> ast expression (H_) / source local name (L_)"""
    if isinstance(t, ast.Name) and t.id.startswith("H_"):
        if not isinstance(s, ast.expr):
            raise Untranslatable("%s: hole %s against a non-expression" % (path, t.id))
        if t.id in env:
            if ast.dump(env[t.id]) != ast.dump(s):
                raise Untranslatable("%s: hole %s bound to two different expressions (%s / %s)" % (path, t.id, ast.unparse(env[t.id]), ast.unparse(s)))
        else:
            env[t.id] = s
        return
    if isinstance(t, ast.Name) and t.id.startswith("W_"):
        if not isinstance(s, ast.Name):
            raise Untranslatable("%s: a name is expected, found %s" % (path, ast.unparse(s)[:60] if isinstance(s, ast.AST) else s))
        return                                  # any name: used only where the statement merely reads the tracked objects
    if isinstance(t, ast.Name) and t.id.startswith("L_"):
        if not isinstance(s, ast.Name):
            raise Untranslatable("%s: a local name is expected (%s), found %s" % (path, t.id, ast.unparse(s)[:60] if isinstance(s, ast.AST) else s))
        if t.id in env:
            if env[t.id] != s.id:
                raise Untranslatable("%s: local %s is %s and %s" % (path, t.id, env[t.id], s.id))
        else:
            if s.id in [v for k, v in env.items() if k.startswith("L_")]:
                raise Untranslatable("%s: source name %s plays two roles of the template (%s)" % (path, s.id, t.id))
            env[t.id] = s.id
        return
    if isinstance(t, list):
        if not isinstance(s, list):
            raise Untranslatable("%s: list expected" % path)
        if (t and isinstance(t[0], ast.stmt)) or (s and isinstance(s[0], ast.stmt)):
            t, s = _live(t), _live(s)
            if _is_any(t):
                return
        if len(t) != len(s):
            raise Untranslatable("%s: %d statements/elements where the template has %d (%s)"
                                 % (path, len(s), len(t), "; ".join(ast.unparse(x)[:40] for x in s if isinstance(x, ast.AST))[:200]))
        for k, (a, b) in enumerate(zip(t, s)):
            unify(a, b, env, "%s[%d]" % (path, k))
        return
    if isinstance(t, ast.Raise):
        if not isinstance(s, ast.Raise):
            raise Untranslatable("%s: raise expected, found %s" % (path, ast.unparse(s)[:60]))
        return                                  # which exception and which message: not modelled
    if isinstance(t, ast.AST):
        if type(t) is not type(s):
            raise Untranslatable("%s: %s where the template has %s (%s)" % (path, type(s).__name__, type(t).__name__,
                                                                         ast.unparse(s)[:80] if isinstance(s, ast.AST) else s))
        for f in t._fields:
            if f in _SKIP:
                continue
            unify(getattr(t, f, None), getattr(s, f, None), env, path + "." + f)
        return
    if t != s:
        raise Untranslatable("%s: %r where the template has %r" % (path, s, t))


def tmpl_fn(src):
    return normalise(ast.parse(src).body[0])


def tmpl_stmts(src):
    return normalise(ast.parse(src)).body


def match_fn(path, qualname, template_src):
    fn = normalise(_src_of(path, qualname))
    t = tmpl_fn(template_src)
    env = {}
    unify([a.arg for a in t.args.args], [a.arg for a in fn.args.args], env, qualname + ".args")
    unify(t.body, fn.body, env, qualname)
    return env


def _mentions(node, pred):
    for x in ast.walk(node):
        if pred(x):
            return True
    return False


def project(stmts, relevant, in_loop=False):
    """the statements that can matter to the tracked objects: simple statements for which `relevant` holds, compound statements
    that contain one (with their headers), and every return / break / continue that can cut a kept block short.
    Returns (kept statements, has a relevant statement, has control flow that leaves this block)"""
    out, core, ctrl = [], False, False
    for s in _live(stmts):
        if isinstance(s, (ast.Return,)):
            out.append(s)
            ctrl = True
        elif isinstance(s, (ast.Break, ast.Continue)):
            out.append(s)
            ctrl = True
        elif isinstance(s, (ast.For, ast.While)):
            b, c1, k1 = project(s.body, relevant, True)
            e, c2, k2 = project(s.orelse, relevant, in_loop)
            header = relevant(ast.Expr(value=s.iter)) if isinstance(s, ast.For) else relevant(ast.Expr(value=s.test))
            inner_ret = any(isinstance(x, ast.Return) for y in (b + e) for x in ast.walk(y))
            if c1 or c2 or header or inner_ret:
                n = copy.copy(s)
                n.body, n.orelse = b, e
                out.append(n)
                core = core or c1 or c2 or header
                ctrl = ctrl or inner_ret
        elif isinstance(s, ast.If):
            b, c1, k1 = project(s.body, relevant, in_loop)
            e, c2, k2 = project(s.orelse, relevant, in_loop)
            if c1 or c2 or k1 or k2:
                n = copy.copy(s)
                n.body, n.orelse = b, e
                out.append(n)
                core = core or c1 or c2
                ctrl = ctrl or k1 or k2
        elif isinstance(s, ast.Try):
            parts = [project(s.body, relevant, in_loop)] + [project(h.body, relevant, in_loop) for h in s.handlers] + \
                    [project(s.orelse, relevant, in_loop), project(s.finalbody, relevant, in_loop)]
            if any(c or k for _, c, k in parts):
                raise Untranslatable("try block with tracked statements: %s" % ast.unparse(s)[:60])
        elif isinstance(s, ast.With):
            raise Untranslatable("with block inside a projected function: %s" % ast.unparse(s)[:60])
        elif isinstance(s, ast.Raise):
            continue                            # a call that raises has no result: not modelled
        elif isinstance(s, (ast.FunctionDef, ast.ClassDef)):
            raise Untranslatable("nested definition in a projected function")
        else:
            if relevant(s):
                out.append(s)
                core = True
    return out, core, ctrl


def match_projection(path, qualname, relevant, template_src, allow_try=False):
    fn = normalise(_src_of(path, qualname))
    kept, _, _ = project(fn.body, relevant)
    env = {}
    unify(tmpl_stmts(template_src), kept, env, qualname + " (projection)")
    return env


def increment_of(node, var):
    """node is the expression `var + e` or `e + var` (var: source text of the updated object); returns e"""
    if isinstance(node, ast.BinOp) and isinstance(node.op, ast.Add):
        if ast.unparse(node.left) == var:
            return node.right
        if ast.unparse(node.right) == var:
            return node.left
    raise Untranslatable("%s is not %s plus an increment" % (ast.unparse(node), var))


# ------------------------------------------------------------------------------------------------ expression translators
class ZE:
    """Python integer / boolean expressions -> Gallina over Z.
    names: source name -> Z term; lists: source name -> `list nat` term (x[i] -> pynth); zlists: -> `list Z` term (znth);
    attrs: source text of an attribute / call -> Z term; bools: source text -> bool term"""

    def __init__(self, names=None, lists=None, zlists=None, attrs=None, bools=None):
        self.names, self.lists, self.zlists = dict(names or {}), dict(lists or {}), dict(zlists or {})
        self.attrs, self.bools = dict(attrs or {}), dict(bools or {})

    def e(self, n):
        key = ast.unparse(n)
        if key in self.attrs:
            return self.attrs[key]
        if isinstance(n, ast.Name):
            if n.id in self.names:
                return self.names[n.id]
            raise Untranslatable("integer name %r is not in scope of this hole" % n.id)
        if isinstance(n, ast.Constant) and isinstance(n.value, int) and not isinstance(n.value, bool):
            return "(%d)" % n.value
        if isinstance(n, ast.UnaryOp) and isinstance(n.op, ast.USub):
            return "(- %s)" % self.e(n.operand)
        if isinstance(n, ast.BinOp):
            op = {ast.Add: "+", ast.Sub: "-", ast.Mult: "*", ast.FloorDiv: "/", ast.Mod: "mod"}.get(type(n.op))
            if op is None:
                raise Untranslatable("integer operator %s" % type(n.op).__name__)
            return "(%s %s %s)" % (self.e(n.left), op, self.e(n.right))
        if isinstance(n, ast.Subscript) and isinstance(n.value, ast.Name) and not isinstance(n.slice, (ast.Tuple, ast.Slice)):
            if n.value.id in self.lists:
                return "(pynth %s %s)" % (self.lists[n.value.id], self.e(n.slice))
            if n.value.id in self.zlists:
                return "(znth %s %s)" % (self.zlists[n.value.id], self.e(n.slice))
            raise Untranslatable("subscript of %s" % n.value.id)
        if isinstance(n, ast.Call) and not n.keywords and len(n.args) == 1:
            f = ast.unparse(n.func)
            if f == "len" and isinstance(n.args[0], ast.Name) and n.args[0].id in self.lists:
                return "(Z.of_nat (length %s))" % self.lists[n.args[0].id]
            if f == "len" and isinstance(n.args[0], ast.Name) and n.args[0].id in self.zlists:
                return "(Z.of_nat (length %s))" % self.zlists[n.args[0].id]
            if f in ("abs", "numpy.abs", "np.abs"):
                return "(Z.abs %s)" % self.e(n.args[0])
        raise Untranslatable("integer expression %s" % key[:100])

    def b(self, n):
        key = ast.unparse(n)
        if key in self.bools:
            return self.bools[key]
        if isinstance(n, ast.Compare) and len(n.ops) == 1:
            tab = {ast.LtE: "(%s <=? %s)", ast.Lt: "(%s <? %s)", ast.Eq: "(%s =? %s)", ast.NotEq: "(negb (%s =? %s))",
                   ast.GtE: "(%s >=? %s)", ast.Gt: "(%s >? %s)"}
            op = type(n.ops[0])
            if op not in tab:
                raise Untranslatable("comparison %s" % op.__name__)
            return tab[op] % (self.e(n.left), self.e(n.comparators[0]))
        if isinstance(n, ast.BoolOp):
            return "(" + (" && " if isinstance(n.op, ast.And) else " || ").join(self.b(v) for v in n.values) + ")"
        if isinstance(n, ast.UnaryOp) and isinstance(n.op, ast.Not):
            return "(negb %s)" % self.b(n.operand)
        raise Untranslatable("condition %s" % key[:100])


class RE:
    """float-valued expressions over a StarRing R: + - * unary -, the constants 0 and 1, names, and the sub-terms given in `subs`
    (callbacks node -> term or None).  convert_energy_2_current_u and numpy.real are the identity on the values of a build
    (internal units, real data): trusted, stated in the evidence."""
    IDENT = ("self.convert_energy_2_current_u", "numpy.real", "np.real")

    def __init__(self, names=None, subs=()):
        self.names, self.subs = dict(names or {}), list(subs)

    def e(self, n):
        for cb in self.subs:
            r = cb(n)
            if r is not None:
                return r
        if isinstance(n, ast.Name):
            if n.id in self.names:
                return self.names[n.id]
            raise Untranslatable("scalar name %r is not in scope of this hole" % n.id)
        if isinstance(n, ast.Constant) and isinstance(n.value, (int, float)) and not isinstance(n.value, bool) and n.value in (0, 1):
            return "(r1 R)" if n.value == 1 else "(r0 R)"
        if isinstance(n, ast.UnaryOp) and isinstance(n.op, ast.USub):
            return "(ropp R %s)" % self.e(n.operand)
        if isinstance(n, ast.BinOp):
            op = {ast.Add: "radd R", ast.Sub: "rsub R", ast.Mult: "rmul R"}.get(type(n.op))
            if op is None:
                raise Untranslatable("scalar operator %s" % type(n.op).__name__)
            return "(%s %s %s)" % (op, self.e(n.left), self.e(n.right))
        if isinstance(n, ast.Call) and ast.unparse(n.func) in self.IDENT and len(n.args) == 1 and not n.keywords:
            return self.e(n.args[0])
        raise Untranslatable("scalar expression %s" % ast.unparse(n)[:100])


def src_names(env, table):
    """{template name or plain name: coq term} -> {source name: coq term} through the L_ bindings"""
    out = {}
    for k, v in table.items():
        s = env[k] if k.startswith("L_") else k
        if s in out and out[s] != v:
            raise Untranslatable("source name %s stands for two variables of a hole" % s)
        out[s] = v
    return out


def zhole(env, hole, names=None, lists=None, zlists=None, attrs=None, bools=None, boolean=False):
    z = ZE(src_names(env, names or {}), src_names(env, lists or {}), src_names(env, zlists or {}), attrs, bools)
    return z.b(env[hole]) if boolean else z.e(env[hole])


def const_z(env, hole):
    return ZE().e(env[hole])


def float01(node):
    if isinstance(node, ast.Constant) and isinstance(node.value, (int, float)) and not isinstance(node.value, bool) and node.value in (0, 1):
        return "(r1 R)" if node.value == 1 else "(r0 R)"
    raise Untranslatable("constant %s where 0.0 / 1.0 is expected" % ast.unparse(node))


def which_name(env, hole, choices):
    """the hole must be one of the local names in `choices` (template name -> result)"""
    n = env[hole]
    if isinstance(n, ast.Name):
        for t, r in choices.items():
            if (env[t] if t.startswith("L_") else t) == n.id:
                return r
    raise Untranslatable("%s: %s where one of %s is expected" % (hole, ast.unparse(n), "/".join(env.get(t, t) for t in choices)))


# ------------------------------------------------------------------------------------------------ templates
AGG = "/quantarhei/builders/aggregate_base.py"
STA = "/quantarhei/builders/aggregate_states.py"
INT = "/quantarhei/builders/interactions.py"
UNI = "/quantarhei/core/units.py"

T_ADD_EXC = '''
def _add_excitation(self, inlists, strt, omax):
    L_k = 0
    for L_inlist in inlists:
        L_l = len(L_inlist)
        if len(omax) != L_l:
            raise Exception()
        for L_i in range(H_lo, H_hi):
            if H_cond:
                L_out = L_inlist.copy()
                L_out[H_pos] = H_new
                yield (L_out, H_last)
        L_k = H_knext
'''

T_ELSIG = '''
def elsignatures(self, mult=1, mode="LQ", emax=None):
    if mode not in ["LQ", "EQ"]:
        raise Exception()
    L_l = len(self.monomers)
    if emax is None:
        L_omax = self.get_max_excitations()
    else:
        L_omax = emax
    if mult < 0:
        raise Exception()
    L_mlt = H_mlt0
    while H_outer:
        L_out = [H_zero for L_k in range(L_l)]
        if H_ground:
            yield tuple(L_out)
        else:
            L_k = H_k0
            L_ins = [L_out]
            L_strt = [H_s0]
            while H_inner:
                L_nins = []
                L_nstr = []
                for L_added, L_last in self._add_excitation(L_ins, L_strt, L_omax):
                    if H_yield:
                        yield tuple(L_added)
                    else:
                        L_nins.append(L_added)
                        L_nstr.append(L_last)
                L_ins = L_nins
                L_strt = L_nstr
                L_k = H_knext
        L_mlt = H_mltnext
'''

T_MAXEXC = '''
def get_max_excitations(self):
    L_omax = []
    for L_nm in self.monomers:
        L_omax.append(H_x)
    return L_omax
'''

T_BAND = '''
self.elsignature = elsignature
self.band = H_b0
for L_k in self.elsignature:
    self.band = H_next
'''

T_ENERGY = '''
def energy(self, vsig=None):
    L_en = H_en0
    if vsig is not None:
        if not (len(vsig) == self.vsiglength):
            raise Exception()
        L_k = H_vk0
        for L_nn in self.vibmodes:
            L_en = H_vnext
            L_k = H_vknext
    L_k = H_k0
    for L_nn in self.elsignature:
        L_en = H_enext
        L_k = H_knext
    if L_en != 0.0:
        L_en = self.convert_energy_2_current_u(L_en)
    return L_en
'''

T_VENERGY = '''
def energy(self):
    return self.elstate.energy(self.vsig)
'''

T_EXINDX = '''
def _get_exindx(self, state1, state2):
    L_els1 = state1.elstate.elsignature
    L_els2 = state2.elstate.elsignature
    L_b1 = state1.elstate.band
    L_b2 = state2.elstate.band
    if H_guard:
        return H_absent1
    L_l = H_l0
    L_count = H_c0
    for L_kk in L_els1:
        if H_neq:
            L_count = H_cnext
        L_l = H_lnext
    if H_cnt:
        return H_absent2
    L_exstate = None
    L_l = H_l1
    for L_kk in L_els1:
        L_l = H_lnext2
        if H_neq2:
            if L_kk > L_els2[L_l]:
                L_exstate = L_els1
            else:
                L_exstate = L_els2
            L_exindx = H_idx
    if L_exstate is None:
        raise Exception()
    return L_exindx
'''

T_TRDIP = '''
def transition_dipole(self, state1, state2):
    L_exindx = self._get_exindx(state1, state2)
    if H_neg:
        return H_zero
    L_eldip = self.get_dipole(H_mol, H_from, H_to)
    L_fcfac = self.fc_factor(state1, state2)
    return H_ret
'''

T_GETDIP = '''
def get_dipole(self, n, N, M):
    L_nm = self.monomers[H_n]
    return L_nm.get_dipole(H_N, H_M)
'''

T_FC_NOVIB = '''
def fc_factor(self, state1, state2):
    L_inx1 = state1.vsig
    L_inx2 = state2.vsig
    L_sta1 = state1.elstate.vibmodes
    L_sta2 = state2.elstate.vibmodes
    if not (len(L_sta1) == len(L_sta2)):
        raise Exception()
    L_res = H_res0
    for L_kk in range(len(L_sta1)):
        S_any
    return L_res
'''

T_COUPLING = '''
def coupling(self, state1, state2, full=False):
    if isinstance(state1, ElectronicState) and isinstance(state2, ElectronicState):
        S_any
    elif isinstance(state1, VibronicState) and isinstance(state2, VibronicState):
        L_es1 = state1.elstate
        L_es2 = state2.elstate
        L_fc = self.fc_factor(state1, state2)
        if H_multi:
            if H_sameband:
                if H_single:
                    L_kk = H_kk1
                    L_ll = H_ll1
                    if H_valid:
                        L_coup = H_c1
                    else:
                        L_coup = H_z1
                else:
                    L_els1 = L_es1.elsignature
                    L_els2 = L_es2.elsignature
                    L_Ns = len(L_els1)
                    L_sites = [0, 0]
                    L_k = H_k0
                    for L_i in range(L_Ns):
                        if H_neq:
                            if H_slot:
                                L_sites[H_sidx] = H_sval
                            L_k = H_knext
                    if H_two:
                        L_kk = H_kk2
                        L_ll = H_ll2
                        L_ar1 = numpy.array(L_els1)
                        L_ar2 = numpy.array(L_els2)
                        L_df = numpy.abs(L_ar1 - L_ar2)
                        L_sdf = numpy.sum(L_df)
                        if H_sdf:
                            L_mx1 = numpy.max([H_m1a, H_m1b])
                            L_mx2 = numpy.max([H_m2a, H_m2b])
                            L_harm = numpy.sqrt(numpy.real(L_mx1))
                            L_harm = L_harm * numpy.sqrt(numpy.real(L_mx2))
                            L_fc = L_fc * L_harm
                            L_coup = H_c2
                        else:
                            L_coup = H_z2
                    else:
                        L_coup = H_z3
            elif H_interband and full:
                S_any
            else:
                L_coup = H_z4
        else:
            L_coup = H_z5
    return self.convert_energy_2_current_u(L_coup)
'''

T_ALLSTATES = '''
def allstates(self, mult=1, mode="LQ", all_vibronic=True, save_indices=False, vibgen_approx=None, Nvib=None, vibenergy_cutoff=None):
    L_ast = H_a0
    L_ist = H_i0
    for L_ess1 in self.elsignatures(mult=mult, mode=mode):
        L_es1 = self.get_ElectronicState(L_ess1, H_idx)
        L_nsig = 0
        for L_vsig1 in L_es1.vsignatures(approx=vibgen_approx, N=Nvib, vibenergy_cutoff=vibenergy_cutoff):
            L_s1 = VibronicState(L_es1, L_vsig1)
            if save_indices:
                self.vibindices[H_vi].append(H_va)
                self.vibsigs[H_vs] = (L_ess1, L_vsig1)
                self.elinds[H_ei] = H_ev
            yield (H_ya, L_s1)
            L_ast = H_anext
            L_nsig = L_nsig + 1
        if L_nsig == 0:
            if all_vibronic:
                L_s1 = VibronicState(L_es1, None)
            else:
                L_s1 = L_es1
        if save_indices:
            self.elsigs[H_es] = L_ess1
            self.which_band[H_wb] = numpy.sum(L_ess1)
        L_ist = H_inext
'''

T_GETEL = '''
def get_ElectronicState(self, sig, index=None):
    return ElectronicState(self, sig, index)
'''

T_ELINDEX = '''
if index is not None:
    self.index = index
else:
    self.index = self.aggregate.elsigs.index(self.elsignature)
'''

# the statements of _build that can touch HH, DD and the operators made from them
T_BUILD = '''
HH = numpy.zeros((Ntot, Ntot), dtype=numpy.float64)
DD = numpy.zeros((Ntot, Ntot, 3), dtype=numpy.float64)
self.all_states = []
for L_a, L_s1 in self.allstates(mult=self.mult, vibgen_approx=vibgen_approx, Nvib=Nvib, vibenergy_cutoff=vibenergy_cutoff):
    self.all_states.append((L_a, L_s1))
for L_a, L_s1 in self.all_states:
    HH[H_d1, H_d2] = L_s1.energy()
    for L_b, L_s2 in self.all_states:
        DD[H_rD, H_cD, :] = numpy.real(self.transition_dipole(H_t1, H_t2))
        if H_off:
            HH[H_r2, H_c2] = numpy.real(self.coupling(H_cs1, H_cs2, full=fem_full))
self.HH = HH
self.HamOp = Hamiltonian(data=HH)
self.DD = DD
trdata = numpy.zeros((DD.shape[0], DD.shape[1], DD.shape[2]), dtype=REAL)
trdata[:, :, :] = DD[:, :, :]
self.TrDMOp = TransitionDipoleMoment(data=trdata)
for W_a in range(Ntot):
    for W_b in range(Ntot):
        dd2[W_a, W_b] = numpy.dot(self.DD[W_a, W_b, :], self.DD[W_a, W_b, :])
self.HamOp.set_rwa(rwa_indices)
'''

# build() runs _build inside energy_units("int"): there convert_energy_2_current_u is the identity (what RE.IDENT relies on)
T_BUILDWRAP = '''
def build(self, mult=1, sbi_for_higher_ex=False, vibgen_approx=None, Nvib=None, vibenergy_cutoff=None, fem_full=False, el_blocks=False):
    with energy_units("int"):
        self._build(mult=mult, sbi_for_higher_ex=sbi_for_higher_ex, vibgen_approx=vibgen_approx, Nvib=Nvib, vibenergy_cutoff=vibenergy_cutoff, fem_full=fem_full, el_blocks=el_blocks)
'''

T_BUILD_NB = '''
self.mult = mult
self.Nb = numpy.zeros(self.mult + 1, dtype=int)
for L_ii in range(H_hi):
    self.Nb[H_i] = self.number_of_states_in_band(band=H_b, vibgen_approx=vibgen_approx, Nvib=Nvib, vibenergy_cutoff=vibenergy_cutoff)
'''

T_NSIB = '''
def number_of_states_in_band(self, band=1, vibgen_approx=None, Nvib=None, vibenergy_cutoff=None):
    L_nret = H_n0
    for L_state in self.allstates(mult=H_m, mode=H_mode, save_indices=False, vibgen_approx=vibgen_approx, Nvib=Nvib, vibenergy_cutoff=vibenergy_cutoff):
        L_nret = H_next
    return L_nret
'''

T_DDI = '''
def dipole_dipole_interaction(r1, r2, d1, d2, epsr):
    L_R = H_R
    L_RR = np.sqrt(np.dot(L_R, L_R))
    L_prf = H_prf
    L_cc = H_cc
    return H_ret
'''

T_DDC = '''
def dipole_dipole_coupling(self, kk, ll, epsr=1.0, delta=1e-05):
    if kk == ll:
        raise Exception()
    L_d1 = self.monomers[H_m1].dmoments[H_f1, H_t1, :]
    L_r1 = self.monomers[H_m2].position
    L_d2 = self.monomers[H_m3].dmoments[H_f2, H_t2, :]
    L_r2 = self.monomers[H_m4].position
    if numpy.sqrt(numpy.dot(L_r1 - L_r2, L_r1 - L_r2)) < delta:
        raise Exception()
    L_val = dipole_dipole_interaction(H_p1, H_p2, H_p3, H_p4, H_p5)
    return self.convert_energy_2_current_u(L_val)
'''

T_SETDD = '''
def set_coupling_by_dipole_dipole(self, epsr=1.0, delta=1e-05):
    if not self.coupling_initiated:
        self.init_coupling_matrix()
    for L_kk in range(self.nmono):
        for L_ll in range(H_lo, self.nmono):
            try:
                L_cc = self.dipole_dipole_coupling(H_a1, H_a2, epsr=H_eps, delta=H_del)
            except:
                L_cc = 0.0
            L_c1 = self.convert_energy_2_internal_u(L_cc)
            self.resonance_coupling[H_r1, H_c1] = L_c1
            self.resonance_coupling[H_r2, H_c2] = L_c1
'''


# ------------------------------------------------------------------------------------------------ kernels -> Gallina
def _defs(pairs):
    return "".join("Definition %s %s := %s.\n" % (nm, sig, body) for nm, sig, body in pairs)


HOLE_TAC = """Ltac hole := first [reflexivity | lia | solve [zbool] | solve [ring] | solve [intros; f_equal; lia]].
"""


def k_add_excitation(repo):
    env = match_fn(repo + AGG, "AggregateBase._add_excitation", T_ADD_EXC)
    ar = "(inlist : sig) (strt : list Z) (omax : list nat) (k l : Z)"
    ar_i = ar + " (i : Z)"
    nm = {"L_k": "k", "L_l": "l"}
    nm_i = dict(nm, L_i="i")
    li = {"L_inlist": "inlist", "omax": "omax"}
    zl = {"strt": "strt"}
    tgt = "%s[%s]" % (env["L_out"], ast.unparse(env["H_pos"]))
    inc = increment_of(env["H_new"], tgt)
    kinc = increment_of(env["H_knext"], env["L_k"])
    z = lambda node, names: ZE(src_names(env, names), src_names(env, li), src_names(env, zl)).e(node)
    d = [("g_ae_lo", ar + " : Z", zhole(env, "H_lo", nm, li, zl)),
         ("g_ae_hi", ar + " : Z", zhole(env, "H_hi", nm, li, zl)),
         ("g_ae_kinc", ar + " : Z", z(kinc, nm)),
         ("g_ae_cond", ar_i + " : bool", zhole(env, "H_cond", nm_i, li, zl, boolean=True)),
         ("g_ae_pos", ar_i + " : Z", zhole(env, "H_pos", nm_i, li, zl)),
         ("g_ae_inc", ar_i + " : Z", z(inc, nm_i)),
         ("g_ae_last", ar_i + " : Z", zhole(env, "H_last", nm_i, li, zl))]
    names = " ".join(x[0] for x in d)
    txt = "(* AggregateBase._add_excitation *)\n" + _defs(d)
    txt += "Definition gen_add_excitation := add_exc_skel %s.\n" % names
    txt += ("Lemma gen_add_excitation_is_model : forall omax (ins : list (sig * nat)),\n"
            "  gen_add_excitation (map fst ins) (map (fun p => Z.of_nat (snd p)) ins) omax = map zp (add_excitation omax ins).\n"
            "Proof. unfold gen_add_excitation. apply add_exc_skel_is_model; intros; unfold %s; hole. Qed.\n\n" % ", ".join(x[0] for x in d))
    return txt


def k_elsignatures(repo):
    env = match_fn(repo + AGG, "AggregateBase.elsignatures", T_ELSIG)
    mode_b = {"mode == 'LQ'": "lq", "'LQ' == mode": "lq", "mode == 'EQ'": "(negb lq)", "'EQ' == mode": "(negb lq)"}
    kinc = increment_of(env["H_knext"], env["L_k"])
    mltinc = increment_of(env["H_mltnext"], env["L_mlt"])
    n_o = {"L_mlt": "mlt", "mult": "mult"}
    n_i = {"L_k": "k", "L_mlt": "mlt", "mult": "mult"}
    d = [("g_es_mlt0", ": Z", const_z(env, "H_mlt0")), ("g_es_k0", ": Z", const_z(env, "H_k0")), ("g_es_s0", ": Z", const_z(env, "H_s0")),
         ("g_es_zero", ": Z", const_z(env, "H_zero")), ("g_es_kinc", ": Z", ZE().e(kinc)), ("g_es_mltinc", ": Z", ZE().e(mltinc)),
         ("g_es_outer", "(mlt mult : Z) : bool", zhole(env, "H_outer", n_o, boolean=True)),
         ("g_es_ground", "(mlt mult : Z) (lq : bool) : bool", zhole(env, "H_ground", n_o, bools=mode_b, boolean=True)),
         ("g_es_inner", "(k mlt mult : Z) : bool", zhole(env, "H_inner", n_i, boolean=True)),
         ("g_es_yield", "(k mlt mult : Z) (lq : bool) : bool", zhole(env, "H_yield", n_i, bools=mode_b, boolean=True))]
    txt = "(* AggregateBase.elsignatures *)\n" + _defs(d)
    txt += "Definition gen_elsignatures := elsig_skel %s gen_add_excitation.\n" % " ".join(x[0] for x in d)
    txt += ("Lemma gen_elsignatures_is_model : forall omax (mult : nat) lq,\n"
            "  gen_elsignatures omax (Z.of_nat mult) lq = if lq then elsigs omax mult else elsigs_eq omax mult.\n"
            "Proof.\n  intros. unfold gen_elsignatures. apply elsig_skel_is_model; try exact gen_add_excitation_is_model; intros; unfold %s; hole.\nQed.\n\n"
            % ", ".join(x[0] for x in d))
    # get_max_excitations: omax[k] = nel_k - 1
    env = match_fn(repo + AGG, "AggregateBase.get_max_excitations", T_MAXEXC)
    x = ZE(attrs={"%s.nel" % env["L_nm"]: "nel"}).e(env["H_x"])
    txt += ("(* AggregateBase.get_max_excitations: one entry per molecule *)\nDefinition g_omax (nel : Z) : Z := %s.\n"
            "Lemma gen_max_excitations_is_model : forall levels : nat, (1 <= levels)%%nat -> g_omax (Z.of_nat levels) = Z.of_nat (levels - 1).\n"
            "Proof. intros; unfold g_omax; lia. Qed.\n\n" % x)
    return txt


def _rel_attr_store(names):
    """relevance: the statement stores to self.<name> (or to an element of it) for a name in `names`"""
    def rel(s):
        tg = []
        if isinstance(s, ast.Assign):
            tg = s.targets
        elif isinstance(s, ast.AugAssign):
            tg = [s.target]
        for t in tg:
            while isinstance(t, ast.Subscript):
                t = t.value
            if isinstance(t, ast.Attribute) and isinstance(t.value, ast.Name) and t.value.id == "self" and t.attr in names:
                return True
        return False
    return rel


def k_band(repo):
    env = match_projection(repo + STA, "ElectronicState.__init__", _rel_attr_store({"band", "elsignature"}), T_BAND)
    b0 = const_z(env, "H_b0")
    nxt = ZE(src_names(env, {"L_k": "k"}), attrs={"self.band": "acc"}).e(env["H_next"])
    txt = ("(* ElectronicState.__init__: self.band *)\nDefinition g_band0 : Z := %s.\nDefinition g_bandnext (acc k : Z) : Z := %s.\n"
           "Definition gen_band := band_skel g_band0 g_bandnext.\n"
           "Lemma gen_band_is_model : forall s, gen_band s = Z.of_nat (band s).\n"
           "Proof. intros. unfold gen_band. apply band_skel_is_model; intros; unfold g_band0, g_bandnext; hole. Qed.\n\n" % (b0, nxt))
    # the index handed to the constructor is the one stored
    match_projection(repo + STA, "ElectronicState.__init__", _rel_attr_store({"index"}), T_ELINDEX)
    match_fn(repo + AGG, "AggregateBase.get_ElectronicState", T_GETEL)
    return txt


def _monomer_energy(kz):
    """self.aggregate.monomers[K].elenergies[NN] -> (Ez K NN)"""
    def cb(n):
        if (isinstance(n, ast.Subscript) and isinstance(n.value, ast.Attribute) and n.value.attr == "elenergies"
                and isinstance(n.value.value, ast.Subscript) and ast.unparse(n.value.value.value) == "self.aggregate.monomers"):
            return "(Ez %s %s)" % (kz.e(n.value.value.slice), kz.e(n.slice))
        return None
    return cb


def energy_holes(repo):
    env = match_fn(repo + STA, "ElectronicState.energy", T_ENERGY)
    match_fn(repo + STA, "VibronicState.energy", T_VENERGY)
    kz = ZE(src_names(env, {"L_k": "k", "L_nn": "nn"}))

    def vsig_cb(n):
        if isinstance(n, ast.Subscript) and isinstance(n.value, ast.Name) and n.value.id == "vsig" and not isinstance(n.slice, (ast.Tuple, ast.Slice)):
            return "(vq %s)" % ZE(src_names(env, {"L_k": "k"})).e(n.slice)
        if isinstance(n, ast.Attribute) and n.attr == "omega" and isinstance(n.value, ast.Name) and n.value.id == env["L_nn"]:
            return "om"
        return None
    en = src_names(env, {"L_en": "en"})
    d = [("g_en_en0", ": R", float01(env["H_en0"])),
         ("g_en_vk0", ": Z", const_z(env, "H_vk0")), ("g_en_k0", ": Z", const_z(env, "H_k0")),
         ("g_en_vknext", "(k : Z) : Z", zhole(env, "H_vknext", {"L_k": "k"})),
         ("g_en_knext", "(k : Z) : Z", zhole(env, "H_knext", {"L_k": "k"})),
         ("g_en_vnext", "(en : R) (vq : Z -> R) (om : R) (k : Z) : R", RE(en, [vsig_cb]).e(env["H_vnext"])),
         ("g_en_enext", "(en : R) (Ez : Z -> Z -> R) (k nn : Z) : R", RE(en, [_monomer_energy(kz)]).e(env["H_enext"]))]
    return d


def k_energy(repo):
    d = energy_holes(repo)
    names = " ".join(x[0] for x in d)
    txt = "  (* ElectronicState.energy / VibronicState.energy *)\n" + "".join("  " + l + "\n" for l in _defs(d).splitlines())
    txt += "  Definition gen_energy := energy_skel %s.\n" % names
    txt += ("  Lemma gen_energy_is_model : forall N (E : nat -> nat -> R) Ez vsig s, (forall k n, Ez (Z.of_nat k) (Z.of_nat n) = E k n) -> length s = N ->\n"
            "    gen_energy vsig [] Ez s = energy N E s.\n"
            "  Proof. intros N E Ez vsig s HE Hl. unfold gen_energy. apply energy_skel_is_model; try assumption; intros; unfold %s; hole. Qed.\n\n"
            % ", ".join(x[0] for x in d))
    return txt


def k_exindx(repo):
    env = match_fn(repo + AGG, "AggregateBase._get_exindx", T_EXINDX)
    nb = {"L_b1": "b1", "L_b2": "b2"}
    nq = {"L_kk": "kk", "L_l": "l"}
    d = [("g_ex_guard", "(b1 b2 : Z) : bool", zhole(env, "H_guard", nb, boolean=True)),
         ("g_ex_absent1", ": Z", const_z(env, "H_absent1")), ("g_ex_absent2", ": Z", const_z(env, "H_absent2")),
         ("g_ex_l0", ": Z", const_z(env, "H_l0")), ("g_ex_c0", ": Z", const_z(env, "H_c0")), ("g_ex_l1", ": Z", const_z(env, "H_l1")),
         ("g_ex_neq", "(kk : Z) (els2 : sig) (l : Z) : bool", zhole(env, "H_neq", nq, {"L_els2": "els2"}, boolean=True)),
         ("g_ex_neq2", "(kk : Z) (els2 : sig) (l : Z) : bool", zhole(env, "H_neq2", nq, {"L_els2": "els2"}, boolean=True)),
         ("g_ex_cnext", "(count : Z) : Z", zhole(env, "H_cnext", {"L_count": "count"})),
         ("g_ex_lnext", "(l : Z) : Z", zhole(env, "H_lnext", {"L_l": "l"})),
         ("g_ex_lnext2", "(l : Z) : Z", zhole(env, "H_lnext2", {"L_l": "l"})),
         ("g_ex_idx", "(l : Z) : Z", zhole(env, "H_idx", {"L_l": "l"})),
         ("g_ex_cnt", "(count : Z) : bool", zhole(env, "H_cnt", {"L_count": "count"}, boolean=True))]
    txt = "(* AggregateBase._get_exindx *)\n" + _defs(d)
    txt += "Definition gen_exindx := exindx_skel %s.\n" % " ".join(x[0] for x in d)
    txt += ("Lemma gen_exindx_is_model : forall s1 s2, length s1 = length s2 -> gen_exindx (gen_band s1) (gen_band s2) s1 s2 = ozn (exindx s1 s2).\n"
            "Proof.\n  intros. rewrite !gen_band_is_model. unfold gen_exindx. apply exindx_skel_is_model; try assumption; intros; unfold %s; hole.\nQed.\n\n"
            % ", ".join(x[0] for x in d))
    return txt


def k_trdip(repo):
    env = match_fn(repo + AGG, "AggregateBase.transition_dipole", T_TRDIP)
    ne = {"L_exindx": "ex"}
    d = [("g_td_neg", "(ex : Z) : bool", zhole(env, "H_neg", ne, boolean=True)),
         ("g_td_zero", ": R", float01(env["H_zero"])),
         ("g_td_mol", "(ex : Z) : Z", zhole(env, "H_mol", ne)), ("g_td_from", "(ex : Z) : Z", zhole(env, "H_from", ne)),
         ("g_td_to", "(ex : Z) : Z", zhole(env, "H_to", ne)),
         ("g_td_ret", "(eldip fcfac : R) : R", RE(src_names(env, {"L_eldip": "eldip", "L_fcfac": "fcfac"})).e(env["H_ret"]))]
    env2 = match_fn(repo + AGG, "AggregateBase.get_dipole", T_GETDIP)
    a3 = {"n": "n", "N": "N", "M": "M"}
    d2 = [("g_gd_n", "(n N M : Z) : Z", zhole(env2, "H_n", a3)), ("g_gd_N", "(n N M : Z) : Z", zhole(env2, "H_N", a3)),
          ("g_gd_M", "(n N M : Z) : Z", zhole(env2, "H_M", a3))]
    txt = "  (* AggregateBase.transition_dipole, get_dipole *)\n" + "".join("  " + l + "\n" for l in _defs(d + d2).splitlines())
    txt += ("  Lemma gen_get_dipole_is_model : forall n N M, (g_gd_n n N M, g_gd_N n N M, g_gd_M n N M) = (n, N, M).\n"
            "  Proof. intros; unfold g_gd_n, g_gd_N, g_gd_M; reflexivity. Qed.\n")
    txt += "  Definition gen_trdip := trdip_skel %s.\n" % " ".join(x[0] for x in d)
    txt += ("  Lemma gen_trdip_is_model : forall (dip : nat -> nat -> R) dipz s1 s2 fc c, (forall k, dipz (Z.of_nat k) 0%%Z 1%%Z = dip k c) ->\n"
            "    length s1 = length s2 -> gen_trdip dipz (gen_exindx (gen_band s1) (gen_band s2) s1 s2) fc = trdip dip s1 s2 fc c.\n"
            "  Proof.\n    intros dip dipz s1 s2 fc c Hd Hl. rewrite gen_exindx_is_model by exact Hl. unfold gen_trdip.\n"
            "    apply trdip_skel_is_model; try assumption; intros; unfold %s; hole.\n  Qed.\n\n" % ", ".join(x[0] for x in d))
    return txt


def _jsub(kz):
    def cb(n):
        if (isinstance(n, ast.Subscript) and ast.unparse(n.value) == "self.resonance_coupling" and isinstance(n.slice, ast.Tuple)
                and len(n.slice.elts) == 2):
            return "(Jf %s %s)" % (kz.e(n.slice.elts[0]), kz.e(n.slice.elts[1]))
        return None
    return cb


def k_coupling(repo):
    env = match_fn(repo + AGG, "AggregateBase.coupling", T_COUPLING)
    es1, es2 = env["L_es1"], env["L_es2"]
    band = {"%s.band" % es1: "b1", "%s.band" % es2: "b2"}
    index = {"%s.index" % es1: "i1", "%s.index" % es2: "i2"}
    kl = {"L_kk": "kk", "L_ll": "ll"}
    kz = ZE(src_names(env, kl))
    li = {"L_els1": "s1", "L_els2": "s2", "L_ar1": "s1", "L_ar2": "s2"}
    sites = "%s[0]" % env["L_sites"], "%s[1]" % env["L_sites"]
    fcn = src_names(env, {"L_fc": "fc"})
    d = [("g_cp_multi", "(nmono : Z) : bool", ZE(attrs={"self.nmono": "nmono"}).b(env["H_multi"])),
         ("g_cp_sameband", "(b1 b2 : Z) : bool", ZE(attrs=band).b(env["H_sameband"])),
         ("g_cp_single", "(b1 b2 : Z) : bool", ZE(attrs=band).b(env["H_single"])),
         ("g_cp_kk1", "(i1 i2 : Z) : Z", ZE(attrs=index).e(env["H_kk1"])),
         ("g_cp_ll1", "(i1 i2 : Z) : Z", ZE(attrs=index).e(env["H_ll1"])),
         ("g_cp_valid", "(kk ll : Z) : bool", zhole(env, "H_valid", kl, boolean=True)),
         ("g_cp_c1", "(Jf : Z -> Z -> R) (kk ll : Z) (fc : R) : R", RE(fcn, [_jsub(kz)]).e(env["H_c1"])),
         ("g_cp_c2", "(Jf : Z -> Z -> R) (kk ll : Z) (fc : R) : R", RE(fcn, [_jsub(kz)]).e(env["H_c2"]))]
    d += [("g_cp_z%d" % i, ": R", float01(env["H_z%d" % i])) for i in range(1, 6)]
    d += [("g_cp_k0", ": Z", const_z(env, "H_k0")),
          ("g_cp_neq", "(s1 s2 : sig) (i : Z) : bool", zhole(env, "H_neq", {"L_i": "i"}, li, boolean=True)),
          ("g_cp_slot", "(k : Z) : bool", zhole(env, "H_slot", {"L_k": "k"}, boolean=True)),
          ("g_cp_sidx", "(k i : Z) : Z", zhole(env, "H_sidx", {"L_k": "k", "L_i": "i"})),
          ("g_cp_sval", "(k i : Z) : Z", zhole(env, "H_sval", {"L_k": "k", "L_i": "i"})),
          ("g_cp_knext", "(k : Z) : Z", zhole(env, "H_knext", {"L_k": "k"})),
          ("g_cp_two", "(k : Z) : bool", zhole(env, "H_two", {"L_k": "k"}, boolean=True)),
          ("g_cp_kk2", "(site0 site1 : Z) : Z", ZE(attrs={sites[0]: "site0", sites[1]: "site1"}).e(env["H_kk2"])),
          ("g_cp_ll2", "(site0 site1 : Z) : Z", ZE(attrs={sites[0]: "site0", sites[1]: "site1"}).e(env["H_ll2"])),
          ("g_cp_sdf", "(sdf : Z) : bool", zhole(env, "H_sdf", {"L_sdf": "sdf"}, boolean=True))]
    d += [("g_cp_%s" % h, "(s1 s2 : sig) (kk ll : Z) : Z", zhole(env, "H_%s" % h, kl, li)) for h in ("m1a", "m1b", "m2a", "m2b")]
    order = ["multi", "sameband", "single", "kk1", "ll1", "valid", "c1", "c2", "z1", "z2", "z3", "z4", "z5", "k0", "neq", "slot", "sidx", "sval",
             "knext", "two", "kk2", "ll2", "sdf", "m1a", "m1b", "m2a", "m2b"]
    txt = "  (* AggregateBase.coupling, branch for two vibronic states, full = False *)\n" + "".join("  " + l + "\n" for l in _defs(d).splitlines())
    txt += "  Definition gen_coupling (N : nat) (J : nat -> nat -> R) (sqrtf : nat -> R) := coupling_skel N J sqrtf %s.\n" % " ".join("g_cp_" + o for o in order)
    txt += ("  Lemma gen_coupling_is_model : forall N J sqrtf s1 i1 s2 i2 fc, length s1 = length s2 ->\n"
            "    gen_coupling N J sqrtf s1 (Z.of_nat i1) s2 (Z.of_nat i2) fc = coupling N J sqrtf s1 i1 s2 i2 fc.\n"
            "  Proof.\n    intros. unfold gen_coupling. apply coupling_skel_is_model; try assumption; intros; unfold %s; hole.\n  Qed.\n\n"
            % ", ".join(x[0] for x in d))
    return txt


def allstates_holes(repo):
    env = match_fn(repo + AGG, "AggregateBase.allstates", T_ALLSTATES)
    ai = {"L_ast": "ast", "L_ist": "ist"}
    d = [("g_as_a0", ": Z", const_z(env, "H_a0")), ("g_as_i0", ": Z", const_z(env, "H_i0")),
         ("g_as_idx", "(ist : Z) : Z", zhole(env, "H_idx", {"L_ist": "ist"})),
         ("g_as_ya", "(ast ist : Z) : Z", zhole(env, "H_ya", ai)),
         ("g_as_anext", "(ast : Z) : Z", zhole(env, "H_anext", {"L_ast": "ast"})),
         ("g_as_inext", "(ist : Z) : Z", zhole(env, "H_inext", {"L_ist": "ist"}))]
    tabs = [("vi", "ist"), ("va", "ast"), ("vs", "ast"), ("ei", "ast"), ("ev", "ist"), ("es", "ist"), ("wb", "ist")]
    t = [("g_as_%s" % h, "(ast ist : Z) : Z", zhole(env, "H_" + h, ai)) for h, _ in tabs]
    lem = ("Lemma gen_allstates_tables : forall ast ist, (%s) = (%s).\nProof. intros; unfold %s; repeat f_equal; hole. Qed.\n"
           % (", ".join("g_as_%s ast ist" % h for h, _ in tabs), ", ".join(w for _, w in tabs), ", ".join("g_as_%s" % h for h, _ in tabs)))
    return d, t, lem


def k_allstates(repo):
    d, t, lem = allstates_holes(repo)
    txt = "(* AggregateBase.allstates: counters, the index handed to the electronic state, positions written in the tables *)\n" + _defs(d + t) + lem
    txt += "Definition gen_allstates (vs : sig -> list (list nat)) := allstates_skel vs %s.\n" % " ".join(x[0] for x in d)
    txt += ("Lemma gen_allstates_is_model : forall vs sigs,\n"
            "  gen_allstates vs sigs = map zst (combine (seq 0 (length (gstates_from vs 0 sigs))) (gstates_from vs 0 sigs)).\n"
            "Proof. intros. unfold gen_allstates. apply allstates_skel_is_model; intros; unfold %s; hole. Qed.\n" % ", ".join(x[0] for x in d))
    # which_band[ist] = numpy.sum(ess1) = ElectronicState.band of the same signature
    txt += ("(* which_band[ist] = numpy.sum(ess1): the written position is ist (above); the value is the model's band = list_sum *)\n"
            "Lemma gen_which_band_is_model : forall omax mult a, nth a (which_band omax mult) 0%nat = band (nth a (elsigs omax mult) []).\n"
            "Proof. exact which_band_spec. Qed.\n\n")
    return txt


def _rel_build(s):
    class V(ast.NodeVisitor):
        hit = False

        def visit_Attribute(self, n):
            if n.attr == "shape":
                return
            if isinstance(n.value, ast.Name) and n.value.id == "self" and n.attr in ("HH", "DD", "HamOp", "TrDMOp", "all_states"):
                self.hit = True
            self.generic_visit(n)

        def visit_Name(self, n):
            if n.id in ("HH", "DD", "trdata"):
                self.hit = True
    v = V()
    v.visit(s)
    return v.hit


def k_build(repo):
    match_fn(repo + AGG, "AggregateBase.build", T_BUILDWRAP)
    env = match_projection(repo + AGG, "AggregateBase._build", _rel_build, T_BUILD)
    ab = {"L_a": "a", "L_b": "b"}
    d = [("g_bd_d1", "(a : Z) : Z", zhole(env, "H_d1", {"L_a": "a"})), ("g_bd_d2", "(a : Z) : Z", zhole(env, "H_d2", {"L_a": "a"})),
         ("g_bd_off", "(a b : Z) : bool", zhole(env, "H_off", ab, boolean=True)),
         ("g_bd_r2", "(a b : Z) : Z", zhole(env, "H_r2", ab)), ("g_bd_c2", "(a b : Z) : Z", zhole(env, "H_c2", ab)),
         ("g_bd_rD", "(a b : Z) : Z", zhole(env, "H_rD", ab)), ("g_bd_cD", "(a b : Z) : Z", zhole(env, "H_cD", ab))]
    sel = {"L_s1": "s1", "L_s2": "s2"}
    d += [("g_bd_%s" % nm, "(s1 s2 : vst) : vst", which_name(env, "H_" + h, sel)) for nm, h in (("sc1", "cs1"), ("sc2", "cs2"), ("st1", "t1"), ("st2", "t2"))]
    # number of states per band
    envn = match_projection(repo + AGG, "AggregateBase._build", _rel_attr_store({"Nb", "mult"}), T_BUILD_NB)
    nb = [("g_nb_hi", "(mult : Z) : Z", ZE(attrs={"self.mult": "mult"}).e(envn["H_hi"])),
          ("g_nb_i", "(ii : Z) : Z", zhole(envn, "H_i", {"L_ii": "ii"})), ("g_nb_b", "(ii : Z) : Z", zhole(envn, "H_b", {"L_ii": "ii"}))]
    envc = match_fn(repo + AGG, "AggregateBase.number_of_states_in_band", T_NSIB)
    if not (isinstance(envc["H_mode"], ast.Constant) and envc["H_mode"].value == "EQ"):
        raise Untranslatable("number_of_states_in_band generates the states with mode %s" % ast.unparse(envc["H_mode"]))
    nb += [("g_nb_n0", ": Z", const_z(envc, "H_n0")), ("g_nb_m", "(band : Z) : Z", ZE({"band": "band"}).e(envc["H_m"])),
           ("g_nb_next", "(nret : Z) : Z", zhole(envc, "H_next", {"L_nret": "nret"}))]
    return d, nb


T_GEN_RING = """
Section Gen.
  Context {R : StarRing}.
  Add Ring Rr : (rth R).
%(energy)s%(trdip)s%(coupling)s
  (* AggregateBase.fc_factor for states without vibrational modes: the loop over the modes is not entered *)
  Definition g_fc_res0 : R := %(res0)s.
  Lemma gen_fc_novib_is_model : g_fc_res0 = r1 R.
  Proof. reflexivity. Qed.

  (* the statements of AggregateBase._build that touch HH, DD and the operators made from them *)
%(build)s
  Section Built.
    Variable N : nat.
    Variables (E J dip : nat -> nat -> R) (sqrtf : nat -> R).
    Variable sigs : list sig.
    Definition Ez (k n : Z) : R := E (Z.to_nat k) (Z.to_nat n).
    Definition dipz (c : nat) (k a b : Z) : R := dip (Z.to_nat (g_gd_n k a b)) c.
    (* a state is (ElectronicState.index, elsignature, vsig); molecules without modes: vibmodes = [], one signature () *)
    Definition gen_states : list (Z * vst) := gen_allstates (fun _ => [[]]) sigs.
    Definition gen_en (x : vst) : R := let '(i, s, v) := x in gen_energy (Some v) [] Ez s.
    Definition gen_coup (x y : vst) : R :=
      let '(i1, s1, v1) := x in let '(i2, s2, v2) := y in gen_coupling N J sqrtf s1 i1 s2 i2 g_fc_res0.
    Definition gen_trd (c : nat) (x y : vst) : R :=
      let '(i1, s1, v1) := x in let '(i2, s2, v2) := y in gen_trdip (dipz c) (gen_exindx (gen_band s1) (gen_band s2) s1 s2) g_fc_res0.
    Definition gen_H : @mat R := fill_H vst gen_en gen_coup g_bd_d1 g_bd_d2 g_bd_off g_bd_r2 g_bd_c2 g_bd_sc1 g_bd_sc2 gen_states.
    Definition gen_D (c : nat) : @mat R := fill_D vst (gen_trd c) g_bd_rD g_bd_cD g_bd_st1 g_bd_st2 gen_states.
    Hypothesis Hlen : forall a, (a < length sigs)%%nat -> length (nth a sigs []) = N.

    Lemma gen_H_is_model : forall a b, (a < length sigs)%%nat -> (b < length sigs)%%nat -> gen_H a b = build_H N E J sqrtf sigs a b.
    Proof.
      intros a b Ha Hb. unfold gen_H.
      apply (build_H_assembly N E J sqrtf sigs Hlen gen_en gen_coup g_bd_d1 g_bd_d2 g_bd_off g_bd_r2 g_bd_c2 g_bd_sc1 g_bd_sc2);
        try assumption; try (intros; unfold g_bd_d1, g_bd_d2, g_bd_off, g_bd_r2, g_bd_c2, g_bd_sc1, g_bd_sc2; hole).
      - apply gen_allstates_is_model.
      - intros i s v Hs. unfold gen_en. apply gen_energy_is_model; [|exact Hs]. intros k n. unfold Ez. now rewrite !Nat2Z.id.
      - intros i1 s1 v1 i2 s2 v2 Hs. unfold gen_coup. rewrite gen_fc_novib_is_model. now apply gen_coupling_is_model.
    Qed.

    Lemma gen_D_is_model : forall c a b, (a < length sigs)%%nat -> (b < length sigs)%%nat -> gen_D c a b = build_D dip sigs c a b.
    Proof.
      intros c a b Ha Hb. unfold gen_D.
      apply (build_D_assembly N dip sigs Hlen (gen_trd c) g_bd_rD g_bd_cD g_bd_st1 g_bd_st2);
        try assumption; try (intros; unfold g_bd_rD, g_bd_cD, g_bd_st1, g_bd_st2; hole).
      - apply gen_allstates_is_model.
      - intros i1 s1 v1 i2 s2 v2 Hs. unfold gen_trd. rewrite gen_fc_novib_is_model. apply gen_trdip_is_model; [|exact Hs].
        intros k. unfold dipz, g_gd_n. now rewrite Nat2Z.id.
    Qed.
  End Built.
End Gen.
"""


class FE:
    """float expressions over an abstract field (Section variables f1 fadd fmul fsub fdiv): scalars, 3-vectors as functions of the
    component, numpy.dot of two vectors, small integral constants as sums of ones, integer powers as products"""

    def __init__(self, scalars, vectors, attrs=None):
        self.sc, self.vec, self.attrs = dict(scalars), dict(vectors), dict(attrs or {})

    def num(self, k):
        t = "f1"
        for _ in range(k - 1):
            t = "(fadd %s f1)" % t
        return t

    def v(self, n):
        if isinstance(n, ast.Name) and n.id in self.vec:
            return self.vec[n.id]
        if isinstance(n, ast.BinOp) and isinstance(n.op, (ast.Sub, ast.Add)):
            return "(fun c => %s (%s c) (%s c))" % ("fsub" if isinstance(n.op, ast.Sub) else "fadd", self.v(n.left), self.v(n.right))
        raise Untranslatable("vector expression %s" % ast.unparse(n)[:80])

    def e(self, n):
        key = ast.unparse(n)
        if key in self.attrs:
            return self.attrs[key]
        if isinstance(n, ast.Name):
            if n.id in self.sc:
                return self.sc[n.id]
            raise Untranslatable("scalar name %r" % n.id)
        if isinstance(n, ast.Constant) and isinstance(n.value, (int, float)) and not isinstance(n.value, bool):
            if float(n.value) == int(n.value) and 1 <= int(n.value) <= 9:
                return self.num(int(n.value))
            raise Untranslatable("constant %r" % n.value)
        if isinstance(n, ast.BinOp):
            if isinstance(n.op, ast.Pow):
                if isinstance(n.right, ast.Constant) and isinstance(n.right.value, int) and 2 <= n.right.value <= 6:
                    b = self.e(n.left)
                    t = b
                    for _ in range(n.right.value - 1):
                        t = "(fmul %s %s)" % (t, b)
                    return t
                raise Untranslatable("power %s" % key)
            op = {ast.Add: "fadd", ast.Sub: "fsub", ast.Mult: "fmul", ast.Div: "fdiv"}.get(type(n.op))
            if op is None:
                raise Untranslatable("operator %s" % type(n.op).__name__)
            return "(%s %s %s)" % (op, self.e(n.left), self.e(n.right))
        if isinstance(n, ast.Call) and ast.unparse(n.func) in ("np.dot", "numpy.dot") and len(n.args) == 2 and not n.keywords:
            return "(fdot3 F fadd fmul %s %s)" % (self.v(n.args[0]), self.v(n.args[1]))
        raise Untranslatable("expression %s" % key[:100])


T_GEN_DD = """
(* interactions.py:dipole_dipole_interaction, core/units.py:eps0_int, AggregateBase.dipole_dipole_coupling,
   AggregateBase.set_coupling_by_dipole_dipole *)
Section GenDD.
  Variable F : Type.
  Variables (f0 f1 : F) (fadd fmul fsub : F -> F -> F) (fopp : F -> F) (fdiv : F -> F -> F) (finv : F -> F).
  Hypothesis Fth : field_theory f0 f1 fadd fmul fsub fopp fdiv finv (@eq F).
  Add Field Ff : Fth.
  Ltac side := repeat split; try assumption; repeat (apply (mul_nz F f0 f1 fadd fmul fsub fopp fdiv finv Fth); try assumption).

  (* RR is the value returned by numpy.sqrt(numpy.dot(R, R)) *)
  Definition gen_dd (r1 r2 d1 d2 : nat -> F) (RR pi eps0 epsr : F) : F :=
    let Rv := %(R)s in
    let prf := %(prf)s in
    let cc := %(cc)s in
    %(ret)s.
  Lemma gen_dd_is_model : forall r1 r2 d1 d2 RR pi eps0 epsr, RR <> f0 -> pi <> f0 -> eps0 <> f0 -> epsr <> f0 -> fadd f1 f1 <> f0 ->
    gen_dd r1 r2 d1 d2 RR pi eps0 epsr = dipole_dipole F f1 fadd fmul fsub fdiv r1 r2 d1 d2 RR pi eps0 epsr.
  Proof. intros. unfold gen_dd, dipole_dipole, fdot3, f3, f4. first [reflexivity | field; side]. Qed.

  Definition gen_eps0_int (e19 pi J2int : F) : F := %(eps0)s.
  Lemma gen_eps0_int_is_model : forall e19 pi J2int, pi <> f0 -> J2int <> f0 -> fadd f1 f1 <> f0 ->
    gen_eps0_int e19 pi J2int = eps0_int F f1 fadd fmul fdiv e19 pi J2int.
  Proof. intros. unfold gen_eps0_int, eps0_int, f4. first [reflexivity | field; side]. Qed.

  (* dipole_dipole_coupling(kk, ll, epsr, delta): which molecule's dipole / position and which transition enter, in which order *)
  Definition g_dc_mols (kk ll : Z) : Z * Z * Z * Z := (%(m1)s, %(m2)s, %(m3)s, %(m4)s).
  Definition g_dc_trans : Z * Z * Z * Z := (%(f1)s, %(t1)s, %(f2)s, %(t2)s).
  Lemma gen_ddc_operands : (forall kk ll, g_dc_mols kk ll = (kk, kk, ll, ll)) /\\ g_dc_trans = (0, 1, 0, 1)%%Z.
  Proof. split; [intros; unfold g_dc_mols; repeat f_equal; hole|reflexivity]. Qed.
  Variables (pos dmom : nat -> nat -> F) (RRf : nat -> nat -> F) (close : nat -> nat -> bool) (pi eps0 : F).
  (* val = dipole_dipole_interaction(%(pargs)s); raises when the distance is below delta *)
  Definition gen_ddc (kk ll : Z) (epsr : F) : F :=
    let '(m1, m2, m3, m4) := g_dc_mols kk ll in
    let d1 := dmom (Z.to_nat m1) in let r1 := pos (Z.to_nat m2) in let d2 := dmom (Z.to_nat m3) in let r2 := pos (Z.to_nat m4) in
    gen_dd %(p1)s %(p2)s %(p3)s %(p4)s (RRf (Z.to_nat kk) (Z.to_nat ll)) pi eps0 %(p5)s.

  (* set_coupling_by_dipole_dipole(epsr, delta) *)
  Definition g_sd_lo (kk : Z) : Z := %(lo)s.
  Definition g_sd_a1 (kk ll : Z) : Z := %(a1)s.
  Definition g_sd_a2 (kk ll : Z) : Z := %(a2)s.
  Definition g_sd_r1 (kk ll : Z) : Z := %(r1)s.
  Definition g_sd_c1 (kk ll : Z) : Z := %(c1)s.
  Definition g_sd_r2 (kk ll : Z) : Z := %(r2)s.
  Definition g_sd_c2 (kk ll : Z) : Z := %(c2)s.
  Definition g_sd_eps (epsr delta : F) : F := %(eps)s.
  Definition g_sd_del (epsr delta : F) : F := %(del)s.
  (* try: cc = self.dipole_dipole_coupling(A1, A2, epsr=EPS, delta=DEL) except: cc = 0.0 *)
  Definition gen_entry (epsr delta : F) (kk ll : Z) : F :=
    if close (Z.to_nat kk) (Z.to_nat ll) then f0 else gen_ddc kk ll (g_sd_eps epsr delta).
  Definition gen_set_dd (n : nat) (J0 : nat -> nat -> F) (epsr delta : F) : nat -> nat -> F :=
    setdd_skel F (gen_entry epsr delta) g_sd_lo g_sd_a1 g_sd_a2 g_sd_r1 g_sd_c1 g_sd_r2 g_sd_c2 n J0.
  Hypothesis Hnz : forall a b, RRf a b <> f0.
  Lemma gen_set_dd_is_model : forall n J0 epsr delta a b, pi <> f0 -> eps0 <> f0 -> epsr <> f0 -> fadd f1 f1 <> f0 -> (a < n)%%nat -> (b < n)%%nat ->
    (forall x y, g_sd_del x y = y) ->
    gen_set_dd n J0 epsr delta a b = dd_matrix F f0 f1 fadd fmul fsub fdiv pos dmom RRf close pi eps0 J0 epsr a b.
  Proof.
    intros n J0 epsr delta a b H2 H3 H4 H5 Ha Hb _. unfold gen_set_dd.
    rewrite (setdd_skel_spec F (gen_entry epsr delta) g_sd_lo g_sd_a1 g_sd_a2 g_sd_r1 g_sd_c1 g_sd_r2 g_sd_c2) by
      (try assumption; intros; unfold g_sd_lo, g_sd_a1, g_sd_a2, g_sd_r1, g_sd_c1, g_sd_r2, g_sd_c2; hole).
    assert (E : forall p q, gen_entry epsr delta (Z.of_nat p) (Z.of_nat q) = dd_entry F f0 f1 fadd fmul fsub fdiv pos dmom RRf close pi eps0 epsr p q).
    { intros p q. unfold gen_entry, dd_entry, gen_ddc, dd_coupling, g_sd_eps. rewrite !Nat2Z.id. destruct (close p q); [reflexivity|].
      destruct gen_ddc_operands as [Hm _]. rewrite Hm, !Nat2Z.id. apply gen_dd_is_model; auto. }
    unfold dd_matrix. rewrite !E. reflexivity.
  Qed.
  Lemma gen_set_dd_delta : forall x y : F, g_sd_del x y = y.
  Proof. reflexivity. Qed.
End GenDD.
"""


def k_dd(repo):
    out = {}
    env = match_fn(repo + INT, "dipole_dipole_interaction", T_DDI)
    vec = {"r1": "r1", "r2": "r2", "d1": "d1", "d2": "d2", env["L_R"]: "Rv"}
    sc = {env["L_RR"]: "RR", "epsr": "epsr"}
    at = {"const.pi": "pi", "eps0_int": "eps0", "np.pi": "pi", "numpy.pi": "pi"}
    out["R"] = FE(sc, {k: v for k, v in vec.items() if v != "Rv"}, at).v(env["H_R"])
    out["prf"] = FE(sc, vec, at).e(env["H_prf"])
    out["cc"] = FE(sc, vec, at).e(env["H_cc"])
    out["ret"] = FE(dict(sc, **{env["L_prf"]: "prf", env["L_cc"]: "cc"}), vec, at).e(env["H_ret"])
    # eps0_int: module-level assignment in core/units.py
    import warnings
    with warnings.catch_warnings():
        warnings.simplefilter("ignore")
        tree = ast.parse(open(repo + UNI).read())
    asg = [s for s in tree.body if isinstance(s, ast.Assign) and len(s.targets) == 1 and ast.unparse(s.targets[0]) == "eps0_int"]
    if len(asg) != 1:
        raise Untranslatable("eps0_int is assigned %d times in core/units.py" % len(asg))
    val = asg[0].value

    class FEu(FE):
        def e(self, n):
            if isinstance(n, ast.Constant) and isinstance(n.value, float) and n.value == 1.0e19:
                return "e19"
            return FE.e(self, n)
    out["eps0"] = FEu({"J2int": "J2int"}, {}, {"const.pi": "pi"}).e(val)
    # dipole_dipole_coupling
    env = match_fn(repo + AGG, "AggregateBase.dipole_dipole_coupling", T_DDC)
    kl = {"kk": "kk", "ll": "ll"}
    for h in ("m1", "m2", "m3", "m4"):
        out[h] = zhole(env, "H_" + h, kl)
    for h in ("f1", "t1", "f2", "t2"):
        out[h] = const_z(env, "H_" + h)
    roles = {"L_r1": "r1", "L_r2": "r2", "L_d1": "d1", "L_d2": "d2", "epsr": "epsr"}
    for k in range(1, 6):
        out["p%d" % k] = which_name(env, "H_p%d" % k, roles)
    out["pargs"] = ", ".join(out["p%d" % k] for k in range(1, 6))
    if [out["p%d" % k] for k in range(1, 5)] != ["r1", "r2", "d1", "d2"] and sorted(out["p%d" % k] for k in range(1, 5)) != ["d1", "d2", "r1", "r2"]:
        raise Untranslatable("dipole_dipole_interaction is called with (%s)" % out["pargs"])
    # set_coupling_by_dipole_dipole
    env = match_fn(repo + AGG, "AggregateBase.set_coupling_by_dipole_dipole", T_SETDD)
    kl = {"L_kk": "kk", "L_ll": "ll"}
    out["lo"] = zhole(env, "H_lo", {"L_kk": "kk"})
    for h in ("a1", "a2", "r1", "c1", "r2", "c2"):
        out[h] = zhole(env, "H_" + h, kl)
    out["eps"] = which_name(env, "H_eps", {"epsr": "epsr", "delta": "delta"})
    out["del"] = which_name(env, "H_del", {"epsr": "epsr", "delta": "delta"})
    return T_GEN_DD % out


HEAD = """(* GENERATED on every run by harness/translate_c03.py from quantarhei/builders/aggregate_base.py, aggregate_states.py,
   interactions.py and core/units.py.  The statement skeletons were matched node for node against the templates of the
   translator; the arithmetic content below is the code's. *)
From Coq Require Import ZArith List Bool Arith Lia Field.
From QV Require Import Base.Alg Base.Sums Base.Mat Model.C03 Model.C03dd Proofs.C03 Proofs.C03_relabel Proofs.C03gen.
Import ListNotations.
Open Scope Z_scope.
"""

NB_TXT = """
(* number_of_states_in_band and the loop of _build that fills Nb *)
%(defs)s
Definition gen_Nb := Nb_skel g_nb_n0 g_nb_next g_nb_m g_nb_hi g_nb_i g_nb_b gen_elsignatures (gen_allstates (fun _ => [[]])).
Lemma gen_Nb_is_model : forall omax (mult : nat),
  gen_Nb omax (Z.of_nat mult) = map (fun ii => (Z.of_nat ii, Z.of_nat (nth ii (Nb omax mult) 0%%nat))) (seq 0 (S mult)).
Proof.
  intros omax mult. unfold gen_Nb.
  rewrite (Nb_skel_spec g_nb_n0 g_nb_next g_nb_m g_nb_hi g_nb_i g_nb_b gen_elsignatures (gen_allstates (fun _ => [[]]))) with (vs := fun _ : sig => [@nil nat]);
    try (intros; unfold g_nb_n0, g_nb_next, g_nb_m, g_nb_hi, g_nb_i, g_nb_b; hole).
  - apply map_ext_in. intros ii Hi. apply in_seq in Hi. rewrite gstates_novib_length, Nb_nth by lia. reflexivity.
  - intros. exact (gen_elsignatures_is_model omax0 k false).
  - intros. apply gen_allstates_is_model.
Qed.
"""


def static(repo):
    txt = HEAD + HOLE_TAC + "\n"
    txt += k_add_excitation(repo) + k_elsignatures(repo) + k_band(repo) + k_exindx(repo) + k_allstates(repo)
    d, nb = k_build(repo)
    txt += NB_TXT % {"defs": _defs(nb)}
    envf = match_fn(repo + AGG, "AggregateBase.fc_factor", T_FC_NOVIB)
    txt += T_GEN_RING % {"energy": k_energy(repo), "trdip": k_trdip(repo), "coupling": k_coupling(repo), "res0": float01(envf["H_res0"]),
                         "build": "".join("  " + l + "\n" for l in _defs(d).splitlines())}
    txt += k_dd(repo)
    what = ["aggregate_base.py:AggregateBase._add_excitation", "aggregate_base.py:AggregateBase.elsignatures",
            "aggregate_base.py:AggregateBase.get_max_excitations", "aggregate_states.py:ElectronicState.__init__ (band, index)",
            "aggregate_base.py:AggregateBase.get_ElectronicState", "aggregate_base.py:AggregateBase._get_exindx",
            "aggregate_base.py:AggregateBase.allstates", "aggregate_base.py:AggregateBase.number_of_states_in_band",
            "aggregate_base.py:AggregateBase.build (internal-units context around _build)",
            "aggregate_base.py:AggregateBase._build (statements touching HH, DD, HamOp, TrDMOp, all_states; Nb loop)",
            "aggregate_states.py:ElectronicState.energy", "aggregate_states.py:VibronicState.energy",
            "aggregate_base.py:AggregateBase.transition_dipole", "aggregate_base.py:AggregateBase.get_dipole",
            "aggregate_base.py:AggregateBase.coupling (vibronic branch, full=False)",
            "aggregate_base.py:AggregateBase.fc_factor (initial value; loop over no modes)",
            "interactions.py:dipole_dipole_interaction", "core/units.py:eps0_int",
            "aggregate_base.py:AggregateBase.dipole_dipole_coupling", "aggregate_base.py:AggregateBase.set_coupling_by_dipole_dipole"]
    return txt, what
