#!/bin/sh
# usage: seed_process.sh <property> <tag>   -- confirms /tmp/seed_<P>_<tag> (background) and runs the check against a mutated worktree
p="$1"; tag="$2"; sd="/tmp/seed_${p}_${tag}"
[ -f "$sd/confirm.out" ] || (/verif/harness/seed_confirm.sh "$sd" "${p}${tag}" > "$sd/confirm.out" 2>&1 &)
wt="/tmp/mut_${p}${tag}"
git -C /repo worktree remove --force "$wt" 2>/dev/null
git -C /repo worktree add -q --detach "$wt" HEAD || exit 2
( cd "$wt" && git apply "$sd/patch.diff" ) || { echo "PATCH DOES NOT APPLY to HEAD"; git -C /repo worktree remove --force "$wt"; exit 1; }
( cd /verif && VERIF_WORK="/verif/.work/seedrun_${p}${tag}" VERIF_REPO="$wt" ./check "$p" --tier quick 2>&1 | tail -${3:-6} | cut -c1-500 )
git -C /repo worktree remove --force "$wt"
