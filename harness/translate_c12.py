# -*- coding: utf-8 -*-
"""Static tie for C12 (third-order response): the current source of the Liouville-pathway machinery is translated,
fail-closed, into Gallina and proved equal to the definitions the theorems of Props/C12.v are about.

Translated on every run (see `static`):
  * quantarhei/builders/aggregate_spectroscopy.py: generate_R1g (+ its helper _generate_R1g), generate_R2g, generate_R3g,
    generate_R4g, generate_R1f, generate_R2f - the loop nests over the bands, the significance tests, the evolution-factor
    look-up, and at every leaf the PROGRAM of calls made on the pathway object (constructor arguments, transitions, sides,
    intervals, width / dephasing look-ups, transfer with its declared start, evolution factor), read from the code's own
    statements; liouville_pathways_3T: the dispatch on the pathway-type string and the argument passing;
    MockTwoDResponseCalculator.calculate_one_system: the two tuples of pathway types.
  * quantarhei/spectroscopy/diagramatics.py: liouville_pathway.__init__ (array shapes, initial state), add_transition,
    add_transfer, set_evolution_factor (statement templates with holes -> the steps of the object machine of
    Model/C12x.v), build (F4n, sign), orientational_averaging (prefactor).
  * quantarhei/spectroscopy/labsetup.py: LabSetup.__init__ (the matrix M4 and its divisor), set_pulse_polarizations (F4e, F4eM4).
  * quantarhei/spectroscopy/mocktwodcalculator.py: calculate_pathway (centres, the four width / dephasing selections - with
    the pinned quirk that dephy is selected on widths[3] -, the dispatch on pathway type and line shape and what is handed
    to the line-shape function), calculate_one (signal bookkeeping).

The generated file (GenC12.v) instantiates nothing by hand: every index, bound, sign, constant, operand and condition in it
is the translation of an expression of the source; the lemmas at its end are closed by reflexivity / ring / boolean case
analysis / the library lemmas of Proofs/C12gen.v and Proofs/C12obj.v.
"""
import ast

from translate import Untranslatable, _src_of
from translate2 import _strip, _live, unify

AGG = "/quantarhei/builders/aggregate_spectroscopy.py"
DIA = "/quantarhei/spectroscopy/diagramatics.py"
LAB = "/quantarhei/spectroscopy/labsetup.py"
MOCK = "/quantarhei/spectroscopy/mocktwodcalculator.py"


def U(node):
    return ast.unparse(node)


def _coqstr(s):
    if '"' in s or "\\" in s or "\n" in s:
        raise Untranslatable("string literal %r" % s)
    return '"%s"%%string' % s


def _intconst(node, what, lo=None):
    """integer literal (also +1 / -1 written with a unary sign)"""
    sign = 1
    if isinstance(node, ast.UnaryOp) and isinstance(node.op, (ast.UAdd, ast.USub)):
        sign = -1 if isinstance(node.op, ast.USub) else 1
        node = node.operand
    if isinstance(node, ast.Constant) and isinstance(node.value, int) and not isinstance(node.value, bool):
        v = sign * node.value
        if lo is not None and v < lo:
            raise Untranslatable("%s: %d below %d" % (what, v, lo))
        return v
    raise Untranslatable("%s: integer literal expected, found %s" % (what, U(node)))


def _pure(node):
    """expressions whose evaluation cannot change the state: names, constants, subscripts, arithmetic, len()"""
    for n in ast.walk(node):
        if isinstance(n, ast.Call):
            if not (isinstance(n.func, ast.Name) and n.func.id in ("len", "str")):
                return False
        elif isinstance(n, (ast.NamedExpr, ast.Yield, ast.YieldFrom, ast.Await, ast.Lambda, ast.ListComp, ast.SetComp,
                            ast.DictComp, ast.GeneratorExp)):
            return False
    return True


def _is_print_block(s, vnames):
    """`if verbose > N: print(...)...` with pure arguments: no effect on the result"""
    if not (isinstance(s, ast.If) and not s.orelse and isinstance(s.test, ast.Compare) and len(s.test.ops) == 1
            and isinstance(s.test.ops[0], (ast.Gt, ast.GtE)) and isinstance(s.test.left, ast.Name) and s.test.left.id in vnames
            and isinstance(s.test.comparators[0], ast.Constant)):
        return False
    for t in _strip(s.body):
        if not (isinstance(t, ast.Expr) and isinstance(t.value, ast.Call) and isinstance(t.value.func, ast.Name)
                and t.value.func.id == "print" and all(_pure(a) for a in t.value.args) and not t.value.keywords):
            return False
    return True


# =============================================================================================== generators
class Gen:
    """one generate_Rxx function -> Gallina `flat_map`/`when`/`let` nest with a program at the leaf"""

    def __init__(self, repo, name, add_transition_defaults):
        self.repo, self.name = repo, name
        self.fn = _src_of(repo + AGG, name)
        self.defaults = add_transition_defaults
        args = [a.arg for a in self.fn.args.args]
        want6 = ["self", "lst", "eUt2", "pop_tol", "dip_tol", "evf_tol", "verbose"]
        want5 = ["self", "lst", "eUt2", "pop_tol", "dip_tol", "verbose"]
        if args not in (want6, want5) or self.fn.args.vararg or self.fn.args.kwarg or self.fn.args.kwonlyargs:
            raise Untranslatable("%s: signature %r" % (name, args))
        self.params = args
        self.verbose = {"verbose"}
        self.bands = {}          # python name -> Coq band
        self.dead = set()        # counters that are written and never read
        self.handler = None
        self.nvar = 0
        # no parameter may be re-bound
        for n in ast.walk(self.fn):
            tgt = []
            if isinstance(n, ast.Assign):
                tgt = n.targets
            elif isinstance(n, (ast.AugAssign, ast.AnnAssign)):
                tgt = [n.target]
            elif isinstance(n, ast.For):
                tgt = [n.target]
            for t in tgt:
                for m in ast.walk(t):
                    if isinstance(m, ast.Name) and m.id in self.params:
                        raise Untranslatable("%s: parameter %s is re-bound" % (name, m.id))

    # -------------------------------------------------------------------------------- prelude
    def _band_of(self, call):
        if isinstance(call, ast.Call) and not call.args and U(call.func) == "self.get_electronic_groundstate" and not call.keywords:
            return "ngs Sy"
        if isinstance(call, ast.Call) and U(call.func) == "self.get_excitonic_band":
            b = None
            if len(call.args) == 1 and not call.keywords:
                b = _intconst(call.args[0], "band")
            elif not call.args and len(call.keywords) == 1 and call.keywords[0].arg == "band":
                b = _intconst(call.keywords[0].value, "band")
            if b == 1:
                return "nes Sy"
            if b == 2:
                return "nfs Sy"
        raise Untranslatable("%s: band expression %s" % (self.name, U(call)))

    def _dead_counters(self, body):
        """names only ever assigned an integer literal or incremented by one, and never read"""
        cand = set()
        for n in ast.walk(self.fn):
            if isinstance(n, ast.Assign) and len(n.targets) == 1 and isinstance(n.targets[0], ast.Name) \
                    and isinstance(n.value, ast.Constant) and isinstance(n.value.value, int):
                cand.add(n.targets[0].id)
        for n in ast.walk(self.fn):
            if isinstance(n, ast.Name) and n.id in cand and isinstance(n.ctx, ast.Load):
                cand.discard(n.id)
        # AugAssign targets have Store context; any other store form disqualifies
        for n in ast.walk(self.fn):
            if isinstance(n, ast.AugAssign) and isinstance(n.target, ast.Name) and n.target.id in cand:
                if not (isinstance(n.op, ast.Add) and isinstance(n.value, ast.Constant) and isinstance(n.value.value, int)):
                    cand.discard(n.target.id)
            if isinstance(n, ast.For):
                for m in ast.walk(n.target):
                    if isinstance(m, ast.Name):
                        cand.discard(m.id)
        return cand

    def _noise(self, s):
        if _is_print_block(s, self.verbose):
            return True
        if isinstance(s, ast.Assign) and len(s.targets) == 1 and isinstance(s.targets[0], ast.Name) and s.targets[0].id in self.dead \
                and isinstance(s.value, ast.Constant):
            return True
        if isinstance(s, ast.AugAssign) and isinstance(s.target, ast.Name) and s.target.id in self.dead:
            return True
        return False

    def translate(self):
        body = _strip(self.fn.body)
        self.dead = self._dead_counters(body)
        rest = []
        for s in body:
            if self._noise(s):
                continue
            if isinstance(s, ast.Assign) and len(s.targets) == 1 and isinstance(s.targets[0], ast.Name):
                v = s.targets[0].id
                if isinstance(s.value, ast.Name) and s.value.id in self.verbose:       # ver = verbose
                    self.verbose.add(v)
                    continue
                if v in self.bands or rest:
                    raise Untranslatable("%s: assignment %s" % (self.name, U(s)[:60]))
                self.bands[v] = self._band_of(s.value)
                continue
            if isinstance(s, ast.Try) and not rest and len(s.body) == 1 and isinstance(s.body[0], ast.Assign) \
                    and len(s.handlers) == 1 and s.handlers[0].type is None and not s.orelse and not s.finalbody \
                    and len(s.handlers[0].body) == 1 and isinstance(s.handlers[0].body[0], ast.Raise):
                a = s.body[0]                                                           # try: nfs = ... except: raise
                if len(a.targets) == 1 and isinstance(a.targets[0], ast.Name) and a.targets[0].id not in self.bands:
                    self.bands[a.targets[0].id] = self._band_of(a.value)
                    continue
            rest.append(s)
        if len(rest) != 1 or not isinstance(rest[0], ast.For):
            raise Untranslatable("%s: one outer loop expected after the preamble, found %d statements" % (self.name, len(rest)))
        term = self.prod(rest, {}, 1)
        return term

    # -------------------------------------------------------------------------------- expressions
    def idx(self, node, env):
        if isinstance(node, ast.Name) and node.id in env and env[node.id][0] == "idx":
            return env[node.id][1]
        raise Untranslatable("%s: state index %s" % (self.name, U(node)))

    def _sub(self, node):
        """X[a, b, ...] -> (unparsed base, [index nodes])"""
        if not isinstance(node, ast.Subscript):
            return None, None
        idxs = list(node.slice.elts) if isinstance(node.slice, ast.Tuple) else [node.slice]
        return U(node.value), idxs

    def uelem(self, node, env):
        base, idxs = self._sub(node)
        if base != "eUt2" or len(idxs) != 4:
            raise Untranslatable("%s: evolution-factor look-up %s" % (self.name, U(node)))
        return [self.idx(i, env) for i in idxs]

    def cond(self, node, env):
        if isinstance(node, ast.BoolOp) and isinstance(node.op, ast.And):
            return "(" + " && ".join(self.cond(v, env) for v in node.values) + ")"
        if isinstance(node, ast.BoolOp) and isinstance(node.op, ast.Or):
            return "(" + " || ".join(self.cond(v, env) for v in node.values) + ")"
        if isinstance(node, ast.Compare) and len(node.ops) == 1 and isinstance(node.ops[0], (ast.Gt, ast.Lt)):
            big, small = (node.left, node.comparators[0]) if isinstance(node.ops[0], ast.Gt) else (node.comparators[0], node.left)
            if not isinstance(small, ast.Name) or small.id not in self.params:
                raise Untranslatable("%s: threshold %s" % (self.name, U(small)))
            thr = small.id
            base, idxs = self._sub(big)
            if thr == "pop_tol" and base == "self.rho0" and len(idxs) == 2:
                a, b = self.idx(idxs[0], env), self.idx(idxs[1], env)
                if a != b:
                    raise Untranslatable("%s: population test on the off-diagonal element %s" % (self.name, U(big)))
                return "(popb Sy %s)" % a
            if thr == "dip_tol" and base == "self.D2" and len(idxs) == 2:
                return "(bigD Sy %s %s)" % (self.idx(idxs[0], env), self.idx(idxs[1], env))
            if thr == "evf_tol" and isinstance(big, ast.Call) and U(big.func) in ("abs", "numpy.abs") and len(big.args) == 1 \
                    and not big.keywords:
                x = big.args[0]
                if isinstance(x, ast.Name) and x.id in env and env[x.id][0] == "evf":
                    return "(evb Sy %s)" % " ".join(env[x.id][2])
                return "(evb Sy %s)" % " ".join(self.uelem(x, env))
            raise Untranslatable("%s: significance test %s" % (self.name, U(node)))
        raise Untranslatable("%s: condition %s" % (self.name, U(node)[:80]))

    # -------------------------------------------------------------------------------- statements
    def fresh(self, py):
        self.nvar += 1
        return "v%d_%s" % (self.nvar, "".join(ch for ch in py if ch.isalnum() or ch == "_"))

    def prod(self, stmts, env, depth):
        """a block that appends pathways to lst -> Gallina term of type list A"""
        ss = [s for s in _strip(stmts) if not self._noise(s)]
        if not ss:
            return "[]"
        s = ss[0]
        ind = "  " * depth
        if isinstance(s, ast.Assign) and len(s.targets) == 1 and isinstance(s.targets[0], ast.Name) \
                and isinstance(s.value, ast.Subscript) and U(s.value.value) == "eUt2":
            v = s.targets[0].id
            if v in env or v in self.params or v in self.bands:
                raise Untranslatable("%s: %s is already bound" % (self.name, v))
            ix = self.uelem(s.value, env)
            cv = self.fresh(v)
            env2 = dict(env)
            env2[v] = ("evf", cv, ix)
            return "(let %s := U Sy %s in\n%s%s)" % (cv, " ".join(ix), ind, self.prod(ss[1:], env2, depth))
        if isinstance(s, ast.For):
            if s.orelse or not isinstance(s.target, ast.Name) or not isinstance(s.iter, ast.Name) or s.iter.id not in self.bands:
                raise Untranslatable("%s: loop header `for %s in %s`" % (self.name, U(s.target), U(s.iter)))
            v = s.target.id
            if v in env or v in self.params or v in self.bands:
                raise Untranslatable("%s: loop variable %s is already bound" % (self.name, v))
            cv = self.fresh(v)
            env2 = dict(env)
            env2[v] = ("idx", cv)
            head = "(flat_map (fun %s =>\n%s%s) (%s))" % (cv, ind, self.prod(s.body, env2, depth + 1), self.bands[s.iter.id])
            return self._cat(head, ss[1:], env, depth)
        if isinstance(s, ast.If):
            if s.orelse:
                raise Untranslatable("%s: if/else in the loop nest" % self.name)
            head = "(when %s\n%s%s)" % (self.cond(s.test, env), ind, self.prod(s.body, env, depth + 1))
            return self._cat(head, ss[1:], env, depth)
        return self.leaf(ss, env)

    def _cat(self, head, rest, env, depth):
        if not rest:
            return head
        return "(%s ++ %s)" % (head, self.prod(rest, env, depth))

    # -------------------------------------------------------------------------------- leaf
    def leaf(self, ss, env):
        """[try: <program> except: <handler>] | [lp = _helper(...)] ; lp.build() ; lst.append(lp)"""
        if len(ss) != 3:
            raise Untranslatable("%s: leaf of %d statements (%s)" % (self.name, len(ss), "; ".join(U(x)[:30] for x in ss)))
        first, b, a = ss
        if isinstance(first, ast.Try):
            lpname, call, ops, handler = self.program_try(first, env, self.verbose, "self")
        elif isinstance(first, ast.Assign) and len(first.targets) == 1 and isinstance(first.targets[0], ast.Name) \
                and isinstance(first.value, ast.Call) and isinstance(first.value.func, ast.Name):
            lpname = first.targets[0].id
            call, ops, handler = self.helper(first.value, env)
        else:
            raise Untranslatable("%s: leaf starts with %s" % (self.name, U(first)[:60]))
        if not (isinstance(b, ast.Expr) and U(b) == "%s.build()" % lpname):
            raise Untranslatable("%s: `%s.build()` expected, found %s" % (self.name, lpname, U(b)[:60]))
        if not (isinstance(a, ast.Expr) and U(a) == "lst.append(%s)" % lpname):
            raise Untranslatable("%s: `lst.append(%s)` expected, found %s" % (self.name, lpname, U(a)[:60]))
        self.handler = handler if self.handler in (None, handler) else "mixed"
        return "(lf %s\n        [%s])" % (call, ";\n         ".join(ops))

    def helper(self, call, env):
        """lp = _generate_R1g(self, i1g, ..., evf, verbose=ver): the helper's body with its parameters bound to the arguments"""
        fn = _src_of(self.repo + AGG, call.func.id)
        params = [a.arg for a in fn.args.args]
        if fn.args.vararg or fn.args.kwarg or fn.args.kwonlyargs or len(call.args) > len(params):
            raise Untranslatable("%s: call of %s" % (self.name, call.func.id))
        bound = {}
        for p, a in zip(params, call.args):
            bound[p] = a
        for kw in call.keywords:
            if kw.arg is None or kw.arg not in params or kw.arg in bound:
                raise Untranslatable("%s: keyword %s of %s" % (self.name, kw.arg, call.func.id))
            bound[kw.arg] = kw.value
        ndef = len(fn.args.defaults)
        for p, d in zip(params[len(params) - ndef:], fn.args.defaults):
            bound.setdefault(p, d)
        if set(bound) != set(params):
            raise Untranslatable("%s: %s called with missing arguments" % (self.name, call.func.id))
        henv, hverbose, hself = {}, set(), None
        for p in params:
            a = bound[p]
            if isinstance(a, ast.Name) and a.id == "self":
                hself = p
            elif isinstance(a, ast.Name) and a.id in self.verbose:
                hverbose.add(p)
            elif isinstance(a, ast.Name) and a.id in env:
                henv[p] = env[a.id]
            elif isinstance(a, ast.Constant) and p == "verbose":
                hverbose.add(p)
            else:
                raise Untranslatable("%s: argument %s=%s of %s" % (self.name, p, U(a), call.func.id))
        if hself is None:
            raise Untranslatable("%s: %s is not handed the aggregate" % (self.name, call.func.id))
        for n in ast.walk(fn):                      # the helper must not re-bind its parameters
            if isinstance(n, (ast.Assign, ast.AugAssign, ast.For)):
                for t in (n.targets if isinstance(n, ast.Assign) else [n.target]):
                    for m in ast.walk(t):
                        if isinstance(m, ast.Name) and m.id in params:
                            raise Untranslatable("%s: parameter %s re-bound" % (call.func.id, m.id))
        body = [s for s in _strip(fn.body) if not _is_print_block(s, hverbose)]
        if not (len(body) == 2 and isinstance(body[0], ast.Try) and isinstance(body[1], ast.Return) and isinstance(body[1].value, ast.Name)):
            raise Untranslatable("%s: body shape" % call.func.id)
        lpname, c, ops, handler = self.program_try(body[0], henv, hverbose, hself)
        if body[1].value.id != lpname:
            raise Untranslatable("%s returns %s" % (call.func.id, body[1].value.id))
        return c, ops, handler

    def program_try(self, tr, env, verbose, selfname):
        if tr.orelse or tr.finalbody or len(tr.handlers) != 1 or tr.handlers[0].type is not None or tr.handlers[0].name:
            raise Untranslatable("%s: try statement shape" % self.name)
        hb = _strip(tr.handlers[0].body)
        if len(hb) >= 1 and isinstance(hb[0], ast.Raise) and all(isinstance(x, ast.Break) for x in hb[1:]):
            handler = "raise"
        elif len(hb) == 1 and isinstance(hb[0], ast.Break):
            handler = "break"
        else:
            raise Untranslatable("%s: exception handler `%s`" % (self.name, "; ".join(U(x) for x in hb)[:60]))
        lpname, call, ops = self.program([s for s in _strip(tr.body) if not _is_print_block(s, verbose)], env, selfname)
        return lpname, call, ops, handler

    def program(self, ss, env, selfname):
        """constructor, look-ups of widths and dephasings, calls on the object -> (object name, xcall term, [xop terms])"""
        if not ss:
            raise Untranslatable("%s: empty pathway program" % self.name)
        s0 = ss[0]
        if not (isinstance(s0, ast.Assign) and len(s0.targets) == 1 and isinstance(s0.targets[0], ast.Name)
                and isinstance(s0.value, ast.Call) and U(s0.value.func) == "diag.liouville_pathway"):
            raise Untranslatable("%s: the program does not start with the constructor (%s)" % (self.name, U(s0)[:60]))
        lp = s0.targets[0].id
        c = s0.value
        if len(c.args) != 2 or not (isinstance(c.args[0], ast.Constant) and isinstance(c.args[0].value, str)):
            raise Untranslatable("%s: constructor arguments %s" % (self.name, U(c)[:80]))
        kw = {"order": None, "pname": None, "relax_order": 0, "popt_band": 0, "aggregate": None}
        for k in c.keywords:
            if k.arg not in kw:
                raise Untranslatable("%s: constructor keyword %s" % (self.name, k.arg))
            kw[k.arg] = k.value
        if not (isinstance(kw["aggregate"], ast.Name) and kw["aggregate"].id == selfname):
            raise Untranslatable("%s: the pathway is built on another aggregate" % self.name)
        if kw["order"] is None or kw["pname"] is None or not (isinstance(kw["pname"], ast.Constant) and isinstance(kw["pname"].value, str)):
            raise Untranslatable("%s: order / pname of the constructor" % self.name)
        order = _intconst(kw["order"], "order", 0)
        relax = kw["relax_order"] if isinstance(kw["relax_order"], int) else _intconst(kw["relax_order"], "relax_order", 0)
        popt = kw["popt_band"] if isinstance(kw["popt_band"], int) else _intconst(kw["popt_band"], "popt_band", 0)
        call = "(mkCall %s %s %d %s %d %d)" % (_coqstr(c.args[0].value), self.idx(c.args[1], env), order,
                                              _coqstr(kw["pname"].value), relax, popt)
        loc = {}        # width1 -> Coq term
        ops = []

        def pair(node, what):
            if isinstance(node, ast.Tuple) and len(node.elts) == 2:
                return self.idx(node.elts[0], env), self.idx(node.elts[1], env)
            raise Untranslatable("%s: %s %s" % (self.name, what, U(node)))

        def val(node):
            if isinstance(node, ast.Name) and node.id in loc:
                return loc[node.id]
            return self.const(node)
        for s in ss[1:]:
            if isinstance(s, ast.Assign) and len(s.targets) == 1 and isinstance(s.targets[0], ast.Name) and isinstance(s.value, ast.Call):
                f = U(s.value.func)
                tab = {"%s.get_transition_width" % selfname: "wid", "%s.get_transition_dephasing" % selfname: "dep"}
                if f in tab and len(s.value.args) == 1 and not s.value.keywords:
                    a, b = pair(s.value.args[0], "transition")
                    v = s.targets[0].id
                    if v in env or v == lp:
                        raise Untranslatable("%s: %s re-bound" % (self.name, v))
                    loc[v] = "(%s Sy %s %s)" % (tab[f], a, b)
                    continue
            if isinstance(s, ast.Expr) and isinstance(s.value, ast.Call) and isinstance(s.value.func, ast.Attribute) \
                    and isinstance(s.value.func.value, ast.Name) and s.value.func.value.id == lp:
                m, cl = s.value.func.attr, s.value
                if m == "add_transition":
                    names = ["transition", "side", "interval", "width", "deph"]
                    got = dict(zip(names, cl.args))
                    for k in cl.keywords:
                        if k.arg not in names or k.arg in got:
                            raise Untranslatable("%s: add_transition keyword %s" % (self.name, k.arg))
                        got[k.arg] = k.value
                    if "transition" not in got or "side" not in got:
                        raise Untranslatable("%s: %s" % (self.name, U(s)[:60]))
                    nf, ni = pair(got["transition"], "transition")
                    side = _intconst(got["side"], "side")
                    interval = _intconst(got["interval"], "interval", 0) if "interval" in got else self.defaults["interval"]
                    w = val(got["width"]) if "width" in got else self.defaults["width"]
                    g = val(got["deph"]) if "deph" in got else self.defaults["deph"]
                    ops.append("XT %s %s (%d) %d %s %s" % (nf, ni, side, interval, w, g))
                    continue
                if m == "add_transfer" and len(cl.args) == 2 and not cl.keywords:
                    fl, fr = pair(cl.args[0], "transfer target")
                    sl, sr = pair(cl.args[1], "transfer start")
                    ops.append("XX %s %s %s %s" % (fl, fr, sl, sr))
                    continue
                if m == "set_evolution_factor" and len(cl.args) == 1 and not cl.keywords:
                    x = cl.args[0]
                    if isinstance(x, ast.Name) and x.id in env and env[x.id][0] == "evf":
                        ops.append("XE %s" % env[x.id][1])
                        continue
            raise Untranslatable("%s: statement in the pathway program: %s" % (self.name, U(s)[:80]))
        return lp, call, ops

    @staticmethod
    def const(node):
        """-1.0 / 1.0 / 0.0 as ring constants"""
        sign = 1
        if isinstance(node, ast.UnaryOp) and isinstance(node.op, ast.USub):
            sign, node = -1, node.operand
        if isinstance(node, ast.Constant) and isinstance(node.value, (int, float)) and not isinstance(node.value, bool):
            v = sign * node.value
            if v == -1:
                return "mone"
            if v == 1:
                return "(r1 R)"
            if v == 0:
                return "(r0 R)"
        raise Untranslatable("constant %s" % U(node))


def add_transition_defaults(repo):
    fn = _src_of(repo + DIA, "liouville_pathway.add_transition")
    args = [a.arg for a in fn.args.args]
    if args != ["self", "transition", "side", "interval", "width", "deph"] or len(fn.args.defaults) != 3:
        raise Untranslatable("add_transition signature %r" % args)
    d = fn.args.defaults
    return {"interval": _intconst(d[0], "default interval", 0), "width": Gen.const(d[1]), "deph": Gen.const(d[2])}


GENERATORS = [("generate_R1g", "R1g"), ("generate_R2g", "R2g"), ("generate_R3g", "R3g"), ("generate_R4g", "R4g"),
              ("generate_R1f", "R1f"), ("generate_R2f", "R2f")]


def generators(repo):
    dflt = add_transition_defaults(repo)
    defs, handlers = [], {}
    for fname, tag in GENERATORS:
        g = Gen(repo, fname, dflt)
        term = g.translate()
        handlers[tag] = g.handler
        defs.append("  (* %s *)\n  Definition g_%s {A} (lf : xcall -> list xop -> list A) (Sy : sys) : list A :=\n    %s.\n" % (fname, tag, term))
    return "\n".join(defs), handlers



# =============================================================================================== dispatch
GLUE_3T = {
    0: "if self._diagonalized:\n    if verbose > 0:\n        print('Diagonalizing aggregate')\n    self.diagonalize()\n    if verbose > 0:\n        print('..done')",
    1: "pop_tol = ptol",
    2: "dip_tol = numpy.sqrt(self.D2_max) * dtol",
    3: "evf_tol = etol",
    4: "if not isinstance(ptype, (tuple, list)):\n    ptype_tuple = (ptype,)\nelse:\n    ptype_tuple = ptype",
    5: "lst = []",
    6: "try:\n    eUt2 = eUt.at(t2)\n    eUt2_dat = numpy.zeros(eUt2.data.shape, dtype=eUt2.data.dtype)\n    HH = eUt.get_Hamiltonian()\n"
       "    with eigenbasis_of(HH):\n        eUt2_dat[:, :, :, :] = eUt2.data\nexcept:\n    eUt2 = eUt\n"
       "    eUt2_dat = numpy.zeros(eUt2.data.shape, dtype=eUt2.data.dtype)\n    with eigenbasis_of(ham):\n        eUt2_dat[:, :, :, :] = eUt2.data",
    8: "if lab is not None:\n    for l in lst:\n        l.orientational_averaging(lab)",
    9: "return lst",
}


def dispatch(repo):
    """liouville_pathways_3T: the glue statements are matched verbatim; the loop over the requested types is translated:
    string compared, generator called, every argument handed to the parameter of the same name (eUt2 <- eUt2_dat)"""
    fn = _src_of(repo + AGG, "AggregateSpectroscopy.liouville_pathways_3T")
    args = [a.arg for a in fn.args.args]
    if args != ["self", "ptype", "eUt", "ham", "t2", "dtol", "ptol", "etol", "verbose", "lab"]:
        raise Untranslatable("liouville_pathways_3T: signature %r" % args)
    ss = [s for s in _strip(fn.body) if not _is_print_block(s, {"verbose"})]
    if len(ss) != 10:
        raise Untranslatable("liouville_pathways_3T: %d statements where 10 are expected" % len(ss))
    for k, want in GLUE_3T.items():
        if U(ss[k]) != want:
            raise Untranslatable("liouville_pathways_3T: statement %d is `%s`" % (k, U(ss[k])[:70]))
    loop = ss[7]
    if not (isinstance(loop, ast.For) and U(loop.iter) == "ptype_tuple" and isinstance(loop.target, ast.Name) and not loop.orelse
            and len(_strip(loop.body)) == 1):
        raise Untranslatable("liouville_pathways_3T: loop over the pathway types")
    ptp = loop.target.id
    gens = dict(GENERATORS)
    node = _strip(loop.body)[0]
    arms = []
    while True:
        if not (isinstance(node, ast.If) and isinstance(node.test, ast.Compare) and len(node.test.ops) == 1
                and isinstance(node.test.ops[0], ast.Eq)):
            raise Untranslatable("liouville_pathways_3T: dispatch test %s" % U(node)[:60])
        a, b = node.test.left, node.test.comparators[0]
        if isinstance(b, ast.Name):
            a, b = b, a
        if not (isinstance(a, ast.Name) and a.id == ptp and isinstance(b, ast.Constant) and isinstance(b.value, str)):
            raise Untranslatable("liouville_pathways_3T: dispatch test %s" % U(node.test))
        body = _strip(node.body)
        if not (len(body) == 1 and isinstance(body[0], ast.Expr) and isinstance(body[0].value, ast.Call)
                and isinstance(body[0].value.func, ast.Name) and body[0].value.func.id in gens and not body[0].value.keywords):
            raise Untranslatable("liouville_pathways_3T: arm of %r: %s" % (b.value, U(node.body[0])[:60]))
        call = body[0].value
        callee = _src_of(repo + AGG, call.func.id)
        params = [x.arg for x in callee.args.args]
        given = [x.id if isinstance(x, ast.Name) else U(x) for x in call.args]
        want = ["eUt2_dat" if q == "eUt2" else q for q in params]
        if given != want:
            raise Untranslatable("liouville_pathways_3T: %s is called with %r for the parameters %r" % (call.func.id, given, params))
        arms.append((b.value, gens[call.func.id]))
        if len(node.orelse) == 1 and isinstance(node.orelse[0], ast.If):
            node = node.orelse[0]
            continue
        els = _strip(node.orelse)
        if not (len(els) == 1 and isinstance(els[0], ast.Raise)):
            raise Untranslatable("liouville_pathways_3T: an unknown pathway type does not raise")
        break
    chain = "".join("if String.eqb ptp %s then Some (g_%s lf Sy) else " % (_coqstr(s), tag) for s, tag in arms) + "None"
    return ("  (* liouville_pathways_3T: dispatch on the pathway-type string *)\n"
            "  Definition g_dispatch {A} (lf : xcall -> list xop -> list A) (Sy : sys) (ptp : string) : option (list A) :=\n    %s.\n" % chain)


def type_tuples(repo):
    """MockTwoDResponseCalculator.calculate_one_system: the pathway types requested with and without excited-state absorption"""
    fn = _src_of(repo + MOCK, "MockTwoDResponseCalculator.calculate_one_system")
    ss = _strip(fn.body)
    glue = ["has_ESA = True", "H1 = sys.get_Hamiltonian()", "if H1.dim == eUt.dim:\n    has_ESA = False"]
    texts = [U(s) for s in ss]
    try:
        k = texts.index(glue[0])
    except ValueError:
        raise Untranslatable("calculate_one_system: `has_ESA = True` not found")
    if texts[k:k + 3] != glue:
        raise Untranslatable("calculate_one_system: decision on excited-state absorption: %s" % " / ".join(texts[k:k + 3])[:120])
    if any("has_ESA" in x for x in texts[:k]) or len(ss) <= k + 3:
        raise Untranslatable("calculate_one_system: has_ESA")
    tpl = ast.parse("if has_ESA:\n    pws = sys.liouville_pathways_3T(ptype=H_esa, eUt=Uin, ham=H, t2=t2, lab=lab, dtol=dtol)\n"
                    "else:\n    pws = sys.liouville_pathways_3T(ptype=H_noesa, eUt=Uin, ham=H, t2=t2, lab=lab, dtol=dtol)").body[0]
    env = {}
    unify(tpl, ss[k + 3], env, "calculate_one_system")
    for later in texts[k + 4:]:
        if "has_ESA" in later:
            raise Untranslatable("calculate_one_system: has_ESA used after the pathways were generated")
    out = []
    for h, nm in (("H_esa", "g_types_esa"), ("H_noesa", "g_types_noesa")):
        node = env[h]
        if not (isinstance(node, (ast.Tuple, ast.List)) and all(isinstance(e, ast.Constant) and isinstance(e.value, str) for e in node.elts)):
            raise Untranslatable("calculate_one_system: pathway types %s" % U(node))
        out.append("  Definition %s : list string := [%s].\n" % (nm, "; ".join(_coqstr(e.value) for e in node.elts)))
    return "".join(out)


DISPATCH_LEMMAS = """
  (* what calculate_one_system requests, through the dispatch, is gen6 (with two-exciton states) / gen4 (without) *)
  Lemma g_esa_is_gen6 (mk : @maker R) (Sy : sys) :
    run3T (g_dispatch (fun c ops => [xleaf mk c ops]) Sy) g_types_esa = Some (gen6_with mk Sy).
  Proof.
    unfold g_types_esa, g_dispatch. cbn [run3T String.eqb Ascii.eqb Bool.eqb].
    rewrite g_R1g_is_model, g_R2g_is_model, g_R3g_is_model, g_R4g_is_model, g_R1f_is_model, g_R2f_is_model.
    unfold gen6_with, gen4_with. rewrite ?app_nil_r, <- ?app_assoc. reflexivity.
  Qed.
  Lemma g_noesa_is_gen4 (mk : @maker R) (Sy : sys) :
    run3T (g_dispatch (fun c ops => [xleaf mk c ops]) Sy) g_types_noesa = Some (gen4_with mk Sy).
  Proof.
    unfold g_types_noesa, g_dispatch. cbn [run3T String.eqb Ascii.eqb Bool.eqb].
    rewrite g_R1g_is_model, g_R2g_is_model, g_R3g_is_model, g_R4g_is_model.
    unfold gen4_with. rewrite ?app_nil_r, <- ?app_assoc. reflexivity.
  Qed.
  (* the same with every pathway built by the object machine, for systems whose only ground state is state 0 *)
  Lemma g_esa_runs (Sy : sys) : ground0 Sy -> run3T (g_dispatch (xobj Sy) Sy) g_types_esa = Some (gen6 Sy).
  Proof.
    intros H. unfold g_types_esa, g_dispatch. cbn [run3T String.eqb Ascii.eqb Bool.eqb].
    rewrite (g_R1g_runs Sy H), (g_R2g_runs Sy H), (g_R3g_runs Sy H), (g_R4g_runs Sy H), (g_R1f_runs Sy H), (g_R2f_runs Sy H).
    unfold gen6, gen6_with, gen4_with. rewrite ?app_nil_r, <- ?app_assoc. reflexivity.
  Qed.
  Lemma g_noesa_runs (Sy : sys) : ground0 Sy -> run3T (g_dispatch (xobj Sy) Sy) g_types_noesa = Some (gen4 Sy).
  Proof.
    intros H. unfold g_types_noesa, g_dispatch. cbn [run3T String.eqb Ascii.eqb Bool.eqb].
    rewrite (g_R1g_runs Sy H), (g_R2g_runs Sy H), (g_R3g_runs Sy H), (g_R4g_runs Sy H).
    unfold gen4, gen4_with. rewrite ?app_nil_r, <- ?app_assoc. reflexivity.
  Qed.
"""


# =============================================================================================== the pathway object
class _Norm(ast.NodeTransformer):
    """harmless variants brought to one form before unification: `x = x + c` / `x = c + x` -> `x += c`;
    `v != self.current[k]` / `v == self.current[k]` -> the subscript on the left"""

    def visit_Assign(self, n):
        self.generic_visit(n)
        if len(n.targets) == 1 and isinstance(n.value, ast.BinOp) and isinstance(n.value.op, ast.Add):
            tgt = ast.dump(n.targets[0]).replace("Store()", "Load()")
            for a, b in ((n.value.left, n.value.right), (n.value.right, n.value.left)):
                if ast.dump(a) == tgt and isinstance(b, ast.Constant):
                    return ast.copy_location(ast.AugAssign(target=n.targets[0], op=ast.Add(), value=b), n)
        return n

    def visit_Compare(self, n):
        self.generic_visit(n)
        if len(n.ops) == 1 and isinstance(n.ops[0], (ast.Eq, ast.NotEq)):
            l, r = n.left, n.comparators[0]
            if U(r).startswith("self.current[") and not U(l).startswith("self.current["):
                return ast.copy_location(ast.Compare(left=r, ops=n.ops, comparators=[l]), n)
        return n


def _match(repo_file, qual, template_src):
    """bindings of the holes of the template in the current source (argument names and statement skeleton must agree)"""
    fn = _Norm().visit(_src_of(repo_file, qual))
    tfn = ast.parse(template_src).body[0]
    env = {}
    unify([a.arg for a in tfn.args.args], [a.arg for a in fn.args.args], env, qual + ".args")
    if fn.args.vararg or fn.args.kwarg or fn.args.kwonlyargs:
        raise Untranslatable("%s: signature" % qual)
    unify(tfn.body, fn.body, env, qual)
    return env


class SE:
    """expressions over the state of the pathway object and the locals of a method"""

    def __init__(self, nats=None, zs=None, rs=None):
        self.nats = {"self.nint": "(l_nint l)", "self.ne": "(l_ne l)", "self.nrel": "(l_nrel l)",
                     "self.order": "(c_order c)", "self.relax_order": "(c_relax c)"}
        self.nats.update(nats or {})
        self.zs = dict(zs or {})
        self.rs = dict(rs or {})

    def nat(self, node):
        k = U(node)
        if k in self.nats:
            return self.nats[k]
        if isinstance(node, ast.Constant) and isinstance(node.value, int) and not isinstance(node.value, bool) and node.value >= 0:
            return "%d%%nat" % node.value
        if isinstance(node, ast.BinOp) and isinstance(node.op, ast.Add):
            return "(%s + %s)%%nat" % (self.nat(node.left), self.nat(node.right))
        raise Untranslatable("index expression %s" % k)

    def z(self, node):
        k = U(node)
        if k in self.zs:
            return self.zs[k]
        if isinstance(node, ast.Constant) and isinstance(node.value, int) and not isinstance(node.value, bool):
            return "(%d)%%Z" % node.value
        if isinstance(node, ast.UnaryOp) and isinstance(node.op, ast.USub):
            return "(- %s)%%Z" % self.z(node.operand)
        if isinstance(node, ast.Call) and U(node.func) in ("abs", "numpy.abs") and len(node.args) == 1 and not node.keywords:
            return "(Z.abs %s)" % self.z(node.args[0])
        if isinstance(node, ast.BinOp):
            op = {ast.Add: "+", ast.Sub: "-", ast.Mult: "*", ast.FloorDiv: "/"}.get(type(node.op))
            if op:
                return "(%s %s %s)%%Z" % (self.z(node.left), op, self.z(node.right))
        raise Untranslatable("integer expression %s" % k)

    def r(self, node):
        k = U(node)
        if k in self.rs:
            return self.rs[k]
        if isinstance(node, ast.BinOp):
            op = {ast.Add: "+", ast.Sub: "-", ast.Mult: "*"}.get(type(node.op))
            if op:
                return "(%s %s %s)" % (self.r(node.left), op, self.r(node.right))
        if isinstance(node, ast.UnaryOp) and isinstance(node.op, ast.USub) and not isinstance(node.operand, ast.Constant):
            return "(- %s)" % self.r(node.operand)
        return Gen.const(node)


def _same(env, *holes):
    d = [ast.dump(env[h]) for h in holes]
    if len(set(d)) != 1:
        raise Untranslatable("the expressions %s differ: %s" % (", ".join(holes), " / ".join(U(env[h]) for h in holes)))
    return env[holes[0]]


def _comp(node, what):
    """component 0 / 1 of a pair"""
    v = _intconst(node, what)
    if v not in (0, 1):
        raise Untranslatable("%s: component %d of a pair" % (what, v))
    return "fst" if v == 0 else "snd"


T_INIT = """
def __init__(self, ptype, sinit, aggregate, order, pname, relax_order, popt_band):
    if not aggregate:
        raise Exception(H_msg)
    self.sinit = numpy.zeros(2, dtype=numpy.int16)
    self.sinit[0] = sinit
    self.sinit[1] = sinit
    self.order = order
    self.relax_order = relax_order
    self.event = [None] * H_nevent
    self.pathway_type = ptype
    self.pathway_name = pname
    self.aggregate = aggregate
    self.current = numpy.zeros(2, dtype=numpy.int16)
    self.current[H_c0] = H_cv0
    self.current[H_c1] = H_cv1
    self.nint = H_nint
    self.nrel = H_nrel
    self.ne = H_ne
    self.transitions = numpy.zeros((H_trows, 2), dtype=int)
    self.relaxations = [None] * H_nrelax
    self.sides = numpy.zeros(H_srows, dtype=numpy.int16)
    self.states = numpy.zeros((H_strows, 2), dtype=int)
    self.dmoments = numpy.zeros((H_drows, 3))
    self.energy = numpy.zeros(H_erows)
    self.frequency = numpy.zeros(H_frows)
    self.pref = -1.0
    self.evolfac = H_evf
    self.widths = None
    self.dephs = None
    self.popt_band = popt_band
    self.F4n = numpy.zeros(3)
    self.built = False
"""

T_ADD_TRANSITION = """
def add_transition(self, transition, side, interval, width, deph):
    nf = transition[H_nf]
    ni = transition[H_ni]
    sd = H_sd
    text = ["right", "left"]
    if self.current[H_chk] != H_chkv:
        raise Exception(H_msg)
    self.transitions[H_ti, :] = transition
    self.sides[H_si] = H_sv
    if interval > H_ilo:
        if self.widths is None:
            self.widths = numpy.zeros(H_wlen, qr.REAL)
            self.widths[:] = H_winit
            self.dephs = numpy.zeros(H_glen, qr.REAL)
            self.dephs[:] = H_ginit
        self.widths[H_wi] = H_wv
        self.dephs[H_gi] = H_gv
    self.current[H_cu] = H_cuv
    self.states[self.ne, 0] = self.current[0]
    self.states[self.ne, 1] = self.current[1]
    self.energy[self.nint] = self.aggregate.HH[nf, nf] - self.aggregate.HH[ni, ni]
    self.dmoments[H_di, :] = self.aggregate.DD[H_d1, H_d2, :]
    if H_fa < H_fb:
        nl = self.current[H_nl]
        np = self.current[H_np]
        el = self.aggregate.HH[H_el1, H_el2]
        ep = self.aggregate.HH[H_ep1, H_ep2]
        self.frequency[H_fi] = H_fv
    elif self.nint > self.order:
        etext = H_etext
        raise Exception(etext)
    self.nint += H_dn
    self.event[self.ne] = "I"
    self.ne += H_de
"""

T_ADD_TRANSFER = """
def add_transfer(self, fin, sta):
    nfl = fin[H_a]
    nfr = fin[H_b]
    nil = sta[H_c]
    nir = sta[H_d]
    if self.current[H_k0] != H_v0 or self.current[H_k1] != H_v1:
        raise Exception(H_msg)
    if H_ra < H_rb:
        self.relaxations[self.nrel] = (fin, sta)
    else:
        raise Exception(H_msg2)
    self.current[H_u0] = H_w0
    self.current[H_u1] = H_w1
    self.states[self.ne, 0] = self.current[0]
    self.states[self.ne, 1] = self.current[1]
    el = self.aggregate.HH[H_e1, H_e2]
    ep = self.aggregate.HH[H_p1, H_p2]
    self.frequency[H_fi] = H_fv
    self.nrel += H_dr
    self.event[self.ne] = "R"
    self.ne += H_de
"""

T_SET_EVF = """
def set_evolution_factor(self, evf):
    self.evolfac = H_v
"""

OBJ_FILE = """
  (* ---- liouville_pathway.__init__ ---- *)
  Definition g_new (c : xcall) : lp :=
    let sinit := c_sinit c in
    let cur1 := put %(c0)s (0%%nat, 0%%nat) %(cv0)s in
    let cur2 := put %(c1)s cur1 %(cv1)s in
    mkLp c cur2 %(nint)s %(nrel)s %(ne)s (fun _ => (0%%nat, 0%%nat)) (fun _ => 0%%Z) (fun _ => vzero) (fun _ => 0) None %(evf)s.
  Definition g_rows (c : xcall) : nat := %(rows)s.          (* rows of transitions, sides, dmoments, energy *)
  Definition g_slots (c : xcall) : nat := %(slots)s.        (* entries of frequency, states, event *)
  Definition g_nrelax (c : xcall) : nat := %(nrelax)s.      (* entries of relaxations *)
  Lemma g_new_is_model (c : xcall) : g_new c = lp_new c.
  Proof. reflexivity. Qed.
  Lemma g_rows_is_model (c : xcall) : g_rows c = S (c_order c).
  Proof. unfold g_rows. lia. Qed.
  Lemma g_slots_is_model (c : xcall) : g_slots c = nslots c.
  Proof. unfold g_slots, nslots. lia. Qed.
  Lemma g_nrelax_is_model (c : xcall) : g_nrelax c = c_relax c.
  Proof. unfold g_nrelax. lia. Qed.

  (* ---- liouville_pathway.add_transition ---- *)
  Definition g_add_transition (Sy : sys) (l : lp) (transition : nat * nat) (side : Z) (interval : nat) (width deph : R) : option lp :=
    let c := l_call l in
    let nf := %(nf)s transition in
    let ni := %(ni)s transition in
    let sd := %(sd)s in
    match pick %(chk)s (l_cur l) with
    | None => None
    | Some c0 =>
      if negb (Nat.eqb c0 %(chkv)s) then None
      else if negb (Nat.ltb %(ti)s (g_rows c)) then None
      else
        match (if Nat.ltb %(ilo)s interval
               then (if Nat.ltb %(wi)s %(wlen)s
                     then Some (Some (match l_wd l with
                                      | None => (upd (fun _ => %(winit)s) %(wi)s %(wv)s, upd (fun _ => %(ginit)s) %(gi)s %(gv)s)
                                      | Some wg => (upd (fst wg) %(wi)s %(wv)s, upd (snd wg) %(gi)s %(gv)s)
                                      end))
                     else None)
               else Some (l_wd l)) with
        | None => None
        | Some wd' =>
          let cur' := put %(cu)s (l_cur l) %(cuv)s in
          if negb (Nat.ltb (l_ne l) (g_slots c)) then None
          else Some (mkLp c cur' (%(dn)s + l_nint l) (l_nrel l) (%(de)s + l_ne l)
                          (upd (l_trans l) %(ti)s transition) (upd (l_sides l) %(si)s %(sv)s)
                          (upd (l_dm l) %(di)s (DD Sy %(d1)s %(d2)s))
                          (if Nat.ltb %(fa)s %(fb)s
                           then (let nl := %(nl)s cur' in let np := %(np)s cur' in
                                 let el := En Sy %(el)s in let ep := En Sy %(ep)s in
                                 upd (l_freq l) %(fi)s %(fv)s)
                           else l_freq l)
                          wd' (l_evf l))
        end
    end.
  Lemma g_add_transition_is_model (Sy : sys) (l : lp) nf ni side interval w g :
    g_add_transition Sy l (nf, ni) side interval w g = add_transition Sy l nf ni side interval w g.
  Proof. unfold g_add_transition, add_transition. rewrite g_rows_is_model, g_slots_is_model. reflexivity. Qed.

  (* ---- liouville_pathway.add_transfer ---- *)
  Definition g_add_transfer (Sy : sys) (l : lp) (fin sta : nat * nat) : option lp :=
    let c := l_call l in
    let nfl := %(xa)s fin in let nfr := %(xb)s fin in let nil := %(xc)s sta in let nir := %(xd)s sta in
    if negb (Nat.eqb (%(k0)s (l_cur l)) %(v0)s && Nat.eqb (%(k1)s (l_cur l)) %(v1)s) then None
    else if negb (Nat.ltb %(ra)s %(rb)s) then None
    else if negb (Nat.ltb (l_ne l) (g_slots c)) then None
    else let cur1 := put %(u0)s (l_cur l) %(w0)s in
         let cur2 := put %(u1)s cur1 %(w1)s in
         Some (mkLp c cur2 (l_nint l) (%(dr)s + l_nrel l) (%(xde)s + l_ne l) (l_trans l) (l_sides l) (l_dm l)
                    (let el := En Sy %(xel)s in let ep := En Sy %(xep)s in upd (l_freq l) %(xfi)s %(xfv)s) (l_wd l) (l_evf l)).
  Lemma g_add_transfer_is_model (Sy : sys) (l : lp) fl fr sl sr :
    g_add_transfer Sy l (fl, fr) (sl, sr) = add_transfer Sy l fl fr sl sr.
  Proof. unfold g_add_transfer, add_transfer. rewrite g_slots_is_model. reflexivity. Qed.

  (* ---- liouville_pathway.set_evolution_factor ---- *)
  Definition g_set_evf (l : lp) (evf : R) : lp :=
    mkLp (l_call l) (l_cur l) (l_nint l) (l_nrel l) (l_ne l) (l_trans l) (l_sides l) (l_dm l) (l_freq l) (l_wd l) %(sev)s.
  Lemma g_set_evf_is_model (l : lp) e : g_set_evf l e = set_evf l e.
  Proof. reflexivity. Qed.

  (* the machine with the generated steps is the machine of Model/C12x.v *)
  Definition g_step (Sy : sys) (l : lp) (o : xop) : option lp :=
    match o with
    | XT nf ni s k w g => g_add_transition Sy l (nf, ni) s k w g
    | XX fl fr sl sr => g_add_transfer Sy l (fl, fr) (sl, sr)
    | XE e => Some (g_set_evf l e)
    end.
  Lemma g_step_is_model (Sy : sys) (l : lp) (o : xop) : g_step Sy l o = xstep Sy l o.
  Proof.
    destruct o as [nf ni s k w g|fl fr sl sr|e]; cbn [g_step xstep];
      [apply g_add_transition_is_model|apply g_add_transfer_is_model|now rewrite g_set_evf_is_model].
  Qed.
"""


def pathway_object(repo):
    f = repo + DIA
    out = {}
    # ---- __init__
    env = _match(f, "liouville_pathway.__init__", T_INIT)
    se = SE(nats={"order": "(c_order c)", "relax_order": "(c_relax c)", "sinit": "sinit"})
    out["c0"], out["c1"] = SE().z(env["H_c0"]), SE().z(env["H_c1"])
    out["cv0"], out["cv1"] = se.nat(env["H_cv0"]), se.nat(env["H_cv1"])
    for h in ("nint", "nrel", "ne"):
        out[h] = se.nat(env["H_" + h])
    out["rows"] = se.nat(_same(env, "H_trows", "H_srows", "H_drows", "H_erows"))
    out["slots"] = se.nat(_same(env, "H_frows", "H_strows", "H_nevent"))
    out["nrelax"] = se.nat(env["H_nrelax"])
    out["evf"] = Gen.const(env["H_evf"])
    # ---- add_transition
    env = _match(f, "liouville_pathway.add_transition", T_ADD_TRANSITION)
    out["nf"], out["ni"] = _comp(env["H_nf"], "transition"), _comp(env["H_ni"], "transition")
    loc = {"nf": "nf", "ni": "ni", "interval": "interval"}
    se = SE(nats=loc, zs={"side": "side", "sd": "sd"}, rs={"width": "width", "deph": "deph", "el": "el", "ep": "ep"})
    out["sd"] = SE(zs={"side": "side"}).z(env["H_sd"])
    out["chk"], out["chkv"] = se.z(env["H_chk"]), se.nat(env["H_chkv"])
    out["ti"] = se.nat(env["H_ti"])
    out["si"], out["sv"] = se.nat(env["H_si"]), se.z(env["H_sv"])
    out["ilo"] = se.nat(env["H_ilo"])
    out["wlen"] = se.nat(_same(env, "H_wlen", "H_glen"))
    out["winit"], out["ginit"] = se.r(env["H_winit"]), se.r(env["H_ginit"])
    out["wi"], out["gi"] = se.nat(env["H_wi"]), se.nat(env["H_gi"])
    out["wv"], out["gv"] = se.r(env["H_wv"]), se.r(env["H_gv"])
    out["cu"], out["cuv"] = se.z(env["H_cu"]), se.nat(env["H_cuv"])
    out["di"], out["d1"], out["d2"] = se.nat(env["H_di"]), se.nat(env["H_d1"]), se.nat(env["H_d2"])
    out["fa"], out["fb"] = se.nat(env["H_fa"]), se.nat(env["H_fb"])
    out["nl"], out["np"] = _comp(env["H_nl"], "current"), _comp(env["H_np"], "current")
    se2 = SE(nats=dict(loc, nl="nl", np="np"), rs={"el": "el", "ep": "ep", "width": "width", "deph": "deph"})
    out["el"] = se2.nat(_same(env, "H_el1", "H_el2"))         # HH[x, x]: a diagonal element
    out["ep"] = se2.nat(_same(env, "H_ep1", "H_ep2"))
    out["fi"], out["fv"] = se2.nat(env["H_fi"]), se2.r(env["H_fv"])
    out["dn"], out["de"] = se.nat(env["H_dn"]), se.nat(env["H_de"])
    # ---- add_transfer
    env = _match(f, "liouville_pathway.add_transfer", T_ADD_TRANSFER)
    for h, k in (("H_a", "xa"), ("H_b", "xb"), ("H_c", "xc"), ("H_d", "xd"), ("H_k0", "k0"), ("H_k1", "k1")):
        out[k] = _comp(env[h], "pair")
    se = SE(nats={"nfl": "nfl", "nfr": "nfr", "nil": "nil", "nir": "nir"}, rs={"el": "el", "ep": "ep"})
    out["v0"], out["v1"] = se.nat(env["H_v0"]), se.nat(env["H_v1"])
    out["ra"], out["rb"] = se.nat(env["H_ra"]), se.nat(env["H_rb"])
    out["u0"], out["u1"] = se.z(env["H_u0"]), se.z(env["H_u1"])
    out["w0"], out["w1"] = se.nat(env["H_w0"]), se.nat(env["H_w1"])
    out["xel"] = se.nat(_same(env, "H_e1", "H_e2"))
    out["xep"] = se.nat(_same(env, "H_p1", "H_p2"))
    out["xfi"], out["xfv"] = se.nat(env["H_fi"]), se.r(env["H_fv"])
    out["dr"], out["xde"] = se.nat(env["H_dr"]), se.nat(env["H_de"])
    # ---- set_evolution_factor
    env = _match(f, "liouville_pathway.set_evolution_factor", T_SET_EVF)
    out["sev"] = SE(rs={"evf": "evf"}).r(env["H_v"])
    return OBJ_FILE % out


# =============================================================================================== orientational factor
class VE:
    """scalar expressions over rows of small arrays: numpy.dot(X[i,:], Y[j,:]), products, sums, numpy.real"""

    def __init__(self, fams=None, vecs=None, scal=None):
        self.fams, self.vecs, self.scal = dict(fams or {}), dict(vecs or {}), dict(scal or {})

    def vec(self, node):
        k = U(node)
        if k in self.vecs:
            return self.vecs[k]
        if isinstance(node, ast.Subscript) and U(node.value) in self.fams:
            idxs = list(node.slice.elts) if isinstance(node.slice, ast.Tuple) else [node.slice]
            if len(idxs) == 2 and U(idxs[1]) == ":":
                return "(%s %d%%nat)" % (self.fams[U(node.value)], _intconst(idxs[0], "row", 0))
        raise Untranslatable("vector %s" % k)

    def s(self, node):
        k = U(node)
        if k in self.scal:
            return self.scal[k]
        if isinstance(node, ast.Call) and U(node.func) == "numpy.dot" and len(node.args) == 2 and not node.keywords:
            return "(dot %s %s)" % (self.vec(node.args[0]), self.vec(node.args[1]))
        if isinstance(node, ast.Call) and U(node.func) == "numpy.real" and len(node.args) == 1 and not node.keywords:
            return self.s(node.args[0])
        if isinstance(node, ast.BinOp):
            op = {ast.Add: "+", ast.Sub: "-", ast.Mult: "*"}.get(type(node.op))
            if op:
                return "(%s %s %s)" % (self.s(node.left), op, self.s(node.right))
        raise Untranslatable("scalar expression %s" % k[:80])


def _unify_stmts(template_src, stmts, what):
    env = {}
    unify(ast.parse(template_src).body, stmts, env, what)
    return env


def _order_branch(fn, what):
    """`if self.order == K: BODY [elif ...]` -> (K node, BODY); the other branches are not executed for that order"""
    ifs = [s for s in _strip(fn.body) if isinstance(s, ast.If)]
    if len(ifs) != 1:
        raise Untranslatable("%s: %d if statements" % (what, len(ifs)))
    s = ifs[0]
    if not (isinstance(s.test, ast.Compare) and len(s.test.ops) == 1 and isinstance(s.test.ops[0], ast.Eq)
            and U(s.test.left) == "self.order"):
        raise Untranslatable("%s: test %s" % (what, U(s.test)))
    return s, s.test.comparators[0]


ORIENT_FILE = """
  (* ---- liouville_pathway.build (third order): F4n and the sign ---- *)
  Definition g_build_order : nat := %(bord)s.
  Definition g_F4n (d : nat -> vec3) : vec3 := (%(f0)s, %(f1)s, %(f2)s).
  Definition g_sign (c : xcall) (sides : nat -> Z) : Z := fold_right Z.mul 1%%Z (map sides (seq 0 (g_rows c))).   (* %(signsrc)s *)
  Lemma g_F4n_is_model (d : nat -> vec3) : g_build_order = 3%%nat /\\ g_F4n d = F4 (d 0%%nat) (d 1%%nat) (d 2%%nat) (d 3%%nat).
  Proof. split; [reflexivity|]. unfold g_F4n, F4, dot. apply vec3_eq; ring. Qed.
  Lemma g_sign_is_model (c : xcall) (sides : nat -> Z) : c_order c = 3%%nat ->
    g_sign c sides = (sides 0%%nat * sides 1%%nat * sides 2%%nat * sides 3%%nat)%%Z.
  Proof. intros H. unfold g_sign. rewrite g_rows_is_model, H. cbn [seq map fold_right]. ring. Qed.

  (* ---- liouville_pathway.orientational_averaging (third order): the prefactor ---- *)
  Definition g_oa_order : nat := %(oord)s.
  Definition g_n0 (trans : nat -> nat * nat) : nat := %(n0c)s (trans %(n0r)s).
  Definition g_pref (FM F4n : vec3) (sign rho0 evolfac : R) : R := %(pref)s.
  Lemma g_pref_is_model (FM : vec3) (p : pway) (trans : nat -> nat * nat) :
    g_oa_order = 3%%nat /\\ g_n0 trans = snd (trans 0%%nat) /\\
    g_pref FM (pw_F4n p) (pw_sign p) (pw_rho p) (pw_evf p) = pref FM p.
  Proof. split; [reflexivity|]. split; [reflexivity|]. unfold g_pref, pref, dot. ring. Qed.

  (* ---- LabSetup.__init__: M4; set_pulse_polarizations: e, F4e, F4eM4 ---- *)
  Definition g_M4_num : list (list Z) := %(m4)s.
  Definition g_M4_den : Z := %(den)s.
  (* th stands for 1 / g_M4_den *)
  Definition g_M4 (th : R) (i j : nat) : R := th * z2r (nth j (nth i g_M4_num []) 0%%Z).
  Definition g_e (pp : nat -> vec3) (det : vec3) : nat -> vec3 :=
    upd (fun %(lv)s => if Nat.ltb %(lv)s %(nloop)s then pp %(lsrc)s else vzero) %(detrow)s det.
  Definition g_F4e (e : nat -> vec3) : vec3 := (%(e0)s, %(e1)s, %(e2)s).
  Definition g_F4eM4 (th : R) (F4e : vec3) : vec3 := %(fm)s.
  Lemma g_lab_is_model (th : R) (pp : nat -> vec3) (det : vec3) :
    g_M4_den = 30%%Z /\\
    g_F4eM4 th (g_F4e (g_e pp det)) = lab_FM th (pp 0%%nat) (pp 1%%nat) (pp 2%%nat) det.
  Proof.
    split; [reflexivity|].
    assert (He : g_F4e (g_e pp det) = F4 (pp 0%%nat) (pp 1%%nat) (pp 2%%nat) det).
    { unfold g_F4e, g_e, upd, F4, dot. cbn [Nat.eqb Nat.ltb Nat.leb]. apply vec3_eq; ring. }
    rewrite He. unfold lab_FM. generalize (F4 (pp 0%%nat) (pp 1%%nat) (pp 2%%nat) det). intros f.
    unfold g_F4eM4, vecmat, matvec, g_M4, g_M4_num, F4eM4. cbn [nth z2r p2r]. unfold four, two. apply vec3_eq; ring.
  Qed.
"""


def orientation(repo):
    out = {}
    # ---- build
    fn = _src_of(repo + DIA, "liouville_pathway.build")
    body = _strip(fn.body)
    if not (len(body) == 3 and U(body[0]) == "d = self.dmoments" and U(body[2]) == "self.built = True"):
        raise Untranslatable("build: statements around the order test")
    br, k = _order_branch(fn, "build")
    out["bord"] = "%d%%nat" % _intconst(k, "order", 0)
    env = _unify_stmts("self.F4n[0] = H_f0\nself.F4n[1] = H_f1\nself.F4n[2] = H_f2\nself.sign = H_sign", br.body, "build")
    ve = VE(fams={"d": "d"})
    for h in ("f0", "f1", "f2"):
        out[h] = ve.s(env["H_" + h])
    if U(env["H_sign"]) != "numpy.prod(self.sides)":
        raise Untranslatable("build: sign = %s" % U(env["H_sign"]))
    out["signsrc"] = U(env["H_sign"])
    # ---- orientational_averaging
    fn = _src_of(repo + DIA, "liouville_pathway.orientational_averaging")
    if [a.arg for a in fn.args.args] != ["self", "lab"]:
        raise Untranslatable("orientational_averaging: signature")
    body = _strip(fn.body)
    if len(body) != 2:
        raise Untranslatable("orientational_averaging: %d statements" % len(body))
    env = _unify_stmts("n0 = self.transitions[H_r, H_c]", [body[0]], "orientational_averaging")
    out["n0r"], out["n0c"] = "%d%%nat" % _intconst(env["H_r"], "row", 0), _comp(env["H_c"], "transition")
    br, k = _order_branch(fn, "orientational_averaging")
    out["oord"] = "%d%%nat" % _intconst(k, "order", 0)
    env = _unify_stmts("self.pref = H_pref", br.body, "orientational_averaging")
    ve = VE(vecs={"lab.F4eM4": "FM", "self.F4n": "F4n"},
            scal={"self.sign": "sign", "self.evolfac": "evolfac", "self.aggregate.rho0[n0, n0]": "rho0"})
    out["pref"] = ve.s(env["H_pref"])
    # ---- LabSetup.__init__: self.M4 = numpy.array([[...],[...],[...]]) / den
    fn = _src_of(repo + LAB, "LabSetup.__init__")
    m4 = [s for s in ast.walk(fn) if isinstance(s, ast.Assign) and len(s.targets) == 1 and U(s.targets[0]) == "self.M4"]
    if len(m4) != 1:
        raise Untranslatable("LabSetup.__init__: M4 assigned %d times" % len(m4))
    env = _unify_stmts("self.M4 = numpy.array(H_rows) / H_den", m4, "LabSetup.__init__")

    def zconst(node):
        sign = 1
        if isinstance(node, ast.UnaryOp) and isinstance(node.op, ast.USub):
            sign, node = -1, node.operand
        if isinstance(node, ast.Constant) and isinstance(node.value, (int, float)) and not isinstance(node.value, bool) \
                and float(node.value) == int(node.value):
            return sign * int(node.value)
        raise Untranslatable("M4 entry %s" % U(node))
    rows = env["H_rows"]
    if not (isinstance(rows, ast.List) and len(rows.elts) == 3 and all(isinstance(r, ast.List) and len(r.elts) == 3 for r in rows.elts)):
        raise Untranslatable("M4 literal %s" % U(rows))
    out["m4"] = "[%s]" % "; ".join("[%s]" % "; ".join("(%d)%%Z" % zconst(e) for e in r.elts) for r in rows.elts)
    out["den"] = "(%d)%%Z" % zconst(env["H_den"])
    # ---- set_pulse_polarizations
    fn = _src_of(repo + LAB, "LabSetup.set_pulse_polarizations")
    if [a.arg for a in fn.args.args] != ["self", "pulse_polarizations", "detection_polarization"]:
        raise Untranslatable("set_pulse_polarizations: signature")
    body = _strip(fn.body)
    if not (len(body) == 2 and isinstance(body[0], ast.If) and U(body[0].test) == "len(pulse_polarizations) == self.number_of_pulses"
            and U(body[1]) == "self.detection_polarization = detection_polarization"
            and isinstance(_strip(body[0].orelse)[-1], ast.Raise)):
        raise Untranslatable("set_pulse_polarizations: statements around the computation")
    env = _unify_stmts("self.e = numpy.zeros((4, 3))\nfor i in range(H_n):\n    self.e[H_row, :] = pulse_polarizations[H_src]\n"
                       "self.e[H_det, :] = detection_polarization\ne = self.e\nF4e = numpy.zeros(3)\n"
                       "F4e[0] = H_e0\nF4e[1] = H_e1\nF4e[2] = H_e2\nself.F4eM4 = numpy.dot(H_a, H_b)", body[0].body,
                       "set_pulse_polarizations")
    if not (isinstance(env["H_row"], ast.Name) and env["H_row"].id == "i" and isinstance(env["H_src"], ast.Name) and env["H_src"].id == "i"):
        raise Untranslatable("set_pulse_polarizations: e[%s] = pulse_polarizations[%s]" % (U(env["H_row"]), U(env["H_src"])))
    out["lv"], out["lsrc"] = "k", "k"
    out["nloop"] = "%d%%nat" % _intconst(env["H_n"], "range", 0)
    out["detrow"] = "%d%%nat" % _intconst(env["H_det"], "row", 0)
    ve = VE(fams={"e": "e"})
    for h in ("e0", "e1", "e2"):
        out[h] = ve.s(env["H_" + h])
    a, b = U(env["H_a"]), U(env["H_b"])
    if (a, b) == ("F4e", "self.M4"):
        out["fm"] = "vecmat F4e (g_M4 th)"
    elif (a, b) == ("self.M4", "F4e"):
        out["fm"] = "matvec (g_M4 th) F4e"
    else:
        raise Untranslatable("set_pulse_polarizations: F4eM4 = numpy.dot(%s, %s)" % (a, b))
    return ORIENT_FILE % out


# =============================================================================================== the mock calculator
class _ConstFold(ast.NodeTransformer):
    def __init__(self, name, value):
        self.name, self.value = name, value

    def visit_Name(self, n):
        if n.id == self.name and isinstance(n.ctx, ast.Load):
            return ast.copy_location(ast.Constant(self.value), n)
        return n


def _live_deep(stmts):
    out = []
    for s in _live(stmts):
        if isinstance(s, ast.If):
            s.body, s.orelse = _live_deep(s.body), _live_deep(s.orelse)
        out.append(s)
    return out


T_CALC_PATHWAY = """
def calculate_pathway(self, pathway, shape):
    if pathway is None:
        N1 = self.oa1.length
        N3 = self.oa3.length
        reph2D = numpy.zeros((N1, N3), dtype=COMPLEX)
        return reph2D
    oldv = False
    noe = H_noe
    cen1 = pathway.frequency[H_i1]
    cen3 = pathway.frequency[H_i3]
    pref = pathway.pref
    N1 = self.oa1.length
    N3 = self.oa3.length
    if H_tx < 0.0:
        widthx = H_dx
    else:
        widthx = H_vx
    if H_ty < 0.0:
        widthy = H_dy
    else:
        widthy = H_vy
    if H_tgx < 0.0:
        dephx = H_dgx
    else:
        dephx = H_vgx
    if H_tgy < 0.0:
        dephy = H_dgy
    else:
        dephy = H_vgy
    prefk = 4.0 * numpy.log(2.0)
    if pathway.pathway_type == H_pt1:
        reph2D = numpy.zeros((N1, N3), dtype=COMPLEX)
        if shape == H_sa1:
            oo3 = self.oa3.data[:]
            oo1 = H_oa1
            reph2D = pref * H_fa1(oo1, H_a11, H_a12, oo3, H_a13, H_a14)
        elif shape == H_sb1:
            oo3 = self.oa3.data[:]
            oo1 = H_ob1
            reph2D = pref * H_fb1(oo1, H_b11, H_b12, oo3, H_b13, H_b14)
        else:
            raise Exception(H_m1)
        return reph2D
    elif pathway.pathway_type == H_pt2:
        nonr2D = numpy.zeros((N1, N3), dtype=COMPLEX)
        if shape == H_sa2:
            oo3 = self.oa3.data[:]
            oo1 = H_oa2
            nonr2D = pref * H_fa2(oo1, H_a21, H_a22, oo3, H_a23, H_a24)
        elif shape == H_sb2:
            oo3 = self.oa3.data[:]
            oo1 = H_ob2
            nonr2D = pref * H_fb2(oo1, H_b21, H_b22, oo3, H_b23, H_b24)
        else:
            raise Exception(H_m2)
        return nonr2D
"""

T_CALC_ONE = """
def calculate_one(self, tc):
    onetwod = TwoDResponse()
    onetwod.set_axis_1(self.oa1)
    onetwod.set_axis_3(self.oa3)
    onetwod.set_resolution(H_res)
    pwy = None
    data = self.calculate_pathway(pwy, shape=self.shape)
    onetwod._add_data(data, dtype=H_s0)
    onetwod._add_data(data, dtype=H_s1)
    if self.pathways is not None:
        for pwy in self.pathways:
            data = self.calculate_pathway(pwy, shape=self.shape)
            if pwy.pathway_type == H_t1:
                onetwod._add_data(data, dtype=H_d1)
            elif pwy.pathway_type == H_t2:
                onetwod._add_data(data, dtype=H_d2)
            else:
                raise Exception(H_msg)
    onetwod.set_t2(self.t2axis.data[tc])
    return onetwod
"""

CALC_FILE = """
  (* ---- MockTwoDResponseCalculator.calculate_pathway ---- *)
  Section GenCalc.
    Variable L : bool -> bool -> R -> R -> R -> R -> R.   (* gaussian2D (true) / lorentzian2D (false); first axis negated (true) or not;
                                                             centre and width on the first axis, centre and width on the third *)
    Variable neg : R -> bool.                             (* x < 0.0 *)
    Variables dwx dwy dgx dgy : R.                        (* self.widthx, self.widthy, self.dephx, self.dephy *)
    Definition g_i1 : nat := %(i1)s.
    Definition g_i3 (order relax : nat) : nat := let noe := %(noe)s in %(i3)s.
    Definition g_widthx (w1 w3 g1 g3 : R) : R := if neg %(tx)s then %(dx)s else %(vx)s.
    Definition g_widthy (w1 w3 g1 g3 : R) : R := if neg %(ty)s then %(dy)s else %(vy)s.
    Definition g_dephx (w1 w3 g1 g3 : R) : R := if neg %(tgx)s then %(dgx)s else %(vgx)s.
    Definition g_dephy (w1 w3 g1 g3 : R) : R := if neg %(tgy)s then %(dgy)s else %(vgy)s.
    (* None = the call raises, or falls off the end of the function *)
    Definition g_value (ptype shape : string) (pref cen1 cen3 widthx widthy dephx dephy : R) : option R :=
      if String.eqb ptype %(pt1)s then
        (if String.eqb shape %(sa1)s then Some (pref * %(ca1)s)
         else if String.eqb shape %(sb1)s then Some (pref * %(cb1)s) else None)
      else if String.eqb ptype %(pt2)s then
        (if String.eqb shape %(sa2)s then Some (pref * %(ca2)s)
         else if String.eqb shape %(sb2)s then Some (pref * %(cb2)s) else None)
      else None.
    Definition shape_name (gauss : bool) : string := if gauss then "Gaussian"%%string else "Lorentzian"%%string.
    Definition ptype_name (reph : bool) : string := if reph then "R"%%string else "NR"%%string.
    Lemma g_centres_are_model (c : xcall) : g_i1 = 0%%nat /\\ g_i3 (c_order c) (c_relax c) = (nslots c - 2)%%nat.
    Proof. split; [reflexivity|]. unfold g_i3, nslots. lia. Qed.
    Lemma g_calculate_pathway_is_model (gauss : bool) (FM : vec3) (p : pway) :
      let w1 := pw_w1 p in let w3 := pw_w3 p in let g1 := pw_g1 p in let g3 := pw_g3 p in
      g_value (ptype_name (pw_reph p)) (shape_name gauss) (pref FM p) (nth 0 (pw_freq p) 0) (nth (List.length (pw_freq p) - 2) (pw_freq p) 0)
              (g_widthx w1 w3 g1 g3) (g_widthy w1 w3 g1 g3) (g_dephx w1 w3 g1 g3) (g_dephy w1 w3 g1 g3)
      = Some (contrib4 L neg dwx dwy dgx dgy gauss FM p).
    Proof.
      cbv zeta. unfold g_value, contrib4, calc_args4, sel4, g_widthx, g_widthy, g_dephx, g_dephy, ptype_name, shape_name.
      destruct (pw_reph p), gauss; cbn [String.eqb Ascii.eqb Bool.eqb]; reflexivity.
    Qed.
  End GenCalc.

  (* ---- MockTwoDResponseCalculator.calculate_one: bookkeeping of the signals ---- *)
  Definition g_signal_of (ptype : string) : option signal :=
    if String.eqb ptype %(t1)s then Some %(d1)s else if String.eqb ptype %(t2)s then Some %(d2)s else None.
  Definition g_calc_head : list (@op R) := [OSetRes %(res)s; OAdd 0 None (DS %(s0)s) None; OAdd 0 None (DS %(s1)s) None].
  Lemma g_calculate_one_is_model L neg dflt gauss (FM : vec3) (ps : list pway) :
    (forall b : bool, g_signal_of (ptype_name b) = Some (if b then REPH else NONR)) /\\
    g_calc_head ++ map (fun p => OAdd (contrib L neg dflt gauss FM p) None (DS (if pw_reph p then REPH else NONR)) None) ps
      = calc_ops L neg dflt gauss FM ps.
  Proof. split; [intros []; reflexivity|reflexivity]. Qed.
"""


def calculator(repo):
    f = repo + MOCK
    out = {}
    fn = _src_of(f, "MockTwoDResponseCalculator.calculate_pathway")
    olds = [s for s in ast.walk(fn) if isinstance(s, ast.Assign) and any(U(x) == "oldv" for x in s.targets)]
    stores = [n for n in ast.walk(fn) if isinstance(n, ast.Name) and n.id == "oldv" and not isinstance(n.ctx, ast.Load)]
    if not (len(olds) == 1 and len(stores) == 1 and isinstance(olds[0].value, ast.Constant) and olds[0].value.value is False):
        raise Untranslatable("calculate_pathway: the switch `oldv` is not the constant False")
    fn = _ConstFold("oldv", False).visit(fn)
    fn.body = _live_deep(fn.body)
    tfn = ast.parse(T_CALC_PATHWAY).body[0]
    env = {}
    unify([a.arg for a in tfn.args.args], [a.arg for a in fn.args.args], env, "calculate_pathway.args")
    unify(tfn.body, fn.body, env, "calculate_pathway")
    se = SE(nats={"pathway.order": "order", "pathway.relax_order": "relax", "noe": "noe"})
    out["noe"] = se.nat(env["H_noe"])
    out["i1"] = se.nat(env["H_i1"])
    i3 = env["H_i3"]
    if isinstance(i3, ast.BinOp) and isinstance(i3.op, ast.Sub):
        out["i3"] = "(%s - %s)%%nat" % (se.nat(i3.left), se.nat(i3.right))
    else:
        out["i3"] = se.nat(i3)
    tab = {"pathway.widths[1]": "w1", "pathway.widths[3]": "w3", "pathway.dephs[1]": "g1", "pathway.dephs[3]": "g3",
           "self.widthx": "dwx", "self.widthy": "dwy", "self.dephx": "dgx", "self.dephy": "dgy"}

    def val(node):
        k = U(node)
        if k not in tab:
            raise Untranslatable("calculate_pathway: width expression %s" % k)
        return tab[k]
    for h in ("tx", "dx", "vx", "ty", "dy", "vy", "tgx", "dgx", "vgx", "tgy", "dgy", "vgy"):
        out[h] = val(env["H_" + h])

    def strc(node, what):
        if isinstance(node, ast.Constant) and isinstance(node.value, str):
            return _coqstr(node.value)
        raise Untranslatable("calculate_pathway: %s %s" % (what, U(node)))
    for h in ("pt1", "pt2", "sa1", "sb1", "sa2", "sb2"):
        out[h] = strc(env["H_" + h], "string")
    loc = {"cen1": "cen1", "cen3": "cen3", "widthx": "widthx", "widthy": "widthy", "dephx": "dephx", "dephy": "dephy"}
    for tag in ("a1", "b1", "a2", "b2"):
        fname = env["H_f" + tag]
        if not (isinstance(fname, ast.Name) and fname.id in ("gaussian2D", "lorentzian2D")):
            raise Untranslatable("calculate_pathway: line-shape function %s" % U(fname))
        axis = U(env["H_o" + tag])
        if axis == "-self.oa1.data[:]":
            flip = "true"
        elif axis == "self.oa1.data[:]":
            flip = "false"
        else:
            raise Untranslatable("calculate_pathway: first axis %s" % axis)
        a = []
        for k in (1, 2, 3, 4):
            node = env["H_%s%d" % (tag, k)]
            if not (isinstance(node, ast.Name) and node.id in loc):
                raise Untranslatable("calculate_pathway: line-shape argument %s" % U(node))
            a.append(loc[node.id])
        out["c" + tag] = "L %s %s %s %s %s %s" % ("true" if fname.id == "gaussian2D" else "false", flip, a[0], a[1], a[2], a[3])
    # ---- calculate_one
    env = _match(f, "MockTwoDResponseCalculator.calculate_one", T_CALC_ONE)
    sig = {"signal_REPH": "REPH", "signal_NONR": "NONR", "signal_DC": "DCs"}
    for h in ("s0", "s1", "d1", "d2"):
        k = U(env["H_" + h])
        if k not in sig:
            raise Untranslatable("calculate_one: signal %s" % k)
        out[h] = sig[k]
    out["t1"], out["t2"] = strc(env["H_t1"], "pathway type"), strc(env["H_t2"], "pathway type")
    res = {"signals": "(Some Signals)", "processes": "(Some Processes)", "types": "(Some Types)", "pathways": "(Some Pathways)", "off": "(Some Off)"}
    if not (isinstance(env["H_res"], ast.Constant) and env["H_res"].value in res):
        raise Untranslatable("calculate_one: resolution %s" % U(env["H_res"]))
    out["res"] = res[env["H_res"].value]
    return CALC_FILE % out


END_TO_END = """
  (* ---- everything translated above, composed: the pathway list that calculate_one_system obtains ---- *)
  (* one leaf: constructor, the program run by the GENERATED steps, build() with the GENERATED F4n / sign, the population of
     the GENERATED initial state; None (a raise) contributes nothing *)
  Definition g_path (Sy : sys) (c : xcall) (ops : list xop) : option pway :=
    match run_with (g_step Sy) (g_new c) ops with Some l => obs_with g_F4n g_sign g_n0 Sy l | None => None end.
  Lemma g_path_is_model (Sy : sys) (c : xcall) (ops : list xop) : g_path Sy c ops = xpath Sy c ops.
  Proof.
    unfold g_path, xpath. rewrite (run_with_is_xrun Sy (g_step Sy) (g_step_is_model Sy)), g_new_is_model.
    destruct (xrun Sy (lp_new c) ops) as [l|]; [|reflexivity].
    apply obs_with_is_lp_obs; [intros d; apply g_F4n_is_model|intros c0 s H; now apply g_sign_is_model|reflexivity].
  Qed.
  Definition g_code_leaf (Sy : sys) (c : xcall) (ops : list xop) : list pway := olist (g_path Sy c ops).
  Lemma g_dispatch_ext {A} (lf lf' : xcall -> list xop -> list A) (Sy : sys) ptp :
    (forall c ops, lf c ops = lf' c ops) -> g_dispatch lf Sy ptp = g_dispatch lf' Sy ptp.
  Proof.
    intros H. unfold g_dispatch.
    rewrite (g_R1g_ext lf lf' Sy H), (g_R2g_ext lf lf' Sy H), (g_R3g_ext lf lf' Sy H), (g_R4g_ext lf lf' Sy H),
            (g_R1f_ext lf lf' Sy H), (g_R2f_ext lf lf' Sy H). reflexivity.
  Qed.
  Lemma run3T_ext {A} (d d' : string -> option (list A)) tuple : (forall p, d p = d' p) -> run3T d tuple = run3T d' tuple.
  Proof. intros H. induction tuple as [|p r IH]; cbn [run3T]; [reflexivity|]. now rewrite H, IH. Qed.
  (* for a system whose only ground state is state 0: the translated generators, dispatched as the calculator requests them,
     building every pathway with the translated object methods, produce exactly the lists gen6 / gen4 the theorems are about *)
  Theorem g_code_is_gen6 (Sy : sys) : ground0 Sy -> run3T (g_dispatch (g_code_leaf Sy) Sy) g_types_esa = Some (gen6 Sy).
  Proof.
    intros H. rewrite <- (g_esa_runs Sy H). apply run3T_ext. intros p. apply g_dispatch_ext. intros c ops.
    unfold g_code_leaf, xobj. now rewrite g_path_is_model.
  Qed.
  Theorem g_code_is_gen4 (Sy : sys) : ground0 Sy -> run3T (g_dispatch (g_code_leaf Sy) Sy) g_types_noesa = Some (gen4 Sy).
  Proof.
    intros H. rewrite <- (g_noesa_runs Sy H). apply run3T_ext. intros p. apply g_dispatch_ext. intros c ops.
    unfold g_code_leaf, xobj. now rewrite g_path_is_model.
  Qed.
"""

HEAD = """(* GENERATED on every run by harness/translate_c12.py from the current source of
   quantarhei/builders/aggregate_spectroscopy.py, quantarhei/spectroscopy/diagramatics.py, labsetup.py, mocktwodcalculator.py.
   Every index, bound, side, constant, operand and condition below is the translation of an expression of the source. *)
From Coq Require Import ZArith List Bool String Lia Arith Btauto.
From QV Require Import Base.Alg Base.Util Model.C19 Model.C12 Model.C12x Proofs.C12 Proofs.C12obj Proofs.C12gen.
Import ListNotations.
Section GenC12.
  Context {R : StarRing}.
  Add Ring RrGenC12 : (rth R).
  Open Scope sr_scope.
  Notation sys := (@sys R).
  Notation xop := (@xop R).
  Notation vec3 := (@vec3 R).
  Notation pway := (@pway R).
  Notation lp := (@lp R).
"""

GEN_LEMMAS = """
  (* the generator nest with the closed-form leaf is the model's generator, for every maker *)
  Lemma g_%(t)s_is_model (mk : @maker R) (Sy : sys) : g_%(t)s (fun c ops => [xleaf mk c ops]) Sy = gen_%(t)s_with mk Sy.
  Proof. unfold g_%(t)s, gen_%(t)s_with, xleaf. cbn [erase flat_map erase1 app xevf c_pname c_ptype c_sinit]. gen_eq. Qed.
  (* run by the object machine (every raise of add_transition / add_transfer a None), for systems whose only ground state is state 0 *)
  Lemma g_%(t)s_runs (Sy : sys) : ground0 Sy -> g_%(t)s (xobj Sy) Sy = gen_%(t)s_with (mkpath Sy) Sy.
  Proof. intros H. rewrite <- g_%(t)s_is_model. unfold g_%(t)s. gen_runs H. Qed.
  Lemma g_%(t)s_ext {A} (lf lf' : xcall -> list xop -> list A) (Sy : sys) : (forall c ops, lf c ops = lf' c ops) -> g_%(t)s lf Sy = g_%(t)s lf' Sy.
  Proof. intros H. unfold g_%(t)s. cbv zeta. repeat first [apply flat_map_ext_all; intro | apply when_cong; [reflexivity|]]. apply H. Qed.
"""


def static(repo):
    what = []
    defs, handlers = generators(repo)
    text = HEAD + defs
    for _, tag in GENERATORS:
        text += GEN_LEMMAS % {"t": tag}
    what += ["aggregate_spectroscopy.py:%s (loop nest, tests, pathway program; handler: %s)" % (f, handlers[t]) for f, t in GENERATORS]
    what.append("aggregate_spectroscopy.py:_generate_R1g (inlined)")
    text += dispatch(repo) + type_tuples(repo) + DISPATCH_LEMMAS
    what += ["aggregate_spectroscopy.py:AggregateSpectroscopy.liouville_pathways_3T (dispatch, argument passing; glue verbatim)",
             "mocktwodcalculator.py:MockTwoDResponseCalculator.calculate_one_system (requested pathway types)"]
    text += pathway_object(repo)
    what += ["diagramatics.py:liouville_pathway.__init__ (initial state, array sizes)", "diagramatics.py:liouville_pathway.add_transition",
             "diagramatics.py:liouville_pathway.add_transfer", "diagramatics.py:liouville_pathway.set_evolution_factor"]
    text += orientation(repo)
    what += ["diagramatics.py:liouville_pathway.build (F4n, sign)", "diagramatics.py:liouville_pathway.orientational_averaging (prefactor)",
             "labsetup.py:LabSetup.__init__ (M4)", "labsetup.py:LabSetup.set_pulse_polarizations (e, F4e, F4eM4)"]
    text += END_TO_END
    text += calculator(repo)
    what += ["mocktwodcalculator.py:MockTwoDResponseCalculator.calculate_pathway (centres, width selection, type / shape dispatch)",
             "mocktwodcalculator.py:MockTwoDResponseCalculator.calculate_one (signal bookkeeping)"]
    text += "End GenC12.\nPrint Assumptions g_code_is_gen6.\n"
    return text, what
