# -*- coding: utf-8 -*-
"""Static tie for C12 (third-order response): the current source of the Liouville-pathway machinery is translated,
fail-closed, into Gallina and proved equal to the definitions the theorems of Props/C12.v are about.

Translated on every run (see `static`):
  * quantarhei/builders/aggregate_spectroscopy.py: generate_R1g (+ its helper _generate_R1g), generate_R2g, generate_R3g,
    generate_R4g, generate_R1f, generate_R2f - the loop nests over the bands, the significance tests, the evolution-factor
    look-up, and at every leaf the PROGRAM of calls made on the pathway object (constructor arguments, transitions, sides,
    intervals, width / dephasing look-ups, transfer with its declared start, evolution factor), read from the code's own
    statements; liouville_pathways_3T: the dispatch on the pathway-type string and the argument passing;
    MockTwoDResponseCalculator.calculate_one_system: the two tuples of pathway types.
  * quantarhei/spectroscopy/diagramatics.py: liouville_pathway.__init__ (array shapes, initial state), add_transition,
    add_transfer, set_evolution_factor (statement templates with holes -> the steps of the object machine of
    Model/C12x.v), build (F4n, sign), orientational_averaging (prefactor).
  * quantarhei/spectroscopy/labsetup.py: LabSetup.__init__ (the matrix M4 and its divisor), set_pulse_polarizations (F4e, F4eM4).
  * quantarhei/spectroscopy/mocktwodcalculator.py: calculate_pathway (centres, the four width / dephasing selections - with
    the pinned quirk that dephy is selected on widths[3] -, the dispatch on pathway type and line shape and what is handed
    to the line-shape function), calculate_one (signal bookkeeping).

The generated file (GenC12.v) instantiates nothing by hand: every index, bound, sign, constant, operand and condition in it
is the translation of an expression of the source; the lemmas at its end are closed by reflexivity / ring / boolean case
analysis / the library lemmas of Proofs/C12gen.v and Proofs/C12obj.v.
"""
import ast

from translate import Untranslatable, _src_of
from translate2 import _strip, _live, unify

AGG = "/quantarhei/builders/aggregate_spectroscopy.py"
DIA = "/quantarhei/spectroscopy/diagramatics.py"
LAB = "/quantarhei/spectroscopy/labsetup.py"
MOCK = "/quantarhei/spectroscopy/mocktwodcalculator.py"


def U(node):
    return ast.unparse(node)


def _coqstr(s):
    if '"' in s or "\\" in s or "\n" in s:
        raise Untranslatable("string literal %r" % s)
    return '"%s"%%string' % s


def _intconst(node, what, lo=None):
    """integer literal (also +1 / -1 written with a unary sign)"""
    sign = 1
    if isinstance(node, ast.UnaryOp) and isinstance(node.op, (ast.UAdd, ast.USub)):
        sign = -1 if isinstance(node.op, ast.USub) else 1
        node = node.operand
    if isinstance(node, ast.Constant) and isinstance(node.value, int) and not isinstance(node.value, bool):
        v = sign * node.value
        if lo is not None and v < lo:
            raise Untranslatable("%s: %d below %d" % (what, v, lo))
        return v
    raise Untranslatable("%s: integer literal expected, found %s" % (what, U(node)))


def _pure(node):
    """expressions whose evaluation cannot change the state: names, constants, subscripts, arithmetic, len()"""
    for n in ast.walk(node):
        if isinstance(n, ast.Call):
            if not (isinstance(n.func, ast.Name) and n.func.id in ("len", "str")):
                return False
        elif isinstance(n, (ast.NamedExpr, ast.Yield, ast.YieldFrom, ast.Await, ast.Lambda, ast.ListComp, ast.SetComp,
                            ast.DictComp, ast.GeneratorExp)):
            return False
    return True


def _is_print_block(s, vnames):
    """`if verbose > N: print(...)...` with pure arguments: no effect on the result"""
    if not (isinstance(s, ast.If) and not s.orelse and isinstance(s.test, ast.Compare) and len(s.test.ops) == 1
            and isinstance(s.test.ops[0], (ast.Gt, ast.GtE)) and isinstance(s.test.left, ast.Name) and s.test.left.id in vnames
            and isinstance(s.test.comparators[0], ast.Constant)):
        return False
    for t in _strip(s.body):
        if not (isinstance(t, ast.Expr) and isinstance(t.value, ast.Call) and isinstance(t.value.func, ast.Name)
                and t.value.func.id == "print" and all(_pure(a) for a in t.value.args) and not t.value.keywords):
            return False
    return True


# =============================================================================================== generators
class Gen:
    """one generate_Rxx function -> Gallina `flat_map`/`when`/`let` nest with a program at the leaf"""

    def __init__(self, repo, name, add_transition_defaults):
        self.repo, self.name = repo, name
        self.fn = _src_of(repo + AGG, name)
        self.defaults = add_transition_defaults
        args = [a.arg for a in self.fn.args.args]
        want6 = ["self", "lst", "eUt2", "pop_tol", "dip_tol", "evf_tol", "verbose"]
        want5 = ["self", "lst", "eUt2", "pop_tol", "dip_tol", "verbose"]
        if args not in (want6, want5) or self.fn.args.vararg or self.fn.args.kwarg or self.fn.args.kwonlyargs:
            raise Untranslatable("%s: signature %r" % (name, args))
        self.params = args
        self.verbose = {"verbose"}
        self.bands = {}          # python name -> Coq band
        self.dead = set()        # counters that are written and never read
        self.handler = None
        self.nvar = 0
        # no parameter may be re-bound
        for n in ast.walk(self.fn):
            tgt = []
            if isinstance(n, ast.Assign):
                tgt = n.targets
            elif isinstance(n, (ast.AugAssign, ast.AnnAssign)):
                tgt = [n.target]
            elif isinstance(n, ast.For):
                tgt = [n.target]
            for t in tgt:
                for m in ast.walk(t):
                    if isinstance(m, ast.Name) and m.id in self.params:
                        raise Untranslatable("%s: parameter %s is re-bound" % (name, m.id))

    # -------------------------------------------------------------------------------- prelude
    def _band_of(self, call):
        if isinstance(call, ast.Call) and not call.args and U(call.func) == "self.get_electronic_groundstate" and not call.keywords:
            return "ngs Sy"
        if isinstance(call, ast.Call) and U(call.func) == "self.get_excitonic_band":
            b = None
            if len(call.args) == 1 and not call.keywords:
                b = _intconst(call.args[0], "band")
            elif not call.args and len(call.keywords) == 1 and call.keywords[0].arg == "band":
                b = _intconst(call.keywords[0].value, "band")
            if b == 1:
                return "nes Sy"
            if b == 2:
                return "nfs Sy"
        raise Untranslatable("%s: band expression %s" % (self.name, U(call)))

    def _dead_counters(self, body):
        """names only ever assigned an integer literal or incremented by one, and never read"""
        cand = set()
        for n in ast.walk(self.fn):
            if isinstance(n, ast.Assign) and len(n.targets) == 1 and isinstance(n.targets[0], ast.Name) \
                    and isinstance(n.value, ast.Constant) and isinstance(n.value.value, int):
                cand.add(n.targets[0].id)
        for n in ast.walk(self.fn):
            if isinstance(n, ast.Name) and n.id in cand and isinstance(n.ctx, ast.Load):
                cand.discard(n.id)
        # AugAssign targets have Store context; any other store form disqualifies
        for n in ast.walk(self.fn):
            if isinstance(n, ast.AugAssign) and isinstance(n.target, ast.Name) and n.target.id in cand:
                if not (isinstance(n.op, ast.Add) and isinstance(n.value, ast.Constant) and isinstance(n.value.value, int)):
                    cand.discard(n.target.id)
            if isinstance(n, ast.For):
                for m in ast.walk(n.target):
                    if isinstance(m, ast.Name):
                        cand.discard(m.id)
        return cand

    def _noise(self, s):
        if _is_print_block(s, self.verbose):
            return True
        if isinstance(s, ast.Assign) and len(s.targets) == 1 and isinstance(s.targets[0], ast.Name) and s.targets[0].id in self.dead \
                and isinstance(s.value, ast.Constant):
            return True
        if isinstance(s, ast.AugAssign) and isinstance(s.target, ast.Name) and s.target.id in self.dead:
            return True
        return False

    def translate(self):
        body = _strip(self.fn.body)
        self.dead = self._dead_counters(body)
        rest = []
        for s in body:
            if self._noise(s):
                continue
            if isinstance(s, ast.Assign) and len(s.targets) == 1 and isinstance(s.targets[0], ast.Name):
                v = s.targets[0].id
                if isinstance(s.value, ast.Name) and s.value.id in self.verbose:       # ver = verbose
                    self.verbose.add(v)
                    continue
                if v in self.bands or rest:
                    raise Untranslatable("%s: assignment %s" % (self.name, U(s)[:60]))
                self.bands[v] = self._band_of(s.value)
                continue
            if isinstance(s, ast.Try) and not rest and len(s.body) == 1 and isinstance(s.body[0], ast.Assign) \
                    and len(s.handlers) == 1 and s.handlers[0].type is None and not s.orelse and not s.finalbody \
                    and len(s.handlers[0].body) == 1 and isinstance(s.handlers[0].body[0], ast.Raise):
                a = s.body[0]                                                           # try: nfs = ... except: raise
                if len(a.targets) == 1 and isinstance(a.targets[0], ast.Name) and a.targets[0].id not in self.bands:
                    self.bands[a.targets[0].id] = self._band_of(a.value)
                    continue
            rest.append(s)
        if len(rest) != 1 or not isinstance(rest[0], ast.For):
            raise Untranslatable("%s: one outer loop expected after the preamble, found %d statements" % (self.name, len(rest)))
        term = self.prod(rest, {}, 1)
        return term

    # -------------------------------------------------------------------------------- expressions
    def idx(self, node, env):
        if isinstance(node, ast.Name) and node.id in env and env[node.id][0] == "idx":
            return env[node.id][1]
        raise Untranslatable("%s: state index %s" % (self.name, U(node)))

    def _sub(self, node):
        """X[a, b, ...] -> (unparsed base, [index nodes])"""
        if not isinstance(node, ast.Subscript):
            return None, None
        idxs = list(node.slice.elts) if isinstance(node.slice, ast.Tuple) else [node.slice]
        return U(node.value), idxs

    def uelem(self, node, env):
        base, idxs = self._sub(node)
        if base != "eUt2" or len(idxs) != 4:
            raise Untranslatable("%s: evolution-factor look-up %s" % (self.name, U(node)))
        return [self.idx(i, env) for i in idxs]

    def cond(self, node, env):
        if isinstance(node, ast.BoolOp) and isinstance(node.op, ast.And):
            return "(" + " && ".join(self.cond(v, env) for v in node.values) + ")"
        if isinstance(node, ast.BoolOp) and isinstance(node.op, ast.Or):
            return "(" + " || ".join(self.cond(v, env) for v in node.values) + ")"
        if isinstance(node, ast.Compare) and len(node.ops) == 1 and isinstance(node.ops[0], (ast.Gt, ast.Lt)):
            big, small = (node.left, node.comparators[0]) if isinstance(node.ops[0], ast.Gt) else (node.comparators[0], node.left)
            if not isinstance(small, ast.Name) or small.id not in self.params:
                raise Untranslatable("%s: threshold %s" % (self.name, U(small)))
            thr = small.id
            base, idxs = self._sub(big)
            if thr == "pop_tol" and base == "self.rho0" and len(idxs) == 2:
                a, b = self.idx(idxs[0], env), self.idx(idxs[1], env)
                if a != b:
                    raise Untranslatable("%s: population test on the off-diagonal element %s" % (self.name, U(big)))
                return "(popb Sy %s)" % a
            if thr == "dip_tol" and base == "self.D2" and len(idxs) == 2:
                return "(bigD Sy %s %s)" % (self.idx(idxs[0], env), self.idx(idxs[1], env))
            if thr == "evf_tol" and isinstance(big, ast.Call) and U(big.func) in ("abs", "numpy.abs") and len(big.args) == 1 \
                    and not big.keywords:
                x = big.args[0]
                if isinstance(x, ast.Name) and x.id in env and env[x.id][0] == "evf":
                    return "(evb Sy %s)" % " ".join(env[x.id][2])
                return "(evb Sy %s)" % " ".join(self.uelem(x, env))
            raise Untranslatable("%s: significance test %s" % (self.name, U(node)))
        raise Untranslatable("%s: condition %s" % (self.name, U(node)[:80]))

    # -------------------------------------------------------------------------------- statements
    def fresh(self, py):
        self.nvar += 1
        return "v%d_%s" % (self.nvar, "".join(ch for ch in py if ch.isalnum() or ch == "_"))

    def prod(self, stmts, env, depth):
        """a block that appends pathways to lst -> Gallina term of type list A"""
        ss = [s for s in _strip(stmts) if not self._noise(s)]
        if not ss:
            return "[]"
        s = ss[0]
        ind = "  " * depth
        if isinstance(s, ast.Assign) and len(s.targets) == 1 and isinstance(s.targets[0], ast.Name) \
                and isinstance(s.value, ast.Subscript) and U(s.value.value) == "eUt2":
            v = s.targets[0].id
            if v in env or v in self.params or v in self.bands:
                raise Untranslatable("%s: %s is already bound" % (self.name, v))
            ix = self.uelem(s.value, env)
            cv = self.fresh(v)
            env2 = dict(env)
            env2[v] = ("evf", cv, ix)
            return "(let %s := U Sy %s in\n%s%s)" % (cv, " ".join(ix), ind, self.prod(ss[1:], env2, depth))
        if isinstance(s, ast.For):
            if s.orelse or not isinstance(s.target, ast.Name) or not isinstance(s.iter, ast.Name) or s.iter.id not in self.bands:
                raise Untranslatable("%s: loop header `for %s in %s`" % (self.name, U(s.target), U(s.iter)))
            v = s.target.id
            if v in env or v in self.params or v in self.bands:
                raise Untranslatable("%s: loop variable %s is already bound" % (self.name, v))
            cv = self.fresh(v)
            env2 = dict(env)
            env2[v] = ("idx", cv)
            head = "(flat_map (fun %s =>\n%s%s) (%s))" % (cv, ind, self.prod(s.body, env2, depth + 1), self.bands[s.iter.id])
            return self._cat(head, ss[1:], env, depth)
        if isinstance(s, ast.If):
            if s.orelse:
                raise Untranslatable("%s: if/else in the loop nest" % self.name)
            head = "(when %s\n%s%s)" % (self.cond(s.test, env), ind, self.prod(s.body, env, depth + 1))
            return self._cat(head, ss[1:], env, depth)
        return self.leaf(ss, env)

    def _cat(self, head, rest, env, depth):
        if not rest:
            return head
        return "(%s ++ %s)" % (head, self.prod(rest, env, depth))

    # -------------------------------------------------------------------------------- leaf
    def leaf(self, ss, env):
        """[try: <program> except: <handler>] | [lp = _helper(...)] ; lp.build() ; lst.append(lp)"""
        if len(ss) != 3:
            raise Untranslatable("%s: leaf of %d statements (%s)" % (self.name, len(ss), "; ".join(U(x)[:30] for x in ss)))
        first, b, a = ss
        if isinstance(first, ast.Try):
            lpname, call, ops, handler = self.program_try(first, env, self.verbose, "self")
        elif isinstance(first, ast.Assign) and len(first.targets) == 1 and isinstance(first.targets[0], ast.Name) \
                and isinstance(first.value, ast.Call) and isinstance(first.value.func, ast.Name):
            lpname = first.targets[0].id
            call, ops, handler = self.helper(first.value, env)
        else:
            raise Untranslatable("%s: leaf starts with %s" % (self.name, U(first)[:60]))
        if not (isinstance(b, ast.Expr) and U(b) == "%s.build()" % lpname):
            raise Untranslatable("%s: `%s.build()` expected, found %s" % (self.name, lpname, U(b)[:60]))
        if not (isinstance(a, ast.Expr) and U(a) == "lst.append(%s)" % lpname):
            raise Untranslatable("%s: `lst.append(%s)` expected, found %s" % (self.name, lpname, U(a)[:60]))
        self.handler = handler if self.handler in (None, handler) else "mixed"
        return "(lf %s\n        [%s])" % (call, ";\n         ".join(ops))

    def helper(self, call, env):
        """lp = _generate_R1g(self, i1g, ..., evf, verbose=ver): the helper's body with its parameters bound to the arguments"""
        fn = _src_of(self.repo + AGG, call.func.id)
        params = [a.arg for a in fn.args.args]
        if fn.args.vararg or fn.args.kwarg or fn.args.kwonlyargs or len(call.args) > len(params):
            raise Untranslatable("%s: call of %s" % (self.name, call.func.id))
        bound = {}
        for p, a in zip(params, call.args):
            bound[p] = a
        for kw in call.keywords:
            if kw.arg is None or kw.arg not in params or kw.arg in bound:
                raise Untranslatable("%s: keyword %s of %s" % (self.name, kw.arg, call.func.id))
            bound[kw.arg] = kw.value
        ndef = len(fn.args.defaults)
        for p, d in zip(params[len(params) - ndef:], fn.args.defaults):
            bound.setdefault(p, d)
        if set(bound) != set(params):
            raise Untranslatable("%s: %s called with missing arguments" % (self.name, call.func.id))
        henv, hverbose, hself = {}, set(), None
        for p in params:
            a = bound[p]
            if isinstance(a, ast.Name) and a.id == "self":
                hself = p
            elif isinstance(a, ast.Name) and a.id in self.verbose:
                hverbose.add(p)
            elif isinstance(a, ast.Name) and a.id in env:
                henv[p] = env[a.id]
            elif isinstance(a, ast.Constant) and p == "verbose":
                hverbose.add(p)
            else:
                raise Untranslatable("%s: argument %s=%s of %s" % (self.name, p, U(a), call.func.id))
        if hself is None:
            raise Untranslatable("%s: %s is not handed the aggregate" % (self.name, call.func.id))
        for n in ast.walk(fn):                      # the helper must not re-bind its parameters
            if isinstance(n, (ast.Assign, ast.AugAssign, ast.For)):
                for t in (n.targets if isinstance(n, ast.Assign) else [n.target]):
                    for m in ast.walk(t):
                        if isinstance(m, ast.Name) and m.id in params:
                            raise Untranslatable("%s: parameter %s re-bound" % (call.func.id, m.id))
        body = [s for s in _strip(fn.body) if not _is_print_block(s, hverbose)]
        if not (len(body) == 2 and isinstance(body[0], ast.Try) and isinstance(body[1], ast.Return) and isinstance(body[1].value, ast.Name)):
            raise Untranslatable("%s: body shape" % call.func.id)
        lpname, c, ops, handler = self.program_try(body[0], henv, hverbose, hself)
        if body[1].value.id != lpname:
            raise Untranslatable("%s returns %s" % (call.func.id, body[1].value.id))
        return c, ops, handler

    def program_try(self, tr, env, verbose, selfname):
        if tr.orelse or tr.finalbody or len(tr.handlers) != 1 or tr.handlers[0].type is not None or tr.handlers[0].name:
            raise Untranslatable("%s: try statement shape" % self.name)
        hb = _strip(tr.handlers[0].body)
        if len(hb) >= 1 and isinstance(hb[0], ast.Raise) and all(isinstance(x, ast.Break) for x in hb[1:]):
            handler = "raise"
        elif len(hb) == 1 and isinstance(hb[0], ast.Break):
            handler = "break"
        else:
            raise Untranslatable("%s: exception handler `%s`" % (self.name, "; ".join(U(x) for x in hb)[:60]))
        lpname, call, ops = self.program([s for s in _strip(tr.body) if not _is_print_block(s, verbose)], env, selfname)
        return lpname, call, ops, handler

    def program(self, ss, env, selfname):
        """constructor, look-ups of widths and dephasings, calls on the object -> (object name, xcall term, [xop terms])"""
        if not ss:
            raise Untranslatable("%s: empty pathway program" % self.name)
        s0 = ss[0]
        if not (isinstance(s0, ast.Assign) and len(s0.targets) == 1 and isinstance(s0.targets[0], ast.Name)
                and isinstance(s0.value, ast.Call) and U(s0.value.func) == "diag.liouville_pathway"):
            raise Untranslatable("%s: the program does not start with the constructor (%s)" % (self.name, U(s0)[:60]))
        lp = s0.targets[0].id
        c = s0.value
        if len(c.args) != 2 or not (isinstance(c.args[0], ast.Constant) and isinstance(c.args[0].value, str)):
            raise Untranslatable("%s: constructor arguments %s" % (self.name, U(c)[:80]))
        kw = {"order": None, "pname": None, "relax_order": 0, "popt_band": 0, "aggregate": None}
        for k in c.keywords:
            if k.arg not in kw:
                raise Untranslatable("%s: constructor keyword %s" % (self.name, k.arg))
            kw[k.arg] = k.value
        if not (isinstance(kw["aggregate"], ast.Name) and kw["aggregate"].id == selfname):
            raise Untranslatable("%s: the pathway is built on another aggregate" % self.name)
        if kw["order"] is None or kw["pname"] is None or not (isinstance(kw["pname"], ast.Constant) and isinstance(kw["pname"].value, str)):
            raise Untranslatable("%s: order / pname of the constructor" % self.name)
        order = _intconst(kw["order"], "order", 0)
        relax = kw["relax_order"] if isinstance(kw["relax_order"], int) else _intconst(kw["relax_order"], "relax_order", 0)
        popt = kw["popt_band"] if isinstance(kw["popt_band"], int) else _intconst(kw["popt_band"], "popt_band", 0)
        call = "(mkCall %s %s %d %s %d %d)" % (_coqstr(c.args[0].value), self.idx(c.args[1], env), order,
                                              _coqstr(kw["pname"].value), relax, popt)
        loc = {}        # width1 -> Coq term
        ops = []

        def pair(node, what):
            if isinstance(node, ast.Tuple) and len(node.elts) == 2:
                return self.idx(node.elts[0], env), self.idx(node.elts[1], env)
            raise Untranslatable("%s: %s %s" % (self.name, what, U(node)))

        def val(node):
            if isinstance(node, ast.Name) and node.id in loc:
                return loc[node.id]
            return self.const(node)
        for s in ss[1:]:
            if isinstance(s, ast.Assign) and len(s.targets) == 1 and isinstance(s.targets[0], ast.Name) and isinstance(s.value, ast.Call):
                f = U(s.value.func)
                tab = {"%s.get_transition_width" % selfname: "wid", "%s.get_transition_dephasing" % selfname: "dep"}
                if f in tab and len(s.value.args) == 1 and not s.value.keywords:
                    a, b = pair(s.value.args[0], "transition")
                    v = s.targets[0].id
                    if v in env or v == lp:
                        raise Untranslatable("%s: %s re-bound" % (self.name, v))
                    loc[v] = "(%s Sy %s %s)" % (tab[f], a, b)
                    continue
            if isinstance(s, ast.Expr) and isinstance(s.value, ast.Call) and isinstance(s.value.func, ast.Attribute) \
                    and isinstance(s.value.func.value, ast.Name) and s.value.func.value.id == lp:
                m, cl = s.value.func.attr, s.value
                if m == "add_transition":
                    names = ["transition", "side", "interval", "width", "deph"]
                    got = dict(zip(names, cl.args))
                    for k in cl.keywords:
                        if k.arg not in names or k.arg in got:
                            raise Untranslatable("%s: add_transition keyword %s" % (self.name, k.arg))
                        got[k.arg] = k.value
                    if "transition" not in got or "side" not in got:
                        raise Untranslatable("%s: %s" % (self.name, U(s)[:60]))
                    nf, ni = pair(got["transition"], "transition")
                    side = _intconst(got["side"], "side")
                    interval = _intconst(got["interval"], "interval", 0) if "interval" in got else self.defaults["interval"]
                    w = val(got["width"]) if "width" in got else self.defaults["width"]
                    g = val(got["deph"]) if "deph" in got else self.defaults["deph"]
                    ops.append("XT %s %s (%d) %d %s %s" % (nf, ni, side, interval, w, g))
                    continue
                if m == "add_transfer" and len(cl.args) == 2 and not cl.keywords:
                    fl, fr = pair(cl.args[0], "transfer target")
                    sl, sr = pair(cl.args[1], "transfer start")
                    ops.append("XX %s %s %s %s" % (fl, fr, sl, sr))
                    continue
                if m == "set_evolution_factor" and len(cl.args) == 1 and not cl.keywords:
                    x = cl.args[0]
                    if isinstance(x, ast.Name) and x.id in env and env[x.id][0] == "evf":
                        ops.append("XE %s" % env[x.id][1])
                        continue
            raise Untranslatable("%s: statement in the pathway program: %s" % (self.name, U(s)[:80]))
        return lp, call, ops

    @staticmethod
    def const(node):
        """-1.0 / 1.0 / 0.0 as ring constants"""
        sign = 1
        if isinstance(node, ast.UnaryOp) and isinstance(node.op, ast.USub):
            sign, node = -1, node.operand
        if isinstance(node, ast.Constant) and isinstance(node.value, (int, float)) and not isinstance(node.value, bool):
            v = sign * node.value
            if v == -1:
                return "mone"
            if v == 1:
                return "(r1 R)"
            if v == 0:
                return "(r0 R)"
        raise Untranslatable("constant %s" % U(node))


def add_transition_defaults(repo):
    fn = _src_of(repo + DIA, "liouville_pathway.add_transition")
    args = [a.arg for a in fn.args.args]
    if args != ["self", "transition", "side", "interval", "width", "deph"] or len(fn.args.defaults) != 3:
        raise Untranslatable("add_transition signature %r" % args)
    d = fn.args.defaults
    return {"interval": _intconst(d[0], "default interval", 0), "width": Gen.const(d[1]), "deph": Gen.const(d[2])}


GENERATORS = [("generate_R1g", "R1g"), ("generate_R2g", "R2g"), ("generate_R3g", "R3g"), ("generate_R4g", "R4g"),
              ("generate_R1f", "R1f"), ("generate_R2f", "R2f")]


def generators(repo):
    dflt = add_transition_defaults(repo)
    defs, handlers = [], {}
    for fname, tag in GENERATORS:
        g = Gen(repo, fname, dflt)
        term = g.translate()
        handlers[tag] = g.handler
        defs.append("  (* %s *)\n  Definition g_%s {A} (lf : xcall -> list xop -> list A) (Sy : sys) : list A :=\n    %s.\n" % (fname, tag, term))
    return "\n".join(defs), handlers


HEAD = """(* GENERATED on every run by harness/translate_c12.py from the current source of
   quantarhei/builders/aggregate_spectroscopy.py, quantarhei/spectroscopy/diagramatics.py, labsetup.py, mocktwodcalculator.py.
   Every index, bound, side, constant, operand and condition below is the translation of an expression of the source. *)
From Coq Require Import ZArith List Bool String Lia Arith Btauto.
From QV Require Import Base.Alg Base.Util Model.C19 Model.C12 Model.C12x Proofs.C12 Proofs.C12obj Proofs.C12gen.
Import ListNotations.
Section GenC12.
  Context {R : StarRing}.
  Add Ring RrGenC12 : (rth R).
  Open Scope sr_scope.
  Notation sys := (@sys R).
  Notation xop := (@xop R).
  Notation vec3 := (@vec3 R).
  Notation pway := (@pway R).
"""

GEN_LEMMAS = """
  (* the generator nest with the closed-form leaf is the model's generator, for every maker *)
  Lemma g_%(t)s_is_model (mk : @maker R) (Sy : sys) : g_%(t)s (fun c ops => [xleaf mk c ops]) Sy = gen_%(t)s_with mk Sy.
  Proof. unfold g_%(t)s, gen_%(t)s_with, xleaf. cbn [erase flat_map erase1 app xevf c_pname c_ptype c_sinit]. gen_eq. Qed.
  (* run by the object machine (every raise of add_transition / add_transfer a None), for systems whose only ground state is state 0 *)
  Lemma g_%(t)s_runs (Sy : sys) : ground0 Sy -> g_%(t)s (xobj Sy) Sy = gen_%(t)s_with (mkpath Sy) Sy.
  Proof. intros H. rewrite <- g_%(t)s_is_model. unfold g_%(t)s. gen_runs H. Qed.
"""


def static(repo):
    what = []
    defs, handlers = generators(repo)
    text = HEAD + defs
    for _, tag in GENERATORS:
        text += GEN_LEMMAS % {"t": tag}
    what += ["aggregate_spectroscopy.py:%s (loop nest, tests, pathway program; handler: %s)" % (f, handlers[t]) for f, t in GENERATORS]
    what.append("aggregate_spectroscopy.py:_generate_R1g (inlined)")
    text += "End GenC12.\n"
    return text, what
