#!/bin/sh
# usage: seed_regress.sh [parallelism]   -- runs the quick tier of every seeded change's check against a scratch worktree with the
# patch applied (VERIF_NO_ESCALATE=1: the plain quick budget) and prints one line per seed: caught (with / without input) or MISSED.
par="${1:-4}"
out=/verif/.work/seed_regress; rm -rf "$out"; mkdir -p "$out"
ls /verif/seeded | while read sid; do echo "$sid"; done > "$out/list.txt"
cat "$out/list.txt" | xargs -P "$par" -I{} sh -c '
  sid="{}"; p=$(echo "$sid" | cut -c1-3); wt="/tmp/regr_$sid"; out=/verif/.work/seed_regress
  git -C /repo worktree remove --force "$wt" 2>/dev/null
  git -C /repo worktree add -q --detach "$wt" HEAD || { echo "$sid WORKTREE-FAILED" >> $out/summary.txt; exit 0; }
  if ! ( cd "$wt" && git apply "/verif/seeded/$sid/patch.diff" 2>/dev/null ); then echo "$sid PATCH-DOES-NOT-APPLY" >> $out/summary.txt; git -C /repo worktree remove --force "$wt"; exit 0; fi
  ( cd /verif && VERIF_NO_ESCALATE=1 VERIF_WORK="/verif/.work/regr_$sid" VERIF_REPO="$wt" ./check "$p" --tier quick > "$out/$sid.log" 2>&1 ); rc=$?
  nv=$(grep -c "^VIOLATION" "$out/$sid.log"); ni=$(grep "^VIOLATION" "$out/$sid.log" | grep -vc "no-failing-input-found")
  if [ "$rc" = 0 ]; then v="MISSED"; elif [ "$ni" -gt 0 ]; then v="caught ($ni with input, $nv total)"; else v="caught WITHOUT input ($nv)"; fi
  echo "$sid rc=$rc $v" >> $out/summary.txt
  git -C /repo worktree remove --force "$wt"; rm -rf "/verif/.work/regr_$sid"'
sort "$out/summary.txt"
