# -*- coding: utf-8 -*-
"""C03 - the aggregate Hamiltonian and dipole operator are the Frenkel-exciton ones.

Proof: coq/theories/Props/C03.v.  Tie (all comparisons are made inside Coq on exact literals):
(A) real Aggregate.build(mult) runs with integer site energies, couplings and dipoles in internal units:
    elsigs, which_band, Nb, get_Hamiltonian()._data, DD and get_TransitionDipoleMoment()._data compared
    with `=` to Model.C03 (elsigs, which_band, Nb, build_H, build_D over Z);
(B) the same aggregate with a permuted molecule list: the state map pi_idx of the relabelling theorem is
    compared with the one read off the implementation's signatures, and H'(pi a, pi b) = H(a, b),
    D' likewise, exactly;
(C) parameters supplied and the system built inside random energy-unit contexts: the stored matrix against
    the model over Q fed with the stored (internal) parameters, 1e-12 relative;
(D) the raw generator elsignatures(mult, mode, emax) for molecules with any numbers of levels;
(E) dipole_dipole_interaction / Aggregate.dipole_dipole_coupling / set_coupling_by_dipole_dipole on dyadic
    geometries against Model.C03.dipole_dipole over Q with sqrt as an oracle value (1e-12 relative).
(A') after every such build the life cycle a user may go through on the same object - diagonalize(), renewed
    getters, reading inside and after eigenbasis_of(H), a second build(), rebuild(), diagonalize() again - must
    leave the site-basis H and dipole operator handed out bit-equal to the first ones (and, at the end, equal to
    the model inside Coq); DD/D2/HD of the diagonalized aggregate must be S^T D S, its square, the eigenvalues;
Monitors on the implementation's outputs: completeness/uniqueness/band order of the states, the Frenkel
rule evaluated independently on signatures, selection rule of the dipole operator, symmetry, spectrum and
dipole-strength spectrum under relabelling (eigh: oracle), units independence, sqrt oracle, and the
numerical value of the physical prefactor against CODATA constants (validated, not proved).
"""
import os
import sys
import json
import itertools
from fractions import Fraction

sys.path.insert(0, os.path.dirname(os.path.abspath(__file__)))
import common as cm

PID = "C03"
work = cm.reexec_isolated(PID)
args = cm.parse_args(sys.argv[1:])

UNITS = ["int", "1/fs", "1/cm", "eV", "meV", "THz"]


# ------------------------------------------------------------------ building real aggregates
def make_aggregate(c, order=None):
    """c: dict with energies (list of level lists), J (matrix), dip (N x 3), jmode; order = molecule order"""
    import numpy
    import quantarhei as qr
    N = len(c["energies"])
    order = list(range(N)) if order is None else order
    uin = c.get("unit_in", "int")
    with qr.energy_units(uin):
        mols = []
        for i in order:
            m = qr.Molecule([float(x) for x in c["energies"][i]])
            m.set_dipole((0, 1), [float(x) for x in c["dip"][i]])
            mols.append(m)
        J = [[c["J"][order[a]][order[b]] for b in range(N)] for a in range(N)]
        if c.get("jmode", "pairs") == "matrix_first":
            # the other legitimate order of the public calls: the coupling matrix first, the molecules added afterwards
            agg = qr.Aggregate(name="couplings first")
            agg.set_resonance_coupling_matrix([[float(x) for x in row] for row in J])
            for m in mols:
                agg.add_Molecule(m)
            return agg
        agg = qr.Aggregate(mols)
        if c.get("jmode", "pairs") == "matrix":
            agg.set_resonance_coupling_matrix([[float(x) for x in row] for row in J])
        elif c.get("jmode") != "none":
            for a in range(N):
                for b in range(a + 1, N):
                    agg.set_resonance_coupling(a, b, float(J[a][b]))
    return agg


def observe(agg):
    import numpy
    H = agg.get_Hamiltonian()
    T = agg.get_TransitionDipoleMoment()
    return {"H": numpy.array(H._data), "HH": numpy.array(agg.HH), "DD": numpy.array(agg.DD), "T": numpy.array(T._data),
            "elsigs": [tuple(int(x) for x in s) for s in agg.elsigs], "which_band": [int(x) for x in agg.which_band],
            "Nb": [int(x) for x in agg.Nb], "Ntot": int(agg.Ntot), "Nel": int(agg.Nel)}


def build_case(c, order=None):
    import quantarhei as qr
    agg = make_aggregate(c, order)
    ub = c.get("unit_build", "int")
    with qr.energy_units(ub):
        agg.build(mult=c["mult"])
    return agg, observe(agg)


# ------------------------------------------------------------------ monitors (the property on the outputs)
def monitor_states(o, omax, mult):
    sigs = o["elsigs"]
    want = [s for s in itertools.product(*[range(m + 1) for m in omax]) if sum(s) <= mult]
    if len(sigs) != len(set(sigs)):
        return "an electronic state is generated twice"
    if set(sigs) != set(want):
        return "the set of states is not the set of signatures with at most %d excitations (got %d, expected %d)" % (mult, len(sigs), len(want))
    bands = [sum(s) for s in sigs]
    if bands != sorted(bands):
        return "states are not ordered by band"
    if o["which_band"][:len(sigs)] != bands:
        return "which_band is not the number of excitations"
    if o["Nb"] != [bands.count(k) for k in range(mult + 1)]:
        return "Nb %r is not the number of states per band %r" % (o["Nb"], [bands.count(k) for k in range(mult + 1)])
    if o["Ntot"] != len(sigs) or o["Nel"] != len(sigs):
        return "Ntot/Nel differ from the number of states"
    return None


def frenkel_reference(sigs, E, J, dip):
    """the property's matrices written down directly from signatures (two-level molecules)"""
    n = len(sigs)
    H = [[0] * n for _ in range(n)]
    D = [[[0, 0, 0] for _ in range(n)] for _ in range(n)]
    for a, s in enumerate(sigs):
        for b, t in enumerate(sigs):
            diff = [k for k in range(len(s)) if s[k] != t[k]]
            if a == b:
                H[a][b] = sum(E[k][s[k]] for k in range(len(s)))
            elif len(diff) == 2 and sum(s) == sum(t):
                src = [k for k in diff if s[k] == 1 and t[k] == 0]
                dst = [k for k in diff if s[k] == 0 and t[k] == 1]
                if len(src) == 1 and len(dst) == 1:
                    H[a][b] = J[src[0]][dst[0]]
            if len(diff) == 1:
                D[a][b] = list(dip[diff[0]])
    return H, D


def monitor_matrices(o, c, E, J, dip, exact=True, tol=0.0):
    import numpy
    sigs = o["elsigs"]
    Href, Dref = frenkel_reference(sigs, E, J, dip)
    Href = numpy.array(Href, dtype=float)
    Dref = numpy.array(Dref, dtype=float)
    H = o["H"]
    if H.shape != Href.shape:
        return "shape", "Hamiltonian has shape %r for %d states" % (H.shape, len(sigs))
    if not numpy.array_equal(o["HH"], H):
        return "HamOp", "Hamiltonian operator data differ from the built matrix HH"
    if not numpy.array_equal(o["DD"], o["T"]):
        return "TrDMOp", "transition dipole operator data differ from the built array DD"
    if numpy.iscomplexobj(H) or numpy.iscomplexobj(o["DD"]):
        return "real", "Hamiltonian or dipole array is complex"
    scale = max(1.0, float(numpy.max(numpy.abs(Href))))
    dev = numpy.abs(H - Href)
    if (exact and dev.max() != 0.0) or dev.max() > tol * scale:
        a, b = numpy.unravel_index(numpy.argmax(dev), dev.shape)
        kind = "diagonal" if a == b else ("interband" if sum(sigs[a]) != sum(sigs[b]) else "coupling")
        return kind, "H[%d,%d] between %r and %r is %r, the Frenkel value is %r" % (a, b, sigs[a], sigs[b], float(H[a, b]), float(Href[a, b]))
    if not numpy.array_equal(H, H.T):
        return "symmetry", "Hamiltonian is not symmetric"
    dscale = max(1.0, float(numpy.max(numpy.abs(Dref))))
    ddev = numpy.abs(o["DD"] - Dref)
    if ddev.max() > 0.0:
        a, b, x = numpy.unravel_index(numpy.argmax(ddev), ddev.shape)
        return "dipole", "D[%d,%d] between %r and %r is %r, expected %r" % (a, b, sigs[a], sigs[b], o["DD"][a, b].tolist(), Dref[a, b].tolist())
    return None


def stick_spectrum(H, DD, Nb):
    """eigenvalues and a broadened dipole-strength spectrum (invariant under rotations in degenerate subspaces)"""
    import numpy
    ee, SS = numpy.linalg.eigh(H)
    n1 = Nb[1] if len(Nb) > 1 else 0
    d0 = DD[0, :, :]                       # transitions from the ground state
    dex = SS.T.dot(d0)
    strength = numpy.sum(dex * dex, axis=1)
    grid = numpy.linspace(float(ee.min()) - 3.0, float(ee.max()) + 3.0, 41)
    spec = numpy.array([numpy.sum(strength / ((w - ee) ** 2 + 1.0)) for w in grid])
    return ee, spec


def reset_manager():
    import quantarhei as qr
    m = qr.Manager()
    m.basis_stack = [0]
    m.basis_transformations = [1]
    m.basis_registered = {}
    m._in_eigenbasis_of_context = False
    m.current_basis_operator = None


def invariants(H, T):
    """basis-independent joint invariants of a Hamiltonian and a dipole operator"""
    import numpy
    out = []
    for n in range(3):
        for m in range(n, 3):
            A, B = T[:, :, n], T[:, :, m]
            out += [numpy.trace(A.dot(B)), numpy.trace(H.dot(A).dot(B)), numpy.trace(H.dot(A).dot(H).dot(B))]
    return numpy.array(out, dtype=float)


def lifecycle(chk, c, agg, o):
    """what a user does with a built aggregate afterwards must not disturb the site-basis operators handed out:
    diagonalize(), renewed getters, reading inside / after eigenbasis_of, a second build and rebuild().
    Returns the observations after the whole sequence (for the exact tie) or None."""
    import numpy
    import quantarhei as qr
    reset_manager()
    H0, T0, DD0 = o["H"].copy(), o["T"].copy(), o["DD"].copy()
    n = H0.shape[0]
    hs = max(1.0, float(numpy.max(numpy.abs(H0))))
    ds = max(1.0, float(numpy.max(numpy.abs(T0))))
    what = "Aggregate.build(mult=%d), %d molecules, then " % (c["mult"], len(c["energies"]))

    def same_site(step, sig):
        H = numpy.array(agg.get_Hamiltonian()._data)
        T = numpy.array(agg.get_TransitionDipoleMoment()._data)
        if not numpy.array_equal(H, H0):
            chk.violation("lifecycle:%s:H" % sig, what + step + ": get_Hamiltonian() no longer returns the site-basis Frenkel matrix "
                          "(max deviation %.3g)" % float(numpy.max(numpy.abs(H - H0))), "monitor", c)
            return False
        if not numpy.array_equal(T, T0):
            chk.violation("lifecycle:%s:D" % sig, what + step + ": get_TransitionDipoleMoment() no longer returns the site-basis dipole operator "
                          "(max deviation %.3g); it is tagged as site basis" % float(numpy.max(numpy.abs(T - T0))), "monitor", c)
            return False
        return True
    ok = True
    # ---- diagonalize()
    agg.diagonalize()
    chk.count("lifecycle:diagonalize")
    ok &= same_site("diagonalize()", "diagonalize")
    SS = numpy.array(agg.SS)
    if numpy.max(numpy.abs(SS.T.dot(SS) - numpy.eye(n))) > 1e-10:
        chk.violation("lifecycle:eigh_oracle", "eigenvector matrix of diagonalize() is not orthogonal", "monitor", c)
    if numpy.max(numpy.abs(SS.T.dot(H0).dot(SS) - numpy.diag(agg.HD))) > 1e-9 * hs or \
            numpy.max(numpy.abs(numpy.array(agg.HH) - numpy.diag(agg.HD))) > 1e-9 * hs:
        chk.violation("lifecycle:diagonalize:HD", what + "diagonalize(): HD/HH are not the eigenvalues of the Frenkel matrix", "monitor", c)
    DDx = numpy.array(agg.DD)
    want = numpy.stack([SS.T.dot(DD0[:, :, x]).dot(SS) for x in range(3)], axis=2)
    if numpy.max(numpy.abs(DDx - want)) > 1e-9 * ds:
        chk.violation("lifecycle:diagonalize:DD", what + "diagonalize(): DD is not S^T D_site S of the site dipoles (max deviation %.3g)"
                      % float(numpy.max(numpy.abs(DDx - want))), "monitor", c)
    if numpy.max(numpy.abs(numpy.array(agg.D2) - numpy.sum(want * want, axis=2))) > 1e-9 * ds * ds:
        chk.violation("lifecycle:diagonalize:D2", what + "diagonalize(): D2 is not the squared exciton dipole", "monitor", c)
    # ---- reading inside and after eigenbasis_of
    inv0 = invariants(H0, T0)
    isc = max(1.0, float(numpy.max(numpy.abs(inv0))))
    Hop, Top = agg.get_Hamiltonian(), agg.get_TransitionDipoleMoment()
    try:
        with qr.eigenbasis_of(Hop):
            Hin = numpy.array(Hop.data)
            Tin = numpy.array(Top.data)
        off = Hin - numpy.diag(numpy.diag(Hin))
        if numpy.max(numpy.abs(off)) > 1e-9 * hs or numpy.max(numpy.abs(numpy.sort(numpy.diag(Hin)) - numpy.linalg.eigvalsh(H0))) > 1e-9 * hs:
            chk.violation("lifecycle:eigenbasis:H", what + "diagonalize(): inside eigenbasis_of(H) the Hamiltonian is not diag(eigenvalues)", "monitor", c)
        dev = float(numpy.max(numpy.abs(invariants(Hin, Tin) - inv0)))
        if dev > 1e-8 * isc:
            chk.violation("lifecycle:eigenbasis:D", what + "diagonalize(): inside eigenbasis_of(H) the dipole operator is not the transformed site "
                          "operator (basis-independent invariants tr(D_n D_m), tr(H D_n D_m), tr(H D_n H D_m) deviate by %.3g)" % dev, "monitor", c)
        Hout, Tout = numpy.array(Hop._data), numpy.array(Top._data)
        if numpy.max(numpy.abs(Hout - H0)) > 1e-9 * hs or numpy.max(numpy.abs(Tout - T0)) > 1e-9 * ds:
            chk.violation("lifecycle:eigenbasis:restore", what + "diagonalize() and a passage through eigenbasis_of(H): operators do not come back "
                          "to the site-basis Frenkel ones (%.3g, %.3g)" % (float(numpy.max(numpy.abs(Hout - H0))), float(numpy.max(numpy.abs(Tout - T0)))),
                          "monitor", c)
    finally:
        reset_manager()
    # ---- a second build of the same object, then rebuild()
    o2 = None
    for step, fn in (("diagonalize() and a second build()", lambda: agg.build(mult=c["mult"])),
                     ("diagonalize(), build() and rebuild()", lambda: agg.rebuild(mult=c["mult"]))):
        try:
            fn()
        except Exception as e:
            chk.count("lifecycle:%s refused" % step.split()[-1])
            continue
        chk.count("lifecycle:" + step.split()[-1])
        ok &= same_site(step, "rebuild")
        o2 = observe(agg)
        if not (numpy.array_equal(o2["DD"], DD0) and o2["elsigs"] == o["elsigs"] and o2["Nb"] == o["Nb"] and o2["which_band"] == o["which_band"]):
            chk.violation("lifecycle:rebuild:state", what + step + ": DD / elsigs / Nb differ from the first build", "monitor", c)
        agg.diagonalize()
        ok &= same_site(step + " and diagonalize()", "rebuild")
        o2 = observe(agg)
        o2["DD"] = o2["T"]          # the tie compares the operator handed out with the model
    return o2

# ------------------------------------------------------------------ generators
def gen_build(r, k, tier):
    Ns = [1, 2, 2, 3, 3, 3, 4, 4, 4, 5, 5, 6]
    N = r.choice(Ns)
    mult = r.choice([1, 2, 2, 2]) if k % 11 else 0
    if N == 6 and tier == "quick" and r.random() < 0.5:
        mult = 1
    g0 = r.random() < 0.25
    energies = [[(r.randint(-2, 2) if g0 else 0), r.randint(5, 40)] for _ in range(N)]
    J = [[0] * N for _ in range(N)]
    jmode = r.choice(["pairs", "pairs", "pairs", "matrix", "matrix", "none", "matrix_first"]) if N > 1 else r.choice(["pairs", "none"])
    for a in range(N):
        for b in range(a + 1, N):
            v = r.randint(-9, 9) if r.random() < 0.8 else 0
            J[a][b] = v
            J[b][a] = v if jmode != "matrix_asym" else r.randint(-9, 9)
    if jmode == "none":
        J = [[0] * N for _ in range(N)]
    dip = [[r.randint(-4, 4) for _ in range(3)] for _ in range(N)]
    return {"kind": "build", "energies": energies, "J": J, "dip": dip, "mult": mult,
            "jmode": "matrix" if jmode == "matrix_asym" else jmode, "asym": jmode == "matrix_asym"}


def gen_perm(r, k, tier):
    c = gen_build(r, k + 1, tier)
    while len(c["energies"]) < 2 or c["asym"] or c["mult"] == 0:
        c = gen_build(r, r.randrange(1, 10 ** 6), tier)
    N = len(c["energies"])
    sigma = list(range(N))
    while sigma == list(range(N)):
        r.shuffle(sigma)
    c["kind"] = "perm"
    c["sigma"] = sigma
    return c


def gen_units(r, k, tier):
    c = gen_build(r, k + 1, tier)
    while c["asym"] or len(c["energies"]) > 5:
        c = gen_build(r, r.randrange(1, 10 ** 6), tier)
    c["kind"] = "units"
    c["unit_in"] = r.choice(UNITS[1:])
    c["unit_build"] = r.choice(UNITS)
    if c["unit_in"] in ("eV",):
        c["energies"] = [[e[0], e[1]] for e in c["energies"]]
    return c


def gen_elsig(r, k, tier):
    N = r.choice([0, 1, 2, 3, 3, 4, 4, 5, 6])
    return {"kind": "elsig", "omax": [r.choice([0, 1, 1, 1, 2, 2, 3]) for _ in range(N)], "mult": r.choice([0, 1, 2, 2, 3, 4]),
            "mode": r.choice(["LQ", "LQ", "EQ"])}


def gen_dd(r, k, tier):
    def dy(lo, hi):
        return r.randint(lo * 4, hi * 4) / 4.0
    N = r.choice([2, 2, 3, 4])
    pos = []
    while len(pos) < N:
        p = [dy(-8, 8) for _ in range(3)]
        if all(sum((p[i] - q[i]) ** 2 for i in range(3)) >= 1.0 for q in pos):
            pos.append(p)
    return {"kind": "dd", "pos": pos, "dip": [[dy(-6, 6) for _ in range(3)] for _ in range(N)],
            "epsr": r.choice([1.0, 1.0, 2.0, 1.5, 3.25]), "unit": r.choice(["int", "int", "1/cm", "eV"])}


def gen_ddm(r, k, tier):
    """whole coupling matrix set from the geometry: permittivity, refusal distance, earlier couplings and a diagonal"""
    def dy(lo, hi):
        return r.randint(lo * 4, hi * 4) / 4.0
    N = r.choice([2, 3, 3, 4, 5])
    # ":default": called with NO params at all - the permittivity is then 1, whatever earlier calls (on other aggregates) were given
    via = r.choice(["set_coupling_by_dipole_dipole", "set_coupling_by_dipole_dipole", "calculate_resonance_coupling",
                    "calculate_resonance_coupling:default"])
    # calculate_resonance_coupling hands over the permittivity only: the refusal distance is the default one
    delta = r.choice([1.0e-5, 2.0, 4.0]) if via == "set_coupling_by_dipole_dipole" else 1.0e-5
    span = 6 if delta < 1.0 else 3          # some pairs closer than a large refusal distance
    pos = []
    while len(pos) < N:
        p = [dy(-span, span) for _ in range(3)]
        if all(sum((p[i] - q[i]) ** 2 for i in range(3)) >= 0.25 for q in pos):
            pos.append(p)
    J0 = [[0.0] * N for _ in range(N)]
    if r.random() < 0.6:
        for a in range(N):
            J0[a][a] = float(r.randint(-3, 3))
            for b in range(a + 1, N):
                J0[a][b] = J0[b][a] = float(r.randint(-5, 5))
    epsr = r.choice([1.0, 2.0, 1.5, 3.25, 0.5])
    return {"kind": "ddm", "pos": pos, "dip": [[dy(-6, 6) for _ in range(3)] for _ in range(N)],
            "epsr": 1.0 if via.endswith(":default") else epsr, "delta": delta, "J0": J0, "via": via}


# ------------------------------------------------------------------ Coq items
def nl(xs):
    return cm.clist(["%d%%nat" % int(x) for x in xs])


def zl(xs):
    return cm.clist([cm.zlit(int(x)) for x in xs])


def zmatl(a):
    return cm.clist([zl(row) for row in a])


def isint(a):
    import numpy
    a = numpy.asarray(a, dtype=float)
    return bool(numpy.all(a == numpy.round(a)))


BUILD_DEF = """
Definition build_agrees (c : nat * nat * list (list Z) * list (list Z) * list (list Z) * bool *
                             (list (list Z) * list (list (list Z)) * list (list nat) * list nat * list nat)) : bool :=
  let '(N, mult, E, J, dip, twolevel, (oH, oD, osigs, owb, onb)) := c in
  let omax := map (fun l => (length l - 1)%nat) E in
  let sg := elsigs omax mult in
  let Ef := fun k n => nth n (nth k E []) 0%Z in
  let idx := seq 0 (length sg) in
  all2 (all2 Nat.eqb) sg osigs && all2 Nat.eqb (which_band omax mult) owb && all2 Nat.eqb (Nb omax mult) onb &&
  Nat.eqb (length oH) (length sg) && Nat.eqb (length oD) (length sg) && Nat.eqb (length E) N &&
  (negb twolevel ||
   forallb (fun a => forallb (fun b =>
     Z.eqb (build_H (R:=ZR) N Ef (zmat J) zsqrt sg a b) (nth b (nth a oH []) 0%Z) &&
     forallb (fun x => Z.eqb (build_D (R:=ZR) (zmat dip) sg x a b) (nth x (nth b (nth a oD []) []) 0%Z)) (seq 0 3))
     idx) idx).
"""

PERM_DEF = """
Definition perm_agrees (c : nat * nat * list nat * list nat * list (list Z) * list (list Z) *
                            list (list (list Z)) * list (list (list Z))) : bool :=
  let '(N, mult, sigma, opi, H, H', D, D') := c in
  let sg := elsigs (two_level N) mult in
  let idx := seq 0 (length sg) in
  let pi := pi_idx N mult sigma in
  all2 Nat.eqb (map pi idx) opi &&
  forallb (fun a => forallb (fun b =>
     Z.eqb (nth (pi b) (nth (pi a) H' []) 0%Z) (nth b (nth a H []) 0%Z) &&
     all2 Z.eqb (nth (pi b) (nth (pi a) D' []) []) (nth b (nth a D []) [])) idx) idx.
"""

UNITS_DEF = """
Definition qsq (n : nat) : QR := match n with 1%nat => Q2Qc 1 | _ => Q2Qc 0 end.
Definition units_agrees (c : nat * nat * list (list Q) * list (list Q) * list (list Q) * Q) : bool :=
  let '(N, mult, E, J, oH, tol) := c in
  let sg := elsigs (two_level N) mult in
  let Ef : nat -> nat -> QR := fun k n => Q2Qc (nth n (nth k E []) 0%Q) in
  let Jf : nat -> nat -> QR := fun k l => Q2Qc (nth l (nth k J []) 0%Q) in
  let idx := seq 0 (length sg) in
  Nat.eqb (length oH) (length sg) &&
  forallb (fun a => forallb (fun b =>
     qr_close tol (build_H (R:=QR) N Ef Jf qsq sg a b) (Q2Qc (nth b (nth a oH []) 0%Q))) idx) idx.
"""

ELSIG_DEF = """
Definition elsig_agrees (c : list nat * nat * bool * list (list nat)) : bool :=
  let '(omax, mult, lq, out) := c in
  all2 (all2 Nat.eqb) (if lq then elsigs omax mult else elsigs_eq omax mult) out.
"""

DD_DEF = """
Definition qv (l : list Q) : nat -> Qc := fun i => Q2Qc (nth i l 0%Q).
Definition dd_agrees (c : list Q * list Q * list Q * list Q * Q * Q * Q * Q * Q * Q) : bool :=
  let '(r1, r2, d1, d2, RR, pi, eps0, epsr, out, tol) := c in
  let m := dipole_dipole Qc (Q2Qc 1) Qcplus Qcmult Qcminus Qcdiv (qv r1) (qv r2) (qv d1) (qv d2)
                         (Q2Qc RR) (Q2Qc pi) (Q2Qc eps0) (Q2Qc epsr) in
  Qle_bool (Qabs (this m - out)) (tol * Qabs out).
"""

DDM_DEF = """
Definition qm (l : list (list Q)) : nat -> nat -> Qc := fun i j => Q2Qc (nth j (nth i l []) 0%Q).
Definition bm (l : list (list bool)) : nat -> nat -> bool := fun i j => nth j (nth i l []) false.
Definition ddm_agrees (c : nat * list (list Q) * list (list Q) * list (list Q) * list (list bool) * Q * Q * Q *
                           list (list Q) * list (list Q) * Q) : bool :=
  let '(N, pos, dip, RR, cl, pi, eps0, epsr, J0, out, tol) := c in
  let M := dd_matrix Qc (Q2Qc 0) (Q2Qc 1) Qcplus Qcmult Qcminus Qcdiv (qm pos) (qm dip) (qm RR) (bm cl)
                     (Q2Qc pi) (Q2Qc eps0) (qm J0) (Q2Qc epsr) in
  let idx := seq 0 N in
  forallb (fun a => forallb (fun b => Qle_bool (Qabs (this (M a b) - nth b (nth a out []) 0%Q)) tol) idx) idx.
"""

IMPORTS = ("From Coq Require Import Qcanon.\nFrom QV Require Import Base.Alg Base.Sums Base.Mat Base.Util Model.C03 Model.C03dd "
           "Proofs.C03 Proofs.C03_relabel.\nOpen Scope Z_scope.\n")


def ql(xs):
    return cm.clist([cm.qlit(x) for x in xs])


def qmatl(a):
    return cm.clist([ql(row) for row in a])


# ------------------------------------------------------------------ running cases
def run(chk, cases):
    import numpy
    import quantarhei as qr
    from quantarhei.builders.interactions import dipole_dipole_interaction
    from quantarhei.core.units import eps0_int
    import scipy.constants as const
    groups = {"build": [], "perm": [], "units": [], "elsig": [], "dd": [], "ddm": []}
    for c in cases:
        kind = c["kind"]
        canon = json.dumps(c, sort_keys=True)
        try:
            if kind in ("build", "perm", "units"):
                N = len(c["energies"])
                omax = [len(e) - 1 for e in c["energies"]]
                twolevel = all(m == 1 for m in omax)
            if kind == "build":
                agg, o = build_case(c)
                chk.count("build:N=%d,mult=%d" % (N, c["mult"]))
                chk.count("build:jmode=%s%s" % (c["jmode"], "(asymmetric)" if c.get("asym") else ""))
                msg = monitor_states(o, omax, c["mult"])
                if msg:
                    chk.violation("build:states", "Aggregate.build(mult=%d), %d molecules: %s" % (c["mult"], N, msg), "monitor", c)
                if twolevel and not c.get("asym"):
                    m2 = monitor_matrices(o, c, c["energies"], c["J"], c["dip"])
                    if m2:
                        chk.violation("build:" + m2[0], "Aggregate.build(mult=%d), %d molecules: %s" % (c["mult"], N, m2[1]), "monitor", c)
                if twolevel and not (isint(o["H"]) and isint(o["DD"])):
                    chk.violation("build:nonintegral", "integer parameters in internal units give non-integer matrix elements", "monitor", c)
                else:
                    item = "(%d%%nat, %d%%nat, %s, %s, %s, %s, (%s, %s, %s, %s, %s))" % (
                        N, c["mult"], zmatl(c["energies"]), zmatl(c["J"]), zmatl(c["dip"]), "true" if twolevel else "false",
                        zmatl(o["H"] if twolevel else 0 * o["H"]), cm.clist([zmatl(row) for row in (o["DD"] if twolevel else 0 * o["DD"])]),
                        cm.clist([nl(s) for s in o["elsigs"]]),
                        nl(o["which_band"]), nl(o["Nb"]))
                    groups["build"].append((item, c))
                if twolevel and not c.get("asym") and c["mult"] >= 1:      # the property quantifies over mult 1 and 2
                    o3 = lifecycle(chk, c, agg, o)
                    if o3 is not None and isint(o3["H"]) and isint(o3["DD"]):
                        item3 = "(%d%%nat, %d%%nat, %s, %s, %s, true, (%s, %s, %s, %s, %s))" % (
                            N, c["mult"], zmatl(c["energies"]), zmatl(c["J"]), zmatl(c["dip"]),
                            zmatl(o3["H"]), cm.clist([zmatl(row) for row in o3["DD"]]), cm.clist([nl(s) for s in o3["elsigs"]]),
                            nl(o3["which_band"]), nl(o3["Nb"]))
                        groups["build"].append((item3, dict(c, after="diagonalize/build/rebuild/diagonalize")))
                chk.case(canon, N >= 2 and c["mult"] >= 1 and any(any(row) for row in c["J"]),
                         sample={"case": c, "elsigs": o["elsigs"][:8], "Nb": o["Nb"], "H_row1": o["H"][min(1, len(o["H"]) - 1)].tolist()})
            elif kind == "perm":
                sigma = c["sigma"]
                agg, o = build_case(c)
                agg2, o2 = build_case(c, order=sigma)
                chk.count("perm:N=%d,mult=%d" % (N, c["mult"]))
                pos2 = {s: i for i, s in enumerate(o2["elsigs"])}
                try:
                    pi = [pos2[tuple(s[sigma[i]] for i in range(N))] for s in o["elsigs"]]
                except KeyError:
                    pi = None
                if pi is None or sorted(pi) != list(range(len(pi))):
                    chk.violation("perm:states", "relabelling the molecules by %r does not permute the states" % (sigma,), "monitor", c)
                else:
                    P = numpy.array(pi)
                    if not (numpy.array_equal(o2["H"][numpy.ix_(P, P)], o["H"]) and numpy.array_equal(o2["DD"][numpy.ix_(P, P)], o["DD"])):
                        chk.violation("perm:matrices", "relabelling the molecules by %r changes the Hamiltonian or dipole matrices by more than "
                                      "the induced permutation of the states" % (sigma,), "monitor", c)
                    e1, s1 = stick_spectrum(o["H"], o["DD"], o["Nb"])
                    e2, s2 = stick_spectrum(o2["H"], o2["DD"], o2["Nb"])
                    sc = max(1.0, float(numpy.max(numpy.abs(e1))))
                    if numpy.max(numpy.abs(e1 - e2)) > 1e-9 * sc:
                        chk.violation("perm:spectrum", "eigenvalues change under relabelling %r by %.3g" % (sigma, numpy.max(numpy.abs(e1 - e2))), "monitor", c)
                    if numpy.max(numpy.abs(s1 - s2)) > 1e-8 * max(1.0, float(numpy.max(numpy.abs(s1)))):
                        chk.violation("perm:dipole_strengths", "dipole-strength spectrum changes under relabelling %r by %.3g" % (sigma, numpy.max(numpy.abs(s1 - s2))), "monitor", c)
                    if isint(o["H"]) and isint(o2["H"]) and isint(o["DD"]) and isint(o2["DD"]):
                        item = "(%d%%nat, %d%%nat, %s, %s, %s, %s, %s, %s)" % (
                            N, c["mult"], nl(sigma), nl(pi), zmatl(o["H"]), zmatl(o2["H"]),
                            cm.clist([zmatl(row) for row in o["DD"]]), cm.clist([zmatl(row) for row in o2["DD"]]))
                        groups["perm"].append((item, c))
                chk.case(canon, True)
            elif kind == "units":
                agg, o = build_case(c)
                chk.count("units:in=%s,build=%s" % (c["unit_in"], c["unit_build"]))
                Eint = [[float(x) for x in m.elenergies] for m in agg.monomers]
                Jint = [[float(x) for x in row] for row in agg.resonance_coupling]
                fac = qr.Manager().conversion_facs_energy[c["unit_in"]] if hasattr(qr.Manager(), "conversion_facs_energy") else None
                from quantarhei.core.units import conversion_facs_energy
                fac = conversion_facs_energy[c["unit_in"]]
                scale = max(1e-300, max(abs(x) for row in Eint for x in row))
                # stored parameters are the supplied numbers times the factor of the input unit
                worst = max(abs(Eint[k][n] - c["energies"][k][n] * fac) for k in range(N) for n in range(2))
                worstJ = max([abs(Jint[a][b] - c["J"][a][b] * fac) for a in range(N) for b in range(N)] + [0.0])
                if max(worst, worstJ) > 1e-13 * scale:
                    chk.violation("units:stored", "parameters supplied in %s are not stored as value*factor (deviation %.3g)" % (c["unit_in"], max(worst, worstJ)), "monitor", c)
                # the matrix does not depend on the units active at build time / at input time
                cref = dict(c)
                cref["unit_in"], cref["unit_build"] = "int", "int"
                cref["energies"] = Eint
                cref["J"] = Jint
                aggr, oref = build_case(cref)
                if not (numpy.array_equal(oref["H"], o["H"]) and numpy.array_equal(oref["DD"], o["DD"]) and oref["elsigs"] == o["elsigs"]):
                    chk.violation("units:build_context", "building inside energy_units(%r) gives a different Hamiltonian than building in internal units "
                                  "(max deviation %.3g)" % (c["unit_build"], float(numpy.max(numpy.abs(oref["H"] - o["H"])))), "monitor", c)
                Href, _ = frenkel_reference(o["elsigs"], c["energies"], c["J"], c["dip"])
                Href = numpy.array(Href, dtype=float) * fac
                hs = max(1e-300, float(numpy.max(numpy.abs(Href))))
                if numpy.max(numpy.abs(Href - o["H"])) > 1e-12 * hs:
                    chk.violation("units:frenkel", "Hamiltonian of parameters given in %s differs from the converted Frenkel matrix by %.3g (relative)"
                                  % (c["unit_in"], float(numpy.max(numpy.abs(Href - o["H"])) / hs)), "monitor", c)
                with qr.energy_units(c["unit_in"]):
                    Hback = numpy.array(agg.get_Hamiltonian().data)
                if numpy.max(numpy.abs(Hback * fac - o["H"])) > 1e-12 * hs:
                    chk.violation("units:readback", "Hamiltonian read in %s is not the stored one divided by the factor" % c["unit_in"], "monitor", c)
                m0 = monitor_states(o, omax, c["mult"])
                if m0:
                    chk.violation("units:states", m0, "monitor", c)
                item = "(%d%%nat, %d%%nat, %s, %s, %s, %s)" % (N, c["mult"], qmatl(Eint), qmatl(Jint), qmatl(o["H"]),
                                                               cm.qlit(Fraction(1, 10 ** 12) * Fraction(*float(hs).as_integer_ratio())))
                groups["units"].append((item, c))
                chk.case(canon, N >= 2 and c["mult"] >= 1)
            elif kind == "elsig":
                N = len(c["omax"])
                agg = qr.Aggregate([qr.Molecule([0.0] + [1.0 + j for j in range(max(1, m))]) for m in c["omax"]])
                out = [tuple(int(x) for x in s) for s in agg.elsignatures(mult=c["mult"], mode=c["mode"], emax=list(c["omax"]))]
                chk.count("elsig:N=%d,mode=%s" % (N, c["mode"]))
                want = [s for s in itertools.product(*[range(m + 1) for m in c["omax"]])
                        if (sum(s) <= c["mult"] if c["mode"] == "LQ" else sum(s) == c["mult"])]
                if len(out) != len(set(out)) or set(out) != set(want) or [sum(s) for s in out] != sorted(sum(s) for s in out):
                    chk.violation("elsig:states", "elsignatures(mult=%d, mode=%s, emax=%r) is not the duplicate-free band-ordered list of all "
                                  "admissible signatures (%d generated, %d expected)" % (c["mult"], c["mode"], c["omax"], len(out), len(want)), "monitor", c)
                groups["elsig"].append(("(%s, %d%%nat, %s, %s)" % (nl(c["omax"]), c["mult"], "true" if c["mode"] == "LQ" else "false",
                                                                cm.clist([nl(s) for s in out])), c))
                chk.case(canon, N >= 2 and c["mult"] >= 2 and max(c["omax"] + [0]) >= 1)
            elif kind == "dd":
                N = len(c["pos"])
                mols = []
                for k in range(N):
                    m = qr.Molecule([0.0, 1.0])
                    m.set_dipole((0, 1), c["dip"][k])
                    m.position = numpy.array(c["pos"][k])
                    mols.append(m)
                agg = qr.Aggregate(mols)
                chk.count("dd:N=%d,unit=%s" % (N, c["unit"]))
                from quantarhei.core.units import conversion_facs_energy
                fac = conversion_facs_energy[c["unit"]]
                with qr.energy_units(c["unit"]):
                    agg.set_coupling_by_dipole_dipole(epsr=c["epsr"])
                Jm = numpy.array(agg.resonance_coupling)
                if not numpy.array_equal(Jm, Jm.T) or numpy.any(numpy.diag(Jm) != 0.0):
                    chk.violation("dd:matrix", "dipole-dipole coupling matrix is not symmetric with zero diagonal", "monitor", c)
                for a in range(N):
                    for b in range(a + 1, N):
                        r1, r2 = numpy.array(c["pos"][a]), numpy.array(c["pos"][b])
                        d1, d2 = numpy.array(c["dip"][a]), numpy.array(c["dip"][b])
                        val = float(dipole_dipole_interaction(r1, r2, d1, d2, c["epsr"]))
                        with qr.energy_units(c["unit"]):
                            val_u = float(agg.dipole_dipole_coupling(a, b, epsr=c["epsr"]))
                        Rv = r1 - r2
                        RR = float(numpy.sqrt(numpy.dot(Rv, Rv)))
                        R2 = Fraction(*float(numpy.dot(Rv, Rv)).as_integer_ratio())
                        # oracle: sqrt is correctly rounded
                        if abs(Fraction(*RR.as_integer_ratio()) ** 2 - R2) > R2 * Fraction(1, 2 ** 50):
                            chk.violation("dd:sqrt_oracle", "numpy.sqrt(%r)**2 deviates from its argument" % float(R2), "monitor", c)
                        # independent evaluation of the point-dipole formula in exact rationals (sqrt value as oracle)
                        fr = lambda v: [Fraction(*float(x).as_integer_ratio()) for x in v]
                        n = [x / Fraction(*RR.as_integer_ratio()) for x in fr(Rv)]
                        dot = lambda u, v: sum(x * y for x, y in zip(u, v))
                        ref = (dot(fr(d1), fr(d2)) - 3 * dot(fr(d1), n) * dot(fr(d2), n)) / (
                            4 * Fraction(*const.pi.as_integer_ratio()) * Fraction(*float(eps0_int).as_integer_ratio())
                            * Fraction(*float(c["epsr"]).as_integer_ratio()) * Fraction(*RR.as_integer_ratio()) ** 3)
                        tol = 1e-12 * max(abs(float(ref)), 1e-300)
                        if abs(float(ref) - val) > tol:
                            chk.violation("dd:formula", "dipole_dipole_interaction differs from (d1.d2-3(d1.n)(d2.n))/(4 pi eps0 epsr R^3): %r vs %r"
                                          % (val, float(ref)), "monitor", c)
                        if abs(val_u * fac - val) > 1e-13 * max(abs(val), 1e-300) or abs(Jm[a, b] - val) > 1e-13 * max(abs(val), 1e-300):
                            chk.violation("dd:units", "dipole_dipole_coupling in %s / the stored coupling differ from the internal value: %r, %r, %r"
                                          % (c["unit"], val_u * fac, float(Jm[a, b]), val), "monitor", c)
                        if val != float(dipole_dipole_interaction(r2, r1, d2, d1, c["epsr"])):
                            chk.violation("dd:symmetry", "dipole-dipole interaction is not symmetric in the two molecules", "monitor", c)
                        item = "(%s, %s, %s, %s, %s, %s, %s, %s, %s, %s)" % (
                            ql(r1), ql(r2), ql(d1), ql(d2), cm.qlit(RR), cm.qlit(const.pi), cm.qlit(float(eps0_int)), cm.qlit(c["epsr"]),
                            cm.qlit(val), cm.qlit(Fraction(1, 10 ** 12)))
                        groups["dd"].append((item, c))
                chk.case(canon, True, sample=None)
            elif kind == "ddm":
                N = len(c["pos"])
                mols = []
                for k in range(N):
                    m = qr.Molecule([0.0, 1.0])
                    m.set_dipole((0, 1), c["dip"][k])
                    m.position = numpy.array(c["pos"][k])
                    mols.append(m)
                agg = qr.Aggregate(mols)
                agg.set_resonance_coupling_matrix([[float(x) for x in row] for row in c["J0"]])
                chk.count("ddm:N=%d,delta=%g,via=%s" % (N, c["delta"], c["via"]))
                if c["via"] == "set_coupling_by_dipole_dipole":
                    agg.set_coupling_by_dipole_dipole(epsr=c["epsr"], delta=c["delta"])
                elif c["via"].endswith(":default"):
                    # the two-call sequence: ANOTHER aggregate is given a permittivity first, then this one asks for the default
                    other = []
                    for k in range(2):
                        m = qr.Molecule([0.0, 1.0])
                        m.set_dipole((0, 1), [1.0, 0.5 * k, 0.0])
                        m.position = numpy.array([0.0, 0.0, 7.5 * k])
                        other.append(m)
                    qr.Aggregate(other).calculate_resonance_coupling(method="dipole-dipole", params=dict(epsr=2.25))
                    agg.calculate_resonance_coupling(method="dipole-dipole")
                else:
                    agg.calculate_resonance_coupling(method="dipole-dipole", params=dict(epsr=c["epsr"]))
                Jm = numpy.array(agg.resonance_coupling, dtype=float)
                RRm = [[0.0] * N for _ in range(N)]
                cl = [[False] * N for _ in range(N)]
                refused = 0
                for a in range(N):
                    for b in range(N):
                        Rv = numpy.array(c["pos"][a]) - numpy.array(c["pos"][b])
                        RRm[a][b] = float(numpy.sqrt(numpy.dot(Rv, Rv)))
                        cl[a][b] = bool(RRm[a][b] < c["delta"])
                        refused += int(cl[a][b] and a < b)
                chk.count("ddm:refused_pairs=%d" % min(refused, 3))
                # the property on the outputs: symmetric, diagonal kept, point-dipole value with the requested permittivity
                fr = lambda v: [Fraction(*float(x).as_integer_ratio()) for x in v]
                dot = lambda u, v: sum(x * y for x, y in zip(u, v))
                scale = max(1e-300, float(numpy.max(numpy.abs(Jm))))
                for a in range(N):
                    if Jm[a, a] != c["J0"][a][a]:
                        chk.violation("ddm:diagonal", "%s changes the diagonal of the coupling matrix" % c["via"], "monitor", c)
                    for b in range(a + 1, N):
                        if Jm[a, b] != Jm[b, a]:
                            chk.violation("ddm:symmetry", "%s stores an asymmetric coupling matrix" % c["via"], "monitor", c)
                        if cl[a][b]:
                            ref = Fraction(0)
                        else:
                            RRq = Fraction(*RRm[a][b].as_integer_ratio())
                            n = [x / RRq for x in fr(numpy.array(c["pos"][a]) - numpy.array(c["pos"][b]))]
                            ref = (dot(fr(c["dip"][a]), fr(c["dip"][b])) - 3 * dot(fr(c["dip"][a]), n) * dot(fr(c["dip"][b]), n)) / (
                                4 * Fraction(*const.pi.as_integer_ratio()) * Fraction(*float(eps0_int).as_integer_ratio())
                                * Fraction(*float(c["epsr"]).as_integer_ratio()) * RRq ** 3)
                        if abs(float(ref) - Jm[a, b]) > 1e-12 * max(scale, abs(float(ref))):
                            chk.violation("ddm:formula", "%s(epsr=%r, delta=%r): coupling of molecules %d and %d is %r, the point-dipole value with "
                                          "that permittivity is %r" % (c["via"], c["epsr"], c["delta"], a, b, float(Jm[a, b]), float(ref)), "monitor", c)
                item = "(%d%%nat, %s, %s, %s, %s, %s, %s, %s, %s, %s, %s)" % (
                    N, qmatl(c["pos"]), qmatl(c["dip"]), qmatl(RRm), cm.clist([cm.clist(["true" if x else "false" for x in row]) for row in cl]),
                    cm.qlit(const.pi), cm.qlit(float(eps0_int)), cm.qlit(c["epsr"]), qmatl(c["J0"]), qmatl(Jm),
                    cm.qlit(Fraction(1, 10 ** 12) * Fraction(*scale.as_integer_ratio())))
                groups["ddm"].append((item, c))
                chk.case(canon, c["epsr"] != 1.0 or refused > 0)
        except Exception as e:
            import traceback
            chk.violation("%s:exception" % kind, "case %s raised %r (%s)" % (canon[:300], e, traceback.format_exc().splitlines()[-3:]), "monitor", c)
            chk.case(canon, False)
    # ---- correspondence inside Coq
    defs = {"build": (BUILD_DEF, "build_agrees", 6), "perm": (PERM_DEF, "perm_agrees", 8), "units": (UNITS_DEF, "units_agrees", 8),
            "elsig": (ELSIG_DEF, "elsig_agrees", 40), "dd": (DD_DEF, "dd_agrees", 40), "ddm": (DDM_DEF, "ddm_agrees", 12)}
    shards, index = [], []
    for kind, items in groups.items():
        d, fn, per = defs[kind]
        if kind == "build":
            # balance: big cases first
            pass
        for k in range(0, len(items), per):
            chunk = items[k:k + per]
            shards.append(cm.HEADER + IMPORTS + d + "Definition cs := %s.\nEval vm_compute in (bad %s cs).\n"
                          % (cm.clist([it for it, _ in chunk]), fn))
            index.append((kind, chunk))
    for (kind, chunk), (rc, out) in zip(index, cm.coq_eval(PID, shards)):
        if rc != 0:
            chk.violation("correspondence:coq_error", "coqc failed on %s cases: %s" % (kind, out[-800:]), "correspondence", {}, found_input=False)
            continue
        badl = cm.parse_natlist(cm.parse_evals(out)[0])
        chk.corr["cases"] += len(chunk)
        chk.corr["disagreements"] += len(badl)
        for i in badl[:3]:
            chk.violation("correspondence:" + kind, "implementation differs from Model.C03 on %s" % json.dumps(chunk[i][1])[:600],
                          "correspondence", chunk[i][1], found_input=False)


def prefactor_validation(chk):
    """numerical check of the physical prefactor against CODATA constants (validated, not proved)"""
    import scipy.constants as const
    from quantarhei.core.units import eps0_int, J2int, conversion_facs_edipole
    prf_code = 1.0 / (4.0 * const.pi * eps0_int)
    debye = 1.0e-21 / const.c          # C m
    prf_si = J2int * debye ** 2 / (4.0 * const.pi * const.epsilon_0 * (1.0e-10) ** 3)
    rel = abs(prf_code - prf_si) / prf_si
    exact = abs(prf_code - J2int * 1.0e-19) / (J2int * 1.0e-19)
    chk.extra["prefactor"] = {"code_1_over_4pi_eps0_int": prf_code, "SI_debye_angstrom_in_internal_units": prf_si,
                              "relative_difference": rel, "relative_difference_to_J2int_times_1e-19": exact,
                              "Cm_factor_in_units_py": conversion_facs_edipole["Cm"], "1e-21_over_c": debye}
    chk.case(("prefactor",), True)
    if rel > 1e-8 or exact > 1e-14 or abs(conversion_facs_edipole["Cm"] - debye) > 1e-15 * debye:
        chk.violation("dd:prefactor", "1/(4 pi eps0_int) = %r differs from the SI prefactor for Debye and Angstrom %r (relative %.3g)"
                      % (prf_code, prf_si, rel), "monitor", {"kind": "prefactor"})


CORPUS = [
    {"kind": "build", "energies": [[0, 10], [0, 11], [0, 12], [0, 13]], "J": [[0, 2, 3, 4], [2, 0, 7, 8], [3, 7, 0, 12], [4, 8, 12, 0]],
     "dip": [[1, 2, 0], [2, 2, -1], [3, 2, -2], [4, 2, -3]], "mult": 2, "jmode": "pairs", "asym": False},
    {"kind": "build", "energies": [[0, 7]], "J": [[0]], "dip": [[1, 0, 0]], "mult": 2, "jmode": "none", "asym": False},
    {"kind": "build", "energies": [[1, 9], [-1, 9]], "J": [[0, -3], [-3, 0]], "dip": [[1, 1, 1], [0, 0, 2]], "mult": 2, "jmode": "matrix", "asym": False},
    {"kind": "build", "energies": [[0, 9, 17], [0, 8]], "J": [[0, 4], [4, 0]], "dip": [[1, 0, 0], [0, 1, 0]], "mult": 2, "jmode": "pairs", "asym": False},
    {"kind": "build", "energies": [[0, 5], [0, 6], [0, 7], [0, 8], [0, 9], [0, 10]],
     "J": [[0 if a == b else ((a * 7 + b * 3) % 11 - 5 if a < b else (b * 7 + a * 3) % 11 - 5) for b in range(6)] for a in range(6)],
     "dip": [[a, 1, -a] for a in range(6)], "mult": 2, "jmode": "pairs", "asym": False},
    {"kind": "perm", "energies": [[0, 10], [0, 11], [0, 12]], "J": [[0, 2, 3], [2, 0, 5], [3, 5, 0]], "dip": [[1, 0, 0], [0, 2, 0], [0, 0, 3]],
     "mult": 2, "jmode": "pairs", "asym": False, "sigma": [1, 2, 0]},
    {"kind": "units", "energies": [[0, 12000], [0, 12100]], "J": [[0, 150], [150, 0]], "dip": [[1, 0, 0], [0, 1, 0]], "mult": 2,
     "jmode": "pairs", "asym": False, "unit_in": "1/cm", "unit_build": "eV"},
    {"kind": "dd", "pos": [[0.0, 0.0, 0.0], [5.0, 0.0, 0.0]], "dip": [[1.0, 0.0, 0.0], [1.0, 0.0, 0.0]], "epsr": 1.0, "unit": "1/cm"},
    {"kind": "elsig", "omax": [2, 1, 2], "mult": 2, "mode": "LQ"},
    {"kind": "ddm", "pos": [[0.0, 0.0, 0.0], [5.0, 0.0, 0.0], [5.0, 1.0, 0.0]], "dip": [[1.0, 0.0, 0.0], [1.0, 2.0, 0.0], [0.0, 1.0, 1.0]],
     "epsr": 2.0, "delta": 2.0, "J0": [[1.0, 3.0, 4.0], [3.0, -2.0, 5.0], [4.0, 5.0, 7.0]], "via": "set_coupling_by_dipole_dipole"},
]


def main():
    chk = cm.Check(PID, args.tier)
    chk.rule = ("real Aggregate.build runs: 1-6 two-level molecules (a few with three levels for the state enumeration), mult 0/1/2, integer "
                "energies/couplings/dipoles in internal units (exact); permuted molecule lists; builds inside energy-unit contexts; raw "
                "elsignatures for 0-6 molecules with 1-4 levels, mult 0-4; dipole-dipole couplings on dyadic geometries; non-trivial: "
                ">= 2 molecules, mult >= 1 and a non-zero coupling")
    chk.assumptions = ["two-level molecules for the matrix theorems (the enumeration theorem covers any numbers of levels); couplings "
                       "symmetric (set_resonance_coupling always stores both elements)",
                       "numpy.sqrt is an oracle: only sqrt(1.0) = 1.0 is used by the matrix theorems; in the dipole-dipole formula the "
                       "returned value enters the model as data and RR^2 = R.R is monitored",
                       "spectrum / dipole strengths under relabelling: the theorem gives permutation similarity; equality of eigenvalues "
                       "is standard linear algebra, monitored through numpy.linalg.eigh (1e-9)",
                       "units independence rests on C05 (conversion on input, internal storage); monitored here within 1e-12 relative",
                       "the numerical value of the physical prefactor is validated against scipy.constants (CODATA), tolerance 1e-8 relative "
                       "(mu0 is no longer exactly 4 pi 1e-7 in CODATA 2018), not proved"]
    chk.notes.append("exact comparison (=) for integer cases; 1e-12 relative for unit-context cases and dipole-dipole values")
    chk.prove()
    import translate
    translate.static_tie(cm, chk, PID, cm.REPO)      # second, static tie: model regenerated from the current source
    if args.replay:
        rep = json.load(open(args.replay))
        inp = rep.get("input")
        if isinstance(inp, dict) and inp.get("kind") == "prefactor":
            prefactor_validation(chk)
        elif isinstance(inp, dict) and inp.get("kind") in ("build", "perm", "units", "elsig", "dd", "ddm"):
            run(chk, [inp])
    else:
        r = cm.rng(PID)
        quick = args.tier == "quick"
        cases = list(CORPUS)
        cases += [gen_build(r, k, args.tier) for k in range(1, 50 if quick else 500)]
        cases += [gen_perm(r, k, args.tier) for k in range(16 if quick else 160)]
        cases += [gen_units(r, k, args.tier) for k in range(16 if quick else 160)]
        cases += [gen_elsig(r, k, args.tier) for k in range(60 if quick else 600)]
        cases += [gen_dd(r, k, args.tier) for k in range(20 if quick else 200)]
        cases += [gen_ddm(r, k, args.tier) for k in range(24 if quick else 240)]
        # three-level molecules: state enumeration of real builds
        for k in range(4 if quick else 40):
            N = r.choice([2, 3, 4])
            cases.append({"kind": "build", "energies": [[0, r.randint(5, 20)] + ([r.randint(21, 40)] if r.random() < 0.6 else []) for _ in range(N)],
                          "J": [[0] * N for _ in range(N)], "dip": [[1, 0, 0]] * N, "mult": r.choice([1, 2]), "jmode": "none", "asym": False})
        run(chk, cases)
        prefactor_validation(chk)
    chk.finish()


main()
