# -*- coding: utf-8 -*-
"""C12 - third-order response: exact orientational average, additivity, symmetry.

Proof: coq/theories/Props/C12.v.
Tie: (a) Liouville-pathway lists of the real generators (liouville_pathways_3T with R1g..R2f*) for monomers,
dimers and trimers (zero and non-zero couplings, integer energies/dipoles in internal units, widths,
dephasings, synthetic evolution superoperators) are compared inside Coq with Model.C12.gen4/gen6 run on the
observed exciton-basis data (HH, DD, D2, rho0, eUt2, width/dephasing tables; eigh is an oracle), item by
item: name, type, transitions, sign, F4n, frequencies, widths, dephasings, evolution factor, prefactor,
and lab.F4eM4 (tolerance 1e-11 relative, integers exact); uncoupled aggregates are also compared with the
abstract model `usys` that the cancellation theorems are about.
(b) orientational prefactors of real pathways built on a stub aggregate with arbitrary four dipoles are
compared with Model.C12.orient and monitored against two independent numerical averages over SO(3)
(icosahedral group, Euler-angle product quadrature exact for degree 4).
(c) the pathway OBJECT: random programs of add_transition / add_transfer / set_evolution_factor (the six diagrams with random
states, perturbed: wrong states, sides other than +-1, extra / missing transfers and interactions, other orders and relax orders,
intervals outside the arrays, no interval at all) on real liouville_pathway objects over a stub aggregate are compared with the
state machine of Model/C12x.v (raise <-> None; otherwise every array, counter, the current state, F4n, sign, prefactor);
(d) what MockTwoDResponseCalculator.calculate_pathway hands to the line-shape functions (recording stand-ins) against calc_args4.
Static tie (harness/translate_c12.py): generators, dispatch, object methods, orientational factor and calculator selection are
translated from the current source on every run and proved equal to the model (GenC12.v).
Monitors on the MockTwoDResponseCalculator: total = rephasing + non-rephasing, invariance under a common
rotation of the dipoles / of the polarisations, quartic scaling (exact for powers of two), additivity for
uncoupled molecules (ESA cancels the cross peaks), symmetry under relabelling the molecules.
"""
import os
import sys
import json
import math
import itertools
from fractions import Fraction

sys.path.insert(0, os.path.dirname(os.path.abspath(__file__)))
import common as cm

PID = "C12"
work = cm.reexec_isolated(PID)
args = cm.parse_args(sys.argv[1:])

TOL = 1e-11
PNAMES = ["R1g", "R2g", "R3g", "R4g", "R1f*", "R2f*"]
ALL6 = ("R1g", "R2g", "R3g", "R4g", "R1f*", "R2f*")
ALL4 = ("R1g", "R2g", "R3g", "R4g")


def reset_manager():
    import quantarhei as qr
    m = qr.Manager()
    m.basis_stack = [0]
    m.basis_transformations = [1]
    m.basis_registered = {}
    m._in_eigenbasis_of_context = False
    m.current_basis_operator = None


# ------------------------------------------------------------------ building the real objects
def build_agg(c, mult=None, sub=None):
    """aggregate of two-level molecules in internal units; sub = list of molecule indices to keep"""
    import quantarhei as qr
    idx = list(range(len(c["en"]))) if sub is None else list(sub)
    mols = []
    for i in idx:
        m = qr.Molecule([0.0, float(c["en"][i])])
        m.set_dipole(0, 1, [float(x) for x in c["dip"][i]])
        if c.get("wd"):
            m.set_transition_width((0, 1), float(c["wd"][i]))
        if c.get("ga"):
            m.set_transition_dephasing((0, 1), float(c["ga"][i]))
        mols.append(m)
    agg = qr.Aggregate(mols)
    for (i, j, v) in c.get("coup", []):
        if i in idx and j in idx and v != 0:
            agg.set_resonance_coupling(idx.index(i), idx.index(j), float(v))
    if mult is None:
        mult = 2 if len(idx) >= 2 else 1
    agg.build(mult=mult)
    return agg


def make_lab(pol, reuse=None, typed=False):
    """a LabSetup holding the four polarisations `pol`.  reuse = {"perm": permutation of 0..3, "mode": "overwrite" | "feedback"}:
    the lab first holds the permuted four-tuple and is then re-configured - with fresh arrays, or (feedback) with the vectors its
    own getters returned, handed back in the order that makes the requested four-tuple `pol` again."""
    import quantarhei as qr
    # vectors are handed over as floats, except where the case asks for the types as written (integer pulse vectors together with a
    # non-integer detection vector: what a user typing (1,0,0) and a magic-angle vector hands over)
    fl = [[(x if isinstance(x, float) else int(x)) if typed else float(x) for x in p] for p in pol]
    lab = qr.LabSetup()
    if not reuse:
        lab.set_pulse_polarizations(pulse_polarizations=fl[:3], detection_polarization=fl[3])
        return lab
    perm = reuse["perm"]
    first = [fl[perm[i]] for i in range(4)]
    lab.set_pulse_polarizations(pulse_polarizations=first[:3], detection_polarization=first[3])
    if reuse["mode"] == "feedback":
        rows = list(lab.get_pulse_polarizations()) + [lab.get_detection_polarization()]
        req = [rows[perm.index(i)] for i in range(4)]
        lab.set_pulse_polarizations(pulse_polarizations=(req[0], req[1], req[2]), detection_polarization=req[3])
    else:
        lab.set_pulse_polarizations(pulse_polarizations=fl[:3], detection_polarization=fl[3])
    return lab


def make_eUt(c, n1):
    """evolution superoperator on ground + one-exciton block; c['umod'] = [[a,b,c,d,re,im],...]"""
    import numpy
    import quantarhei as qr
    eUt = qr.qm.SOpUnity(dim=n1)
    if c.get("umod"):
        dat = numpy.array(eUt.data, dtype=complex)
        for (a, b, cc, d, re_, im_) in c["umod"]:
            dat[a, b, cc, d] = complex(re_, im_)
        eUt.data = dat
    return eUt


def observe(c, pol):
    """runs the real generator; returns (observation dict, pathway dicts)"""
    import numpy
    import quantarhei as qr
    from quantarhei.core.managers import eigenbasis_of
    N = len(c["en"])
    agg = build_agg(c)
    a1 = build_agg(c, mult=1)
    H1 = a1.get_Hamiltonian()
    agg.diagonalize()
    lab = make_lab(pol)
    esa = agg.mult >= 2
    eUt = make_eUt(c, H1.dim)
    dtol = c.get("dtol", 1.0e-12)
    pws = agg.liouville_pathways_3T(ptype=(ALL6 if esa else ALL4), eUt=eUt, ham=H1, t2=0.0, lab=lab, dtol=dtol)
    # the same expression the generator uses for eUt2_dat
    udat = numpy.zeros(eUt.data.shape, dtype=eUt.data.dtype)
    with eigenbasis_of(H1):
        udat[:, :, :, :] = eUt.data
    ntot = agg.Ntot
    ngs = [int(x) for x in agg.get_electronic_groundstate()]
    nes = [int(x) for x in agg.get_excitonic_band(band=1)]
    nfs = [int(x) for x in agg.get_excitonic_band(band=2)] if esa else []
    wid = [[0.0] * ntot for _ in range(ntot)]
    dep = [[0.0] * ntot for _ in range(ntot)]
    bands = [ngs, nes, nfs]
    for b in range(2):
        for n in bands[b]:
            for m in bands[b + 1]:
                for (x, y) in ((n, m), (m, n)):
                    wid[x][y] = float(agg.get_transition_width((x, y)))
                    dep[x][y] = float(agg.get_transition_dephasing((x, y)))
    obs = {"ngs": ngs, "nes": nes, "nfs": nfs, "E": [float(agg.HH[n, n]) for n in range(ntot)],
           "DD": agg.DD.tolist(), "D2": agg.D2.tolist(), "rho": [float(numpy.real(agg.rho0[n, n])) for n in range(ntot)],
           "U": udat, "wid": wid, "dep": dep, "poptol": 1.0e-3,
           "diptol": float(numpy.sqrt(agg.D2_max) * dtol), "evftol": 1.0e-6, "esa": esa,
           "FM": [float(x) for x in lab.F4eM4], "SS": numpy.array(agg.SS)}
    out = []
    for p in pws:
        out.append({"name": PNAMES.index(p.pathway_name), "reph": p.pathway_type == "R",
                    "trans": [[int(a), int(b)] for (a, b) in p.transitions.tolist()], "sign": int(p.sign),
                    "F4n": [float(x) for x in p.F4n], "freq": [float(x) for x in p.frequency],
                    "w1": float(p.widths[1]), "w3": float(p.widths[3]), "g1": float(p.dephs[1]), "g3": float(p.dephs[3]),
                    "evf": complex(p.evolfac), "pref": complex(p.pref)})
    return obs, out, agg


# ------------------------------------------------------------------ Coq literals
def ql(x):
    return cm.qlit(x)


def cq(z):
    z = complex(z)
    return "(%s, %s)" % (ql(z.real), ql(z.imag))


def nl(l):
    return cm.clist(["%d%%nat" % int(x) for x in l])


def bl(b):
    return "true" if b else "false"


def pw_lit(p):
    return ("(mkOpw %d%%nat %s %s %s %s %s %s %s %s %s %s %s)" % (
        p["name"], bl(p["reph"]), cm.clist(["(%d%%nat, %d%%nat)" % (a, b) for (a, b) in p["trans"]]), cm.zlit(p["sign"]),
        cm.clist([ql(x) for x in p["F4n"]]), cm.clist([ql(x) for x in p["freq"]]),
        ql(p["w1"]), ql(p["w3"]), ql(p["g1"]), ql(p["g3"]), cq(p["evf"]), cq(p["pref"])))


def obs_lit(o):
    U = o["U"]
    n = U.shape[0]
    ul = cm.clist([cm.clist([cm.clist([cm.clist([cq(U[a, b, c, d]) for d in range(n)]) for c in range(n)])
                             for b in range(n)]) for a in range(n)])
    return ("(mkObs %s %s %s %s %s %s %s %s %s %s %s %s %s)" % (
        nl(o["ngs"]), nl(o["nes"]), nl(o["nfs"]), cm.clist([ql(x) for x in o["E"]]),
        cm.clist([cm.clist([cm.clist([ql(x) for x in v]) for v in row]) for row in o["DD"]]),
        cm.clist([cm.clist([ql(x) for x in row]) for row in o["D2"]]), cm.clist([ql(x) for x in o["rho"]]), ul,
        cm.clist([cm.clist([ql(x) for x in row]) for row in o["wid"]]),
        cm.clist([cm.clist([ql(x) for x in row]) for row in o["dep"]]),
        ql(o["poptol"]), ql(o["diptol"]), ql(o["evftol"])))


def pol_lit(pol):
    return cm.clist([cm.clist([ql(x) for x in p]) for p in pol])


# ------------------------------------------------------------------ generators
VEC = [[1, 0, 0], [0, 1, 0], [0, 0, 1], [1, 1, 0], [1, -1, 0], [1, 2, 0], [2, 1, -1], [0, 1, 1], [1, 1, 1], [3, 0, 1],
       [-1, 2, 2], [2, 0, 0], [0, -3, 1]]
POLS = [[[1, 0, 0]] * 4, [[1, 0, 0], [1, 0, 0], [0, 1, 0], [0, 1, 0]], [[1, 0, 0], [0, 1, 0], [1, 0, 0], [0, 1, 0]],
        [[1, 0, 0], [0, 1, 0], [0, 1, 0], [1, 0, 0]], [[0, 0, 1], [1, 0, 0], [0, 0, 1], [1, 0, 0]]]


def rvec(r):
    return list(r.choice(VEC)) if r.random() < 0.7 else [r.randint(-3, 3) for _ in range(3)]


def rpol(r):
    if r.random() < 0.5:
        return [list(p) for p in r.choice(POLS)]
    return [rvec(r) for _ in range(4)]


def gen_system(r, k, tier):
    N = r.choice([1, 2, 2, 2, 3, 3]) if tier == "quick" else r.choice([1, 2, 2, 3, 3, 3])
    en = r.sample([8, 9, 10, 11, 12, 13, 14], N)
    if r.random() < 0.15 and N >= 2:
        en[1] = en[0]                      # degenerate molecules
    dip = []
    for i in range(N):
        d = rvec(r)
        if d == [0, 0, 0]:
            d = [1, 0, 0]
        dip.append(d)
    if r.random() < 0.12 and N >= 2:
        dip[r.randrange(N)] = [0, 0, 0]    # a dark molecule: its pathways are skipped
    wd = [r.choice([0.25, 0.5, 0.75, 1.0, 1.5]) for _ in range(N)]
    ga = [r.choice([0.125, 0.25, 0.5, 1.0]) for _ in range(N)]
    coup = []
    coupled = N >= 2 and r.random() < 0.5
    if coupled:
        for i in range(N):
            for j in range(i + 1, N):
                if r.random() < 0.8:
                    coup.append([i, j, r.choice([0.5, -0.5, 1.0, 0.25, -1.5])])
    umod = []
    if (not coupled) and r.random() < 0.5:
        # diagonal evolution of coherences (complex), population transfer, a vanishing element
        for a in range(1, N + 1):
            for b in range(1, N + 1):
                u = r.random()
                if a != b and u < 0.6:
                    umod.append([a, b, a, b, r.choice([0, 1, -1, 2, 0.5]), r.choice([0, 1, -1, 0.5])])
                if a != b and r.random() < 0.3:
                    umod.append([b, b, a, a, r.choice([0.5, 0.25, 1]), 0])
            if r.random() < 0.3:
                umod.append([a, a, a, a, r.choice([0.5, 0.75]), 0])
    return {"kind": "gen", "en": en, "dip": dip, "wd": wd, "ga": ga, "coup": coup, "umod": umod, "pol": rpol(r),
            "dtol": r.choice([1e-12, 1e-12, 1e-4])}


def gen_orient(r, k):
    c = {"kind": "orient", "pol": [rvec(r) for _ in range(4)], "dip": [rvec(r) for _ in range(4)],
         "sides": [r.choice([1, -1]) for _ in range(4)]}
    if k % 5 == 2:              # integer-typed pulse vectors with a detection vector that has non-integer (dyadic) components
        c["pol"][3] = r.choice([[0.5, 0.75, 0.0], [0.25, -0.5, 1.5], [0.5, 0.5, 0.5]])
        c["typed"] = True
    if k % 3 == 1:              # one LabSetup object configured twice (second time with fresh arrays or with its own getters' output)
        perm = [0, 1, 2, 3]
        while perm == [0, 1, 2, 3]:
            r.shuffle(perm)
        c["lab_reuse"] = {"perm": perm, "mode": r.choice(["overwrite", "feedback", "feedback"])}
    return c


def gen_calc(r, k, tier):
    N = r.choice([2, 2, 3])
    en = sorted(r.sample([8, 9, 10, 11, 12, 13], N))
    r.shuffle(en)
    dip = []
    for i in range(N):
        d = rvec(r)
        if d == [0, 0, 0]:
            d = [0, 1, 0]
        dip.append(d)
    wd = [r.choice([0.5, 0.75, 1.0, 1.5]) for _ in range(N)]
    g0 = r.choice([0.25, 0.5])
    shape = r.choice(["Gaussian", "Gaussian", "Lorentzian"])
    equal_ga = r.random() < 0.6
    ga = [g0] * N if equal_ga else [r.choice([0.125, 0.25, 0.5, 1.0]) for _ in range(N)]
    coup = []
    if r.random() < 0.35:
        coup = [[i, j, r.choice([0.5, -0.5, 1.0])] for i in range(N) for j in range(i + 1, N) if r.random() < 0.8]
    ang = [r.uniform(0, 2 * math.pi), r.uniform(0, math.pi), r.uniform(0, 2 * math.pi)]
    ucoh = []
    if not coup and r.random() < 0.6:
        # evolution of the one-exciton coherences during t2: exp(-i w_ab t2 - gamma t2) at waiting times where the real
        # part is positive, zero or negative
        for a in range(1, N + 1):
            for b in range(a + 1, N + 1):
                ucoh.append([a, b] + list(r.choice([[-1.0, 0.0], [0.0, 1.0], [0.0, -0.5], [-0.5, 0.5], [0.5, -0.5], [0.25, 0.0],
                                                    [-0.75, -0.25]])))
    return {"kind": "calc", "ucoh": ucoh, "en": en, "dip": dip, "wd": wd, "ga": ga, "coup": coup, "shape": shape, "pol": rpol(r),
            "angles": ang, "reflect": r.random() < 0.3, "scale_pow": r.choice([-2, -1, 1, 2, 3, -10, -13]), "scale": r.choice([3.0, 0.7, 1.9]),
            "perm": r.sample(range(N), N)}


# ------------------------------------------------------------------ orientational average: independent references
def rot_euler(a, b, g):
    import numpy
    ca, sa, cb, sb, cg, sg = math.cos(a), math.sin(a), math.cos(b), math.sin(b), math.cos(g), math.sin(g)
    Rz1 = numpy.array([[ca, -sa, 0], [sa, ca, 0], [0, 0, 1.0]])
    Ry = numpy.array([[cb, 0, sb], [0, 1.0, 0], [-sb, 0, cb]])
    Rz2 = numpy.array([[cg, -sg, 0], [sg, cg, 0], [0, 0, 1.0]])
    return Rz1.dot(Ry).dot(Rz2)


_ICO = None


def icosahedral_group():
    """the 60 rotations generated by a five-fold and a two-fold axis (numerically closed)"""
    global _ICO
    if _ICO is not None:
        return _ICO
    import numpy
    phi = (1 + math.sqrt(5)) / 2
    A = numpy.array([[0.5, -phi / 2, (phi - 1) / 2], [phi / 2, (phi - 1) / 2, -0.5], [(phi - 1) / 2, 0.5, phi / 2]])
    B = numpy.array([[-1.0, 0, 0], [0, -1.0, 0], [0, 0, 1.0]])
    C = numpy.array([[0.0, 0, 1.0], [1.0, 0, 0], [0, 1.0, 0]])
    G = [numpy.eye(3)]
    frontier = [numpy.eye(3)]
    while frontier:
        new = []
        for g in frontier:
            for h in (A, B, C):
                x = g.dot(h)
                if not any(numpy.abs(x - y).max() < 1e-9 for y in G):
                    G.append(x)
                    new.append(x)
        frontier = new
        if len(G) > 200:
            break
    _ICO = G
    return G


def quad_average(e, d):
    """Euler-angle product rule, exact for polynomials of degree <= 4 in the rotation matrix"""
    import numpy
    na = 6
    xs, ws = numpy.polynomial.legendre.leggauss(4)
    tot = 0.0
    for i in range(na):
        for j in range(na):
            for x, w in zip(xs, ws):
                Q = rot_euler(2 * math.pi * i / na, math.acos(x), 2 * math.pi * j / na)
                p = 1.0
                for t in range(4):
                    p *= numpy.dot(e[t], Q.dot(d[t]))
                tot += w * p
    return tot / (na * na * 2.0)


def group_average(e, d):
    import numpy
    G = icosahedral_group()
    tot = 0.0
    for Q in G:
        p = 1.0
        for t in range(4):
            p *= numpy.dot(e[t], Q.dot(d[t]))
        tot += p
    return tot / len(G), len(G)


class StubAggregate:
    """what liouville_pathway reads of an aggregate: HH, DD, rho0"""
    def __init__(self, dips):
        import numpy
        self.HH = numpy.diag([0.0, 1.0, 2.0, 3.0, 4.0])
        self.DD = numpy.zeros((5, 5, 3))
        for k in range(4):
            self.DD[k + 1, k, :] = dips[k]
            self.DD[k, k + 1, :] = dips[k]
        self.rho0 = numpy.zeros((5, 5), dtype=complex)
        self.rho0[0, 0] = 1.0


def run_orient(chk, c):
    import numpy
    from quantarhei.spectroscopy import diagramatics as diag
    lab = make_lab(c["pol"], c.get("lab_reuse"), typed=c.get("typed", False))
    e = [numpy.array(p, dtype=float) for p in c["pol"]]
    d = [numpy.array(p, dtype=float) for p in c["dip"]]
    held = numpy.array(list(lab.get_pulse_polarizations()) + [lab.get_detection_polarization()], dtype=float)
    if numpy.max(numpy.abs(held - numpy.array(c["pol"], dtype=float))) > 0:
        chk.violation("orient:lab_holds_other_polarizations", "the LabSetup (re-configured: %s) holds the polarisations %s, requested were %s"
                      % (c.get("lab_reuse"), held.tolist(), c["pol"]), "monitor", c)
    lp = diag.liouville_pathway("R", 0, aggregate=StubAggregate(d), order=3, pname="R1g")
    for k in range(4):
        # all four interactions on the left: |k+1><0| ... (sides only enter the sign)
        lp.add_transition((k + 1, k), +1)
    lp.sides[:] = c["sides"]
    lp.build()
    lp.orientational_averaging(lab)
    sign = 1
    for s in c["sides"]:
        sign *= s
    val = float(lp.pref) * sign
    ref1 = quad_average(e, d)
    ref2, ng = group_average(e, d)
    scale = 1.0
    for t in range(4):
        scale *= max(1.0, numpy.linalg.norm(e[t]) * numpy.linalg.norm(d[t]))
    if ng != 60:
        chk.violation("harness:icosahedral_group", "numerical icosahedral group has %d elements" % ng, "monitor", c, found_input=False)
    if abs(val - ref1) > 1e-10 * scale:
        chk.violation("orient:quadrature", "orientational prefactor %r differs from the SO(3) quadrature %r for e=%s d=%s"
                      % (val, ref1, c["pol"], c["dip"]), "monitor", c)
    if abs(val - ref2) > 1e-10 * scale:
        chk.violation("orient:icosahedral", "orientational prefactor %r differs from the icosahedral average %r for e=%s d=%s"
                      % (val, ref2, c["pol"], c["dip"]), "monitor", c)
    if int(lp.sign) != sign:
        chk.violation("orient:sign", "pathway sign %r is not the product of the sides %s" % (lp.sign, c["sides"]), "monitor", c)
    lit = "(%s, %s, %s, %s)" % (pol_lit(c["pol"]), pol_lit(c["dip"]), ql(val), cm.clist([ql(x) for x in lab.F4eM4]))
    nontriv = abs(ref1) > 1e-9 and len({tuple(x) for x in c["pol"]}) > 1
    chk.case(c, nontriv, sample={"case": c, "pref": val, "quadrature": ref1, "icosahedral": ref2})
    return lit


# ------------------------------------------------------------------ calculator monitors
def spectrum(c, pol, shape, sub=None, dips=None, ucoh=None):
    """MockTwoDResponseCalculator.calculate_one_system on the aggregate; returns the three signals, the number of
    pathways and the natural scale of the result: sum over the generated pathways of (largest value of the pathway's
    line shape with unit prefactor) x (largest dipole)^4 x |e0||e1||e2||e3| / 5 - it does not vanish when the
    orientational prefactors do.  ucoh = [[a, b, re, im], ...]: evolution factors of the one-exciton coherences
    |a><b| during t2 (site labels 1..N; only used for uncoupled molecules, where sites are the eigenstates)."""
    import numpy
    import quantarhei as qr
    from quantarhei.spectroscopy.mocktwodcalculator import MockTwoDResponseCalculator
    cc = dict(c)
    if dips is not None:
        cc["dip"] = dips
    agg = build_agg(cc, sub=sub)
    a1 = build_agg(cc, mult=1, sub=sub)
    H1 = a1.get_Hamiltonian()
    agg.diagonalize()
    t1 = qr.TimeAxis(0.0, 12, 0.5)
    t3 = qr.TimeAxis(0.0, 12, 0.5)
    t2 = qr.TimeAxis(0.0, 2, 1.0)
    calc = MockTwoDResponseCalculator(t1, t2, t3)
    calc.bootstrap(rwa=10.5, shape=shape)
    eUt = qr.qm.SOpUnity(dim=H1.dim)
    if ucoh:
        dat = numpy.array(eUt.data, dtype=complex)
        for (a, b, re_, im_) in ucoh:
            dat[a, b, a, b] = complex(re_, im_)
            dat[b, a, b, a] = complex(re_, -im_)
        eUt.data = dat
    eUt.get_Hamiltonian = lambda: H1
    lab = make_lab(pol)
    pw = {}
    tw = calc.calculate_one_system(0.0, agg, eUt, lab, pways=pw)
    out = {}
    for key, flag in (("T", qr.signal_TOTL), ("R", qr.signal_REPH), ("N", qr.signal_NONR)):
        tw.set_data_flag(flag)
        out[key] = numpy.array(tw.d__data, dtype=complex)
    pws = pw[str(0.0)]
    dmax = max([math.sqrt(sum(float(x) ** 2 for x in d)) for d in cc["dip"]] + [0.0])
    emag = 1.0
    for e in pol:
        emag *= math.sqrt(sum(float(x) ** 2 for x in e))
    shapes = 0.0
    for p in pws:
        keep = p.pref
        p.pref = 1.0
        try:
            shapes += float(numpy.abs(calc.calculate_pathway(p, shape=shape)).max()) * max(1.0, abs(p.evolfac))
        finally:
            p.pref = keep
    scale = shapes * (dmax ** 4) * emag / 5.0
    return out, len(pws), scale


FLOOR = 1e-290       # absolute floor of every tolerance (responses of O(1) inputs are O(1e-3 .. 1e3))


def run_calc(chk, c):
    import numpy
    shape = c["shape"]
    N = len(c["en"])
    ucoh = c.get("ucoh") or None
    if c["coup"]:
        ucoh = None
    full, npw, scale = spectrum(c, c["pol"], shape, ucoh=ucoh)
    T = full["T"]
    mx = max(numpy.abs(T).max(), numpy.abs(full["R"]).max(), numpy.abs(full["N"]).max())
    cls = "%s,%s%s" % (shape, "coupled" if c["coup"] else "uncoupled", ",coherence-evolution" if ucoh else "")
    if not numpy.isfinite(T).all():
        chk.violation("calc:nonfinite:" + cls, "response contains non-finite values for %s" % json.dumps(c), "monitor", c)
        chk.case(c, False)
        return
    if mx > scale * 1.0000001 + FLOOR:
        chk.violation("harness:scale", "largest response %g exceeds the input scale %g used for the tolerances" % (mx, scale),
                      "monitor", c, found_input=False)
    # total = rephasing + non-rephasing
    dev = numpy.abs(T - (full["R"] + full["N"])).max()
    if dev > 1e-12 * scale + FLOOR:
        chk.violation("calc:total_vs_parts:" + cls, "total signal differs from rephasing + non-rephasing by %g (scale %g)" % (dev, scale),
                      "monitor", c)
    # common rotation (proper or improper) of all dipoles, and of all polarisations
    Q = rot_euler(*c["angles"])
    if c["reflect"]:
        Q = Q.dot(numpy.diag([1.0, 1.0, -1.0]))
    dr = [list(Q.dot(numpy.array(d, dtype=float))) for d in c["dip"]]
    rotd, _, _ = spectrum(c, c["pol"], shape, dips=dr, ucoh=ucoh)
    dev = numpy.abs(rotd["T"] - T).max()
    if dev > 1e-10 * scale + FLOOR:
        chk.violation("calc:rotate_dipoles:" + cls, "response changes by %g (scale %g) under a common rotation of all dipoles" % (dev, scale),
                      "monitor", c)
    pr = [list(Q.dot(numpy.array(p, dtype=float))) for p in c["pol"]]
    rote, _, _ = spectrum(c, pr, shape, ucoh=ucoh)
    dev = numpy.abs(rote["T"] - T).max()
    if dev > 1e-10 * scale + FLOOR:
        chk.violation("calc:rotate_polarisations:" + cls, "response changes by %g (scale %g) under a common rotation of all polarisations"
                      % (dev, scale), "monitor", c)
    # quartic scaling: exact for powers of two, 1e-11 of the scale otherwise
    s = 2.0 ** c["scale_pow"]
    sc, _, _ = spectrum(c, c["pol"], shape, dips=[[s * x for x in d] for d in c["dip"]], ucoh=ucoh)
    if not numpy.array_equal(sc["T"], (s ** 4) * T):
        chk.violation("calc:scale_pow2:" + cls, "response of dipoles scaled by %g is not exactly %g times the response (max dev %g)"
                      % (s, s ** 4, numpy.abs(sc["T"] - s ** 4 * T).max()), "monitor", c)
    s = c["scale"]
    sc, _, _ = spectrum(c, c["pol"], shape, dips=[[s * x for x in d] for d in c["dip"]], ucoh=ucoh)
    dev = numpy.abs(sc["T"] - (s ** 4) * T).max()
    if dev > 1e-11 * scale * s ** 4 + FLOOR:
        chk.violation("calc:scale:" + cls, "response of dipoles scaled by %g deviates from s^4 scaling by %g (scale %g)"
                      % (s, dev, scale * s ** 4), "monitor", c)
    # relabelling the molecules
    perm = c["perm"]
    cp = dict(c)
    cp["en"] = [c["en"][i] for i in perm]
    cp["dip"] = [c["dip"][i] for i in perm]
    cp["wd"] = [c["wd"][i] for i in perm]
    cp["ga"] = [c["ga"][i] for i in perm]
    cp["coup"] = [[perm.index(i), perm.index(j), v] for (i, j, v) in c["coup"]]
    ucp = [[perm.index(a - 1) + 1, perm.index(b - 1) + 1, re_, im_] for (a, b, re_, im_) in ucoh] if ucoh else None
    pm, _, _ = spectrum(cp, c["pol"], shape, ucoh=ucp)
    dev = numpy.abs(pm["T"] - T).max()
    if dev > 1e-10 * scale + FLOOR:
        chk.violation("calc:relabel:" + cls, "response changes by %g (scale %g) when the molecules are relabelled by %s" % (dev, scale, perm),
                      "monitor", c)
    # additivity for uncoupled molecules (for every evolution of the one-exciton coherences during t2)
    if not c["coup"]:
        parts = None
        for a in range(N):
            one, _, _ = spectrum(c, c["pol"], shape, sub=[a])
            parts = one["T"] if parts is None else parts + one["T"]
        dev = numpy.abs(T - parts).max()
        equal_ga = len(set(c["ga"])) == 1
        if dev > 1e-10 * scale + FLOOR:
            if shape == "Lorentzian" and not equal_ga:
                chk.violation("additivity:lorentzian_unequal_dephasing",
                              "uncoupled molecules with dephasings %s, Lorentzian line shape: response differs from the sum of the "
                              "molecular responses by %g (scale %g): ESA transitions get the dephasing of the one-exciton state"
                              % (c["ga"], dev, scale), "monitor", c)
            else:
                chk.violation("additivity:" + cls, "uncoupled molecules: response differs from the sum of the molecular responses by %g "
                              "(scale %g), ESA does not cancel the cross peaks; case %s" % (dev, scale, json.dumps(c)), "monitor", c)
    chk.count("calc:" + cls)
    chk.count("calc:vanishing_response" if mx <= 1e-9 * scale else "calc:nonvanishing_response")
    chk.case(c, mx > 1e-9 * scale and npw > 4, sample={"case": c, "pathways": npw, "max": float(mx), "scale": float(scale)})


# ------------------------------------------------------------------ pathway lists against the model
def monitor_pathways(chk, c, obs, pws):
    """the property on the real pathway list: prefactor = exact average; cross-peak cancellation for uncoupled"""
    import numpy
    e = [numpy.array(p, dtype=float) for p in c["pol"]]
    for p in pws[:40]:
        d = [numpy.array(obs["DD"][a][b]) for (a, b) in p["trans"]]
        ref = quad_average(e, d) * p["sign"] * obs["rho"][p["trans"][0][1]] * p["evf"]
        scale = 1.0
        for t in range(4):
            scale *= max(1.0, numpy.linalg.norm(e[t]) * numpy.linalg.norm(d[t]))
        if abs(ref - p["pref"]) > 1e-10 * scale * max(1.0, abs(p["evf"])):
            chk.violation("pathway:pref_vs_quadrature", "prefactor %r of pathway %s %s differs from the averaged product %r"
                          % (p["pref"], PNAMES[p["name"]], p["trans"], ref), "monitor", c)
            break


def run_gen(chk, c):
    import numpy
    obs, pws, agg = observe(c, c["pol"])
    N = len(c["en"])
    chk.count("gen:N=%d,%s,%s" % (N, "coupled" if c["coup"] else "uncoupled", "U" if c["umod"] else "identity"))
    chk.count("pathways", len(pws))
    monitor_pathways(chk, c, obs, pws)
    lit = "(%s, %s, %s, %s, %s)" % (obs_lit(obs), pol_lit(c["pol"]), cm.clist([ql(x) for x in obs["FM"]]), bl(obs["esa"]),
                                    cm.clist([pw_lit(p) for p in pws]))
    ulit = None
    if (not c["coup"]) and (not c["umod"]) and N >= 2:
        # molecule behind every one-exciton state (eigh sorts the states)
        SS = obs["SS"]
        order = [int(numpy.argmax(numpy.abs(SS[1:N + 1, k]))) for k in range(1, N + 1)]
        if sorted(order) == list(range(N)):
            # two-exciton states must appear in lexicographic order of the (sorted) one-exciton labels
            en = [c["en"][m] for m in order]
            pairs = [(a, b) for a in range(N) for b in range(a + 1, N)]
            e2 = [en[a] + en[b] for (a, b) in pairs]
            lex = all(abs(obs["E"][N + 1 + k] - e2[k]) < 1e-12 for k in range(len(pairs))) and \
                all(e2[k] < e2[k + 1] for k in range(len(e2) - 1)) and all(en[k] < en[k + 1] for k in range(N - 1))
            if lex:
                d2 = [sum(x * x for x in c["dip"][m]) for m in order]
                bigd = [x > obs["diptol"] for x in d2]
                ulit = "(%d%%nat, %s, %s, %s, %s, %s, %s, %s)" % (
                    N, cm.clist([ql(x) for x in en]), cm.clist([cm.clist([ql(x) for x in c["dip"][m]]) for m in order]),
                    cm.clist([ql(c["wd"][m]) for m in order]), cm.clist([ql(c["ga"][m]) for m in order]),
                    cm.clist([bl(b) for b in bigd]), pol_lit(c["pol"]), cm.clist([pw_lit(p) for p in pws]))
                chk.count("usys_tie")
    chk.case(c, len(pws) >= 4, sample={"case": c, "pathways": len(pws), "first": {k: str(v) for k, v in pws[0].items()} if pws else None})
    return lit, ulit



# ------------------------------------------------------------------ the pathway object against the machine of Model/C12x.v
DIAGRAMS = {
    # name: (ptype, relax, [ops with symbolic states]) ; g = ground, a,b = first pair, c,d = after transfer, f = last
    "R1g": ("NR", 1, [("T", "a", "g", 1, 1), ("T", "b", "g", -1, 0), ("X", "c", "d", "a", "b"), ("E",), ("T", "f", "d", -1, 0), ("T", "f", "c", 1, 3)]),
    "R2g": ("R", 1, [("T", "a", "g", -1, 1), ("T", "b", "g", 1, 0), ("X", "c", "d", "b", "a"), ("E",), ("T", "f", "d", -1, 0), ("T", "f", "c", 1, 3)]),
    "R3g": ("R", 0, [("T", "a", "g", -1, 1), ("T", "f", "a", -1, 0), ("T", "b", "g", 1, 0), ("T", "f", "b", 1, 3), ("E",)]),
    "R4g": ("NR", 0, [("T", "a", "g", 1, 1), ("T", "f", "a", 1, 0), ("T", "b", "f", 1, 0), ("T", "g", "b", 1, 3), ("E",)]),
    "R1f*": ("R", 1, [("T", "a", "g", -1, 1), ("T", "b", "g", 1, 0), ("X", "c", "d", "b", "a"), ("E",), ("T", "f", "c", 1, 0), ("T", "d", "f", 1, 3)]),
    "R2f*": ("NR", 1, [("T", "a", "g", 1, 1), ("T", "b", "g", -1, 0), ("X", "c", "d", "a", "b"), ("E",), ("T", "f", "c", 1, 0), ("T", "d", "f", 1, 3)]),
}
NST = 6


def gen_obj(r, k):
    name = r.choice(sorted(DIAGRAMS))
    ptype, relax, tpl = DIAGRAMS[name]
    st = {"g": 0 if r.random() < 0.8 else r.randrange(NST)}
    for s in "abcdf":
        st[s] = r.randrange(NST)
    ops = []
    for o in tpl:
        if o[0] == "T":
            w, g = (r.choice([0.25, 0.5, 1.0, 1.5]), r.choice([0.125, 0.25, 0.5])) if o[4] > 0 else (-1.0, -1.0)
            ops.append(["T", st[o[1]], st[o[2]], o[3], o[4], w, g])
        elif o[0] == "X":
            ops.append(["X", st[o[1]], st[o[2]], st[o[3]], st[o[4]]])
        else:
            ops.append(["E", r.choice([1, 0.5, -1, 0, 2]), r.choice([0, 0, 1, -0.5])])
    order, popt = 3, 1 if relax else 0
    npert = r.choice([0, 0, 1, 1, 1, 2])
    for _ in range(npert):
        u = r.randrange(12)
        ti = [i for i, o in enumerate(ops) if o[0] == "T"]
        xi = [i for i, o in enumerate(ops) if o[0] == "X"]
        if u == 0 and ti:
            i = r.choice(ti)
            ops[i][r.choice([1, 2])] = r.randrange(NST)              # wrong state
        elif u == 1 and ti:
            i = r.choice(ti)
            ops[i][3] = -ops[i][3]                                   # other side
        elif u == 2 and ti:
            ops[r.choice(ti)][3] = r.choice([2, -2, 0, 3, -3])       # a side that is not +-1
        elif u == 3:
            ops.insert(r.randrange(len(ops) + 1), ["X", r.randrange(NST), r.randrange(NST), r.randrange(NST), r.randrange(NST)])
        elif u == 4 and xi:
            del ops[r.choice(xi)]
        elif u == 5:
            relax = r.choice([0, 1, 2])
        elif u == 6:
            order = r.choice([1, 2, 4])
        elif u == 7 and ti:
            ops[r.choice(ti)][4] = r.choice([2, 4, 5])               # interval (4, 5: outside the arrays)
        elif u == 8 and ti:
            for i in ti:
                ops[i][4] = 0                                        # no interval named: widths stay None
        elif u == 9 and ti:
            ops.insert(r.randrange(len(ops) + 1), list(ops[r.choice(ti)]))   # a fifth interaction
        elif u == 10 and ti:
            del ops[r.choice(ti)]
        elif u == 11 and xi:
            i = r.choice(xi)
            ops[i][3], ops[i][4] = ops[i][4], ops[i][3]              # declared start swapped
    E = [0] + sorted(r.sample(range(5, 30), NST - 1))
    dd = {}
    for n in range(NST):
        for m in range(n + 1, NST):
            dd["%d,%d" % (n, m)] = rvec(r)
    rho = [r.choice([1.0, 0.5, 0.25, 0.0]) for _ in range(NST)]
    return {"kind": "obj", "diagram": name, "ptype": ptype if r.random() < 0.95 else "DC", "sinit": st["g"], "order": order, "relax": relax,
            "popt": popt, "ops": ops, "E": E, "dd": dd, "rho": rho, "pol": rpol(r)}


class StubAggregate2:
    def __init__(self, c):
        import numpy
        self.HH = numpy.diag([float(x) for x in c["E"]])
        self.DD = numpy.zeros((NST, NST, 3))
        for key, v in c["dd"].items():
            n, m = [int(x) for x in key.split(",")]
            self.DD[n, m, :] = v
            self.DD[m, n, :] = v
        self.rho0 = numpy.zeros((NST, NST), dtype=complex)
        for n in range(NST):
            self.rho0[n, n] = c["rho"][n]


def run_obj(chk, c):
    import numpy
    from quantarhei.spectroscopy import diagramatics as diag
    agg = StubAggregate2(c)
    lab = make_lab(c["pol"])
    res, raised = None, None
    try:
        lp = diag.liouville_pathway(c["ptype"], c["sinit"], aggregate=agg, order=c["order"], pname=c["diagram"],
                                    relax_order=c["relax"], popt_band=c["popt"])
        for o in c["ops"]:
            if o[0] == "T":
                lp.add_transition((o[1], o[2]), o[3], interval=o[4], width=o[5], deph=o[6])
            elif o[0] == "X":
                lp.add_transfer((o[1], o[2]), (o[3], o[4]))
            else:
                lp.set_evolution_factor(complex(o[1], o[2]))
        res = {"cur": [int(lp.current[0]), int(lp.current[1])], "nint": int(lp.nint), "nrel": int(lp.nrel), "ne": int(lp.ne),
               "trans": [[int(a), int(b)] for a, b in lp.transitions.tolist()], "sides": [int(x) for x in lp.sides.tolist()],
               "dm": [[float(x) for x in row] for row in lp.dmoments.tolist()], "freq": [float(x) for x in lp.frequency.tolist()],
               "wd": None if lp.widths is None else [[float(x) for x in lp.widths], [float(x) for x in lp.dephs]],
               "evf": complex(lp.evolfac), "built": None}
        if c["order"] == 3:
            lp.build()
            lp.orientational_averaging(lab)
            res["built"] = [[float(x) for x in lp.F4n], int(lp.sign), complex(lp.pref)]
    except (IndexError, Exception) as e:
        if type(e) not in (Exception, IndexError):
            raise
        res, raised = None, "%s: %s" % (type(e).__name__, str(e)[:60])
    chk.count("obj:" + ("raised:" + raised.split(":")[0] if raised else "completed"))
    ntot = NST
    DD = agg.DD.tolist()
    obs = ("(mkObs [] [] [] %s %s [] %s [] [] [] 0 0 0)" % (
        cm.clist([ql(x) for x in c["E"]]), cm.clist([cm.clist([cm.clist([ql(x) for x in v]) for v in row]) for row in DD]),
        cm.clist([ql(x) for x in c["rho"]])))
    call = '(mkCall "%s"%%string %d%%nat %d%%nat "%s"%%string %d%%nat %d%%nat)' % (c["ptype"], c["sinit"], c["order"], c["diagram"], c["relax"], c["popt"])
    ops = []
    for o in c["ops"]:
        if o[0] == "T":
            ops.append("(@XT GQ %d%%nat %d%%nat %s %d%%nat (r2 %s) (r2 %s))" % (o[1], o[2], cm.zlit(o[3]), o[4], ql(o[5]), ql(o[6])))
        elif o[0] == "X":
            ops.append("(@XX GQ %d%%nat %d%%nat %d%%nat %d%%nat)" % (o[1], o[2], o[3], o[4]))
        else:
            ops.append("(@XE GQ (c2 %s))" % cq(complex(o[1], o[2])))
    if res is None:
        rl = "None"
    else:
        wd = "None" if res["wd"] is None else "(Some (%s, %s))" % (cm.clist([ql(x) for x in res["wd"][0]]), cm.clist([ql(x) for x in res["wd"][1]]))
        bt = "None" if res["built"] is None else "(Some (%s, %s, %s))" % (cm.clist([ql(x) for x in res["built"][0]]), cm.zlit(res["built"][1]),
                                                                        cq(res["built"][2]))
        rl = ("(Some (mkOobj (%d%%nat, %d%%nat) %d%%nat %d%%nat %d%%nat %s %s %s %s %s %s %s))" % (
            res["cur"][0], res["cur"][1], res["nint"], res["nrel"], res["ne"],
            cm.clist(["(%d%%nat, %d%%nat)" % (a, b) for a, b in res["trans"]]), cm.clist([cm.zlit(x) for x in res["sides"]]),
            cm.clist([cm.clist([ql(x) for x in row]) for row in res["dm"]]), cm.clist([ql(x) for x in res["freq"]]), wd, cq(res["evf"]), bt))
    chk.case(c, res is not None and len(c["ops"]) >= 4, sample={"case": c, "raised": raised})
    return "(%s, %s, %s, %s, %s)" % (obs, pol_lit(c["pol"]), call, cm.clist(ops), rl)


def gen_sel(r, k):
    relax = r.choice([0, 1])
    return {"kind": "sel", "relax": relax, "freq": [r.choice([-12, -11, -9.5, 9, 10, 11.5, 1, 0]) for _ in range(4 + relax)],
            "w": [r.choice([-1.0, 0.5, 0.75, 1.5, 0.0]) for _ in range(2)], "g": [r.choice([-1.0, 0.125, 0.25, 1.0]) for _ in range(2)],
            "reph": r.random() < 0.5, "shape": r.choice(["Gaussian", "Lorentzian"]), "dflt": r.sample([2.0, 3.0, 5.0, 7.0, 11.0], 4)}


def run_sel(chk, c):
    """MockTwoDResponseCalculator.calculate_pathway with recording line-shape functions: what reaches them"""
    import numpy
    import types
    import quantarhei as qr
    from quantarhei.spectroscopy import mocktwodcalculator as mod
    t1 = qr.TimeAxis(0.0, 8, 0.5)
    t3 = qr.TimeAxis(0.0, 8, 0.5)
    t2 = qr.TimeAxis(0.0, 2, 1.0)
    calc = mod.MockTwoDResponseCalculator(t1, t2, t3)
    calc.bootstrap(rwa=10.5, shape=c["shape"])
    calc.widthx, calc.widthy, calc.dephx, calc.dephy = c["dflt"]
    seen = []

    def rec(tag):
        def f(o1, c1, w1, o3, c3, w3, corr=0.0):
            seen.append((tag, numpy.array(o1), float(c1), float(w1), numpy.array(o3), float(c3), float(w3)))
            return numpy.zeros((len(o1), len(o3)), dtype=complex)
        return f
    keep = (mod.gaussian2D, mod.lorentzian2D)
    mod.gaussian2D, mod.lorentzian2D = rec(True), rec(False)
    try:
        widths = numpy.array([-1.0, c["w"][0], -1.0, c["w"][1]])
        dephs = numpy.array([-1.0, c["g"][0], -1.0, c["g"][1]])
        pw = types.SimpleNamespace(order=3, relax_order=c["relax"], frequency=numpy.array(c["freq"], dtype=float), pref=1.0, widths=widths,
                                   dephs=dephs, pathway_type="R" if c["reph"] else "NR")
        calc.calculate_pathway(pw, shape=c["shape"])
    finally:
        mod.gaussian2D, mod.lorentzian2D = keep
    if len(seen) != 1:
        chk.violation("sel:calls", "calculate_pathway called the line-shape functions %d times" % len(seen), "monitor", c)
        chk.case(c, False)
        return None
    tag, o1, c1, w1, o3, c3, w3 = seen[0]
    neg1 = numpy.array_equal(o1, -calc.oa1.data)
    pos1 = numpy.array_equal(o1, calc.oa1.data)
    if neg1 == pos1 or not numpy.array_equal(o3, calc.oa3.data):
        chk.violation("sel:axes", "calculate_pathway handed unexpected frequency axes to the line-shape function", "monitor", c)
    chk.count("sel:%s,%s" % (c["shape"], "R" if c["reph"] else "NR"))
    used_default = (c["w"][0] < 0) or (c["w"][1] < 0) or (c["g"][0] < 0)
    chk.case(c, used_default, sample={"case": c, "handed": [tag, bool(neg1), c1, w1, c3, w3]})
    return "(%s, (%s, %s, %s, %s), %s, %s, (%s, %s, %s, %s), (%s, %s, %s, %s, %s, %s))" % (
        cm.clist([ql(x) for x in c["freq"]]), ql(c["w"][0]), ql(c["w"][1]), ql(c["g"][0]), ql(c["g"][1]), bl(c["reph"]),
        bl(c["shape"] == "Gaussian"), ql(c["dflt"][0]), ql(c["dflt"][1]), ql(c["dflt"][2]), ql(c["dflt"][3]),
        bl(tag), bl(neg1), ql(c1), ql(w1), ql(c3), ql(w3))

# ------------------------------------------------------------------ run
IMPORTS = "From Coq Require String.\nImport String.StringSyntax.\nDelimit Scope string_scope with string.\nFrom QV Require Import Base.Alg Base.Util Model.C19 Model.C12 Model.C12x.\n"
ORIENT_DEF = ("Definition ocase := (list (list Q) * list (list Q) * Q * list Q)%type.\n"
              "Definition o_agrees (tol : Q) (c : ocase) : bool :=\n"
              "  let '(es, ds, v, fm) := c in\n"
              "  let e k := v2 (nth k es []) in let d k := v2 (nth k ds []) in\n"
              "  let FM := lab_FM th30 (e 0%nat) (e 1%nat) (e 2%nat) (e 3%nat) in\n"
              "  all2 (rclose tol) [vx FM; vy FM; vz FM] fm &&\n"
              "  rclose tol (orient th30 (e 0%nat) (e 1%nat) (e 2%nat) (e 3%nat) (d 0%nat) (d 1%nat) (d 2%nat) (d 3%nat)) v.\n")
TOLQ = "(Qmake 1 100000000000)"


def run(chk, cases):
    gen_items, gen_meta, u_items, u_meta, o_items, o_meta = [], [], [], [], [], []
    x_items, x_meta, s_items, s_meta = [], [], [], []
    for c in cases:
        kind = c["kind"]
        chk.count("kind:" + kind)
        try:
            reset_manager()
            if kind == "gen":
                lit, ulit = run_gen(chk, c)
                gen_items.append(lit)
                gen_meta.append(c)
                if ulit:
                    u_items.append(ulit)
                    u_meta.append(c)
            elif kind == "orient":
                o_items.append(run_orient(chk, c))
                o_meta.append(c)
            elif kind == "calc":
                run_calc(chk, c)
            elif kind == "obj":
                x_items.append(run_obj(chk, c))
                x_meta.append(c)
            elif kind == "sel":
                lit = run_sel(chk, c)
                if lit:
                    s_items.append(lit)
                    s_meta.append(c)
        except Exception as e:
            import traceback
            chk.violation("%s:exception:%s" % (kind, type(e).__name__), "%s case raised %r (%s) on %s"
                          % (kind, e, traceback.format_exc().strip().split("\n")[-3:], json.dumps(c)), "monitor", c)
            chk.case(c, False)
    shards, index = [], []
    CG = 6
    for k in range(0, len(gen_items), CG):
        shards.append(cm.HEADER + IMPORTS + "Definition cs : list case12 := %s.\nEval vm_compute in (bad (case_agrees %s) cs).\n"
                      % (cm.clist(gen_items[k:k + CG]), TOLQ))
        index.append(("gen", k, CG, gen_meta))
    for k in range(0, len(u_items), CG):
        shards.append(cm.HEADER + IMPORTS + "Definition cs : list ucase := %s.\nEval vm_compute in (bad (ucase_agrees %s) cs).\n"
                      % (cm.clist(u_items[k:k + CG]), TOLQ))
        index.append(("usys", k, CG, u_meta))
    CO = 60
    for k in range(0, len(o_items), CO):
        shards.append(cm.HEADER + IMPORTS + ORIENT_DEF + "Definition cs : list ocase := %s.\nEval vm_compute in (bad (o_agrees %s) cs).\n"
                      % (cm.clist(o_items[k:k + CO]), TOLQ))
        index.append(("orient", k, CO, o_meta))
    CX = 40
    for k in range(0, len(x_items), CX):
        shards.append(cm.HEADER + IMPORTS + "Definition cs : list xocase := %s.\nEval vm_compute in (bad (xocase_agrees %s) cs).\n"
                      % (cm.clist(x_items[k:k + CX]), TOLQ))
        index.append(("object", k, CX, x_meta))
    for k in range(0, len(s_items), 100):
        shards.append(cm.HEADER + IMPORTS + "Definition cs : list selcase := %s.\nEval vm_compute in (bad (selcase_agrees %s) cs).\n"
                      % (cm.clist(s_items[k:k + 100]), TOLQ))
        index.append(("selection", k, 100, s_meta))
    results = cm.coq_eval(PID, shards)
    for (kind, k, ch, meta), (rc, out) in zip(index, results):
        if rc != 0:
            chk.violation("correspondence:coq_error", "coqc failed on %s cases: %s" % (kind, out[-800:]), "correspondence",
                          {"kind": kind}, found_input=False)
            continue
        badl = cm.parse_natlist(cm.parse_evals(out)[0])
        n = min(ch, len(meta) - k)
        chk.corr["cases"] += n
        chk.corr["disagreements"] += len(badl)
        for i in badl[:3]:
            chk.violation("correspondence:" + kind, "implementation differs from Model.C12 (%s) on %s" % (kind, json.dumps(meta[k + i])),
                          "correspondence", meta[k + i], found_input=False)


CORPUS = [
    # uncoupled dimer at a waiting time where the coherence |1><2| has evolved to -1 (cos(w_ab t2) < 0)
    {"kind": "calc", "ucoh": [[1, 2, -1.0, 0.0]], "en": [9, 11], "dip": [[1, 1, 0], [0, 2, 1]], "wd": [0.5, 1.0], "ga": [0.5, 0.5], "coup": [],
     "shape": "Gaussian", "pol": [[1, 0, 0]] * 4, "angles": [0.3, 1.1, 2.0], "reflect": False, "scale_pow": 1, "scale": 3.0, "perm": [1, 0]},
    # the four polarisation schemes on a dimer with perpendicular dipoles
    {"kind": "gen", "en": [9, 11], "dip": [[1, 0, 0], [0, 2, 0]], "wd": [0.5, 1.0], "ga": [0.25, 0.5], "coup": [], "umod": [],
     "pol": [[1, 0, 0], [1, 0, 0], [0, 1, 0], [0, 1, 0]], "dtol": 1e-12},
    {"kind": "gen", "en": [9, 11, 12], "dip": [[1, 1, 0], [0, 2, 1], [1, 0, -1]], "wd": [0.5, 1.0, 0.75], "ga": [0.25, 0.5, 0.5],
     "coup": [[0, 1, 0.5], [1, 2, -0.5]], "umod": [], "pol": [[1, 0, 0]] * 4, "dtol": 1e-12},
    {"kind": "orient", "pol": [[1, 0, 0]] * 4, "dip": [[1, 0, 0]] * 4, "sides": [1, 1, 1, 1]},          # 1/5
    {"kind": "orient", "pol": [[1, 0, 0], [1, 0, 0], [0, 1, 0], [0, 1, 0]], "dip": [[0, 0, 1]] * 4, "sides": [-1, 1, 1, 1]},   # 1/15
    # Lorentzian lines, unequal dephasings, uncoupled dimer (recorded finding)
    {"kind": "calc", "en": [9, 11], "dip": [[1, 1, 0], [0, 2, 1]], "wd": [0.5, 1.0], "ga": [0.25, 1.0], "coup": [], "shape": "Lorentzian",
     "pol": [[1, 0, 0]] * 4, "angles": [0.3, 1.1, 2.0], "reflect": False, "scale_pow": 1, "scale": 3.0, "perm": [1, 0]},
    {"kind": "calc", "en": [9, 11, 12], "dip": [[1, 1, 0], [0, 2, 1], [1, 0, -1]], "wd": [0.5, 1.0, 0.75], "ga": [0.5, 0.5, 0.5], "coup": [],
     "shape": "Gaussian", "pol": [[1, 0, 0], [0, 1, 0], [1, 0, 0], [0, 1, 0]], "angles": [1.3, 0.4, 5.0], "reflect": True, "scale_pow": -1,
     "scale": 0.7, "perm": [2, 0, 1]},
]


def main():
    chk = cm.Check(PID, args.tier)
    chk.rule = ("pathway-list cases: N in {1,2,3} two-level molecules, integer energies and dipoles in internal units, widths and "
                "dephasings, couplings zero or not, dark molecules, degenerate energies, synthetic evolution superoperators (complex "
                "coherence factors, population transfer, vanishing elements) for uncoupled ones; orientational cases: integer "
                "polarisation and dipole four-tuples; calculator cases: dimers/trimers, Gaussian/Lorentzian, rotations (proper and "
                "improper), scale factors, relabellings. Non-trivial: >= 4 pathways / non-zero average with distinct polarisations / "
                "non-zero spectrum with ESA; distinct by canonical input. Object cases: programs of calls on real liouville_pathway "
                "objects (six diagrams, random states, 0-2 perturbations; non-trivial: completes with >= 4 calls); selection cases: "
                "calculate_pathway with recording line shapes (non-trivial: a default is selected)")
    chk.assumptions = [
        "numpy.linalg.eigh (Aggregate.diagonalize, eigenbasis_of) is an oracle: the model runs on the observed exciton-basis HH, DD, D2, "
        "rho0, eUt2 and width/dephasing tables",
        "line shapes (cvoigt/erfcx, lorentzian) are oracles: the theorems hold for every line-shape function",
        "thresholds D2 > sqrt(D2_max)*dtol, rho0 > ptol, |evf| > etol enter the model as flags computed from the observed numbers",
        "tolerance of the correspondence 1e-11 relative (integers, names, transitions, signs exact); monitors 1e-10 relative "
        "(rotations by float matrices), 1e-12 for total = R + NR, exact for scaling by powers of two; calculator tolerances are relative "
        "to the input scale sum_pathways max|line shape| x max|d|^4 x |e0||e1||e2||e3| / 5 (does not vanish with the prefactors), "
        "absolute floor 1e-290",
        "static tie: the generators, liouville_pathways_3T's dispatch, the liouville_pathway methods, LabSetup's M4 / F4e / F4eM4 and the "
        "calculator's selection are translated from the current source (harness/translate_c12.py: recursive statement translator and "
        "statement templates with holes; fail-closed) and proved equal to Model/C12.v / C12x.v in a generated file; the translator is "
        "trusted to read the ast faithfully; glue statements (thresholds, evolution superoperator in the eigenbasis) are matched verbatim",
        "cited mathematics: the icosahedral rotation group is a 5-design on SO(3), hence its average of a quartic form equals the Haar "
        "average; monitored against an Euler-angle product quadrature that is exact for degree 4",
    ]
    chk.prove()
    import translate
    translate.static_tie(cm, chk, PID, cm.REPO)      # second, static tie: model regenerated from the current source
    if args.replay:
        rep = json.load(open(args.replay))
        cases = [rep["input"]] if isinstance(rep.get("input"), dict) and "kind" in rep["input"] else []
    else:
        r = cm.rng(PID)
        ng, no, nc = (42, 120, 10) if args.tier == "quick" else (400, 1500, 90)
        nx, ns = (150, 60) if args.tier == "quick" else (3000, 600)
        cases = [dict(c) for c in CORPUS]
        cases += [gen_system(r, k, args.tier) for k in range(ng)]
        cases += [gen_orient(r, k) for k in range(no)]
        cases += [gen_calc(r, k, args.tier) for k in range(nc)]
        r2 = cm.rng(PID + "-object")       # a separate stream: the earlier cases stay what they were
        cases += [gen_obj(r2, k) for k in range(nx)]
        cases += [gen_sel(r2, k) for k in range(ns)]
    run(chk, cases)
    chk.finish()


main()
