# -*- coding: utf-8 -*-
"""C17 - population (master-equation) dynamics conserve and match the exponential.

Proof: coq/theories/Props/C17.v.   Tie: random set_rate histories on integer matrices compared exactly
with Model.C17.run_ops inside Coq; short-exp propagation compared with the model run over exact
rationals (Qc) within 1e-11; monitors: column sums, last assigned values, conservation,
non-negativity for admissible steps, distance to scipy's expm within the truncation bound,
get_PropagationMatrix against expm on compatible (shifted) sub-axes.
"""
import os
import sys
import json
import math
from fractions import Fraction

sys.path.insert(0, os.path.dirname(os.path.abspath(__file__)))
import common as cm

PID = "C17"
work = cm.reexec_isolated(PID)
args = cm.parse_args(sys.argv[1:])


# ------------------------------------------------------------------ generators
def gen_hist(r, k):
    n = r.choice([1, 2, 2, 3, 3, 4, 5])
    if r.random() < 0.5:
        init = None
    else:
        init = [[r.randint(-4, 6) for _ in range(n)] for _ in range(n)]
    nops = r.choice([0, 1, 3, 6, 10, 18, 25])
    ops = []
    hot = [(r.randrange(n), r.randrange(n)) for _ in range(2)]
    for _ in range(nops):
        u = r.random()
        if u < 0.35 and n > 1:
            N, M = r.choice(hot)           # re-assign the same few positions again and again
        elif u < 0.80:
            N, M = r.randrange(n), r.randrange(n)
        elif u < 0.90:
            N, M = r.randrange(-n, n), r.randrange(-n, n)     # numpy-style negative indices
        else:
            N, M = r.randrange(-n - 2, n + 3), r.randrange(-n - 2, n + 3)   # possibly out of range
        v = r.choice([0, 0, 1, 2, 3, 5, 7, -1, r.randint(-5, 9)])
        ops.append([N, M, v])
    return {"kind": "hist", "n": n, "init": init, "ops": ops}


def gen_prop(r, k):
    n = r.choice([2, 3, 3, 4])
    rates = [[0] * n for _ in range(n)]
    for _ in range(r.randint(1, n * n)):
        a, b = r.randrange(n), r.randrange(n)
        if a != b:
            rates[a][b] = r.choice([1, 1, 2, 3, 4, 8]) if r.random() < 0.93 else -1
    dt = r.choice([Fraction(1, 8), Fraction(1, 16), Fraction(1, 4), Fraction(1, 64), Fraction(3, 16), Fraction(1, 2)])
    nsteps = r.randint(1, 6)
    p0 = [r.randint(0, 4) for _ in range(n)]
    if sum(p0) == 0:
        p0[0] = 1
    via = r.choice(["RateMatrix", "ndarray"])
    return {"kind": "prop", "n": n, "rates": rates, "dt": [dt.numerator, dt.denominator], "nsteps": nsteps,
            "p0": p0, "via": via}


def gen_pmat(r, k):
    n = r.choice([2, 3, 4])
    rates = [[0] * n for _ in range(n)]
    for a in range(n):
        for b in range(n):
            if a != b and r.random() < 0.7:
                rates[a][b] = r.choice([1, 2, 3, 5]) / r.choice([50.0, 100.0, 200.0])
    step = r.choice([1.0, 0.5, 2.0])
    length = r.choice([200, 400])
    mult = r.choice([1, 2, 5, 10])
    shift_pts = r.choice([0, 0, 2, 7, 12, 20, 38, 3])
    sublen = r.randint(2, 12)
    compatible = r.random() < 0.85
    start0 = r.choice([0.0, 0.0, 10.0, -5.0])
    return {"kind": "pmat", "n": n, "rates": rates, "start0": start0, "step": step, "length": length, "mult": mult,
            "shift_pts": shift_pts, "sublen": sublen, "compatible": compatible, "corr": [-1, 0, 1, 2][k % 4]}


# ------------------------------------------------------------------ implementation drivers
def impl_hist(c):
    import numpy
    from quantarhei.qm.liouvillespace.rates.ratematrix import RateMatrix
    n = c["n"]
    if c["init"] is None:
        rm = RateMatrix(dim=n)
        init = [[0] * n for _ in range(n)]
    else:
        rm = RateMatrix(data=numpy.array(c["init"], dtype=numpy.float64))
        init = c["init"]
    flags = []
    for (N, M, v) in c["ops"]:
        before = rm.data.copy()
        try:
            rm.set_rate((N, M), float(v))
            flags.append(False)
        except Exception:
            flags.append(True)
            if not numpy.array_equal(before, rm.data):
                return init, None, flags, "refused set_rate((%d,%d)) changed the matrix" % (N, M)
    return init, rm.data.copy(), flags, None


def monitor_hist(c, init, data, flags):
    import numpy
    n = c["n"]
    a0 = numpy.array(init, dtype=float)
    if not numpy.array_equal(data.sum(axis=0), a0.sum(axis=0)):
        return "column sums changed: %s -> %s" % (a0.sum(axis=0).tolist(), data.sum(axis=0).tolist())
    last = {}
    for (N, M, v), fl in zip(c["ops"], flags):
        if not fl:
            a, b = N % n, M % n
            if a != b:
                last[(a, b)] = v
    for a in range(n):
        for b in range(n):
            if a != b:
                want = last.get((a, b), a0[a, b])
                if data[a, b] != want:
                    return "off-diagonal (%d,%d) holds %r, last assigned %r" % (a, b, data[a, b], want)
    for (N, M, v), fl in zip(c["ops"], flags):
        valid = (-n <= N < n) and (-n <= M < n) and N != M
        if valid and fl:
            return "admissible set_rate((%d,%d)) was refused" % (N, M)
        if (N == M) and not fl:
            return "diagonal set_rate((%d,%d)) was accepted" % (N, M)
    return None


def build_K(c):
    import numpy
    from quantarhei.qm.liouvillespace.rates.ratematrix import RateMatrix
    n = c["n"]
    rm = RateMatrix(dim=n)
    for a in range(n):
        for b in range(n):
            if a != b and c["rates"][a][b] != 0:
                rm.set_rate((a, b), float(c["rates"][a][b]))
    return rm


def impl_prop(c):
    import numpy
    import quantarhei as qr
    from quantarhei.qm.propagators.poppropagator import PopulationPropagator
    rm = build_K(c)
    dt = c["dt"][0] / c["dt"][1]
    ta = qr.TimeAxis(0.0, c["nsteps"] + 1, dt)
    K = rm.data.copy()
    prop = PopulationPropagator(ta, rate_matrix=(rm if c["via"] == "RateMatrix" else rm.data))
    p0 = numpy.array(c["p0"], dtype=float)
    p0c = p0.copy()
    pops = prop.propagate(p0 if c["via"] == "RateMatrix" else list(c["p0"]))
    if not numpy.array_equal(p0, p0c) or not numpy.array_equal(K, rm.data):
        raise AssertionError("inputs changed by propagate")
    # re-use of the propagator: another state in between, then the same call again must give the same populations
    other = numpy.roll(p0, 1) * 2.0
    prop.propagate(other)
    again = prop.propagate(p0 if c["via"] == "RateMatrix" else list(c["p0"]))
    if not numpy.array_equal(numpy.asarray(again), numpy.asarray(pops)):
        raise AssertionError("the same propagate call on the re-used propagator gives different populations (max deviation %g)"
                             % numpy.max(numpy.abs(numpy.asarray(again) - numpy.asarray(pops))))
    return K, pops


def monitor_prop(c, K, pops):
    import numpy
    import scipy.linalg
    n = c["n"]
    dt = c["dt"][0] / c["dt"][1]
    s0 = float(sum(c["p0"]))
    if pops.shape != (c["nsteps"] + 1, n):
        return "result has shape %s" % (pops.shape,)
    dev = numpy.max(numpy.abs(pops.sum(axis=1) - s0))
    # conservation is exact in exact arithmetic (theorem); in floats the rounding error scales with the largest entry, which
    # grows without bound for inadmissible steps (dt |K| >> 1) - the tolerance is therefore relative to it
    if dev > 1e-12 * max(1.0, s0, float(numpy.max(numpy.abs(pops))) * pops.shape[1]):
        return "sum of populations drifts by %g" % dev
    offd = K - numpy.diag(numpy.diag(K))
    admissible = (offd >= 0).all() and dt * numpy.max(numpy.abs(numpy.diag(K))) <= 1.0
    if admissible:
        if pops.min() < -1e-14:
            return "negative population %g for an admissible step (dt*max|Kii| = %g)" % (
                pops.min(), dt * numpy.max(numpy.abs(numpy.diag(K))))
        x = dt * numpy.linalg.norm(K, 1)
        bound = (x ** 5 / 120.0) * math.exp(x) * s0
        for i in range(pops.shape[0]):
            ex = scipy.linalg.expm(K * dt * i).dot(numpy.array(c["p0"], dtype=float))
            err = numpy.abs(pops[i] - ex).sum()
            if err > i * bound * 1.0000001 + 1e-12:
                return "stored state %d differs from expm(K t)p0 by %g > truncation bound %g" % (i, err, i * bound)
    return None


def impl_pmat(c):
    import numpy
    import scipy.linalg
    import quantarhei as qr
    from quantarhei.qm.propagators.poppropagator import PopulationPropagator
    rm = build_K(c)
    K = rm.data.copy()
    ta = qr.TimeAxis(c["start0"], c["length"], c["step"])
    substep = c["step"] * c["mult"]
    substart = c["start0"] + c["shift_pts"] * c["step"]
    if not c["compatible"]:
        substart += 0.3 * c["step"]
    ts = qr.TimeAxis(substart, c["sublen"], substep)
    prop = PopulationPropagator(ta, rate_matrix=rm)
    inside = (c["shift_pts"] + (c["sublen"] - 1) * c["mult"]) <= c["length"] - 1 and c["shift_pts"] < c["length"] - 1
    expect_ok = c["compatible"] and inside
    corr = c.get("corr", -1)            # the option that also returns the expansion in orders of the transfer rates
    kw = {} if corr < 0 else {"corrections": corr, "exact": corr > 0}
    try:
        U = prop.get_PropagationMatrix(ts, **kw)
        if corr >= 0:
            U = U[0]                    # the propagation matrix itself; the correction terms are not judged
    except Exception as e:
        if expect_ok:
            return "compatible sub-axis refused: %r" % (e,)
        return None
    if not expect_ok:
        return "incompatible sub-axis (start %g step %g len %d) accepted" % (substart, substep, c["sublen"])
    for i in range(c["sublen"]):
        t = (substart - c["start0"]) + i * substep
        ex = scipy.linalg.expm(K * t)
        err = numpy.max(numpy.abs(U[:, :, i] - ex))
        if err > 1e-9:
            return "U[:,:,%d] differs from expm(K*%g) by %g (sub-axis start %g, step %g)" % (i, t, err, substart, substep)
    if not numpy.array_equal(K, rm.data):
        return "rate matrix changed by get_PropagationMatrix (corrections=%d)" % corr
    # the propagator itself is as it was: propagating with it afterwards gives what a fresh propagator gives
    p0 = numpy.zeros(K.shape[0])
    p0[0] = 1.0
    fresh = PopulationPropagator(qr.TimeAxis(c["start0"], c["length"], c["step"]), rate_matrix=build_K(c)).propagate(p0)
    used = prop.propagate(p0)
    if not numpy.array_equal(numpy.asarray(fresh), numpy.asarray(used)):
        return "propagate() after get_PropagationMatrix (corrections=%d) differs from a fresh propagator's by %g" % (
            corr, float(numpy.max(numpy.abs(numpy.asarray(fresh) - numpy.asarray(used)))))
    U2 = prop.get_PropagationMatrix(ts)
    if not numpy.array_equal(U, U2):
        return "repeated get_PropagationMatrix on the same propagator differs by %g" % numpy.max(numpy.abs(U - U2))
    return None


# ------------------------------------------------------------------ run
def run(chk, cases):
    hist_items, hist_meta, prop_items, prop_meta = [], [], [], []
    for c in cases:
        kind = c["kind"]
        chk.count("kind:" + kind)
        try:
            if kind == "hist":
                init, data, flags, err = impl_hist(c)
                chk.count("ops:%d" % len(c["ops"]))
                chk.count("refused", sum(flags))
                if err:
                    chk.violation("set_rate:refused_changed", err, "monitor", c)
                    chk.case(c, False)
                    continue
                msg = monitor_hist(c, init, data, flags)
                if msg:
                    chk.violation("set_rate:" + msg.split(":")[0].split(" (")[0].replace(" ", "_")[:40], "RateMatrix history: " + msg, "monitor", c)
                import numpy
                if not numpy.array_equal(data, numpy.round(data)):
                    raise AssertionError("non-integer data from integer history")
                lit = "(%d%%nat, %s, %s, %s, %s)" % (
                    c["n"], cm.clist([cm.clist([cm.zlit(x) for x in row]) for row in init]),
                    cm.clist(["((%s,%s),%s)" % (cm.zlit(N), cm.zlit(M), cm.zlit(v)) for (N, M, v) in c["ops"]]),
                    cm.clist([cm.clist([cm.zlit(int(x)) for x in row]) for row in data]),
                    cm.clist(["true" if f else "false" for f in flags]))
                hist_items.append(lit)
                hist_meta.append(c)
                nontriv = len([1 for f in flags if not f]) >= 2 and c["n"] >= 2
                chk.case(c, nontriv, sample={"case": c, "final": data.tolist(), "raised": flags})
            elif kind == "prop":
                K, pops = impl_prop(c)
                msg = monitor_prop(c, K, pops)
                if msg:
                    chk.violation("propagate:" + msg.split(" ")[0], "PopulationPropagator.propagate: " + msg, "monitor", c)
                dt = Fraction(c["dt"][0], c["dt"][1])
                # tolerance relative to the largest stored entry (inadmissible steps make the values grow without bound)
                import numpy
                lit = "(%s, (%d%%nat, %s, %s, %d%%nat, %s, %s))" % (
                    cm.qlit(1e-11 * max(1.0, float(numpy.max(numpy.abs(pops))))),
                    c["n"], cm.clist([cm.clist([cm.qlit(x) for x in row]) for row in K]), cm.qlit(dt), c["nsteps"],
                    cm.clist([cm.qlit(x) for x in c["p0"]]),
                    cm.clist([cm.clist([cm.qlit(x) for x in row]) for row in pops]))
                prop_items.append(lit)
                prop_meta.append(c)
                chk.case(c, True, sample={"case": c, "last": pops[-1].tolist()})
            elif kind == "pmat":
                msg = impl_pmat(c)
                if msg:
                    chk.violation("propagation_matrix:" + msg.split(" ")[0], "get_PropagationMatrix: " + msg, "monitor", c)
                chk.case(c, c["shift_pts"] != 0 or c["mult"] > 1)
        except Exception as e:
            chk.violation("%s:exception" % kind, "%s case raised %r" % (kind, e), "monitor", c)
            chk.case(c, False)

    shards, index = [], []
    CH = 150
    for k in range(0, len(hist_items), CH):
        shards.append(cm.HEADER + "From QV Require Import Base.Alg Base.Util Model.C17.\n"
                      "Definition cs : list case_hist := %s.\nEval vm_compute in (bad hist_agrees cs).\n"
                      % cm.clist(hist_items[k:k + CH]))
        index.append(("hist", k))
    CP = 6
    for k in range(0, len(prop_items), CP):
        shards.append(cm.HEADER + "From QV Require Import Base.Alg Base.Util Model.C17.\n"
                      "Definition cs : list (Q * case_prop) := %s.\n"
                      "Eval vm_compute in (bad (fun p => prop_agrees (fst p) (snd p)) cs).\n"
                      "Eval vm_compute in (bad (fun p => prop_conserves (snd p)) cs).\n" % cm.clist(prop_items[k:k + CP]))
        index.append(("prop", k))
    results = cm.coq_eval(PID, shards)
    for (kind, k), (rc, out) in zip(index, results):
        if rc != 0:
            chk.violation("correspondence:coq_error", "coqc failed on %s cases: %s" % (kind, out[-600:]), "correspondence",
                          {"kind": kind}, found_input=False)
            continue
        vals = cm.parse_evals(out)
        badl = cm.parse_natlist(vals[0])
        meta = hist_meta if kind == "hist" else prop_meta
        n = min(CH if kind == "hist" else CP, len(meta) - k)
        chk.corr["cases"] += n
        chk.corr["disagreements"] += len(badl)
        for i in badl[:3]:
            chk.violation("correspondence:" + kind, "implementation differs from Model.C17 on %s" % json.dumps(meta[k + i]),
                          "correspondence", meta[k + i], found_input=False)
        if kind == "prop":
            nc = cm.parse_natlist(vals[1])
            if nc:
                chk.violation("model:conservation", "model run does not conserve the population sum (theorem hypothesis "
                              "violated?) on %s" % json.dumps(meta[k + nc[0]]), "correspondence", meta[k + nc[0]], found_input=False)


def main():
    chk = cm.Check(PID, args.tier)
    chk.rule = ("random set_rate histories (n<=5, <=25 ops, repeated positions, zero values, negative and out-of-range "
                "indices, diagonal positions; constructor- and data-initialised matrices); propagation cases (n<=4, dt dyadic, "
                "<=6 steps); propagation-matrix cases with shifted/incompatible sub-axes. Non-trivial: >=2 accepted assignments "
                "on n>=2, every propagation case, sub-axis cases with shift or coarser step; distinct by canonical input")
    chk.assumptions = ["scipy.linalg.expm is the reference exponential for the validated (not proved) clauses",
                       "numpy.linalg.eig/inv inside get_PropagationMatrix are oracles: only the result is compared with expm (1e-9)",
                       "float64 arithmetic on small integers is exact (histories); propagation compared within 1e-11 with the model over Q"]
    chk.prove()
    import translate
    translate.static_tie(cm, chk, PID, cm.REPO)      # second, static tie: model regenerated from the current source
    if args.replay:
        rep = json.load(open(args.replay))
        cases = [rep["input"]] if isinstance(rep.get("input"), dict) and "kind" in rep["input"] else []
    else:
        r = cm.rng(PID)
        nh, npr, npm = (300, 36, 60) if args.tier == "quick" else (3000, 240, 600)
        cases = [gen_hist(r, k) for k in range(nh)] + [gen_prop(r, k) for k in range(npr)] + [gen_pmat(r, k) for k in range(npm)]
        # corpus: minimal witnesses of earlier/seeded failures run first
        cases = [{"kind": "hist", "n": 2, "init": None, "ops": [[1, 0, 5], [1, 0, 2]]},
                 {"kind": "pmat", "n": 2, "rates": [[0, 0.02], [0.01, 0]], "start0": 0.0, "step": 1.0, "length": 400,
                  "mult": 10, "shift_pts": 7, "sublen": 5, "compatible": True},
                 {"kind": "pmat", "n": 2, "rates": [[0, 0.02], [0.01, 0]], "start0": 0.0, "step": 1.0, "length": 400,
                  "mult": 10, "shift_pts": 0, "sublen": 5, "compatible": True, "corr": 0}] + cases
    run(chk, cases)
    chk.finish()


main()
