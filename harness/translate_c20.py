# -*- coding: utf-8 -*-
"""Static tie for C20, second generated file (GenC20b.v): the rest of quantarhei/core/parallel.py that Model/C20.v and
Model/C20regions.v transcribe.  `translate.calculate_ranges` (expression level) ties `_calculate_ranges`; this module
translates, STATEMENT BY STATEMENT,

  _calculate_ranges_list / _calculate_ranges_array            -> which (start, stop) they hand to _calculate_ranges
  block_distributed_range / _list / _array                    -> refusal guard, sharing condition, both return_index modes
  DistributedConfiguration.__init__ (level / region counters), start_parallel_region, finish_parallel_region
  DistributedConfiguration.reduce / allreduce                 -> refusal guard and the condition under which they sum
  start_parallel_region / close_parallel_region (module level) -> which method they call, verbosity restored

with a small fail-closed translator of imperative integer code (`Imp`): assignments and augmented assignments become
`let`s, `if`/`else` becomes a Gallina `if` with the rest of the function duplicated into both branches, `raise` and
`return` end a path, the accumulate idiom `lst = []; for a in range(..): lst.append((e1, seq[e2]))` becomes `map` over
`zrange`.  Every statement or expression outside this fragment raises Untranslatable.  The generated definitions are then
proved equal to the hand-written model (`helper`, `api_block`, `list_block`, `array_block`, `reduce_mode`, `r_step`) by
the tactic `decide_tree` of Proofs/C20gen.v (case split on every condition, linear arithmetic for the impossible cases).
"""
import ast
import os

import translate
from translate import Untranslatable, Expr, _src_of
from translate2 import _strip

PARALLEL = "/quantarhei/core/parallel.py"


def _u(node):
    return ast.unparse(node)


class ZE(Expr):
    """integer expressions, extended by: elements of a two-element list variable (rng[0], rng[1]), the length of the
    distributed sequence (len(dlist), array.shape[0]), boolean parameters in conditions"""

    def __init__(self, names, attrs=None, bools=(), seq=None, lenterm="len", cond_texts=None):
        Expr.__init__(self, "Z", names, attrs=attrs or {})
        self.kind = {n: "Z" for n in names}       # python name -> 'Z' | 'pair' | 'list'
        self.bools = dict(bools)                  # python expression text -> Coq bool term
        self.seq = seq                            # name of the distributed list / array parameter
        self.lenterm = lenterm
        self.cond_texts = dict(cond_texts or {})  # whitelisted condition texts -> Coq bool term

    def fork(self):
        c = ZE(self.names, self.attrs, self.bools, self.seq, self.lenterm, self.cond_texts)
        c.kind = dict(self.kind)
        return c

    def bind(self, pyname, kind):
        coq = "v_" + pyname
        self.names[pyname] = coq
        self.kind[pyname] = kind
        return coq

    def e(self, node):
        if isinstance(node, ast.Name):
            if self.kind.get(node.id, "Z") != "Z":
                raise Untranslatable("%s is not an integer here" % node.id)
            return Expr.e(self, node)
        if isinstance(node, ast.Subscript) and isinstance(node.value, ast.Name) and self.kind.get(node.value.id) == "pair":
            i = node.slice
            if isinstance(i, ast.UnaryOp) and isinstance(i.op, ast.USub) and isinstance(i.operand, ast.Constant):
                iv = -i.operand.value
            elif isinstance(i, ast.Constant):
                iv = i.value
            else:
                raise Untranslatable("index %s of a two-element list" % _u(i))
            if iv in (0, -2) and not isinstance(iv, bool):
                return "(fst %s)" % self.names[node.value.id]
            if iv in (1, -1) and not isinstance(iv, bool):
                return "(snd %s)" % self.names[node.value.id]
            raise Untranslatable("index %r of a two-element list" % (iv,))
        if self.seq is not None:
            if isinstance(node, ast.Call) and _u(node) == "len(%s)" % self.seq:
                return self.lenterm
            if isinstance(node, ast.Subscript) and _u(node) == "%s.shape[0]" % self.seq:
                return self.lenterm
        return Expr.e(self, node)

    def b(self, node):
        key = _u(node)
        if key in self.bools:
            return self.bools[key]
        if key in self.cond_texts:
            return self.cond_texts[key]
        return Expr.b(self, node)


class Imp:
    """imperative integer code -> Gallina term (continuation style).  Subclasses provide the path ends:
    on_raise(), on_return(node), on_end(), value_call(call) and effect(call)."""

    def __init__(self, ex, state=None, skip=(), dead=(), opaque=None):
        self.ex = ex
        self.state = dict(state or {})      # text of an assignable attribute -> Coq variable holding it
        self.skip = set(skip)               # exact statement texts without a modelled effect
        self.dead = set(dead)               # condition texts known to be constantly False
        self.opaque = dict(opaque or {})    # tuple of statement texts (a whole block) -> terminal term

    # ---- path ends, to be overridden
    def on_raise(self):
        raise Untranslatable("raise")

    def on_return(self, node):
        raise Untranslatable("return %s" % (_u(node) if node is not None else ""))

    def on_end(self):
        raise Untranslatable("the function can fall off its end")

    def value_call(self, call):
        return None

    def effect(self, call):
        return None

    # ---- values
    def value(self, node):
        """-> (Coq term, kind)"""
        if isinstance(node, ast.List):
            if len(node.elts) == 0:
                return "[]", "list"
            if len(node.elts) == 2:
                return "(%s, %s)" % (self.ex.e(node.elts[0]), self.ex.e(node.elts[1])), "pair"
            raise Untranslatable("list literal %s" % _u(node))
        if isinstance(node, ast.Call):
            r = self.value_call(node)
            if r is not None:
                return r
        if isinstance(node, ast.Name) and self.ex.kind.get(node.id) in ("pair", "list"):
            return self.ex.names[node.id], self.ex.kind[node.id]
        return self.ex.e(node), "Z"

    def _target(self, t):
        """assignable place -> (python key, is_state)"""
        if isinstance(t, ast.Name):
            return t.id, False
        key = _u(t)
        if key in self.state:
            return key, True
        raise Untranslatable("assignment to %s" % key)

    def _assign(self, key, is_state, term, kind, rest, k):
        if is_state:
            if kind != "Z":
                raise Untranslatable("%s assigned a non-integer" % key)
            coq = self.state[key]
        else:
            coq = self.ex.bind(key, kind)
        return "let %s := %s in\n  %s" % (coq, term, self.block(rest, k))

    def _read(self, key, is_state):
        if is_state:
            return self.state[key]
        if self.ex.kind.get(key) != "Z":
            raise Untranslatable("%s is not an integer variable" % key)
        return self.ex.name(key)

    # ---- statements
    def block(self, stmts, k):
        stmts = _strip(stmts)
        texts = tuple(_u(s) for s in stmts)
        if texts in self.opaque:
            return self.opaque[texts]
        if not stmts:
            return k()
        s, rest = stmts[0], stmts[1:]
        text = _u(s)
        if text in self.skip or isinstance(s, (ast.Import, ast.ImportFrom)):
            return self.block(rest, k)
        if isinstance(s, ast.Assign) and len(s.targets) == 1:
            key, is_state = self._target(s.targets[0])
            term, kind = self.value(s.value)
            return self._assign(key, is_state, term, kind, rest, k)
        if isinstance(s, ast.AugAssign) and isinstance(s.op, (ast.Add, ast.Sub)):
            key, is_state = self._target(s.target)
            cur = self._read(key, is_state)
            term = "(%s %s %s)" % (cur, "+" if isinstance(s.op, ast.Add) else "-", self.ex.e(s.value))
            return self._assign(key, is_state, term, "Z", rest, k)
        if isinstance(s, ast.If):
            if _u(s.test) in self.dead:
                return self.block(list(s.orelse) + rest, k)
            c = self.ex.b(s.test)
            saved = self.ex
            self.ex = saved.fork()
            thn = self.block(list(s.body) + rest, k)
            self.ex = saved.fork()
            els = self.block(list(s.orelse) + rest, k)
            self.ex = saved
            return "(if %s\n   then %s\n   else %s)" % (c, thn, els)
        if isinstance(s, ast.Raise):
            return self.on_raise()
        if isinstance(s, ast.Return):
            return self.on_return(s.value)
        if isinstance(s, ast.For):
            return self._accumulate(s, rest, k)
        if isinstance(s, ast.Expr) and isinstance(s.value, ast.Call):
            r = self.effect(s.value)
            if r is not None:
                coq, term = r
                return "let %s := %s in\n  %s" % (coq, term, self.block(rest, k))
        raise Untranslatable("statement %s" % text[:100])

    def _accumulate(self, s, rest, k):
        """for a in range(..): lst.append((e1, seq[e2]))   ->   lst := lst ++ map (fun a => (e1, e2)) (zrange lo hi)"""
        if s.orelse or not isinstance(s.target, ast.Name):
            raise Untranslatable("loop %s" % _u(s)[:80])
        it = s.iter
        if not (isinstance(it, ast.Call) and isinstance(it.func, ast.Name) and it.func.id == "range" and not it.keywords
                and len(it.args) in (1, 2)):
            raise Untranslatable("loop iterator %s" % _u(it))
        lo = "(0)" if len(it.args) == 1 else self.ex.e(it.args[0])
        hi = self.ex.e(it.args[-1])
        body = _strip(s.body)
        if not (len(body) == 1 and isinstance(body[0], ast.Expr) and isinstance(body[0].value, ast.Call)):
            raise Untranslatable("loop body %s" % _u(s)[:80])
        call = body[0].value
        f = call.func
        if not (isinstance(f, ast.Attribute) and f.attr == "append" and isinstance(f.value, ast.Name)
                and self.ex.kind.get(f.value.id) == "list" and len(call.args) == 1 and not call.keywords):
            raise Untranslatable("loop body %s" % _u(call)[:80])
        item = call.args[0]
        if not (isinstance(item, ast.Tuple) and len(item.elts) == 2):
            raise Untranslatable("appended item %s" % _u(item))
        second = item.elts[1]
        if not (isinstance(second, ast.Subscript) and isinstance(second.value, ast.Name) and second.value.id == self.ex.seq):
            raise Untranslatable("appended value %s" % _u(second))
        inner = self.ex.fork()
        a = inner.bind(s.target.id, "Z")
        pair = "(%s, %s)" % (inner.e(item.elts[0]), inner.e(second.slice))
        lst = self.ex.names[f.value.id]
        term = "(%s ++ map (fun %s => %s) (zrange %s %s))" % (lst, a, pair, lo, hi)
        return "let %s := %s in\n  %s" % (lst, term, self.block(rest, k))


def _body(fn):
    return _strip(fn.body)


# ----------------------------------------------------------------------------------------------- helpers
CONF_ATTRS = {"config.parallel_region": "region", "config.parallel_level": "level", "config.size": "size", "config.rank": "rank"}
GETCONF = "config = Manager().get_DistributedConfiguration()"


class _RangesOf(Imp):
    """_calculate_ranges_list / _array: the function must end in `return _calculate_ranges(config, a, b)`"""

    def on_return(self, node):
        if not (isinstance(node, ast.Call) and _u(node.func) == "_calculate_ranges" and len(node.args) == 3 and not node.keywords
                and _u(node.args[0]) == "config"):
            raise Untranslatable("return %s" % _u(node))
        return "gen_range_of size %s %s rank" % (self.ex.e(node.args[1]), self.ex.e(node.args[2]))


def ranges_of(repo, fname, seqname, gname):
    fn = _src_of(repo + PARALLEL, fname)
    if [a.arg for a in fn.args.args] != ["config", seqname]:
        raise Untranslatable("%s signature" % fname)
    ex = ZE({}, attrs=CONF_ATTRS, seq=seqname)
    t = _RangesOf(ex).block(_body(fn), _no_end(fname))
    return ("Definition %s (size len rank : Z) : Z * Z :=\n  %s.\n"
            "Lemma %s_is_model : forall size len rank, %s size len rank = range_of FromStart size 0 len rank.\n"
            "Proof. intros. unfold %s. cbv zeta. rewrite gen_range_of_is_model. f_equal; lia. Qed.\n" % (gname, t, gname, gname, gname))


class _Helper(Imp):
    def __init__(self, ex, ranges_fn=None):
        Imp.__init__(self, ex, skip={GETCONF, "config.inparallel_entered = True", "config.range = rng"})
        self.ranges_fn = ranges_fn          # (python function name, generated name) for the list / array variants

    def on_raise(self):
        return "ORaised"

    def on_end(self):
        raise Untranslatable("a block-distribution helper falls off its end (returns None)")

    def value_call(self, call):
        f = _u(call.func)
        if call.keywords or not call.args or _u(call.args[0]) != "config":
            return None
        if f == "_calculate_ranges" and len(call.args) == 3:
            return "(gen_range_of size %s %s rank)" % (self.ex.e(call.args[1]), self.ex.e(call.args[2])), "pair"
        if self.ranges_fn and f == self.ranges_fn[0] and len(call.args) == 2 and _u(call.args[1]) == self.ex.seq:
            return "(%s size %s rank)" % (self.ranges_fn[1], self.ex.lenterm), "pair"
        return None

    def on_return(self, node):
        ex = self.ex
        if isinstance(node, ast.Call) and isinstance(node.func, ast.Name) and node.func.id == "range" and not node.keywords \
                and len(node.args) in (1, 2):
            lo = "(0)" if len(node.args) == 1 else ex.e(node.args[0])
            return "ORange (zrange %s %s)" % (lo, ex.e(node.args[-1]))
        if isinstance(node, ast.Name) and ex.kind.get(node.id) == "list":
            return "OIndexed %s" % ex.names[node.id]
        if ex.seq is not None and isinstance(node, ast.Name) and node.id == ex.seq:
            return "OItems (zrange 0 %s)" % ex.lenterm
        if ex.seq is not None and isinstance(node, ast.Subscript) and isinstance(node.value, ast.Name) and node.value.id == ex.seq \
                and isinstance(node.slice, ast.Slice) and node.slice.step is None:
            lo = "(0)" if node.slice.lower is None else ex.e(node.slice.lower)
            hi = ex.lenterm if node.slice.upper is None else ex.e(node.slice.upper)
            return "OItems (pyslice %s %s %s)" % (ex.lenterm, lo, hi)
        raise Untranslatable("return %s" % (_u(node) if node is not None else "None"))


def _no_end(name):
    def k():
        raise Untranslatable("%s can fall off its end" % name)
    return k


def helper_range(repo):
    fn = _src_of(repo + PARALLEL, "block_distributed_range")
    if [a.arg for a in fn.args.args] != ["start", "stop"] or fn.args.defaults:
        raise Untranslatable("block_distributed_range signature")
    ex = ZE({"start": "start", "stop": "stop"}, attrs=CONF_ATTRS)
    t = _Helper(ex).block(_body(fn), _no_end("block_distributed_range"))
    return ("Definition gen_bdr (region level size start stop rank : Z) : outcome :=\n  %s.\n"
            "Lemma gen_bdr_is_model : forall region level size start stop rank,\n"
            "  gen_bdr region level size start stop rank = as_range (helper region level FromStart size start stop rank).\n"
            "Proof.\n  intros. unfold gen_bdr, helper, api_block, as_range. cbv zeta.\n"
            "  rewrite ?gen_range_of_is_model, ?block_as_zrange. decide_tree.\nQed.\n" % t)


def helper_seq(repo, fname, seqname, rfn, gname):
    fn = _src_of(repo + PARALLEL, fname)
    if [a.arg for a in fn.args.args] != [seqname, "return_index"] or len(fn.args.defaults) != 1 or _u(fn.args.defaults[0]) != "False":
        raise Untranslatable("%s signature" % fname)
    ex = ZE({}, attrs=CONF_ATTRS, bools={"return_index": "return_index"}, seq=seqname)
    t = _Helper(ex, rfn).block(_body(fn), _no_end(fname))
    return ("Definition %(g)s (return_index : bool) (region level size len rank : Z) : outcome :=\n  %(t)s.\n"
            "Lemma %(g)s_is_model : forall ri region level size len rank, 1 <= size -> 0 <= len -> 0 <= rank < size ->\n"
            "  %(g)s ri region level size len rank = as_items ri (helper region level FromStart size 0 len rank).\n"
            "Proof.\n  intros ri region level size len rank Hs Hl Hr. unfold %(g)s, helper, api_block, as_items. cbv zeta.\n"
            "  rewrite ?%(r)s_is_model, ?gen_range_of_is_model, ?block_as_zrange, ?(slice_is_block size len rank Hs Hl Hr), ?(pyslice_whole len Hl), ?app_nil_map.\n"
            "  decide_tree.\nQed.\n" % {"g": gname, "t": t, "r": rfn[1]})


HELPERS_TAIL = """(* in the sharing level of a declared region the two sequence helpers hand out exactly the blocks the partition theorems
   (c20_list_and_array_helpers) are about, in both return_index modes *)
Lemma gen_seq_helpers_hand_out_blocks : forall ri region size len rank, 1 <= region -> 1 <= size -> 0 <= len -> 0 <= rank < size ->
  gen_bdl ri region 1 size len rank = as_items ri (Handed (list_block FromStart size len rank)) /\\
  gen_bda ri region 1 size len rank = as_items ri (Handed (array_block true FromStart size len rank)).
Proof.
  intros ri region size len rank Hg Hs Hl Hr. rewrite gen_bdl_is_model, gen_bda_is_model by assumption.
  unfold helper, api_block, list_block, array_block. destruct (region <? 1) eqn:E; [lia|]. split; reflexivity.
Qed.
"""


# ----------------------------------------------------------------------------------------------- regions
class _Region(Imp):
    def on_raise(self):
        return "(level, region, true)"

    def on_end(self):
        return "(level, region, false)"

    def on_return(self, node):
        raise Untranslatable("return inside a region method")


def _constant_false_attr(repo, cls, attr):
    """`self.<attr>` is assigned exactly once in the module, in <cls>.__init__, the constant False"""
    tree = ast.parse(open(repo + PARALLEL).read())
    stores = [n for n in ast.walk(tree) if isinstance(n, ast.Attribute) and n.attr == attr and isinstance(n.ctx, ast.Store)]
    init = _src_of(repo + PARALLEL, cls + ".__init__")
    ok = [s for s in _body(init) if isinstance(s, ast.Assign) and _u(s) == "self.%s = False" % attr]
    if len(stores) != 1 or len(ok) != 1:
        raise Untranslatable("self.%s is not the constant False (stores: %d)" % (attr, len(stores)))
    # nothing outside the class body may set it through another name either (setattr / __dict__): fail closed on any such text
    src = open(repo + PARALLEL).read()
    if "setattr(" in src or "__dict__" in src:
        raise Untranslatable("setattr/__dict__ in parallel.py")


def regions(repo):
    cls = "DistributedConfiguration"
    _constant_false_attr(repo, cls, "use_steerer")
    out = []
    attrs = {"self.size": "size", "self.rank": "rank", "self.parallel_level": "level", "self.parallel_region": "region"}
    state = {"self.parallel_level": "level", "self.parallel_region": "region"}
    for meth, g, op in (("start_parallel_region", "gen_start", "RStart"), ("finish_parallel_region", "gen_finish", "RFinish")):
        fn = _src_of(repo + PARALLEL, cls + "." + meth)
        if [a.arg for a in fn.args.args] != ["self"]:
            raise Untranslatable("%s signature" % meth)
        ex = ZE({}, attrs=attrs, bools={"self.have_mpi": "have_mpi"})
        imp = _Region(ex, state=state, skip={"self.inparallel = True", "self.comm.Barrier()"}, dead={"self.use_steerer"})
        t = imp.block(_body(fn), imp.on_end)
        out.append("Definition %(g)s (have_mpi : bool) (size level region : Z) : Z * Z * bool :=\n  %(t)s.\n"
                   "Lemma %(g)s_is_model : forall have_mpi size level region,\n"
                   "  %(g)s have_mpi size level region = step_triple (have_mpi && (1 <? size)) level region %(op)s.\n"
                   "Proof. intros. unfold %(g)s, step_triple, r_step. cbn [fst snd r_level r_region]. decide_tree. Qed.\n"
                   % {"g": g, "t": t, "op": op})
    # the counters a new configuration starts from
    init = _src_of(repo + PARALLEL, cls + ".__init__")
    vals = {}
    for n in ast.walk(init):
        if isinstance(n, ast.Attribute) and isinstance(n.ctx, ast.Store) and _u(n) in state:
            vals.setdefault(_u(n), 0)
            vals[_u(n)] += 1
    consts = {}
    for s in _body(init):
        if isinstance(s, ast.Assign) and len(s.targets) == 1 and _u(s.targets[0]) in state:
            consts[_u(s.targets[0])] = Expr("Z", {}).e(s.value)
    if vals != {"self.parallel_level": 1, "self.parallel_region": 1} or set(consts) != set(state):
        raise Untranslatable("__init__ does not set parallel_level and parallel_region exactly once, unconditionally")
    out.append("Definition gen_init_level : Z := %s.\nDefinition gen_init_region : Z := %s.\n"
               "Lemma gen_init_is_idle : mkR gen_init_level gen_init_region = mkR 0 0.\nProof. reflexivity. Qed.\n"
               % (consts["self.parallel_level"], consts["self.parallel_region"]))
    return "\n".join(out)


class _Wrapper(Imp):
    def on_end(self):
        return "(ops, verb, fverb)"

    def effect(self, call):
        f = _u(call.func)
        if call.args or call.keywords:
            return None
        if f == "dc.start_parallel_region":
            return "ops", "(ops ++ [RStart])"
        if f == "dc.finish_parallel_region":
            return "ops", "(ops ++ [RFinish])"
        return None


def wrappers(repo):
    out = []
    for fname, g in (("start_parallel_region", "gen_mstart"), ("close_parallel_region", "gen_mclose")):
        fn = _src_of(repo + PARALLEL, fname)
        if fn.args.args:
            raise Untranslatable("%s signature" % fname)
        ex = ZE({}, attrs={"dc.rank": "rank", "Manager().log_conf.verbosity": "verb", "Manager().log_conf.fverbosity": "fverb"})
        imp = _Wrapper(ex, state={"Manager().log_conf.verbosity": "verb", "Manager().log_conf.fverbosity": "fverb"},
                       skip={"dc = Manager().get_DistributedConfiguration()"})
        t = imp.block(_body(fn), imp.on_end)
        out.append("Definition %s (rank : Z) (ops : list rop) (verb fverb : Z) : list rop * Z * Z :=\n  %s.\n" % (g, t))
    out.append("(* the public wrappers call the matching method once, and a start / close pair leaves the log verbosity as it was *)\n"
               "Lemma gen_wrappers_are_model : forall rank verb fverb,\n"
               "  let s := gen_mstart rank [] verb fverb in let c := gen_mclose rank [] (snd (fst s)) (snd s) in\n"
               "  fst (fst s) = [RStart] /\\ fst (fst c) = [RFinish] /\\ snd (fst c) = verb /\\ snd c = fverb.\n"
               "Proof.\n  intros rank verb fverb. cbv zeta. unfold gen_mstart, gen_mclose. cbv zeta. split_ifs; cbn [fst snd app]; repeat split; try reflexivity; lia.\nQed.\n")
    return "\n".join(out)


# ----------------------------------------------------------------------------------------------- reductions
MPI_SUM = {
    "reduce": ("from mpi4py import MPI", "B = numpy.zeros(A.shape, dtype=A.dtype)", "self.comm.Reduce(A, B, op=MPI.SUM)", "return B"),
    "allreduce": ("from mpi4py import MPI", "B = numpy.zeros(A.shape, dtype=A.dtype)", "self.comm.Allreduce(A, B, op=MPI.SUM)", "A[:, :] = B"),
}


class _Reduce(Imp):
    def on_raise(self):
        return "QRaised"

    def on_return(self, node):
        if node is None or (isinstance(node, ast.Name) and node.id == "A"):
            return "QUntouched"
        raise Untranslatable("return %s" % _u(node))

    def on_end(self):
        raise Untranslatable("statements after the reduction")


def reductions(repo):
    out = []
    for meth in ("reduce", "allreduce"):
        fn = _src_of(repo + PARALLEL, "DistributedConfiguration." + meth)
        if [a.arg for a in fn.args.args] != ["self", "A", "operation"]:
            raise Untranslatable("%s signature" % meth)
        body = _body(fn)
        last = body[-1]
        if not (isinstance(last, ast.If) and _u(last.test) in ("operation == 'sum'", "'sum' == operation")):
            raise Untranslatable("%s does not end in the dispatch on the operation" % meth)
        ex = ZE({}, attrs={"self.parallel_region": "region", "self.parallel_level": "level"},
                cond_texts={"operation == 'sum'": "op_sum", "'sum' == operation": "op_sum"})
        imp = _Reduce(ex, opaque={MPI_SUM[meth]: "QSummed"})
        t = imp.block(body, imp.on_end)
        g = "gen_" + meth
        out.append("Definition %(g)s (op_sum : bool) (region level : Z) : routcome :=\n  %(t)s.\n"
                   "Lemma %(g)s_is_model : forall region level, %(g)s true region level = as_rmode (reduce_mode region level).\n"
                   "Proof. intros. unfold %(g)s, reduce_mode, as_rmode. decide_tree. Qed.\n" % {"g": g, "t": t})
    out.append("(* work is shared by the helpers exactly where the reductions sum: the condition of block_distributed_range is the\n"
               "   condition of reduce and allreduce *)\n"
               "Lemma gen_share_iff_summed : forall region level size start stop rank,\n"
               "  (gen_allreduce true region level = QSummed -> gen_reduce true region level = QSummed /\\\n"
               "     gen_bdr region level size start stop rank = ORange (block FromStart size start stop rank)) /\\\n"
               "  (gen_allreduce true region level = QUntouched -> gen_reduce true region level = QUntouched /\\\n"
               "     gen_bdr region level size start stop rank = ORange (zrange start stop)) /\\\n"
               "  (gen_allreduce true region level = QRaised -> gen_reduce true region level = QRaised /\\\n"
               "     gen_bdr region level size start stop rank = ORaised).\n"
               "Proof.\n  intros. rewrite gen_allreduce_is_model, gen_reduce_is_model, gen_bdr_is_model.\n"
               "  unfold reduce_mode, helper, api_block, as_rmode, as_range.\n"
               "  destruct (region <? 1); destruct (level =? 1); repeat split; intros; try discriminate; reflexivity.\nQed.\n")
    return "\n".join(out)


# ----------------------------------------------------------------------------------------------- the library's own distributed loops
CALLER_FILES = ["/quantarhei/qm/liouvillespace/redfieldtensor.py", "/quantarhei/implementations/python/redfieldrates.py"]
HELPER_NAMES = ("block_distributed_range", "block_distributed_list", "block_distributed_array")


def _written_in(loop, name):
    """is the array `name` written inside the loop: target of a (subscript / augmented) assignment, or handed to a call"""
    for st in loop.body:
        for x in ast.walk(st):
            if isinstance(x, (ast.Assign, ast.AugAssign)):
                for t in (x.targets if isinstance(x, ast.Assign) else [x.target]):
                    base = t
                    while isinstance(base, ast.Subscript):
                        base = base.value
                    if isinstance(base, ast.Name) and base.id == name:
                        return True
            if isinstance(x, ast.Call) and any(isinstance(a, ast.Name) and a.id == name for a in list(x.args) + [k.value for k in x.keywords]):
                return True
    return False


def callers(repo):
    """every function of the anchored caller files that opens a parallel region: its uses of the parallel machinery in source
    order as a list of events (Model/C20regions.v: pev), to be proved well formed"""
    import warnings
    out, what, names = [], [], []
    for path in CALLER_FILES:
        with warnings.catch_warnings():
            warnings.simplefilter("ignore")
            tree = ast.parse(open(repo + path).read())
        funs = []

        def collect(node, prefix):
            for ch in ast.iter_child_nodes(node):
                if isinstance(ch, ast.ClassDef):
                    collect(ch, prefix + ch.name + ".")
                elif isinstance(ch, ast.FunctionDef):
                    funs.append((prefix + ch.name, ch))
                    collect(ch, prefix + ch.name + ".")
        collect(tree, "")
        for qual, fn in funs:
            own = [n for n in ast.walk(fn)]
            nested = set()
            for n in own:
                if isinstance(n, (ast.FunctionDef, ast.Lambda)) and n is not fn:
                    nested.update(id(x) for x in ast.walk(n) if x is not n)
            events = []
            loops = []

            def name_of(call):
                f = call.func
                return f.id if isinstance(f, ast.Name) else (f.attr if isinstance(f, ast.Attribute) else None)
            for n in own:
                if id(n) in nested:
                    continue
                if isinstance(n, ast.Call):
                    nm = name_of(n)
                    if nm == "start_parallel_region" and not n.args and not n.keywords:
                        events.append((n.lineno, n.col_offset, "PS"))
                    elif nm in ("close_parallel_region", "finish_parallel_region") and not n.args and not n.keywords:
                        events.append((n.lineno, n.col_offset, "PF"))
                    elif nm == "allreduce":
                        ok = (len(n.args) >= 1 and isinstance(n.args[0], ast.Name)
                              and ((len(n.args) == 1 and [(k.arg, _u(k.value)) for k in n.keywords] in ([("operation", "'sum'")], []))
                                   or (len(n.args) == 2 and _u(n.args[1]) == "'sum'" and not n.keywords)))
                        events.append((n.lineno, n.col_offset, ("PA", n.args[0].id) if ok else "POther"))
                    elif nm in ("reduce", "bcast", "asynchronous_range", "collect_block_distributed_data", "parallel_function") \
                            and not (isinstance(n.func, ast.Attribute) and _u(n.func.value) in ("numpy", "functools")):
                        events.append((n.lineno, n.col_offset, "POther"))
                    elif nm in HELPER_NAMES:
                        events.append((n.lineno, n.col_offset, ("Qcall", id(n))))
                if isinstance(n, ast.For) and isinstance(n.iter, ast.Call) and name_of(n.iter) in HELPER_NAMES:
                    loops.append(n)
                if isinstance(n, ast.Return):
                    events.append((n.lineno, n.col_offset, "PRet"))
            if not any(e[2] == "PS" for e in events):
                continue
            loop_of = {id(l.iter): l for l in loops}
            events.sort(key=lambda e: (e[0], e[1]))
            terms, last_loop = [], None
            for (_, _, ev) in events:
                if isinstance(ev, tuple) and ev[0] == "Qcall":
                    loop = loop_of.get(ev[1])
                    if loop is None:
                        terms.append("POther")          # a helper used otherwise than as the iterator of a for loop
                        continue
                    call = loop.iter
                    if name_of(call) == "block_distributed_range":
                        if len(call.args) != 2 or call.keywords:
                            raise Untranslatable("%s: %s" % (qual, _u(call)))
                        lo = Expr("Z", {}).e(call.args[0]) if isinstance(call.args[0], ast.Constant) else None
                        if lo is None:
                            raise Untranslatable("%s: the distributed range starts at %s" % (qual, _u(call.args[0])))
                    else:
                        lo = "(0)"
                    terms.append("PQ %s" % lo)
                    last_loop = loop
                elif isinstance(ev, tuple) and ev[0] == "PA":
                    covers = last_loop is not None and _written_in(last_loop, ev[1])
                    terms.append("PA %s" % ("true" if covers else "false"))
                else:
                    terms.append(ev)
            # returns before the first region / after the last one are outside every region by construction of well_formed;
            # nested returns inside a distributed loop are not (they appear between PS and PF)
            g = "gen_protocol_" + qual.replace(".", "_")
            names.append(g)
            out.append("(* %s:%s *)\nDefinition %s : list pev := [%s].\n" % (os.path.basename(path), qual, g, "; ".join(terms)))
            what.append("%s:%s (use of the parallel machinery, in source order)" % (os.path.basename(path), qual))
    if not names:
        raise Untranslatable("no routine of the caller files opens a parallel region")
    out.append("(* each of them: open, one distributed loop, all-reduce of an array the loop touches, close - the shape for which\n"
               "   c20_region_protocol_reduces_to_serial gives the serial result on every process and the restored configuration *)\n"
               "Lemma gen_protocols_well_formed : %s.\nProof. repeat split. Qed.\n" % " /\\ ".join("well_formed %s = true" % g for g in names))
    return "\n".join(out), what



HEAD = """(* GENERATED on every run by harness/translate_c20.py from quantarhei/core/parallel.py: _calculate_ranges (again, so that
   the helpers below are stated over the code's own range function), _calculate_ranges_list/_array, block_distributed_range/list/array,
   DistributedConfiguration.__init__/start_parallel_region/finish_parallel_region/reduce/allreduce, start/close_parallel_region.
   Statement by statement: let = assignment, if = if with the rest of the function in both branches, ORaised/QRaised = raise. *)
From Coq Require Import ZArith List Bool Lia ZifyBool.
From QV Require Import Model.C20 Proofs.C20 Model.C20regions Proofs.C20gen.
Import ListNotations.
Open Scope Z_scope.
"""

RANGE_LEMMA = """Lemma gen_range_of_is_model : forall size start stop rank, gen_range_of size start stop rank = range_of FromStart size start stop rank.
Proof.
  intros. unfold gen_range_of, range_of.
  destruct (rank <=? (stop - start) mod size); destruct (rank =? 0); cbn [negb]; reflexivity.
Qed.
"""


def static(repo):
    parts = [HEAD, translate.calculate_ranges(repo), RANGE_LEMMA,
             ranges_of(repo, "_calculate_ranges_list", "dlist", "gen_ranges_list"),
             ranges_of(repo, "_calculate_ranges_array", "array", "gen_ranges_array"),
             helper_range(repo),
             helper_seq(repo, "block_distributed_list", "dlist", ("_calculate_ranges_list", "gen_ranges_list"), "gen_bdl"),
             helper_seq(repo, "block_distributed_array", "array", ("_calculate_ranges_array", "gen_ranges_array"), "gen_bda"),
             HELPERS_TAIL, regions(repo), wrappers(repo), reductions(repo)]
    ctext, cwhat = callers(repo)
    parts.append(ctext)
    what = ["parallel.py:_calculate_ranges_list", "parallel.py:_calculate_ranges_array", "parallel.py:block_distributed_range",
            "parallel.py:block_distributed_list", "parallel.py:block_distributed_array",
            "parallel.py:DistributedConfiguration.__init__ (level and region counters)",
            "parallel.py:DistributedConfiguration.start_parallel_region", "parallel.py:DistributedConfiguration.finish_parallel_region",
            "parallel.py:start_parallel_region", "parallel.py:close_parallel_region",
            "parallel.py:DistributedConfiguration.reduce (guards and sharing condition)",
            "parallel.py:DistributedConfiguration.allreduce (guards and sharing condition)"]
    return "\n".join(parts), what + cwhat


def static_tie_b(cm, chk, repo):
    """second generated file of C20 (GenC20b.v): generate, compile, merge the verdict into the evidence entry `static_tie`"""
    import hashlib
    pid = "C20"
    info = chk.extra.get("static_tie") or {"translated": [], "status": "ok"}
    outdir = os.path.join(cm.WORK, pid, "gen")
    os.makedirs(outdir, exist_ok=True)
    try:
        text, what = static(repo)
    except Untranslatable as e:
        info["status_b"] = "untranslatable: %s" % e
        info["status"] = info["status"] if info["status"] != "ok" else info["status_b"]
        chk.violation("static_tie:untranslatable", "the source of a translated kernel left the supported fragment (%s): the generated model can no "
                      "longer be produced, so the equivalence with the hand-written model is not shown" % e, "proof",
                      {"theorem": "GenC20b equivalence lemmas", "reason": str(e)}, found_input=False)
        chk.extra["static_tie"] = info
        return info
    # the committed library of the generated file (no-op when current)
    import fcntl
    cm.ensure_makefile()
    with open(os.path.join(cm.WORK, ".coqlock"), "w") as lock:
        fcntl.flock(lock, fcntl.LOCK_EX)
        rc0, out0, _ = cm._run(["timeout", "600", "make", "theories/Proofs/C20gen.vo"], cwd=cm.COQDIR, timeout=650, env=cm.coq_env())
        fcntl.flock(lock, fcntl.LOCK_UN)
    path = os.path.join(outdir, "GenC20b.v")
    open(path, "w").write(text)
    rc, out, _ = cm._run(["timeout", "300", "coqc", "-Q", os.path.join(cm.COQDIR, "theories"), "QV", path], cwd=outdir, timeout=320, env=cm.coq_env())
    info["translated"] = list(info.get("translated", [])) + what
    info["generated_file_b_sha1"] = hashlib.sha1(text.encode()).hexdigest()
    if rc0 != 0 or rc != 0:
        info["status_b"] = "equivalence lemma fails"
        info["status"] = info["status"] if info["status"] != "ok" else info["status_b"]
        chk.violation("static_tie:equivalence_b", "the model generated from the current source of parallel.py is no longer provably equal to the "
                      "hand-written model: %s" % (out0[-300:] if rc0 else out[-700:]), "proof",
                      {"theorem": "GenC20b equivalence lemmas", "coq_output": (out0 if rc0 else out)[-1500:], "generated": text[:6000]},
                      found_input=False)
    else:
        info["status_b"] = "ok"
    chk.extra["static_tie"] = info
    return info
