(* C03, part 3: relabelling the molecules permutes the Frenkel matrices; the dipole-dipole coupling of
   interactions.py is the point-dipole formula with the SI prefactor for Debye and Angstrom. *)
From Coq Require Import ZArith List Bool Arith Lia Permutation Field.
From QV Require Import Base.Alg Base.Sums Base.Mat Model.C03 Proofs.C03 Proofs.C03_frenkel.
Import ListNotations.

(* ---------- sums over a permuted index range ---------- *)
Section SumPerm.
  Context {R : StarRing}.
  Add Ring Rr : (rth R).
  Fixpoint lsum (l : list R) : R := match l with [] => r0 R | x :: l' => radd R x (lsum l') end.

  Lemma lsum_app l m : lsum (l ++ m) = radd R (lsum l) (lsum m).
  Proof. induction l as [|x l IH]; cbn [app lsum]; [ring|]. rewrite IH. ring. Qed.

  Lemma lsum_perm l m : Permutation l m -> lsum l = lsum m.
  Proof. induction 1; cbn [lsum]; try congruence; try ring. Qed.

  Lemma sum_lsum n (f : nat -> R) : sum n f = lsum (map f (seq 0 n)).
  Proof.
    induction n as [|n IH]; [reflexivity|]. rewrite seq_S, map_app, lsum_app. cbn [sum map lsum Nat.add].
    rewrite IH. ring.
  Qed.

  Lemma map_nth_seq (l : list nat) : map (fun i => nth i l 0) (seq 0 (length l)) = l.
  Proof.
    apply (nth_ext _ _ 0 0); [now rewrite map_length, seq_length|].
    intros n Hn. rewrite map_length, seq_length in Hn.
    rewrite (nth_indep _ 0 (nth 0 l 0)) by now rewrite map_length, seq_length.
    rewrite (map_nth (fun i => nth i l 0)), seq_nth by exact Hn. reflexivity.
  Qed.

  Lemma sum_perm N sigma (f : nat -> R) : Permutation sigma (seq 0 N) ->
    sum N (fun k => f (pfun sigma k)) = sum N f.
  Proof.
    intros Hp. rewrite !sum_lsum. pose proof (Permutation_length Hp) as Hl. rewrite seq_length in Hl.
    rewrite <- (map_map (pfun sigma) f). unfold pfun. rewrite <- Hl at 1. rewrite map_nth_seq.
    apply lsum_perm. now apply Permutation_map.
  Qed.
End SumPerm.

Lemma list_sum_perm l m : Permutation l m -> list_sum l = list_sum m.
Proof. induction 1; simpl list_sum; lia. Qed.

(* ---------- permutations of the molecule labels ---------- *)
Section Perm.
  Variable N : nat.
  Variable sigma : list nat.
  Hypothesis Hp : Permutation sigma (seq 0 N).

  Lemma sigma_length : length sigma = N.
  Proof. rewrite (Permutation_length Hp). apply seq_length. Qed.

  Lemma sigma_lt i : i < N -> pfun sigma i < N.
  Proof.
    intros Hi. unfold pfun. assert (In (nth i sigma 0) (seq 0 N)) as H.
    { apply (Permutation_in _ Hp). apply nth_In. now rewrite sigma_length. }
    apply in_seq in H. lia.
  Qed.

  Lemma sigma_inj i j : i < N -> j < N -> pfun sigma i = pfun sigma j -> i = j.
  Proof.
    intros Hi Hj. unfold pfun. apply (proj1 (NoDup_nth sigma 0)); try now rewrite sigma_length.
    apply (Permutation_NoDup (Permutation_sym Hp)). apply seq_NoDup.
  Qed.

  Lemma sigma_surj k : k < N -> exists i, i < N /\ pfun sigma i = k.
  Proof.
    intros Hk. assert (In k sigma) as H by (apply (Permutation_in _ (Permutation_sym Hp)); apply in_seq; lia).
    destruct (In_nth sigma k 0 H) as [i [Hi Hn]]. exists i. rewrite sigma_length in Hi. auto.
  Qed.

  Lemma relabel_length s : length (relabel_sig sigma s) = N.
  Proof. unfold relabel_sig. now rewrite map_length, sigma_length. Qed.

  Lemma relabel_nth s i : i < N -> nth i (relabel_sig sigma s) 0 = nth (pfun sigma i) s 0.
  Proof.
    intros Hi. unfold relabel_sig, pfun.
    rewrite (nth_indep _ 0 (nth 0 s 0)) by now rewrite map_length, sigma_length.
    now rewrite (map_nth (fun k => nth k s 0)).
  Qed.

  Lemma relabel_band s : length s = N -> band (relabel_sig sigma s) = band s.
  Proof.
    intros Hl. unfold band, relabel_sig. rewrite (list_sum_perm _ _ (Permutation_map _ Hp)).
    rewrite <- Hl. f_equal. apply (nth_ext _ _ 0 0); [now rewrite map_length, seq_length|].
    intros n Hn. rewrite map_length, seq_length in Hn.
    rewrite (nth_indep _ 0 (nth 0 s 0)) by now rewrite map_length, seq_length.
    rewrite (map_nth (fun i => nth i s 0)), seq_nth by exact Hn. reflexivity.
  Qed.

  Lemma relabel_tl s : tl N s -> tl N (relabel_sig sigma s).
  Proof.
    intros [Hl Hb]. split; [apply relabel_length|]. intros i. destruct (Nat.lt_ge_cases i N) as [L|L].
    - rewrite relabel_nth by exact L. apply Hb.
    - rewrite nth_overflow by (rewrite relabel_length; lia). lia.
  Qed.

  Lemma relabel_inj s t : length s = N -> length t = N -> relabel_sig sigma s = relabel_sig sigma t -> s = t.
  Proof.
    intros Ls Lt H. apply sig_ext; [lia|]. intros k. destruct (Nat.lt_ge_cases k N) as [L|L].
    - destruct (sigma_surj k L) as [i [Hi <-]]. rewrite <- !relabel_nth by exact Hi. now rewrite H.
    - rewrite !nth_overflow by lia. reflexivity.
  Qed.

  Lemma relabel_moved s t k l : length s = N -> length t = N -> k < N -> l < N ->
    (moved (relabel_sig sigma s) (relabel_sig sigma t) k l <-> moved s t (pfun sigma k) (pfun sigma l)).
  Proof.
    intros Ls Lt Hk Hl. unfold moved. rewrite !relabel_nth by assumption. split.
    - intros [H1 [H2 [H3 [H4 [H5 H6]]]]]. repeat split; auto.
      + intros E. apply H1. now apply sigma_inj.
      + intros i Hik Hil. destruct (Nat.lt_ge_cases i N) as [L|L].
        * destruct (sigma_surj i L) as [i' [Hi' <-]]. rewrite <- !relabel_nth by exact Hi'. apply H6; congruence.
        * rewrite !nth_overflow by lia. reflexivity.
    - intros [H1 [H2 [H3 [H4 [H5 H6]]]]]. repeat split; auto; try (intros E; apply H1; congruence).
      + intros i Hik Hil. destruct (Nat.lt_ge_cases i N) as [L|L].
        * rewrite !relabel_nth by exact L. apply H6; intros E; [apply Hik|apply Hil]; now apply sigma_inj.
        * rewrite !nth_overflow by (rewrite relabel_length; lia). reflexivity.
  Qed.

  Lemma relabel_differ s t k : length s = N -> length t = N -> k < N ->
    (differ_at (relabel_sig sigma s) (relabel_sig sigma t) k <-> differ_at s t (pfun sigma k)).
  Proof.
    intros Ls Lt Hk. unfold differ_at. rewrite !relabel_nth by assumption. split.
    - intros [H1 H2]. split; [exact H1|]. intros i Hik. destruct (Nat.lt_ge_cases i N) as [L|L].
      + destruct (sigma_surj i L) as [i' [Hi' <-]]. rewrite <- !relabel_nth by exact Hi'. apply H2; congruence.
      + rewrite !nth_overflow by lia. reflexivity.
    - intros [H1 H2]. split; [exact H1|]. intros i Hik. destruct (Nat.lt_ge_cases i N) as [L|L].
      + rewrite !relabel_nth by exact L. apply H2. intros E. apply Hik. now apply sigma_inj.
      + rewrite !nth_overflow by (rewrite relabel_length; lia). reflexivity.
  Qed.
End Perm.

(* ---------- decidability of the two relations on two-level signatures ---------- *)
Lemma moved_dec N s t : tl N s -> tl N t -> (exists k l, moved s t k l) \/ (forall k l, ~ moved s t k l).
Proof.
  intros Ts Tt. destruct (diffs 0 s t) as [|kk [|ll [|x r]]] eqn:Ed;
    try (right; intros k l Hm; rewrite (moved_diffs N s t k l Ts Tt Hm) in Ed; discriminate).
  pose proof Ts as [Ls Bs]. pose proof Tt as [Lt Bt].
  destruct (diffs_two_inv s t kk ll ltac:(lia) Ed) as [Hkl [Dk [Dl Ho]]].
  pose proof (Bs kk). pose proof (Bt kk). pose proof (Bs ll). pose proof (Bt ll).
  destruct (Nat.eq_dec (nth kk s 0) 1) as [Sk|Sk]; destruct (Nat.eq_dec (nth ll s 0) 1) as [Sl|Sl].
  - right. intros k l Hm. pose proof (moved_diffs N s t k l Ts Tt Hm) as Hd. rewrite Ed in Hd.
    destruct Hm as [_ [M1 [M2 [M3 [M4 _]]]]]. injection Hd as E1 E2.
    destruct (Nat.min_spec k l) as [[? Em]|[? Em]]; destruct (Nat.max_spec k l) as [[? Ex]|[? Ex]]; try lia;
      rewrite Em in E1; rewrite Ex in E2; subst; lia.
  - left. exists kk, ll. unfold moved. repeat split; auto; lia.
  - left. exists ll, kk. unfold moved. repeat split; auto; try lia; intros i Hi1 Hi2; apply Ho; auto.
  - right. intros k l Hm. pose proof (moved_diffs N s t k l Ts Tt Hm) as Hd. rewrite Ed in Hd.
    destruct Hm as [_ [M1 [M2 [M3 [M4 _]]]]]. injection Hd as E1 E2.
    destruct (Nat.min_spec k l) as [[? Em]|[? Em]]; destruct (Nat.max_spec k l) as [[? Ex]|[? Ex]]; try lia;
      rewrite Em in E1; rewrite Ex in E2; subst; lia.
Qed.

Lemma differ_dec N s t : tl N s -> tl N t -> (exists k, differ_at s t k) \/ (forall k, ~ differ_at s t k).
Proof.
  intros Ts Tt. destruct (diffs 0 s t) as [|l [|x r]] eqn:Ed;
    try (right; intros k Hd; rewrite (differ_diffs N s t k Ts Tt Hd) in Ed; discriminate).
  left. exists l. destruct Ts as [Ls _]. destruct Tt as [Lt _]. apply diffs_one_inv; [lia|exact Ed].
Qed.

Lemma differ_lt N s t k : tl N s -> tl N t -> differ_at s t k -> k < N.
Proof.
  intros [Ls _] [Lt _] [Hk _]. destruct (Nat.lt_ge_cases k N) as [L|L]; [exact L|].
  rewrite !nth_overflow in Hk by lia. contradiction.
Qed.

Lemma pos_of_spec s l : In s l -> pos_of s l < length l /\ nth (pos_of s l) l [] = s.
Proof.
  induction l as [|x l IH]; intros H; [destruct H|]. cbn [pos_of]. destruct (sig_eqb x s) eqn:E.
  - apply sig_eqb_eq in E. subst. cbn [length nth]. split; [lia|reflexivity].
  - destruct H as [->|H]; [rewrite sig_eqb_refl in E; discriminate|]. destruct (IH H) as [H1 H2].
    cbn [length nth]. split; [lia|exact H2].
Qed.

(* ---------- relabelling theorem ---------- *)
Section Relabel.
  Context {R : StarRing}.
  Add Ring Rr' : (rth R).
  Variable N : nat.
  Variable E : nat -> nat -> R.
  Variable J : nat -> nat -> R.
  Variable dip : nat -> nat -> R.
  Variable sqrtf : nat -> R.
  Hypothesis sqrt_1 : sqrtf 1 = r1 R.
  Hypothesis Jsym : forall k l, J k l = J l k.
  Variable mult : nat.
  Variable sigma : list nat.
  Hypothesis Hp : Permutation sigma (seq 0 N).
  Local Notation sigs := (elsigs (two_level N) mult).
  (* parameters of the relabelled aggregate: its molecule i is the old molecule sigma(i) *)
  Let E' := fun i n => E (pfun sigma i) n.
  Let J' := fun i j => J (pfun sigma i) (pfun sigma j).
  Let dip' := fun i c => dip (pfun sigma i) c.
  (* index, in the relabelled aggregate, of the state that state a of the original one becomes *)
  Definition pi_idx (a : nat) : nat := pos_of (relabel_sig sigma (nth a sigs [])) sigs.

  Lemma pi_spec a : a < length sigs ->
    pi_idx a < length sigs /\ nth (pi_idx a) sigs [] = relabel_sig sigma (nth a sigs []).
  Proof.
    intros Ha. apply pos_of_spec. destruct (sig_at N mult a Ha) as [Ts Hm].
    apply tl_elsigs; [now apply relabel_tl|]. rewrite (relabel_band N sigma Hp); [exact Hm|apply Ts].
  Qed.

  Lemma pi_inj a b : a < length sigs -> b < length sigs -> pi_idx a = pi_idx b -> a = b.
  Proof.
    intros Ha Hb H. destruct (pi_spec a Ha) as [_ Sa]. destruct (pi_spec b Hb) as [_ Sb].
    rewrite H, Sb in Sa. destruct (sig_at N mult a Ha) as [[La _] _]. destruct (sig_at N mult b Hb) as [[Lb _] _].
    apply (index_unique N mult a b Ha Hb).
    apply (relabel_inj N sigma Hp); [exact La|exact Lb|now symmetry].
  Qed.

  Lemma pi_band a : a < length sigs -> band (nth (pi_idx a) sigs []) = band (nth a sigs []).
  Proof.
    intros Ha. destruct (pi_spec a Ha) as [_ Sa]. rewrite Sa. destruct (sig_at N mult a Ha) as [[La _] _].
    now apply (relabel_band N sigma Hp).
  Qed.

  Lemma relabel_H a b : a < length sigs -> b < length sigs ->
    build_H N E' J' sqrtf sigs (pi_idx a) (pi_idx b) = build_H N E J sqrtf sigs a b.
  Proof.
    intros Ha Hb. destruct (pi_spec a Ha) as [Pa Sa]. destruct (pi_spec b Hb) as [Pb Sb].
    destruct (sig_at N mult a Ha) as [Ts _]. destruct (sig_at N mult b Hb) as [Tt _].
    assert (forall k l, J' k l = J' l k) as Jsym' by (intros k l; unfold J'; apply Jsym).
    destruct (Nat.eq_dec a b) as [<-|Hab].
    - rewrite !H_diag. rewrite Sa. unfold energy, E'.
      rewrite (sum_ext N _ (fun k => (fun j => E j (nth j (nth a sigs []) 0)) (pfun sigma k))).
      + exact (sum_perm N sigma (fun j => E j (nth j (nth a sigs []) 0)) Hp).
      + intros i Hi. cbv beta. now rewrite (relabel_nth N sigma Hp).
    - assert (pi_idx a <> pi_idx b) as Hpab by (intros H; apply Hab; now apply pi_inj).
      destruct (moved_dec N _ _ Ts Tt) as [[k [l Hm]]|Hn].
      + rewrite (H_move N E J sqrtf sqrt_1 mult a b k l Jsym Ha Hb Hm).
        assert (k < N) as Hk by (destruct Hm as [_ [M1 _]]; destruct Ts as [Ls _]; rewrite <- Ls; apply nth_pos_lt; lia).
        assert (l < N) as Hl by (destruct Hm as [_ [_ [_ [_ [M4 _]]]]]; destruct Tt as [Lt _]; rewrite <- Lt; apply nth_pos_lt; lia).
        destruct (sigma_surj N sigma Hp k Hk) as [k' [Hk' Ek]]. destruct (sigma_surj N sigma Hp l Hl) as [l' [Hl' El]].
        rewrite (H_move N E' J' sqrtf sqrt_1 mult (pi_idx a) (pi_idx b) k' l' Jsym' Pa Pb).
        * unfold J'. now rewrite Ek, El.
        * rewrite Sa, Sb. apply (relabel_moved N sigma Hp); [apply Ts|apply Tt|exact Hk'|exact Hl'|].
          now rewrite Ek, El.
      + rewrite (H_zero N E J sqrtf mult a b Ha Hb Hab Hn).
        apply (H_zero N E' J' sqrtf mult (pi_idx a) (pi_idx b) Pa Pb Hpab).
        rewrite Sa, Sb. intros k' l' Hm.
        assert (k' < N) as Hk'.
        { destruct Hm as [_ [M1 _]]. rewrite <- (relabel_length N sigma Hp (nth a sigs [])). apply nth_pos_lt. lia. }
        assert (l' < N) as Hl'.
        { destruct Hm as [_ [_ [_ [_ [M4 _]]]]]. rewrite <- (relabel_length N sigma Hp (nth b sigs [])). apply nth_pos_lt. lia. }
        apply (Hn (pfun sigma k') (pfun sigma l')).
        apply (relabel_moved N sigma Hp); [apply Ts|apply Tt|exact Hk'|exact Hl'|exact Hm].
  Qed.

  Lemma relabel_D a b c : a < length sigs -> b < length sigs ->
    build_D dip' sigs c (pi_idx a) (pi_idx b) = build_D dip sigs c a b.
  Proof.
    intros Ha Hb. destruct (pi_spec a Ha) as [Pa Sa]. destruct (pi_spec b Hb) as [Pb Sb].
    destruct (sig_at N mult a Ha) as [Ts _]. destruct (sig_at N mult b Hb) as [Tt _].
    destruct (differ_dec N _ _ Ts Tt) as [[k Hd]|Hn].
    - rewrite (D_one N dip mult a b k c Ha Hb Hd).
      pose proof (differ_lt N _ _ k Ts Tt Hd) as Hk.
      destruct (sigma_surj N sigma Hp k Hk) as [k' [Hk' Ek]].
      rewrite (D_one N dip' mult (pi_idx a) (pi_idx b) k' c Pa Pb).
      + unfold dip'. now rewrite Ek.
      + rewrite Sa, Sb. apply (relabel_differ N sigma Hp); [apply Ts|apply Tt|exact Hk'|]. now rewrite Ek.
    - rewrite (D_zero N dip mult a b c Ha Hb Hn).
      apply (D_zero N dip' mult (pi_idx a) (pi_idx b) c Pa Pb). rewrite Sa, Sb. intros k' Hd.
      pose proof (differ_lt N _ _ k' (relabel_tl N sigma Hp _ Ts) (relabel_tl N sigma Hp _ Tt) Hd) as Hk'.
      apply (Hn (pfun sigma k')). apply (relabel_differ N sigma Hp); [apply Ts|apply Tt|exact Hk'|exact Hd].
  Qed.
End Relabel.

(* ---------- dipole-dipole coupling ---------- *)
Section DipoleDipole.
  Variable F : Type.
  Variables (f0 f1 : F) (fadd fmul fsub : F -> F -> F) (fopp : F -> F) (fdiv : F -> F -> F) (finv : F -> F).
  Hypothesis Fth : field_theory f0 f1 fadd fmul fsub fopp fdiv finv (@eq F).
  Add Field Ff : Fth.
  Local Notation dd := (dipole_dipole F f1 fadd fmul fsub fdiv).
  Local Notation dot := (fdot3 F fadd fmul).
  Local Notation three := (f3 F f1 fadd).
  Local Notation four := (f4 F f1 fadd).

  Local Notation two := (fadd f1 f1).
  Lemma mul_nz x y : x <> f0 -> y <> f0 -> fmul x y <> f0.
  Proof.
    intros Hx Hy H. apply Hy. transitivity (fmul (finv x) (fmul x y)); [field; exact Hx|]. rewrite H. ring.
  Qed.
  Ltac side := repeat split; try assumption; repeat (apply mul_nz; try assumption).

  (* the code's expression is (d1.d2 - 3 (d1.n)(d2.n)) / (4 pi eps0 epsr RR^3) with n = (r1-r2)/RR *)
  Lemma dd_point_dipole r1 r2 d1 d2 RR pi eps0 epsr :
    RR <> f0 -> pi <> f0 -> eps0 <> f0 -> epsr <> f0 -> two <> f0 ->
    let n := fun c => fdiv (fsub (r1 c) (r2 c)) RR in
    dd r1 r2 d1 d2 RR pi eps0 epsr =
    fdiv (fsub (dot d1 d2) (fmul (fmul three (dot d1 n)) (dot d2 n)))
         (fmul (fmul (fmul (fmul four pi) eps0) epsr) (fmul (fmul RR RR) RR)).
  Proof.
    intros H1 H2 H3 H4 H5 n. unfold n, dipole_dipole, fdot3, f3, f4 in *. field. side.
  Qed.

  (* n is a unit vector when RR is a square root of R.R *)
  Lemma dd_unit_vector r1 r2 RR : RR <> f0 ->
    fmul RR RR = dot (fun c => fsub (r1 c) (r2 c)) (fun c => fsub (r1 c) (r2 c)) ->
    let n := fun c => fdiv (fsub (r1 c) (r2 c)) RR in dot n n = f1.
  Proof.
    intros H1 H2 n. unfold n, fdot3 in *.
    transitivity (fdiv (fadd (fadd (fmul (fsub (r1 0) (r2 0)) (fsub (r1 0) (r2 0)))
                                   (fmul (fsub (r1 1) (r2 1)) (fsub (r1 1) (r2 1))))
                             (fmul (fsub (r1 2) (r2 2)) (fsub (r1 2) (r2 2)))) (fmul RR RR)).
    - field. exact H1.
    - rewrite <- H2. field. exact H1.
  Qed.

  (* the symmetric roles of the two molecules *)
  Lemma dd_symmetric r1 r2 d1 d2 RR pi eps0 epsr :
    RR <> f0 -> pi <> f0 -> eps0 <> f0 -> epsr <> f0 -> two <> f0 ->
    dd r1 r2 d1 d2 RR pi eps0 epsr = dd r2 r1 d2 d1 RR pi eps0 epsr.
  Proof. intros H1 H2 H3 H4 H5. unfold dipole_dipole, fdot3, f3, f4 in *. field. side. Qed.

  (* powers of ten by repeated multiplication *)
  Fixpoint pw (x : F) (n : nat) : F := match n with O => f1 | S k => fmul x (pw x k) end.

  (* eps0_int = 1e19/(4 pi J2int) makes the prefactor 1/(4 pi eps0_int) equal to J2int * 1e-19 *)
  Lemma prefactor_int ten pi J2int : ten <> f0 -> pi <> f0 -> J2int <> f0 -> two <> f0 ->
    fdiv f1 (fmul (fmul four pi) (eps0_int F f1 fadd fmul fdiv (pw ten 19) pi J2int)) = fdiv J2int (pw ten 19).
  Proof.
    intros H1 H2 H3 H4. unfold eps0_int, f4 in *. cbn [pw]. field. side.
  Qed.

  (* SI: with mu0 = 4 pi 1e-7, eps0 mu0 c^2 = 1, 1 Debye = 1e-21/c C m, 1 Angstrom = 1e-10 m, the
     Coulomb prefactor of two Debye dipoles at one Angstrom is 1e-19 J; hence the code's value is
     J2int times the SI point-dipole energy of the dipoles d1, d2 (in Debye) at r1, r2 (in Angstrom) *)
  Lemma dd_is_SI r1 r2 d1 d2 RR ten pi c J2int epsr :
    RR <> f0 -> ten <> f0 -> pi <> f0 -> c <> f0 -> J2int <> f0 -> epsr <> f0 -> two <> f0 ->
    let mu0 := fdiv (fmul four pi) (pw ten 7) in
    let eps0SI := fdiv f1 (fmul (fmul mu0 c) c) in
    let debye := fdiv f1 (fmul (pw ten 21) c) in
    let angstrom := fdiv f1 (pw ten 10) in
    let n := fun k => fdiv (fsub (r1 k) (r2 k)) RR in
    let D1 := fun k => fmul debye (d1 k) in
    let D2 := fun k => fmul debye (d2 k) in
    let Rm := fmul angstrom RR in
    dd r1 r2 d1 d2 RR pi (eps0_int F f1 fadd fmul fdiv (pw ten 19) pi J2int) epsr =
    fmul J2int (fdiv (fsub (dot D1 D2) (fmul (fmul three (dot D1 n)) (dot D2 n)))
                     (fmul (fmul (fmul (fmul four pi) eps0SI) epsr) (fmul (fmul Rm Rm) Rm))).
  Proof.
    intros H1 H2 H3 H4 H5 H6 H7. cbv zeta.
    unfold dipole_dipole, eps0_int, fdot3, f3, f4 in *. cbn [pw].
    field. side.
  Qed.
End DipoleDipole.
