(* Lemmas for C14, part 1: Boltzmann populations over the rationals with an oracle exponential. *)
From Coq Require Import ZArith List Bool QArith Qabs Lqa Lia.
From QV Require Import Model.C14.
Import ListNotations.
Local Open Scope Q_scope.

(* ---------- sums, minima ---------- *)
Lemma qsum_nonneg l : Forall (fun x => 0 <= x) l -> 0 <= qsum l.
Proof. induction 1 as [|x l Hx _ IH]; cbn [qsum]; lra. Qed.

Lemma qsum_ge_member l x : Forall (fun y => 0 <= y) l -> In x l -> x <= qsum l.
Proof.
  induction 1 as [|y l Hy Hl IH]; intros Hin; [contradiction|]. cbn [qsum].
  pose proof (qsum_nonneg l Hl). destruct Hin as [->|Hin]; [lra|]. specialize (IH Hin). lra.
Qed.

Lemma qsum_app l m : qsum (l ++ m) == qsum l + qsum m.
Proof. induction l as [|x l IH]; cbn [qsum app]; [lra|]. rewrite IH. lra. Qed.

Lemma qsum_repeat0 n : qsum (repeat 0 n) == 0.
Proof. induction n as [|n IH]; cbn [qsum repeat]; [lra|]. rewrite IH. lra. Qed.

Lemma qsum_map_div l s : ~ s == 0 -> qsum (map (fun x => x / s) l) == qsum l / s.
Proof.
  intros Hs. induction l as [|x l IH]; cbn [qsum map]; [field; exact Hs|]. rewrite IH. field. exact Hs.
Qed.

Lemma lmin_in x l : In (lmin x l) (x :: l).
Proof.
  revert x. induction l as [|y r IH]; intros x; cbn [lmin]; [now left|].
  destruct (Qle_bool x (lmin y r)); [now left|]. right. apply IH.
Qed.

Lemma lmin_le x l y : In y (x :: l) -> lmin x l <= y.
Proof.
  revert x y. induction l as [|z r IH]; intros x y Hin; cbn [lmin].
  - destruct Hin as [->|[]]. lra.
  - destruct (Qle_bool x (lmin z r)) eqn:E.
    + apply Qle_bool_iff in E. destruct Hin as [->|Hin]; [lra|]. specialize (IH z y Hin). lra.
    + assert (~ x <= lmin z r) as Hn by (intros H; apply Qle_bool_iff in H; congruence).
      destruct Hin as [->|Hin]; [lra|]. now apply IH.
Qed.

Lemma argmin_spec x l : (argmin x l < S (length l))%nat /\ nth (argmin x l) (x :: l) 0 = lmin x l.
Proof.
  revert x. induction l as [|y r IH]; intros x; cbn [argmin lmin length]; [split; [lia|reflexivity]|].
  destruct (Qle_bool x (lmin y r)); [split; [lia|reflexivity]|].
  destruct (IH y) as [H1 H2]. split; [cbn [length] in H1; lia|]. exact H2.
Qed.

(* ---------- one-hot vectors ---------- *)
Lemma onehot_length len k : length (onehot len k) = len.
Proof.
  revert k. induction len as [|len IH]; intros k; cbn [onehot]; [reflexivity|].
  destruct k; cbn [length]; [now rewrite repeat_length|now rewrite IH].
Qed.

Lemma nth_repeat0 n i : nth i (repeat 0 n) 0 = 0.
Proof. revert i. induction n as [|n IH]; intros [|i]; cbn [repeat nth]; try reflexivity. apply IH. Qed.

Lemma onehot_nth len k i : (k < len)%nat -> nth i (onehot len k) 0 = if Nat.eqb i k then 1 else 0.
Proof.
  revert k i. induction len as [|len IH]; intros k i Hk; [lia|]. cbn [onehot].
  destruct k as [|k]; destruct i as [|i]; cbn [nth Nat.eqb]; try reflexivity.
  - apply nth_repeat0.
  - apply IH. lia.
Qed.

Lemma qsum_onehot len k : (k < len)%nat -> qsum (onehot len k) == 1.
Proof.
  revert k. induction len as [|len IH]; intros k Hk; [lia|]. cbn [onehot].
  destruct k as [|k]; cbn [qsum]; [rewrite qsum_repeat0; lra|]. rewrite IH by lia. lra.
Qed.

Lemma onehot_range len k : Forall (fun x => 0 <= x <= 1) (onehot len k).
Proof.
  revert k. induction len as [|len IH]; intros k; cbn [onehot]; [constructor|].
  destruct k as [|k]; constructor; try lra; [|apply IH].
  clear. induction len; cbn [repeat]; constructor; [lra|assumption].
Qed.

Lemma repeat0_range n : Forall (fun x => 0 <= x <= 1) (repeat 0 n).
Proof. induction n; cbn [repeat]; constructor; [lra|assumption]. Qed.

(* ---------- Boltzmann weights with an oracle exponential ---------- *)
Section Oracle.
  Variable ex : Q -> Q.
  Hypothesis ex0 : ex 0 == 1.
  Hypothesis ex_nonneg : forall x, 0 <= ex x.
  Hypothesis ex_mono : forall x y, x <= y -> ex x <= ex y.

  Lemma ex_proper x y : x == y -> ex x == ex y.
  Proof. intros H. apply Qle_antisym; apply ex_mono; lra. Qed.

  Lemma bweights_nonneg vs kT e0 er : Forall (fun x => 0 <= x) (bweights ex vs kT e0 er).
  Proof. unfold bweights. apply Forall_forall. intros x Hx. apply in_map_iff in Hx. destruct Hx as [e [<- _]]. apply ex_nonneg. Qed.

  (* with the shift, the weight of a lowest state is exactly 1: the partition sum cannot vanish *)
  Lemma partition_sum_ge_1 kT e0 er : ~ kT == 0 -> 1 <= qsum (bweights ex Fixed kT e0 er).
  Proof.
    intros HkT. set (m := lmin e0 er).
    assert (In (ex (- (m - m) / kT)) (bweights ex Fixed kT e0 er)) as Hin.
    { unfold bweights, bshift. fold m. apply (in_map (fun e => ex (- (e - m) / kT))). apply lmin_in. }
    pose proof (qsum_ge_member _ _ (bweights_nonneg Fixed kT e0 er) Hin) as Hge.
    assert (ex (- (m - m) / kT) == 1) as H1.
    { rewrite <- ex0. apply ex_proper. field. exact HkT. }
    lra.
  Qed.

  Lemma bweights_le_1 kT e0 er : 0 < kT -> Forall (fun x => x <= 1) (bweights ex Fixed kT e0 er).
  Proof.
    intros HkT. unfold bweights, bshift. apply Forall_forall. intros x Hx. apply in_map_iff in Hx.
    destruct Hx as [e [<- He]]. rewrite <- ex0. apply ex_mono.
    pose proof (lmin_le e0 er e He) as Hle.
    assert (0 <= (e - lmin e0 er) / kT) as Hq.
    { apply Qle_shift_div_l; [exact HkT|]. lra. }
    setoid_replace (- (e - lmin e0 er) / kT) with (- ((e - lmin e0 er) / kT)) by (field; lra). lra.
  Qed.

  Lemma boltz_some vs kT e0 er s : s = qsum (bweights ex vs kT e0 er) -> ~ s == 0 ->
    boltz ex vs kT e0 er = Some (map (fun x => x / s) (bweights ex vs kT e0 er)).
  Proof.
    intros -> Hs. unfold boltz. destruct (Qeq_bool (qsum (bweights ex vs kT e0 er)) 0) eqn:E; [|reflexivity].
    apply Qeq_bool_iff in E. contradiction.
  Qed.

  (* validity of the populations of one block, for every kT > 0 and every energies *)
  Lemma boltz_valid kT e0 er : 0 < kT ->
    exists p, boltz ex Fixed kT e0 er = Some p /\ length p = S (length er) /\
              Forall (fun x => 0 <= x <= 1) p /\ qsum p == 1.
  Proof.
    intros HkT. set (ne := bweights ex Fixed kT e0 er). set (s := qsum ne).
    assert (1 <= s) as Hs by (apply partition_sum_ge_1; lra).
    exists (map (fun x => x / s) ne). split; [apply boltz_some; [reflexivity|fold ne; fold s; lra]|].
    split; [unfold ne, bweights; now rewrite !map_length|]. split.
    - apply Forall_forall. intros y Hy. apply in_map_iff in Hy. destruct Hy as [x [<- Hx]].
      pose proof (bweights_nonneg Fixed kT e0 er) as Hnn.
      assert (0 <= x) as Hx0 by (rewrite Forall_forall in Hnn; now apply Hnn).
      assert (x <= s) as Hxs by (apply qsum_ge_member; assumption).
      split.
      + apply Qle_shift_div_l; lra.
      + apply Qle_shift_div_r; lra.
    - rewrite qsum_map_div by lra. fold s. field. lra.
  Qed.

  (* populations are proportional to the oracle's Boltzmann factors (any variant, any oracle) *)
  Lemma boltz_proportional vs kT e0 er p a b : boltz ex vs kT e0 er = Some p ->
    nth a p 0 * nth b (bweights ex vs kT e0 er) 0 == nth b p 0 * nth a (bweights ex vs kT e0 er) 0.
  Proof.
    unfold boltz. set (ne := bweights ex vs kT e0 er). set (s := qsum ne).
    destruct (Qeq_bool s 0) eqn:E; [discriminate|]. intros Hp.
    assert (p = map (fun x => x / s) ne) as -> by congruence. clear Hp.
    assert (~ s == 0) as Hs by (intros H; apply Qeq_bool_iff in H; congruence).
    assert (forall i, nth i (map (fun x => x / s) ne) 0 == nth i ne 0 / s) as Hn.
    { intros i. destruct (Nat.lt_ge_cases i (length ne)) as [Hi|Hi].
      - rewrite (nth_indep _ 0 (0 / s)) by (now rewrite map_length). rewrite (map_nth (fun x => x / s)). reflexivity.
      - rewrite !nth_overflow by (rewrite ?map_length; exact Hi). field. exact Hs. }
    rewrite (Hn a), (Hn b). field. exact Hs.
  Qed.

  (* T = 0: all population on a state of lowest energy *)
  Lemma zeroT_spec e0 er : let k := argmin e0 er in
    (k < S (length er))%nat /\
    (forall e, In e (e0 :: er) -> nth k (e0 :: er) 0 <= e) /\
    (forall i, nth i (zeroT Fixed e0 er) 0 = if Nat.eqb i k then 1 else 0) /\
    qsum (zeroT Fixed e0 er) == 1 /\ Forall (fun x => 0 <= x <= 1) (zeroT Fixed e0 er).
  Proof.
    cbv zeta. destruct (argmin_spec e0 er) as [Hk Hm]. split; [exact Hk|]. split.
    - intros e He. rewrite Hm. now apply lmin_le.
    - split; [intros i; unfold zeroT; now apply onehot_nth|]. split; [now apply qsum_onehot|apply onehot_range].
  Qed.
End Oracle.

(* with an exact (multiplicative) exponential: the Boltzmann ratio for every pair of states, and the energy
   shift does not change the populations *)
Section Exact.
  Variable ex : Q -> Q.
  Hypothesis ex0 : ex 0 == 1.
  Hypothesis ex_proper : forall x y, x == y -> ex x == ex y.
  Hypothesis ex_add : forall x y, ex (x + y) == ex x * ex y.

  Lemma ex_nonzero x : ~ ex x == 0.
  Proof.
    intros H. assert (ex (x + - x) == 1) as H1 by (rewrite <- ex0; apply ex_proper; lra).
    rewrite ex_add, H in H1. lra.
  Qed.

  Lemma nth_bweights vs kT e0 er i : (i < S (length er))%nat ->
    nth i (bweights ex vs kT e0 er) 0 = ex (- (nth i (e0 :: er) 0 - bshift vs e0 er) / kT).
  Proof.
    intros Hi. unfold bweights.
    rewrite (nth_indep _ 0 ((fun e => ex (- (e - bshift vs e0 er) / kT)) 0)) by (rewrite map_length; exact Hi).
    now rewrite (map_nth (fun e => ex (- (e - bshift vs e0 er) / kT))).
  Qed.

  Lemma boltz_ratio vs kT e0 er p a b : ~ kT == 0 -> boltz ex vs kT e0 er = Some p ->
    (a < S (length er))%nat -> (b < S (length er))%nat ->
    nth a p 0 == ex (- (nth a (e0 :: er) 0 - nth b (e0 :: er) 0) / kT) * nth b p 0.
  Proof.
    intros HkT Hp Ha Hb.
    pose proof (boltz_proportional ex vs kT e0 er p a b Hp) as Hprop.
    rewrite (nth_bweights vs kT e0 er a Ha), (nth_bweights vs kT e0 er b Hb) in Hprop.
    set (ea := nth a (e0 :: er) 0) in *. set (eb := nth b (e0 :: er) 0) in *. set (m := bshift vs e0 er) in *.
    assert (ex (- (ea - m) / kT) == ex (- (ea - eb) / kT) * ex (- (eb - m) / kT)) as Hsplit.
    { rewrite <- ex_add. apply ex_proper. field. exact HkT. }
    rewrite Hsplit in Hprop.
    pose proof (ex_nonzero (- (eb - m) / kT)) as Hnz.
    set (w := ex (- (eb - m) / kT)) in *. set (r := ex (- (ea - eb) / kT)) in *.
    assert ((nth a p 0 - r * nth b p 0) * w == 0) as Hz by lra.
    apply Qmult_integral in Hz. destruct Hz as [Hz|Hz]; [lra|contradiction].
  Qed.

  (* the weights of the two variants differ by the common factor ex(-m/kT) *)
  Lemma bweights_shift kT e0 er i : ~ kT == 0 ->
    nth i (bweights ex Buggy kT e0 er) 0 == ex (- lmin e0 er / kT) * nth i (bweights ex Fixed kT e0 er) 0.
  Proof.
    intros HkT. destruct (Nat.lt_ge_cases i (S (length er))) as [Hi|Hi].
    - rewrite !nth_bweights by exact Hi. cbn [bshift]. rewrite <- ex_add. apply ex_proper. field. exact HkT.
    - rewrite !nth_overflow by (unfold bweights; rewrite map_length; exact Hi). lra.
  Qed.

  Lemma qsum_scaled c l l' : length l = length l' -> (forall i, nth i l 0 == c * nth i l' 0) -> qsum l == c * qsum l'.
  Proof.
    revert l'. induction l as [|x l IH]; intros [|y l'] Hlen H; try discriminate; cbn [qsum]; [lra|].
    pose proof (H O) as H0. cbn [nth] in H0. rewrite H0, (IH l'); [lra|cbn [length] in Hlen; lia|].
    intros i. exact (H (S i)).
  Qed.

  Lemma boltz_shift_invariant kT e0 er pb pf : ~ kT == 0 ->
    boltz ex Buggy kT e0 er = Some pb -> boltz ex Fixed kT e0 er = Some pf ->
    forall i, nth i pb 0 == nth i pf 0.
  Proof.
    intros HkT Hb Hf i. unfold boltz in Hb, Hf.
    set (nb := bweights ex Buggy kT e0 er) in *. set (nf := bweights ex Fixed kT e0 er) in *.
    destruct (Qeq_bool (qsum nb) 0) eqn:Eb; [discriminate|]. destruct (Qeq_bool (qsum nf) 0) eqn:Ef; [discriminate|].
    assert (pb = map (fun x => x / qsum nb) nb) as -> by congruence.
    assert (pf = map (fun x => x / qsum nf) nf) as -> by congruence. clear Hb Hf.
    assert (~ qsum nf == 0) as Hsf by (intros H; apply Qeq_bool_iff in H; congruence).
    set (c := ex (- lmin e0 er / kT)). pose proof (ex_nonzero (- lmin e0 er / kT)) as Hc. fold c in Hc.
    assert (qsum nb == c * qsum nf) as Hs.
    { apply qsum_scaled; [unfold nb, nf, bweights; now rewrite !map_length|]. intros j. now apply bweights_shift. }
    assert (forall (l : list Q) s j, ~ s == 0 -> nth j (map (fun x => x / s) l) 0 == nth j l 0 / s) as Hn.
    { intros l s j Hs0. destruct (Nat.lt_ge_cases j (length l)) as [Hj|Hj].
      - rewrite (nth_indep _ 0 (0 / s)) by (now rewrite map_length). rewrite (map_nth (fun x => x / s)). reflexivity.
      - rewrite !nth_overflow by (rewrite ?map_length; exact Hj). field. exact Hs0. }
    assert (~ qsum nb == 0) as Hsb by (rewrite Hs; intros H; apply Qmult_integral in H; tauto).
    pose proof (bweights_shift kT e0 er i HkT) as Hi. fold nb nf c in Hi.
    rewrite (Hn nb _ i Hsb), (Hn nf _ i Hsf), Hi, Hs. field. tauto.
  Qed.
End Exact.

(* ---------- the whole function ---------- *)
Section Whole.
  Variable ex : Q -> Q.
  Hypothesis ex0 : ex 0 == 1.
  Hypothesis ex_nonneg : forall x, 0 <= ex x.
  Hypothesis ex_mono : forall x y, x <= y -> ex x <= ex y.

  Lemma thermal_population_valid vz kB temp hd sub start :
    0 < kB -> 0 <= temp -> zipsub (skipn start hd) sub <> [] ->
    exists p, thermal_population ex Fixed vz kB temp hd sub start = Some p /\
              length p = (start + length (zipsub (skipn start hd) sub))%nat /\
              Forall (fun x => 0 <= x <= 1) p /\ qsum p == 1 /\
              (forall i, (i < start)%nat -> nth i p 0 = 0).
  Proof.
    intros HkB HT Hne. unfold thermal_population.
    destruct (zipsub (skipn start hd) sub) as [|e0 er] eqn:E; [congruence|].
    destruct (Qeq_bool temp 0) eqn:ET.
    - exists (repeat 0 start ++ zeroT vz e0 er).
      assert ((match vz with Buggy => 0 | Fixed => argmin e0 er end < S (length er))%nat) as Hk
        by (destruct vz; [lia|apply argmin_spec]).
      split; [reflexivity|]. split; [unfold zeroT; now rewrite app_length, repeat_length, onehot_length|].
      split; [apply Forall_app; split; [apply repeat0_range|apply onehot_range]|].
      split; [rewrite qsum_app, qsum_repeat0; unfold zeroT; rewrite qsum_onehot by exact Hk; lra|].
      intros i Hi. rewrite app_nth1 by (now rewrite repeat_length). apply nth_repeat0.
    - assert (~ temp == 0) as HT0 by (intros H; apply Qeq_bool_iff in H; congruence).
      assert (0 < kB * temp) as HkT by nra.
      destruct (boltz_valid ex ex0 ex_nonneg ex_mono (kB * temp) e0 er HkT) as [p [Hp [Hlen [Hr Hs]]]].
      rewrite Hp. exists (repeat 0 start ++ p).
      split; [reflexivity|]. split; [rewrite app_length, repeat_length, Hlen; reflexivity|].
      split; [apply Forall_app; split; [apply repeat0_range|exact Hr]|].
      split; [rewrite qsum_app, qsum_repeat0; lra|].
      intros i Hi. rewrite app_nth1 by (now rewrite repeat_length). apply nth_repeat0.
  Qed.
End Whole.

(* ---------- the unshifted variant is refuted by an oracle that underflows ---------- *)
Definition ex_step (x : Q) : Q := if Qle_bool 0 x then 1 else 0.

Lemma ex_step_ok : ex_step 0 == 1 /\ (forall x, 0 <= ex_step x) /\ (forall x y, x <= y -> ex_step x <= ex_step y).
Proof.
  split; [reflexivity|]. split.
  - intros x. unfold ex_step. destruct (Qle_bool 0 x); lra.
  - intros x y Hxy. unfold ex_step. destruct (Qle_bool 0 x) eqn:Ex; destruct (Qle_bool 0 y) eqn:Ey; try lra.
    apply Qle_bool_iff in Ex. assert (0 <= y) as Hy by lra. apply Qle_bool_iff in Hy. congruence.
Qed.

Lemma underflow_witness :
  thermal_population ex_step Buggy Fixed 1 1 [1] [0] 0 = None /\
  thermal_population ex_step Fixed Fixed 1 1 [1] [0] 0 = Some [1 / 1].
Proof. split; reflexivity. Qed.

(* T = 0, pinned code: the first state of the block is populated although the second one is lower *)
Lemma zeroT_buggy_witness :
  zeroT Buggy 2 [1] = [1; 0] /\ zeroT Fixed 2 [1] = [0; 1] /\ ~ nth 0 [2; 1] 0 <= nth 1 [2; 1] 0.
Proof. split; [reflexivity|]. split; [reflexivity|]. cbn [nth]. lra. Qed.

(* the low-temperature limit is the T = 0 state: if every Boltzmann factor except that of a unique lowest
   state has underflowed to zero, the populations are those handed out at T = 0 *)
Section Limit.
  Variable ex : Q -> Q.
  Hypothesis ex0 : ex 0 == 1.
  Hypothesis ex_nonneg : forall x, 0 <= ex x.
  Hypothesis ex_mono : forall x y, x <= y -> ex x <= ex y.

  Lemma qsum_single_nonzero l k : (forall i, i <> k -> nth i l 0 == 0) -> qsum l == nth k l 0.
  Proof.
    revert k. induction l as [|x l IH]; intros k H; cbn [qsum]; [destruct k; cbn [nth]; lra|].
    destruct k as [|k]; cbn [nth].
    - assert (qsum l == 0) as ->; [|lra].
      clear IH. assert (forall i, nth i l 0 == 0) as H' by (intros i; exact (H (S i) (Nat.neq_succ_0 i))).
      clear H. induction l as [|y l IH]; cbn [qsum]; [lra|]. rewrite (H' O : y == 0), IH; [lra|]. intros i. exact (H' (S i)).
    - rewrite (H O (Nat.neq_0_succ k) : x == 0), (IH k); [lra|]. intros i Hi. apply (H (S i)). lia.
  Qed.

  Lemma low_temperature_limit kT e0 er p : ~ kT == 0 ->
    (forall i, (i < S (length er))%nat -> i <> argmin e0 er -> ex (- (nth i (e0 :: er) 0 - lmin e0 er) / kT) == 0) ->
    boltz ex Fixed kT e0 er = Some p -> forall i, nth i p 0 == nth i (zeroT Fixed e0 er) 0.
  Proof.
    intros HkT Hu Hp i. destruct (argmin_spec e0 er) as [Hk Hm]. set (k := argmin e0 er) in *.
    set (ne := bweights ex Fixed kT e0 er).
    assert (length ne = S (length er)) as Hlen by (unfold ne, bweights; now rewrite map_length).
    assert (forall j, (j < S (length er))%nat -> nth j ne 0 = ex (- (nth j (e0 :: er) 0 - lmin e0 er) / kT)) as Hnth.
    { intros j Hj. unfold ne, bweights, bshift.
      rewrite (nth_indep _ 0 ((fun e => ex (- (e - lmin e0 er) / kT)) 0)) by (rewrite map_length; exact Hj).
      now rewrite (map_nth (fun e => ex (- (e - lmin e0 er) / kT))). }
    assert (nth k ne 0 == 1) as Hk1.
    { rewrite (Hnth k Hk), Hm, <- ex0. apply ex_proper; [exact ex_mono|]. field. exact HkT. }
    assert (forall j, j <> k -> nth j ne 0 == 0) as Hz.
    { intros j Hj. destruct (Nat.lt_ge_cases j (S (length er))) as [Hlt|Hge].
      - rewrite (Hnth j Hlt). now apply Hu.
      - rewrite nth_overflow by (rewrite Hlen; exact Hge). lra. }
    assert (qsum ne == 1) as Hs by (rewrite (qsum_single_nonzero ne k Hz); exact Hk1).
    unfold boltz in Hp. fold ne in Hp. destruct (Qeq_bool (qsum ne) 0) eqn:E; [discriminate|].
    assert (p = map (fun x => x / qsum ne) ne) as -> by congruence.
    assert (nth i (map (fun x => x / qsum ne) ne) 0 == nth i ne 0 / qsum ne) as ->.
    { destruct (Nat.lt_ge_cases i (length ne)) as [Hi|Hi].
      - rewrite (nth_indep _ 0 (0 / qsum ne)) by (now rewrite map_length). rewrite (map_nth (fun x => x / qsum ne)). reflexivity.
      - rewrite !nth_overflow by (rewrite ?map_length; exact Hi). field. lra. }
    unfold zeroT. rewrite onehot_nth by exact Hk. fold k.
    destruct (Nat.eqb_spec i k) as [->|Hne].
    - rewrite Hk1, Hs. field.
    - rewrite (Hz i Hne), Hs. field.
  Qed.
End Limit.
