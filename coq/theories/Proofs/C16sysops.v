(* System parts of the bath couplings as the builders make them: a zero operator into which 1 is stored at diagonal positions only
   (Aggregate._build: op1.data[j,j] = 1.0 for the basis states j of one site; Molecule.get_SystemBathInteraction:
   KK[a:b, a:b] = diag(ones(b-a)) for the block of one electronic state).  Such operators are diagonal - the hypothesis the
   uncoupled-site theorems of Proofs/C16diag.v place on the couplings - and they are projectors.  harness/translate_c16.py
   extracts the stores from the source on every run and instantiates the skeletons below. *)
From Coq Require Import ZArith List Bool Arith Lia.
From QV Require Import Base.Alg Base.Sums Base.Mat Model.C16 Proofs.C16 Proofs.C16rhs Proofs.C16diag.
Import ListNotations.

Section SysOps.
  Context {R : StarRing}.
  Add Ring Rrso16 : (rth R).
  Open Scope sr_scope.
  Variable dim : nat.

  (* A[r,c] = v on a matrix *)
  Definition store (A : @mat R) (r c : nat) (v : R) : @mat R := fun a b => if Nat.eqb a r && Nat.eqb b c then v else A a b.
  Definition zero_op : @mat R := fun _ _ => 0.

  (* for j in js: op.data[row j, col j] = 1.0   (the row and column index expressions are holes) *)
  Definition stores_skel (row col : nat -> nat) (js : list nat) : @mat R :=
    fold_left (fun A j => store A (row j) (col j) 1) js zero_op.
  (* KK[r0:r1, c0:c1] = numpy.diag(numpy.ones(cnt)) on a zero matrix *)
  Definition block_skel (r0 r1 c0 c1 cnt : nat) : @mat R :=
    fun a b => if (r0 <=? a) && (a <? r1) && (c0 <=? b) && (b <? c1) then (if Nat.eqb (a - r0) (b - c0) then 1 else 0) else 0.

  Definition site_projector (js : list nat) : @mat R := fun a b => if Nat.eqb a b && existsb (Nat.eqb a) js then 1 else 0.
  Definition block_projector (lo hi : nat) : @mat R := fun a b => if Nat.eqb a b && (lo <=? a) && (a <? hi) then 1 else 0.

  Lemma stores_skel_is_projector js : forall a b, stores_skel (fun j => j) (fun j => j) js a b = site_projector js a b.
  Proof.
    unfold stores_skel. intros a b.
    assert (forall (A : @mat R) l, fold_left (fun A j => store A j j 1) l A a b =
              if Nat.eqb a b && existsb (Nat.eqb a) l then 1 else A a b) as Hgen.
    { intros A l; revert A; induction l as [|j l IH]; intros A; cbn [fold_left existsb].
      - rewrite andb_false_r. reflexivity.
      - rewrite IH. unfold store.
        destruct (Nat.eqb_spec a b) as [->|Hab]; cbn [andb].
        + destruct (existsb (Nat.eqb b) l); [rewrite orb_true_r; reflexivity|]. rewrite orb_false_r.
          destruct (Nat.eqb b j); reflexivity.
        + destruct (Nat.eqb_spec a j) as [->|?]; cbn [andb]; [|reflexivity].
          destruct (Nat.eqb_spec b j) as [->|?]; [contradiction|reflexivity]. }
    rewrite Hgen. unfold site_projector, zero_op. reflexivity.
  Qed.

  Lemma block_skel_is_projector lo hi : forall a b, block_skel lo hi lo hi (hi - lo) a b = block_projector lo hi a b.
  Proof.
    intros a b. unfold block_skel, block_projector.
    destruct (Nat.eqb_spec a b) as [->|Hab]; cbn [andb].
    - destruct (lo <=? b) eqn:E1; destruct (b <? hi) eqn:E2; cbn [andb]; try reflexivity. now rewrite Nat.eqb_refl.
    - destruct (lo <=? a) eqn:E1; destruct (a <? hi) eqn:E2; destruct (lo <=? b) eqn:E3; destruct (b <? hi) eqn:E4; cbn [andb]; try reflexivity.
      apply Nat.leb_le in E1, E3. destruct (Nat.eqb_spec (a - lo) (b - lo)) as [He|?]; [|reflexivity]. exfalso. apply Hab. lia.
  Qed.

  Lemma site_projector_diagonal js : diagonal dim (site_projector js).
  Proof. intros i j _ _ Hne. unfold site_projector. destruct (Nat.eqb_spec i j); [contradiction|reflexivity]. Qed.
  Lemma block_projector_diagonal lo hi : diagonal dim (block_projector lo hi).
  Proof. intros i j _ _ Hne. unfold block_projector. destruct (Nat.eqb_spec i j); [contradiction|reflexivity]. Qed.

  (* projectors indeed: P P = P (within the dimension) *)
  Lemma site_projector_idempotent js : meq dim (mmul dim (site_projector js) (site_projector js)) (site_projector js).
  Proof.
    intros a b Ha Hb. rewrite (mmul_diag_l dim (site_projector js) (site_projector js) a b (site_projector_diagonal js) Ha Hb).
    unfold site_projector. rewrite Nat.eqb_refl. cbn [andb].
    destruct (existsb (Nat.eqb a) js); destruct (Nat.eqb a b); cbn [andb]; ring.
  Qed.
End SysOps.
