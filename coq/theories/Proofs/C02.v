(* C02: propagated density matrices keep trace and Hermiticity; operator and tensor form give the same
   dynamics; GKSL form of the Lindblad operator form; RWA conversions; unitarity defect of the
   truncated exponential. *)
From Coq Require Import ZArith List Bool Arith Lia QArith Qcanon Field.
From QV Require Import Base.Alg Base.Sums Base.Mat Base.Tens Base.Taylor Base.TaylorG Model.C01 Model.C02
     Proofs.Tensor Proofs.C01 Proofs.C07.
Import ListNotations.

Section C02.
  Context {R : StarRing}.
  Add Ring Rr : (rth R).
  Open Scope sr_scope.
  Variable im : R.
  Hypothesis cj_im : cj R im = - im.
  Variable n : nat.

  (* ---------- materialisation does not matter below n ---------- *)
  Lemma meq_tab2 (A : @mat R) : meq n (tab2 n n A) A.
  Proof. intros i j Hi Hj. now apply tab2_spec. Qed.
  Lemma herm_ext (A B : @mat R) : meq n A B -> herm n B -> herm n A.
  Proof. intros E H i j Hi Hj. rewrite (E j i Hj Hi), (E i j Hi Hj). now apply H. Qed.

  (* ---------- trace ---------- *)
  Lemma mtr_dm_add (A B : @mat R) : mtr n (dm_add n A B) = mtr n A + mtr n B.
  Proof. unfold dm_add. rewrite (mtr_ext n _ _ (meq_tab2 _)). apply mtr_madd. Qed.

  Lemma mtr_tapply (Rt : @tens R) (rho : @mat R) : trace_pres n Rt -> mtr n (tapply n Rt rho) = 0.
  Proof.
    intros HT. unfold mtr, tapply.
    rewrite sum_swap. apply sum_0_ext. intros c Hc. rewrite sum_swap. apply sum_0_ext. intros d Hd.
    rewrite sum_mul_r, (HT c d Hc Hd). ring.
  Qed.

  Lemma mtr_G_ham (H rho : @mat R) : mtr n (G_ham im n H rho) = 0.
  Proof. unfold G_ham, comm. rewrite mtr_mscale, mtr_comm0. ring. Qed.

  Lemma mtr_scaled_G_tensor c (H : @mat R) (Rt : @tens R) rho : trace_pres n Rt ->
    mtr n (dm_scale n c (G_tensor im n H Rt rho)) = 0.
  Proof.
    intros HT. unfold dm_scale. rewrite (mtr_ext n _ _ (meq_tab2 _)), mtr_mscale. unfold G_tensor.
    rewrite mtr_madd, mtr_G_ham, (mtr_tapply Rt rho HT). ring.
  Qed.

  Lemma mtr_apply_ops Nb (Km Lm Ld : nat -> @mat R) rho : mtr n (apply_ops n Nb Km Lm Ld rho) = 0.
  Proof.
    rewrite <- (mtr_ext n _ _ (op_eq_tensor n Nb Km Lm Ld rho)). apply mtr_tapply. apply convert_trace.
  Qed.
  Lemma mtr_scaled_G_ops c (H : @mat R) Nb (Km Lm Ld : nat -> @mat R) rho :
    mtr n (dm_scale n c (G_ops im n H Nb Km Lm Ld rho)) = 0.
  Proof.
    unfold dm_scale. rewrite (mtr_ext n _ _ (meq_tab2 _)), mtr_mscale. unfold G_ops.
    rewrite mtr_madd, mtr_G_ham, mtr_apply_ops. ring.
  Qed.

  Lemma mtr_dephase (E rho : @mat R) : (forall i, (i < n)%nat -> E i i = 1) -> mtr n (dephase n E rho) = mtr n rho.
  Proof.
    intros HE. unfold dephase. rewrite (mtr_ext n _ _ (meq_tab2 _)). unfold mtr. apply sum_ext. intros i Hi.
    rewrite (HE i Hi). ring.
  Qed.

  (* every stored state has the trace of the initial one: any generator sequence annihilating the trace,
     any dephasing multipliers with unit diagonal, any order, refinement and number of steps *)
  Theorem dm_traj_trace (G D : nat -> @mat R -> @mat R) prefs nsteps nref rho0 :
    (forall j c x, mtr n (dm_scale n c (G j x)) = 0) -> (forall j x, mtr n (D j x) = mtr n x) ->
    Forall (fun rho => mtr n rho = mtr n rho0) (dm_traj n G D prefs nsteps nref rho0).
  Proof.
    intros HG HD. unfold dm_traj.
    apply (gtraj_functional R (@mat R) (dm_add n) (dm_scale n) G D R (mtr n) (radd R) 0).
    - intros x. ring.
    - apply mtr_dm_add.
    - exact HG.
    - exact HD.
  Qed.

  (* ---------- Hermiticity ---------- *)
  Lemma herm_dm_add (A B : @mat R) : herm n A -> herm n B -> herm n (dm_add n A B).
  Proof. intros HA HB. apply (herm_ext _ _ (meq_tab2 _)). now apply herm_madd. Qed.

  Lemma herm_G_ham (H rho : @mat R) : herm n H -> herm n rho -> herm n (G_ham im n H rho).
  Proof.
    intros HH Hr. unfold G_ham, comm. apply herm_icomm; [|exact HH|exact Hr]. rewrite cj_opp, cj_im. ring.
  Qed.

  Lemma herm_tapply (Rt : @tens R) (rho : @mat R) : herm_pres n Rt -> herm n rho -> herm n (tapply n Rt rho).
  Proof.
    intros HT Hr a b Ha Hb. unfold tapply. rewrite sum_cj.
    rewrite (sum_ext n _ (fun c => sum n (fun d => Rt a b d c * rho d c))).
    2:{ intros c Hc. rewrite sum_cj. apply sum_ext. intros d Hd. rewrite cj_mul, (HT b a c d Hb Ha Hc Hd).
        f_equal. exact (Hr d c Hd Hc). }
    apply sum_swap.
  Qed.

  Lemma herm_scaled c (A : @mat R) : is_real R c -> herm n A -> herm n (dm_scale n c A).
  Proof. intros Hc HA. apply (herm_ext _ _ (meq_tab2 _)). now apply herm_mscale. Qed.

  Lemma herm_scaled_G_tensor c (H : @mat R) (Rt : @tens R) rho : is_real R c -> herm n H -> herm_pres n Rt -> herm n rho ->
    herm n (dm_scale n c (G_tensor im n H Rt rho)).
  Proof.
    intros Hc HH HT Hr. apply herm_scaled; [exact Hc|]. unfold G_tensor. apply herm_madd; [now apply herm_G_ham|now apply herm_tapply].
  Qed.

  Lemma herm_scaled_G_ops c (H : @mat R) Nb (Km Lm Ld : nat -> @mat R) rho : is_real R c -> herm n H ->
    (forall m, (m < Nb)%nat -> real_mat n (Km m)) -> (forall m, (m < Nb)%nat -> dagger_of n (Ld m) (Lm m)) -> herm n rho ->
    herm n (dm_scale n c (G_ops im n H Nb Km Lm Ld rho)).
  Proof.
    intros Hc HH HK HL Hr. apply herm_scaled; [exact Hc|]. unfold G_ops. apply herm_madd; [now apply herm_G_ham|].
    apply (herm_ext _ _ (meq_sym n _ _ (op_eq_tensor n Nb Km Lm Ld rho))).
    apply herm_tapply; [now apply convert_herm|exact Hr].
  Qed.

  Lemma herm_dephase (E rho : @mat R) : herm n E -> herm n rho -> herm n (dephase n E rho).
  Proof.
    intros HE Hr. unfold dephase. apply (herm_ext _ _ (meq_tab2 _)). intros i j Hi Hj.
    now rewrite cj_mul, (Hr i j Hi Hj), (HE i j Hi Hj).
  Qed.

  Theorem dm_traj_herm (G D : nat -> @mat R -> @mat R) prefs nsteps nref rho0 :
    (forall j c x, is_real R c -> herm n x -> herm n (dm_scale n c (G j x))) -> (forall j x, herm n x -> herm n (D j x)) ->
    Forall (is_real R) prefs -> herm n rho0 ->
    Forall (herm n) (dm_traj n G D prefs nsteps nref rho0).
  Proof.
    intros HG HD HP H0. unfold dm_traj.
    apply (gtraj_closed R (@mat R) (dm_add n) (dm_scale n) G D (herm n) (is_real R)); auto using herm_dm_add.
  Qed.

  (* ---------- operator form and tensor form generate the same dynamics ---------- *)
  Lemma dm_add_ext (A A' B B' : @mat R) : meq n A A' -> meq n B B' -> meq n (dm_add n A B) (dm_add n A' B').
  Proof. intros HA HB i j Hi Hj. unfold dm_add. rewrite !tab2_spec by assumption. unfold madd. now rewrite HA, HB. Qed.
  Lemma dm_scale_ext c (A A' : @mat R) : meq n A A' -> meq n (dm_scale n c A) (dm_scale n c A').
  Proof. intros HA i j Hi Hj. unfold dm_scale. rewrite !tab2_spec by assumption. unfold mscale. now rewrite HA. Qed.
  Lemma G_ham_ext (H rho rho' : @mat R) : meq n rho rho' -> meq n (G_ham im n H rho) (G_ham im n H rho').
  Proof.
    intros Hr i j Hi Hj. unfold G_ham, comm, mscale, msub. f_equal. f_equal.
    - apply mmul_ext; [apply meq_refl|exact Hr|exact Hi|exact Hj].
    - apply mmul_ext; [exact Hr|apply meq_refl|exact Hi|exact Hj].
  Qed.
  Lemma tapply_ext (Rt : @tens R) (rho rho' : @mat R) : meq n rho rho' -> meq n (tapply n Rt rho) (tapply n Rt rho').
  Proof. intros Hr a b Ha Hb. unfold tapply. apply sum_ext. intros c Hc. apply sum_ext. intros d Hd. now rewrite Hr. Qed.

  Theorem same_dynamics (H : @mat R) Nb (Km Lm Ld : nat -> @mat R) prefs nsteps nref (D : nat -> @mat R -> @mat R) rho0 :
    (forall j x x', meq n x x' -> meq n (D j x) (D j x')) ->
    Forall2 (meq n)
      (dm_traj n (fun _ => G_tensor im n H (convert_ops n Nb Km Lm Ld)) D prefs nsteps nref rho0)
      (dm_traj n (fun _ => G_ops im n H Nb Km Lm Ld) D prefs nsteps nref rho0).
  Proof.
    intros HD. unfold dm_traj.
    apply (gtraj_related R (@mat R) (@mat R) (dm_add n) (dm_scale n) _ D (dm_add n) (dm_scale n) _ D (meq n)).
    - intros; now apply dm_add_ext.
    - intros j c x x' Hx. apply dm_scale_ext. unfold G_tensor, G_ops. intros a b Ha Hb. unfold madd. f_equal.
      + now apply G_ham_ext.
      + rewrite (tapply_ext _ x x' Hx a b Ha Hb). now apply op_eq_tensor.
    - exact HD.
    - apply meq_refl.
  Qed.

  (* ---------- the Lindblad operator form is the GKSL dissipator ---------- *)
  Lemma mmul_mscale_l c (A B : @mat R) i j : mmul n (mscale c A) B i j = c * mmul n A B i j.
  Proof. unfold mmul, mscale. rewrite <- sum_mul_l. apply sum_ext. intros; ring. Qed.
  Lemma mmul_mscale_r c (A B : @mat R) i j : mmul n A (mscale c B) i j = c * mmul n A B i j.
  Proof. unfold mmul, mscale. rewrite <- sum_mul_l. apply sum_ext. intros; ring. Qed.

  Theorem lindblad_is_gksl Nb (hg : nat -> R) (Km : nat -> @mat R) rho :
    meq n (apply_ops n Nb Km (lindblad_L hg Km) (fun m => mT (lindblad_L hg Km m)) rho) (gksl n Nb hg Km rho).
  Proof.
    intros a b Ha Hb. unfold apply_ops, gksl. apply sum_ext. intros m _. unfold lindblad_L.
    assert (meq n (mT (mscale (hg m) (Km m))) (mscale (hg m) (mT (Km m)))) as ET by (intros i j _ _; reflexivity).
    (* K rho (hK)^T *)
    assert (mmul n (Km m) (mmul n rho (mT (mscale (hg m) (Km m)))) a b = hg m * mmul n (Km m) (mmul n rho (mT (Km m))) a b) as E1.
    { transitivity (mmul n (Km m) (mscale (hg m) (mmul n rho (mT (Km m)))) a b); [|apply mmul_mscale_r].
      apply mmul_ext; [apply meq_refl| |exact Ha|exact Hb]. intros i j Hi Hj. unfold mscale at 2. rewrite <- mmul_mscale_r. reflexivity. }
    assert (mmul n (mscale (hg m) (Km m)) (mmul n rho (mT (Km m))) a b = hg m * mmul n (Km m) (mmul n rho (mT (Km m))) a b) as E2
      by apply mmul_mscale_l.
    assert (mmul n (mmul n (mT (Km m)) (mscale (hg m) (Km m))) rho a b = hg m * mmul n (mmul n (mT (Km m)) (Km m)) rho a b) as E3.
    { transitivity (mmul n (mscale (hg m) (mmul n (mT (Km m)) (Km m))) rho a b); [|apply mmul_mscale_l].
      apply mmul_ext; [|apply meq_refl|exact Ha|exact Hb]. intros i j Hi Hj. unfold mscale at 2. rewrite <- mmul_mscale_r. reflexivity. }
    assert (mmul n rho (mmul n (mT (mscale (hg m) (Km m))) (Km m)) a b = hg m * mmul n rho (mmul n (mT (Km m)) (Km m)) a b) as E4.
    { transitivity (mmul n rho (mscale (hg m) (mmul n (mT (Km m)) (Km m))) a b); [|apply mmul_mscale_r].
      apply mmul_ext; [apply meq_refl| |exact Ha|exact Hb]. intros i j Hi Hj. unfold mscale at 2. rewrite <- mmul_mscale_l. reflexivity. }
    rewrite E1, E2, E3, E4. ring.
  Qed.

  (* ---------- rotating-wave conversions ---------- *)
  Lemma rwa_dm_herm (u : @vec R) (rho : @mat R) : herm n rho -> herm n (rwa_dm u rho).
  Proof. intros Hr i j Hi Hj. unfold rwa_dm. rewrite !cj_mul, cj_cj, (Hr i j Hi Hj). ring. Qed.
  Lemma rwa_dm_trace (u : @vec R) (rho : @mat R) : (forall i, (i < n)%nat -> u i * cj R (u i) = 1) ->
    mtr n (rwa_dm u rho) = mtr n rho.
  Proof.
    intros Hu. unfold mtr, rwa_dm. apply sum_ext. intros i Hi.
    transitivity (u i * cj R (u i) * rho i i); [ring|]. rewrite (Hu i Hi). ring.
  Qed.
  Lemma rwa_dm_roundtrip (u : @vec R) (rho : @mat R) : (forall i, (i < n)%nat -> u i * cj R (u i) = 1) ->
    meq n (rwa_dm (fun i => cj R (u i)) (rwa_dm u rho)) rho.
  Proof.
    intros Hu i j Hi Hj. unfold rwa_dm. rewrite cj_cj.
    transitivity ((u i * cj R (u i)) * rho i j * (u j * cj R (u j))); [ring|]. rewrite (Hu i Hi), (Hu j Hj). ring.
  Qed.
  (* the density matrix of the (repaired, elementwise) converted state vector is the converted density matrix *)
  Lemma rwa_sv_consistent (u psi : @vec R) : meq n (dm_of (rwa_sv n SvRepaired u psi)) (rwa_dm u (dm_of psi)).
  Proof. intros i j _ _. unfold dm_of, rwa_sv, rwa_dm. rewrite cj_mul. ring. Qed.
  (* populations are unchanged by the conversion *)
  Lemma rwa_dm_populations (u : @vec R) (rho : @mat R) i : (i < n)%nat -> u i * cj R (u i) = 1 -> rwa_dm u rho i i = rho i i.
  Proof. intros _ Hu. unfold rwa_dm. transitivity (u i * cj R (u i) * rho i i); [ring|]. rewrite Hu. ring. Qed.

  (* ---------- closed system, state vectors: exact structure ---------- *)
  Lemma rwa_ham_herm (H : @mat R) (Om : @vec R) : herm n H -> (forall i, (i < n)%nat -> is_real R (Om i)) -> herm n (rwa_ham H Om).
  Proof.
    intros HH HO i j Hi Hj. unfold rwa_ham. rewrite cj_sub, (HH i j Hi Hj), (Nat.eqb_sym j i).
    destruct (Nat.eqb_spec i j) as [->|]; [now rewrite (HO j Hj)|now rewrite cj_0].
  Qed.
End C02.

(* the pinned state-vector conversion multiplies every component by the same scalar sum_k u_k psi_k *)
Definition sv_u_demo : @vec GZ := vec_of (R:=GZ) [(0,1); (1,0)]%Z.       (* phases i, 1 *)
Definition sv_psi_demo : @vec GZ := vec_of (R:=GZ) [(1,0); (0,0)]%Z.     (* the state |0> *)
Lemma sv_rwa_pinned_witness :
  rwa_sv 2 SvPinned sv_u_demo sv_psi_demo 1%nat = (0,1)%Z /\       (* population appears in the empty state *)
  rwa_sv 2 SvRepaired sv_u_demo sv_psi_demo 1%nat = (0,0)%Z /\
  rwa_sv 2 SvRepaired sv_u_demo sv_psi_demo 0%nat = (0,1)%Z.
Proof. vm_compute. repeat split. Qed.

(* ---------- unitarity defect of the truncated exponential: T_L(x) T_L(-x) as a polynomial identity over Q.
   For X = -i H dt with H Hermitian, X^dagger = -X commutes with X, so the identity lifts to
   T_L(X)^dagger T_L(X) = 1 + (these even powers of X): the a-priori drift of norm, purity and energy per step. *)
Definition T2 (x : Q) : Q := 1 + x + x*x/2.
Definition T4 (x : Q) : Q := 1 + x + x*x/2 + x*x*x/6 + x*x*x*x/24.
Definition T6 (x : Q) : Q := 1 + x + x*x/2 + x*x*x/6 + x*x*x*x/24 + x*x*x*x*x/120 + x*x*x*x*x*x/720.
Fixpoint pw (x : Q) (k : nat) : Q := match k with O => 1 | S k' => x * pw x k' end.
Lemma unitarity_defect_2 x : T2 x * T2 (-x) == 1 + pw x 4 / 4.
Proof. unfold T2; cbn [pw]. field. Qed.
Lemma unitarity_defect_4 x : T4 x * T4 (-x) == 1 + pw x 6 / 72 + pw x 8 / 576.
Proof. unfold T4; cbn [pw]. field. Qed.
Lemma unitarity_defect_6 x : T6 x * T6 (-x) == 1 + pw x 8 / 2880 + pw x 10 / 21600 + pw x 12 / 518400.
Proof. unfold T6; cbn [pw]. field. Qed.

(* ---------- the tensor index walk of the time-dependent propagation ---------- *)
Lemma td_walk_repaired_in_range k indxR stride cutoff : (2 <= cutoff)%nat -> (indxR <= cutoff - 1)%nat ->
  Forall (fun i => (i < cutoff)%nat) (td_walk WalkRepaired k indxR stride cutoff).
Proof.
  revert indxR; induction k as [|k IH]; intros indxR Hc Hi; cbn [td_walk]; constructor; [lia|].
  apply IH; [exact Hc|]. unfold walk_next. apply Nat.le_min_r.
Qed.
(* below the cut-off the two rules walk the same way *)
Lemma td_walk_same_below indxR stride cutoff : (1 <= stride)%nat -> (indxR + stride <= cutoff - 1)%nat ->
  walk_next WalkPinned indxR stride cutoff = walk_next WalkRepaired indxR stride cutoff.
Proof.
  intros Hs H. unfold walk_next. rewrite (Nat.min_l _ _ H). destruct (Nat.ltb_spec indxR (cutoff - 1)); lia.
Qed.
(* the pinned rule leaves the tensor's index range as soon as the cut-off is reached (cut-off index 3, i.e. three
   stored tensors 0,1,2: the fourth refined step asks for index 3) *)
Lemma td_walk_pinned_witness : td_walk WalkPinned 4 1 1 3 = [1; 2; 3; 3]%nat /\ td_walk WalkRepaired 4 1 1 3 = [1; 2; 2; 2]%nat.
Proof. split; reflexivity. Qed.
