(* C07: operator form and tensor form of a relaxation tensor act identically; exact limits of the
   time-dependent Redfield tensor; basis independence of the operator form. *)
From Coq Require Import ZArith List Bool Arith Lia.
From QV Require Import Base.Alg Base.Sums Base.Mat Base.Tens Model.C01 Proofs.Tensor Proofs.C01.
Import ListNotations.

Section C07.
  Context {R : StarRing}.
  Add Ring Rr : (rth R).
  Open Scope sr_scope.
  Variable n : nat.

  Lemma sum_if_eq' (b : nat) (f : nat -> R) : (b < n)%nat ->
    sum n (fun d => (if Nat.eqb b d then 1 else 0) * f d) = f b.
  Proof.
    intros Hb. rewrite (sum_ext n _ (fun d => if Nat.eqb d b then f d else 0)).
    - now apply sum_if_eq.
    - intros d _. rewrite (Nat.eqb_sym b d). destruct (Nat.eqb d b); ring.
  Qed.

  (* one bath component applied to rho *)
  Lemma loopit_apply (K Kd L Ld rho : @mat R) a b : (a < n)%nat -> (b < n)%nat ->
    sum n (fun c => sum n (fun d => loopit_m n K Kd L Ld a b c d * rho c d)) =
    mmul n K (mmul n rho Ld) a b + mmul n L (mmul n rho Kd) a b
    - mmul n (mmul n Kd L) rho a b - mmul n rho (mmul n Ld K) a b.
  Proof.
    intros Ha Hb. unfold loopit_m.
    set (X := mmul n Kd L). set (Y := mmul n Ld K).
    rewrite (sum_ext n _ (fun c =>
        sum n (fun d => K a c * (rho c d * Ld d b)) + sum n (fun d => L a c * (rho c d * Kd d b))
        - sum n (fun d => (if Nat.eqb b d then 1 else 0) * (X a c * rho c d))
        - (if Nat.eqb a c then 1 else 0) * sum n (fun d => rho c d * Y d b))).
    2:{ intros c _. rewrite <- sum_mul_l, <- !sum_add, <- sum_sub. rewrite <- sum_sub. apply sum_ext. intros d _.
        destruct (Nat.eqb b d), (Nat.eqb a c); ring. }
    rewrite !sum_sub, sum_add.
    rewrite (sum_ext n (fun c => sum n (fun d => K a c * (rho c d * Ld d b))) (fun c => K a c * mmul n rho Ld c b))
      by (intros c _; unfold mmul; now rewrite sum_mul_l).
    rewrite (sum_ext n (fun c => sum n (fun d => L a c * (rho c d * Kd d b))) (fun c => L a c * mmul n rho Kd c b))
      by (intros c _; unfold mmul; now rewrite sum_mul_l).
    rewrite (sum_ext n (fun c => sum n (fun d => (if Nat.eqb b d then 1 else 0) * (X a c * rho c d))) (fun c => X a c * rho c b))
      by (intros c _; now rewrite (sum_if_eq' b (fun d => X a c * rho c d) Hb)).
    rewrite (sum_if_eq' a (fun c => sum n (fun d => rho c d * Y d b)) Ha).
    unfold mmul. reflexivity.
  Qed.

  (* the tensor built by _convert_operators_2_tensor, applied by tensordot, is the operator form *)
  Theorem op_eq_tensor Nb (Km Lm Ld : nat -> @mat R) (rho : @mat R) :
    meq n (tapply n (convert_ops n Nb Km Lm Ld) rho) (apply_ops n Nb Km Lm Ld rho).
  Proof.
    intros a b Ha Hb. unfold tapply, convert_ops, apply_ops.
    rewrite (sum_ext n _ (fun c => sum Nb (fun m => sum n (fun d => loopit_m n (Km m) (mT (Km m)) (Lm m) (Ld m) a b c d * rho c d)))).
    2:{ intros c _. rewrite sum_swap. apply sum_ext. intros d _. now rewrite sum_mul_r. }
    rewrite sum_swap. apply sum_ext. intros m _. now apply loopit_apply.
  Qed.

  (* same statement for the time-dependent assembly at one time index, K symmetric *)
  Theorem td_op_eq_tensor Nb (Km Lm Ld : nat -> @mat R) (rho : @mat R) :
    (forall m, (m < Nb)%nat -> sym_mat n (Km m)) ->
    meq n (tapply n (td_convert_ops n Nb Km Lm Ld) rho) (apply_ops n Nb Km Lm Ld rho).
  Proof.
    intros HS a b Ha Hb. rewrite <- (op_eq_tensor Nb Km Lm Ld rho a b Ha Hb). unfold tapply.
    apply sum_ext. intros c Hc. apply sum_ext. intros d Hd. now rewrite (td_eq_ti n Nb Km Lm Ld HS a b c d Ha Hb Hc Hd).
  Qed.

  (* ---------- exact limits of the time-dependent tensor ---------- *)
  Definition zero_ops (Nb : nat) (Lm : nat -> @mat R) : Prop :=
    forall m i j, (m < Nb)%nat -> (i < n)%nat -> (j < n)%nat -> Lm m i j = 0.

  Lemma mmul_zero_r (A B : @mat R) i j : (forall k, (k < n)%nat -> B k j = 0) -> mmul n A B i j = 0.
  Proof. intros H. unfold mmul. apply sum_0_ext. intros k Hk. rewrite (H k Hk). ring. Qed.
  Lemma mmul_zero_l (A B : @mat R) i j : (forall k, (k < n)%nat -> A i k = 0) -> mmul n A B i j = 0.
  Proof. intros H. unfold mmul. apply sum_0_ext. intros k Hk. rewrite (H k Hk). ring. Qed.

  (* Lambda_m(t0) = 0 (an antiderivative vanishes at its lower limit)  =>  R(t0) = 0 *)
  Theorem td_zero_at_zero Nb (Km Lm : nat -> @mat R) : zero_ops Nb Lm ->
    teq n (td_redfield_tensor n Nb Km Lm) (fun _ _ _ _ => 0).
  Proof.
    intros HZ a b c d Ha Hb Hc Hd. unfold td_redfield_tensor, td_convert_ops. apply sum_0_ext. intros m Hm.
    unfold td_loopit_m, mdag.
    rewrite (HZ m a c Hm Ha Hc), (HZ m b d Hm Hb Hd), cj_0.
    rewrite (mmul_zero_r (Km m) (Lm m) a c) by (intros k Hk; now apply HZ).
    rewrite (mmul_zero_l (fun i j => cj R (Lm m j i)) (Km m) d b) by (intros k Hk; rewrite (HZ m k d Hm Hk Hd); apply cj_0).
    destruct (Nat.eqb b d), (Nat.eqb a c); ring.
  Qed.

  (* at the last time index the running integral is the integral the time-independent tensor uses:
     both tensors are assembled from the same K and the same Lambda  =>  they are equal (K symmetric) *)
  Theorem td_last_eq_ti Nb (Km Lm_last Lm_ti : nat -> @mat R) :
    (forall m, (m < Nb)%nat -> sym_mat n (Km m)) ->
    (forall m i j, (m < Nb)%nat -> (i < n)%nat -> (j < n)%nat -> Lm_last m i j = Lm_ti m i j) ->
    teq n (td_redfield_tensor n Nb Km Lm_last) (redfield_tensor n Nb Km Lm_ti).
  Proof.
    intros HS HL a b c d Ha Hb Hc Hd. unfold td_redfield_tensor.
    rewrite (td_eq_ti n Nb Km Lm_last (fun m => mdag (Lm_last m)) HS a b c d Ha Hb Hc Hd).
    unfold redfield_tensor, convert_ops. apply sum_ext. intros m Hm. unfold loopit_m, mdag, mT.
    rewrite (HL m a c Hm Ha Hc), (HL m b d Hm Hb Hd).
    replace (mmul n (fun i j => Km m j i) (Lm_last m) a c) with (mmul n (fun i j => Km m j i) (Lm_ti m) a c)
      by (unfold mmul; apply sum_ext; intros k Hk; now rewrite (HL m k c Hm Hk Hc)).
    replace (mmul n (fun i j => cj R (Lm_last m j i)) (Km m) d b) with (mmul n (fun i j => cj R (Lm_ti m j i)) (Km m) d b)
      by (unfold mmul; apply sum_ext; intros k Hk; now rewrite (HL m k d Hm Hk Hd)).
    reflexivity.
  Qed.

  (* ---------- the operator form in another (real orthogonal) basis ---------- *)
  Lemma mmul_sim (S1 S A B : @mat R) : meq n (mmul n S S1) (@mid R) ->
    meq n (mmul n (sim n S1 S A) (sim n S1 S B)) (sim n S1 S (mmul n A B)).
  Proof.
    intros HI. unfold sim.
    (* S1 (A S) . S1 (B S)  =  S1 (A (S S1) (B S)) *)
    eapply meq_trans; [apply mmul_assoc|]. apply mmul_ext; [apply meq_refl|].
    eapply meq_trans; [apply mmul_assoc|].
    eapply meq_trans; [|apply meq_sym, mmul_assoc]. apply mmul_ext; [apply meq_refl|].
    eapply meq_trans; [apply meq_sym, mmul_assoc|].
    eapply meq_trans; [apply mmul_ext; [exact HI|apply meq_refl]|]. apply mmul_id_l.
  Qed.

  Lemma mT_sim (S1 S A : @mat R) : transpose_of n S1 S -> meq n (mT (sim n S1 S A)) (sim n S1 S (mT A)).
  Proof.
    intros HT i j Hi Hj. unfold mT, sim, mmul.
    (* (S1 (A S))^T [i,j] = sum_k S1 j k * sum_l A k l S l i ;  S1 (A^T S) [i,j] = sum_l S1 i l * sum_k A k l * S k j *)
    rewrite (sum_ext n _ (fun k => sum n (fun l => S1 j k * (A k l * S l i)))) by (intros; now rewrite sum_mul_l).
    rewrite sum_swap. apply sum_ext. intros l Hl. rewrite <- sum_mul_l. apply sum_ext. intros k Hk.
    rewrite (HT i l Hi Hl), (HT j k Hj Hk). ring.
  Qed.

  (* sim is linear *)
  Lemma sim_sum (S1 S : @mat R) Nb (F : nat -> @mat R) a b :
    sim n S1 S (fun i j => sum Nb (fun m => F m i j)) a b = sum Nb (fun m => sim n S1 S (F m) a b).
  Proof.
    unfold sim, mmul. cbv beta.
    rewrite (sum_ext n _ (fun k => sum Nb (fun m => S1 a k * sum n (fun l => F m k l * S l b)))).
    2:{ intros k _. rewrite sum_mul_l. f_equal. rewrite sum_swap. apply sum_ext. intros l _. now rewrite sum_mul_r. }
    apply sum_swap.
  Qed.
  Lemma sim_lin4 (S1 S A B C D : @mat R) a b :
    sim n S1 S (fun i j => A i j + B i j - C i j - D i j) a b =
    sim n S1 S A a b + sim n S1 S B a b - sim n S1 S C a b - sim n S1 S D a b.
  Proof.
    unfold sim, mmul. cbv beta.
    rewrite (sum_ext n _ (fun k => S1 a k * sum n (fun l => A k l * S l b) + S1 a k * sum n (fun l => B k l * S l b)
                                   - S1 a k * sum n (fun l => C k l * S l b) - S1 a k * sum n (fun l => D k l * S l b))).
    - now rewrite !sum_sub, sum_add.
    - intros k _.
      rewrite (sum_ext n _ (fun l => A k l * S l b + B k l * S l b - C k l * S l b - D k l * S l b)) by (intros; ring).
      rewrite !sum_sub, sum_add. ring.
  Qed.

  (* transforming K_m, Lambda_m, Lambda_m^dagger and rho by a real orthogonal S transforms the result *)
  Theorem apply_ops_covariant (S1 S : @mat R) Nb (Km Lm Ld : nat -> @mat R) (rho : @mat R) :
    meq n (mmul n S S1) (@mid R) -> transpose_of n S1 S ->
    meq n (apply_ops n Nb (fun m => sim n S1 S (Km m)) (fun m => sim n S1 S (Lm m)) (fun m => sim n S1 S (Ld m)) (sim n S1 S rho))
          (sim n S1 S (apply_ops n Nb Km Lm Ld rho)).
  Proof.
    intros HI HT a b Ha Hb. unfold apply_ops at 2.
    rewrite (sim_sum S1 S Nb (fun m i j =>
       mmul n (Km m) (mmul n rho (Ld m)) i j + mmul n (Lm m) (mmul n rho (mT (Km m))) i j
       - mmul n (mmul n (mT (Km m)) (Lm m)) rho i j - mmul n rho (mmul n (Ld m) (Km m)) i j) a b).
    unfold apply_ops. apply sum_ext. intros m _. rewrite sim_lin4.
    assert (forall A B C : @mat R, meq n (mmul n (sim n S1 S A) (mmul n (sim n S1 S B) (sim n S1 S C)))
                                          (sim n S1 S (mmul n A (mmul n B C)))) as E3.
    { intros A B C. eapply meq_trans; [apply mmul_ext; [apply meq_refl|apply mmul_sim; exact HI]|]. apply mmul_sim; exact HI. }
    assert (forall A B C : @mat R, meq n (mmul n (mmul n (sim n S1 S A) (sim n S1 S B)) (sim n S1 S C))
                                          (sim n S1 S (mmul n (mmul n A B) C))) as E3'.
    { intros A B C. eapply meq_trans; [apply mmul_ext; [apply mmul_sim; exact HI|apply meq_refl]|]. apply mmul_sim; exact HI. }
    rewrite (E3 (Km m) rho (Ld m) a b Ha Hb).
    rewrite (E3 rho (Ld m) (Km m) a b Ha Hb).
    assert (mmul n (sim n S1 S (Lm m)) (mmul n (sim n S1 S rho) (mT (sim n S1 S (Km m)))) a b =
            sim n S1 S (mmul n (Lm m) (mmul n rho (mT (Km m)))) a b) as E2.
    { rewrite <- (E3 (Lm m) rho (mT (Km m)) a b Ha Hb).
      apply mmul_ext; [apply meq_refl| |exact Ha|exact Hb]. apply mmul_ext; [apply meq_refl|]. apply mT_sim; exact HT. }
    assert (mmul n (mmul n (mT (sim n S1 S (Km m))) (sim n S1 S (Lm m))) (sim n S1 S rho) a b =
            sim n S1 S (mmul n (mmul n (mT (Km m)) (Lm m)) rho) a b) as E4.
    { rewrite <- (E3' (mT (Km m)) (Lm m) rho a b Ha Hb).
      apply mmul_ext; [|apply meq_refl|exact Ha|exact Hb]. apply mmul_ext; [|apply meq_refl]. apply mT_sim; exact HT. }
    rewrite E2, E4. reflexivity.
  Qed.
End C07.
