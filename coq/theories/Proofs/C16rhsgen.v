(* Guards and the negative-index read of heom.py's _ado_cros_rhs over Python integers, related to Model/C16.v.
   harness/translate_c16.py generates the right-hand sides from the current source; its lemmas rewrite with these. *)
From Coq Require Import ZArith List Bool Arith Lia.
From QV Require Import Base.Alg Base.Sums Base.Mat Model.C16.
Import ListNotations.

Section RhsGen.
  Context {R : StarRing}.
  Variable H : list mi.

  (* ado1[jj,:,:] for a Python integer jj read from nm1/np1: -1 (absent) addresses the last ADO *)
  Definition ado_z (ado : nat -> @mat R) (j : Z) : @mat R :=
    if (j <? 0)%Z then ado (length H - 1)%nat else ado (Z.to_nat j).

  Lemma ado_z_spec ado jm : ado_z ado (oz jm) = ado_at H ado jm.
  Proof.
    unfold ado_z, ado_at, oz. destruct jm as [j|].
    - replace (Z.of_nat j <? 0)%Z with false by (symmetry; apply Z.ltb_ge; lia). now rewrite Nat2Z.id.
    - reflexivity.
  Qed.

  (* if nk*jj >= 0 *)
  Lemma guard_up_spec (nk : nat) (jm : option nat) :
    (Z.of_nat nk * oz jm >=? 0)%Z = (Nat.eqb nk 0 || match jm with Some _ => true | None => false end).
  Proof.
    unfold oz. destruct jm as [j|].
    - rewrite orb_true_r. apply Z.geb_le. lia.
    - rewrite orb_false_r. destruct (Nat.eqb_spec nk 0) as [->|Hn].
      + reflexivity.
      + rewrite Z.geb_leb. apply Z.leb_gt. lia.
  Qed.
  Lemma guard_up_spec' (nk : nat) (jm : option nat) :
    (oz jm * Z.of_nat nk >=? 0)%Z = (Nat.eqb nk 0 || match jm with Some _ => true | None => false end).
  Proof. rewrite Z.mul_comm. apply guard_up_spec. Qed.

  (* if jj > 0 *)
  Lemma guard_dn_spec (jp : option nat) : (oz jp >? 0)%Z = match jp with Some (S _) => true | _ => false end.
  Proof.
    unfold oz. destruct jp as [[|j]|]; reflexivity.
  Qed.

  Lemma ado_z_pos ado j : ado_z ado (oz (Some (S j))) = ado (S j).
  Proof. rewrite ado_z_spec. reflexivity. Qed.
End RhsGen.
